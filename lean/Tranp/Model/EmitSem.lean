/-
  Tranp.Model.EmitSem — meaning of the operator core in the two languages (property C01, theorem `C01.sem`).

  `denotePy` : Python's value of an operator node on ints and bools *while the evaluation stays inside the agreement
               subset of the property statement* (`Err.outOfSubset` otherwise): every int within 32 bits, `%` on a
               non-negative dividend and a positive divisor, no `/` (int/int is a float in Python), shift counts 0..31,
               `and`/`or`/`not`/conditions on bools, no comparison chain, no `in`.
  `denoteCpp`: the value ISO C++20 gives the *re-parsed* tree (`Prec.Expr` over the C++ symbols) on `int`/`bool` operands
               (bools are the integers 0/1 as after integral promotion): signed overflow, division by zero and shift counts
               outside 0..31 are undefined behaviour (`Err.ub`), `%` truncates, `<<` wraps (C++20 [expr.shift]), `>>` is
               arithmetic, `&& ||` short-circuit, comparisons and `!` yield 0/1.
  These are transcriptions of the two language definitions (trusted); floats are not modelled.
-/
import Tranp.Model.Emit

namespace Tranp.Emit

inductive Val where
  | int (i : Int)
  | bool (b : Bool)
deriving DecidableEq, Repr, Inhabited

inductive Err where
  | outOfSubset
  | ub
deriving DecidableEq, Repr, Inhabited

instance {ε α : Type} [DecidableEq ε] [DecidableEq α] : DecidableEq (Except ε α) := fun a b =>
  match a, b with
  | .ok x, .ok y => if h : x = y then isTrue (by rw [h]) else isFalse (by intro e; cases e; exact h rfl)
  | .error x, .error y => if h : x = y then isTrue (by rw [h]) else isFalse (by intro e; cases e; exact h rfl)
  | .ok _, .error _ => isFalse (by intro e; cases e)
  | .error _, .ok _ => isFalse (by intro e; cases e)

/-- value of the atom with a given id (variables and literals) -/
abbrev Env := Nat → Val

def inI32 (i : Int) : Bool := decide (-2147483648 ≤ i) && decide (i ≤ 2147483647)

def chk (i : Int) : Except Err Val := if inI32 i then .ok (.int i) else .error .outOfSubset

/-- how C++ sees a Python value: `bool` is an integer type with values 0 and 1 -/
def Val.repr : Val → Int
  | .int i => i
  | .bool b => if b then 1 else 0

/-! ## bitwise operators on two's complement integers of unbounded width (Python's definition; C++'s `int` operators are
    their restriction to 32-bit operands, whose results are again 32-bit values) -/

def iand : Int → Int → Int
  | .ofNat m, .ofNat n => Int.ofNat (m &&& n)
  | .ofNat m, .negSucc n => Int.ofNat (m - (m &&& n))
  | .negSucc m, .ofNat n => Int.ofNat (n - (n &&& m))
  | .negSucc m, .negSucc n => .negSucc (m ||| n)

def ior : Int → Int → Int
  | .ofNat m, .ofNat n => Int.ofNat (m ||| n)
  | .ofNat m, .negSucc n => .negSucc (n - (n &&& m))
  | .negSucc m, .ofNat n => .negSucc (m - (m &&& n))
  | .negSucc m, .negSucc n => .negSucc (m &&& n)

def ixor : Int → Int → Int
  | .ofNat m, .ofNat n => Int.ofNat (m ^^^ n)
  | .ofNat m, .negSucc n => .negSucc (m ^^^ n)
  | .negSucc m, .ofNat n => .negSucc (m ^^^ n)
  | .negSucc m, .negSucc n => Int.ofNat (m ^^^ n)

/-! ## Python -/

def pyCmp (op : BOp) (a b : Int) : Option Bool :=
  match op with
  | .lt => some (decide (a < b)) | .gt => some (decide (a > b)) | .le => some (decide (a ≤ b)) | .ge => some (decide (a ≥ b))
  | .eq => some (decide (a = b)) | .ne => some (decide (a ≠ b))
  | _ => none

/-- operators without short-circuit, Python semantics restricted to the agreement subset -/
def pyBin (op : BOp) (a b : Val) : Except Err Val :=
  match op, a, b with
  | .add, .int x, .int y => chk (x + y)
  | .sub, .int x, .int y => chk (x - y)
  | .mul, .int x, .int y => chk (x * y)
  | .mod, .int x, .int y => if 0 ≤ x ∧ 0 < y then .ok (.int (x % y)) else .error .outOfSubset
  | .band, .int x, .int y => .ok (.int (iand x y))
  | .bor, .int x, .int y => .ok (.int (ior x y))
  | .bxor, .int x, .int y => .ok (.int (ixor x y))
  | .band, .bool x, .bool y => .ok (.bool (x && y))
  | .bor, .bool x, .bool y => .ok (.bool (x || y))
  | .shl, .int x, .int k => if 0 ≤ k ∧ k ≤ 31 then chk (x * 2 ^ k.toNat) else .error .outOfSubset
  | .shr, .int x, .int k => if 0 ≤ k ∧ k ≤ 31 then .ok (.int (x / 2 ^ k.toNat)) else .error .outOfSubset
  | .is, .bool x, .bool y => .ok (.bool (x == y))
  | .isNot, .bool x, .bool y => .ok (.bool (x != y))
  | op, x, y => match pyCmp op x.repr y.repr with   -- the six comparisons: `bool` is an `int` subtype in Python too
    | some r => .ok (.bool r)
    | none => .error .outOfSubset

def pyUn (op : UOp) (v : Val) : Except Err Val :=
  match op, v with
  | .neg, .int x => chk (-x)
  | .pos, .int x => .ok (.int x)
  | .inv, .int x => .ok (.int (-x - 1))
  | _, _ => .error .outOfSubset

mutual
def denotePy (ρ : Env) : Node → Except Err Val
  | .atom id _ => match ρ id with
    | .int i => chk i
    | .bool b => .ok (.bool b)
  | .group e => denotePy ρ e
  | .factor op e => match denotePy ρ e with
    | .ok v => pyUn op v
    | .error er => .error er
  | .notCompare e => match denotePy ρ e with
    | .ok (.bool b) => .ok (.bool (!b))
    | .ok _ => .error .outOfSubset
    | .error er => .error er
  | .chain _ _ first rest => match denotePy ρ first with
    | .ok v => denoteRest ρ v rest
    | .error er => .error er
  | .ternary p c s => match denotePy ρ c with
    | .ok (.bool true) => denotePy ρ p
    | .ok (.bool false) => denotePy ρ s
    | .ok _ => .error .outOfSubset
    | .error er => .error er
/-- `acc` = value of the chain so far; `or`/`and` skip the evaluation of the next element exactly like Python does -/
def denoteRest (ρ : Env) (acc : Val) : Rest → Except Err Val
  | .nil => .ok acc
  | .cons op _ _ e rest =>
    match op with
    | .or => match acc with
      | .bool true => denoteRest ρ (.bool true) rest
      | .bool false => match denotePy ρ e with
        | .ok (.bool b) => denoteRest ρ (.bool b) rest
        | .ok _ => .error .outOfSubset
        | .error er => .error er
      | _ => .error .outOfSubset
    | .and => match acc with
      | .bool false => denoteRest ρ (.bool false) rest
      | .bool true => match denotePy ρ e with
        | .ok (.bool b) => denoteRest ρ (.bool b) rest
        | .ok _ => .error .outOfSubset
        | .error er => .error er
      | _ => .error .outOfSubset
    | op =>
      if op.level = cmpLevel ∧ rest ≠ .nil then .error .outOfSubset   -- comparison chain: outside the subset
      else match denotePy ρ e with
        | .ok r => match pyBin op acc r with
          | .ok v => denoteRest ρ v rest
          | .error er => .error er
        | .error er => .error er
end

/-! ## C++ -/

def wrap32 (i : Int) : Int := (i + 2147483648) % 4294967296 - 2147483648

def ckUb (i : Int) : Except Err Int := if inI32 i then .ok i else .error .ub

def b2i (b : Bool) : Int := if b then 1 else 0

/-- binary operators of the core without short-circuit, by symbol code -/
def cppBin (o : Nat) (x y : Int) : Except Err Int :=
  if o = symCode ['+'] then ckUb (x + y)
  else if o = symCode ['-'] then ckUb (x - y)
  else if o = symCode ['*'] then ckUb (x * y)
  else if o = symCode ['/'] then (if y = 0 then .error .ub else ckUb (Int.tdiv x y))
  else if o = symCode ['%'] then (if y = 0 ∨ (x = -2147483648 ∧ y = -1) then .error .ub else .ok (Int.tmod x y))
  else if o = symCode ['&'] then .ok (iand x y)
  else if o = symCode ['|'] then .ok (ior x y)
  else if o = symCode ['^'] then .ok (ixor x y)
  else if o = symCode ['<', '<'] then (if 0 ≤ y ∧ y ≤ 31 then .ok (wrap32 (x * 2 ^ y.toNat)) else .error .ub)
  else if o = symCode ['>', '>'] then (if 0 ≤ y ∧ y ≤ 31 then .ok (x / 2 ^ y.toNat) else .error .ub)
  else if o = symCode ['<'] then .ok (b2i (decide (x < y)))
  else if o = symCode ['>'] then .ok (b2i (decide (x > y)))
  else if o = symCode ['<', '='] then .ok (b2i (decide (x ≤ y)))
  else if o = symCode ['>', '='] then .ok (b2i (decide (x ≥ y)))
  else if o = symCode ['=', '='] then .ok (b2i (decide (x = y)))
  else if o = symCode ['!', '='] then .ok (b2i (decide (x ≠ y)))
  else .error .ub

def cppUn (o : Nat) (x : Int) : Except Err Int :=
  if o = symCode ['!'] then .ok (b2i (decide (x = 0)))
  else if o = symCode ['-'] then ckUb (-x)
  else if o = symCode ['+'] then .ok x
  else if o = symCode ['~'] then .ok (-x - 1)
  else .error .ub

def denoteCpp (ρ : Env) : Prec.Expr → Except Err Int
  | .atom id => .ok (ρ id).repr
  | .paren e => denoteCpp ρ e
  | .pre o e => match denoteCpp ρ e with
    | .ok v => cppUn o v
    | .error er => .error er
  | .bin o l r =>
    match denoteCpp ρ l with
    | .error er => .error er
    | .ok x =>
      if o = symCode ['|', '|'] then
        if x ≠ 0 then .ok 1 else match denoteCpp ρ r with
          | .ok y => .ok (b2i (decide (y ≠ 0)))
          | .error er => .error er
      else if o = symCode ['&', '&'] then
        if x = 0 then .ok 0 else match denoteCpp ρ r with
          | .ok y => .ok (b2i (decide (y ≠ 0)))
          | .error er => .error er
      else match denoteCpp ρ r with
        | .ok y => cppBin o x y
        | .error er => .error er

/-- the evaluation of `n` under `ρ` stays inside the agreement subset of the property statement (decidable per evaluation) -/
def inSubset (n : Node) (ρ : Env) : Bool :=
  match denotePy ρ n with
  | .ok _ => true
  | .error _ => false

end Tranp.Emit
