/-
  Tranp.Model.ProcedureHistory — one `Procedure` instance over a history of calls (property C09).

  Modelled code (rog-works/tranp):
    rogw/tranp/semantics/procedure.py   Procedure.__init__ (21-29: the whole per-instance state is `__stacks`, `__verbose`,
                                        `__emitter`), on / off / clear_handler (31-53), exec (55-70)
    rogw/tranp/lang/middleware.py       Middleware.on (57-69), off (71-85), usable (87-95), emit / __emit (97-123: the newest
                                        handler of the action is called; one that declares `next` gets a thunk that runs the
                                        rest of the chain with the same event), clear (125-127)

  The instance state is exactly what `Generated/ProcedureState.lean` lists (read from the source on every run); `__verbose`
  only switches logging and is not modelled. Nothing is remembered per node: `exec` reads the tree it is given.
-/
import Tranp.Model.Procedure

namespace Tranp.Procedure
open Tranp

/-- sequencing of handler programs: run `p`, continue with its result (an exception propagates) -/
def HProg.bind {R : Type} : HProg R → (R → HProg R) → HProg R
  | .ret r, f => f r
  | .fail e, _ => .fail e
  | .call root k, f => .call root (fun r => (k r).bind f)
  | .tryCall root k, f => .tryCall root (fun x => (k x).bind f)

/-- a registered callback: a plain handler, or one that declares a `next` parameter (middleware.py:119-121) and receives
    the program of "the rest of the chain on the same event", which it may run any number of times (`HProg.bind`) or not at all -/
inductive CB (R : Type) where
  | plain (h : Handler R)
  | chained (h : PNode → Event R → HProg R → HProg R)

/-- `Middleware.__emit(action, event, index)` (middleware.py:109-123) from `index` on; past the end `handlers[index]`
    raises IndexError (inside the caller of `next`) -/
def composeCB {R : Type} : List (Nat × CB R) → Handler R
  | [], _, _ => .fail .indexError
  | (_, .plain h) :: _, n, ev => h n ev
  | (_, .chained h) :: rest, n, ev => h n ev (composeCB rest n ev)

/-- `Middleware.__handlers`: action → callbacks (newest first). A callback is identified by an id (Python: object identity). -/
abbrev Emitter (R : Type) := List (Str × List (Nat × CB R))

section
variable {R : Type}

def Emitter.get (em : Emitter R) (action : Str) : Option (List (Nat × CB R)) :=
  (em.find? (fun e => e.1 == action)).map (·.2)

def Emitter.set (em : Emitter R) (action : Str) (hsl : List (Nat × CB R)) : Emitter R :=
  match em with
  | [] => [(action, hsl)]
  | (a, l) :: rest => if a == action then (a, hsl) :: rest else (a, l) :: Emitter.set rest action hsl

/-- `Middleware.on` (middleware.py:57-69): new action → `[callback]`; known callback → no change; else insert in front -/
def Emitter.on (em : Emitter R) (action : Str) (id : Nat) (h : CB R) : Emitter R :=
  match em.get action with
  | none => em ++ [(action, [(id, h)])]
  | some l => if l.any (fun x => x.1 == id) then em else em.set action ((id, h) :: l)

/-- `Middleware.off` (middleware.py:71-85): unknown action → ValueError; `list.remove` of an unknown callback → ValueError;
    an action without callbacks is deleted -/
def Emitter.off (em : Emitter R) (action : Str) (id : Nat) : Except Err (Emitter R) :=
  match em.get action with
  | none => .error (.other "ValueError".toList)
  | some l =>
    if l.any (fun x => x.1 == id) then
      let l' := l.eraseP (fun x => x.1 == id)
      if l'.isEmpty then .ok (em.filter (fun e => !(e.1 == action))) else .ok (em.set action l')
    else .error (.other "ValueError".toList)

/-- `usable(action)` and `emit(action, …)`: the chain of the action's callbacks, newest first -/
def Emitter.first (em : Emitter R) (action : Str) : Option (Handler R) :=
  match em.get action with
  | some l => some (composeCB l)
  | none => none

/-- the handler table `__action` (procedure.py:128-134) sees: `on_<classification>`, else `on_fallback` -/
def Emitter.table (em : Emitter R) : Handlers R :=
  ⟨fun cls => em.first ("on_".toList ++ cls), em.first "on_fallback".toList⟩

/-- the whole per-instance state of a `Procedure` -/
structure PState (R : Type) where
  stacks : St R := []
  emitter : Emitter R := []

/-- one call on the instance -/
inductive Call (R : Type) where
  | on (action : Str) (id : Nat) (h : CB R)
  | off (action : Str) (id : Nat)
  | clear
  | exec (root : PNode)

/-- what a call returns: nothing, a result, or an exception -/
inductive Out (R : Type) where
  | unit
  | value (r : R)
  | raised (e : Err)

def step (fuel : Nat) (s : PState R) : Call R → PState R × Out R
  | .on a i h => ({ s with emitter := s.emitter.on a i h }, .unit)
  | .off a i =>
    match s.emitter.off a i with
    | .ok em => ({ s with emitter := em }, .unit)
    | .error e => (s, .raised e)
  | .clear => ({ s with emitter := [] }, .unit)
  | .exec root =>
    match exec s.emitter.table fuel s.stacks root with
    | (st, .ok r) => ({ s with stacks := st }, .value r)
    | (st, .error e) => ({ s with stacks := st }, .raised e)

/-- a history of calls -/
def steps (fuel : Nat) : PState R → List (Call R) → PState R
  | s, [] => s
  | s, c :: cs => steps fuel (step fuel s c).1 cs

/-- the registrations of a history (what `exec` calls in between cannot change) -/
def emitterAfter : Emitter R → List (Call R) → Emitter R
  | em, [] => em
  | em, .on a i h :: cs => emitterAfter (em.on a i h) cs
  | em, .off a i :: cs =>
    match em.off a i with
    | .ok em' => emitterAfter em' cs
    | .error _ => emitterAfter em cs
  | _, .clear :: cs => emitterAfter [] cs
  | em, .exec _ :: cs => emitterAfter em cs

end

end Tranp.Procedure
