/-
  Tranp.Model.InferScope — the type of a bare name (`on_var` → `Reflections.resolve` → `SymbolFinder.find_by_symbolic`) over a
  symbol table, by composing the name-resolution model of property C08 (Tranp/Model/Scope.lean: `findBySymbolic`, `makeScopes`,
  `allowScope` — the class-scope visibility rule of finder.py:124-158) with the declared / inferred type of the symbol found.
  The flat environment `Γ` of `Tranp.Model.Infer` is the environment this induces at one node (`envAt`).
-/
import Tranp.Model.InferSpec
import Tranp.Model.Scope

namespace Tranp.Infer
open Tranp

/-- the symbol table as far as typing a name needs it: C08's table plus the type stored with each declaration -/
structure SymTab where
  db : Scope.Tbl Str Str
  libs : List Str
  decl : Scope.Key Str Str → Option Ty

/-- `on_var`: resolve the name from the node's scope chain, then take the symbol's type -/
def varTypeAt (st : SymTab) (node : Scope.NodeInfo Str Str) (x : Str) : Except Err Ty :=
  match Scope.findBySymbolic st.db st.libs node [x] with
  | .ok (some hit) => (match st.decl hit.1 with | some t => .ok t | none => .error .unresolved)
  | _ => .error .unresolved

/-- the flat environment the symbol table induces at `node` for the given names -/
def envAt (st : SymTab) (node : Scope.NodeInfo Str Str) : List Str → Env
  | [] => []
  | x :: rest =>
    match varTypeAt st node x with
    | .ok t => (x, t) :: envAt st node rest
    | .error _ => envAt st node rest

end Tranp.Infer
