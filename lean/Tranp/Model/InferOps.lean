/-
  Tranp.Model.InferOps — binary operators on instances of USER classes, and spread items (property C03).

  `tryOpUser` is `OperationTrait.try_operation` (rogw/tranp/semantics/reflection/traits.py:178-225) for a receiver whose class is
  declared in the program: `_find_method` through the inheritance chain (depth-first, like every member), the parameter check for the
  operators that select by argument type, and the `inherits` loop (traits.py:218-223) that accepts an operand of a class whose
  DIRECT base is the parameter class (`operandCandidates` follows the generated shape of that loop). `tryStepAny` is one step of `each_binary_operator` (reflections.py:639-653: the receiver's
  attempt, then the swapped one) for any mix of stub and user operands.
  `onSpread` is `ProceduralResolver.on_spread` (reflections.py:722-723).
-/
import Tranp.Model.InferSpec
import Tranp.Generated.InferShape

namespace Tranp.Infer
open Tranp Tranp.Generated

/-- the declared type of the parameter after `self` of the operator methods of the user classes: (class, dunder) ↦ type
    (`Member` records the return type only) -/
abbrev OpParams := List ((Str × Str) × Ty)

def declares (ct : ClassTable) (c d : Str) : Bool :=
  match findClass ct c with
  | some dc => dc.members.any (fun m => m.name = d)
  | none => false

/-- the class on the chain of `c` whose declaration of `d` member lookup finds (reflections.py:245-277) -/
def declaringClass (ct : ClassTable) (c d : Str) : Option Str := (chainOf ct c).find? (fun e => declares ct e d)

def userOpParam (ct : ClassTable) (ps : OpParams) (c d : Str) : Option Ty :=
  (declaringClass ct c d).bind fun e => (ps.find? (fun row => row.1 = (e, d))).map (·.2)

/-- `types.inherits` of a user class: the bases as written -/
def directBases (ct : ClassTable) (c : Str) : List Str :=
  match findClass ct c with
  | some d => d.bases
  | none => []

/-- the classes `try_operation` compares with the parameter after the operand's own class (traits.py:218-223): as the source reads
    today (`InferShape.operandBasesDirect`, generated on every run) — the DIRECT bases (`value.types.inherits`), or, with
    proposed/C03-operator-operand-indirect-subclass.diff applied, all ancestors nearest first (`_ancestors`: the chain without its head) -/
def operandCandidates (ct : ClassTable) (c : Str) : List Str :=
  if InferShape.operandBasesDirect then directBases ct c else (chainOf ct c).drop 1

/-- `parameter.attrs if parameter is a Union else [parameter]` (traits.py:210) -/
def paramAlts : Ty → List Ty
  | .union ts => ts.toList
  | t => [t]

/-- `OperationTrait.try_operation` (traits.py:178-225) for a receiver of the user class `lc`; a user method has no templates, so
    `method.returns(…)` is its declared return type -/
def tryOpUser (ct : ClassTable) (ps : OpParams) (lc : Str) (op : BOp) (r : Ty) : Option Ty :=
  match lookup op.token Dunder.operators with
  | none => none
  | some d =>
    match memberOf ct lc d with
    | none => none
    | some m =>
      if !m.callable then none
      else if !op.selects then some m.ty
      else
        match userOpParam ct ps lc d with
        | none => none
        | some p =>
          if (paramAlts p).contains r then some m.ty
          else
            match r with
            | .cls rc .nil => if (operandCandidates ct rc).any (fun b => (paramAlts p).contains (.cls b .nil)) then some m.ty else none
            | _ => none

/-- `left.try_operation(op, right)` for any receiver: a user class goes through `tryOpUser`, everything else through the stub table -/
def tryOpAny (ct : ClassTable) (ps : OpParams) (l : Ty) (op : BOp) (r : Ty) : Option Ty :=
  match l with
  | .cls lc .nil => if (findClass ct lc).isSome then tryOpUser ct ps lc op r else tryOp ct l op r
  | _ => tryOp ct l op r

/-- one step of `each_binary_operator` (reflections.py:648): `left.try_operation(op, right) or right.try_operation(op, left)` -/
def tryStepAny (ct : ClassTable) (ps : OpParams) (l : Ty) (op : BOp) (r : Ty) : Option Ty :=
  match tryOpAny ct ps l op r with
  | some t => some t
  | none => tryOpAny ct ps r op l

def foldBinAny (ct : ClassTable) (ps : OpParams) : Ty → List (BOp × Ty) → Except Err Ty
  | l, [] => .ok l
  | l, (op, r) :: rest =>
    match tryStepAny ct ps l op r with
    | some t => foldBinAny ct ps t rest
    | none => .error .opNotAllowed

/-- CPython: `l op r` for an instance `l` of the user class `lc` calls `type(l).<dunder>` found through the MRO (= the chain, for
    tree-shaped hierarchies) — the operand's class is asked first only for a REFLECTED method, which the classes of this model do not
    declare for class operands. The method answers a value of its declared return type (`WorldConf`). -/
def pyUserOpTy (ct : ClassTable) (lc : Str) (op : BOp) : Option Ty :=
  match lookup op.token Dunder.operators with
  | none => none
  | some d => (memberOf ct lc d).bind fun m => if m.callable then some m.ty else none

/-- `rc` is the class `pc` or one of its descendants: what CPython (and a type checker) accepts for a parameter declared `pc` -/
def subclassOf (ct : ClassTable) (rc pc : Str) : Bool := (chainOf ct rc).contains pc

/-! ## the repair proposed for the known finding operator-operand-indirect-subclass -/

/-- `try_operation` with proposed/C03-operator-operand-indirect-subclass.diff applied: the `inherits` loop walks ALL ancestors of the
    operand's class (`chainOf`, the operand's class first), not only its direct bases -/
def tryOpUserRepaired (ct : ClassTable) (ps : OpParams) (lc : Str) (op : BOp) (r : Ty) : Option Ty :=
  match lookup op.token Dunder.operators with
  | none => none
  | some d =>
    match memberOf ct lc d with
    | none => none
    | some m =>
      if !m.callable then none
      else if !op.selects then some m.ty
      else
        match userOpParam ct ps lc d with
        | none => none
        | some p =>
          if (paramAlts p).contains r then some m.ty
          else
            match r with
            | .cls rc .nil => if (chainOf ct rc).any (fun b => (paramAlts p).contains (.cls b .nil)) then some m.ty else none
            | _ => none

def tryOpAnyRepaired (ct : ClassTable) (ps : OpParams) (l : Ty) (op : BOp) (r : Ty) : Option Ty :=
  match l with
  | .cls lc .nil => if (findClass ct lc).isSome then tryOpUserRepaired ct ps lc op r else tryOp ct l op r
  | _ => tryOp ct l op r

def tryStepAnyRepaired (ct : ClassTable) (ps : OpParams) (l : Ty) (op : BOp) (r : Ty) : Option Ty :=
  match tryOpAnyRepaired ct ps l op r with
  | some t => some t
  | none => tryOpAnyRepaired ct ps r op l

/-! ## chains -/

/-- the decidable form of the hypotheses of `user_operator_partial` for one step `lc op rc` -/
def directOk (ct : ClassTable) (ps : OpParams) (lc : Str) (op : BOp) (rc : Str) : Bool :=
  (findClass ct lc).isSome &&
  match lookup op.token Dunder.operators with
  | none => false
  | some d =>
    match memberOf ct lc d with
    | none => false
    | some m =>
      m.callable &&
      match userOpParam ct ps lc d with
      | none => false
      | some p => (paramAlts p).contains (.cls rc .nil) || (operandCandidates ct rc).any (fun b => (paramAlts p).contains (.cls b .nil))

/-- every step of a chain over instances of user classes satisfies `directOk`, the left operand of a step being the class CPython's
    call of the previous step returns -/
def chainDirect (ct : ClassTable) (ps : OpParams) : Ty → List (BOp × Ty) → Bool
  | _, [] => true
  | .cls lc .nil, (op, .cls rc .nil) :: rest =>
    directOk ct ps lc op rc &&
    (match pyUserOpTy ct lc op with
     | some t => chainDirect ct ps t rest
     | none => false)
  | _, _ => false

/-- CPython: a flat chain is evaluated left-nested, each step dispatching on the class of the previous result -/
def pyUserChainTy (ct : ClassTable) : Ty → List (BOp × Ty) → Option Ty
  | l, [] => some l
  | .cls lc .nil, (op, _) :: rest =>
    (match pyUserOpTy ct lc op with
     | some t => pyUserChainTy ct t rest
     | none => none)
  | _, _ => none

/-- CPython evaluates `x op y` for an instance `x` of a user class as `type(x).<dunder>(x, y)`, found through the MRO (`World.call`);
    the operand's class is asked first only for a reflected method, which the classes of this model do not declare for class operands -/
def evalUserOp (W : World) (x : Val) (op : BOp) (y : Val) : Except Err Val :=
  match lookup op.token Dunder.operators with
  | none => .error .typeErr
  | some d => W.call x d [y]

/-- the class table of corpus/C03/44-witness-operator-operand-indirect-subclass.json: `Num.__add__(other: Num) -> Num`,
    `Big(Num).__add__(other: Num) -> Big`, `Big2(Big)` -/
def opWitness : ClassTable × OpParams :=
  let add : Str := ['_', '_', 'a', 'd', 'd', '_', '_']
  let num : Str := ['N', 'u', 'm']
  let big : Str := ['B', 'i', 'g']
  ([⟨num, [], [⟨add, .method, .cls num .nil⟩]⟩, ⟨big, [num], [⟨add, .method, .cls big .nil⟩]⟩, ⟨['B', 'i', 'g', '2'], [big], []⟩],
   [((num, add), .cls num .nil), ((big, add), .cls num .nil)])

/-- a `World` for the classes of `opWitness`: the constructors build instances without fields, `Num.__add__` answers a `Num`,
    `Big.__add__` (which `Big2` inherits) a `Big` -/
def opWorld : World where
  new := fun c _ =>
    if c = ['N', 'u', 'm'] ∨ c = ['B', 'i', 'g'] ∨ c = ['B', 'i', 'g', '2'] then .ok (.obj c [] []) else .error .typeErr
  call := fun v m _ =>
    match v with
    | .obj c _ _ =>
      if m = ['_', '_', 'a', 'd', 'd', '_', '_'] then
        (if c = ['N', 'u', 'm'] then .ok (.obj ['N', 'u', 'm'] [] [])
         else if c = ['B', 'i', 'g'] ∨ c = ['B', 'i', 'g', '2'] then .ok (.obj ['B', 'i', 'g'] [] [])
         else .error .typeErr)
      else .error .typeErr
    | _ => .error .typeErr
  classAttr := fun _ _ => .error .typeErr
  nexts := fun _ => .error .typeErr

/-! ## spread items -/

/-- `on_spread` (reflections.py:722-723): `expression.attrs[0]` (a type without arguments: raw IndexError → Errors.Fatal) -/
def onSpread (t : Ty) : Except Err Ty :=
  match t.attrs with
  | .cons a _ => .ok a
  | .nil => .error .fatal

/-- a list literal with spread items `[*e1, x, *e2]`: the resolver visits the items in order (post-order: the expression of a spread
    item, then `on_spread`), then `on_list` sees the element type for a spread item and the own type for a plain one -/
def inferListSpread (ct : ClassTable) (Γ : Env) : List (Bool × Expr) → Bool → R (List Ty)
  | [], s => (.ok [], s)
  | (sp, e) :: rest, s =>
    (infer ct Γ e s).bind fun t s =>
      match (if sp then onSpread t else .ok t) with
      | .error er => (.error er, s)
      | .ok t' => (inferListSpread ct Γ rest s).bind fun ts s => (.ok (t' :: ts), s)

def onListSpread (ct : ClassTable) (Γ : Env) (items : List (Bool × Expr)) (s : Bool) : R Ty :=
  (inferListSpread ct Γ items s).bind fun ts s => onList ts s

/-! ## attributes of user generic classes -/

/-- `templates.Class.prop(actual_klass)` (helper/template.py:70-90): the declared type of an attribute of a generic class, its class
    type variables resolved against the receiver — `unpack_templates(prop=…)`, `unpack_symbols(klass=actual)`,
    `unpack_templates(klass=schema)`, `make_updates`, `apply` on a COPY of the declaration (`to_temporary`: the model is a pure
    function, the declaration is never written). Root 4 = the `prop` key. -/
def propOf (declared schemaKlass actualKlass : Ty) : Ty :=
  resolveTemplates 4 declared (expandTy [0] schemaKlass) (expandTy [0] actualKlass)

mutual
/-- the specification: every occurrence of a class type variable, at any depth, replaced by the receiver's argument for it -/
def substTy (σ : List (Str × Ty)) : Ty → Ty
  | .tvar n => (lookup n σ).getD (.tvar n)
  | .list t => .list (substTy σ t)
  | .dict k v => .dict (substTy σ k) (substTy σ v)
  | .tuple ts => .tuple (substTys σ ts)
  | .union ts => .union (substTys σ ts)
  | .cls n ts => .cls n (substTys σ ts)
  | t => t
def substTys (σ : List (Str × Ty)) : Tys → Tys
  | .nil => .nil
  | .cons t ts => .cons (substTy σ t) (substTys σ ts)
end

/-- the declared attribute types of the generated generic classes (harness/c03_progs.py generic_deep_block): the type variables
    `TK`, `TV` up to three levels deep -/
def deepForms : List Ty :=
  let k : Ty := .tvar ['T', 'K']
  let v : Ty := .tvar ['T', 'V']
  [.dict k (.list v), .list (.list v), .list (.tuple (.cons k (.cons v .nil))), .dict .str (.dict k v),
   .dict k (.dict .str (.list v)), .tuple (.cons k (.cons (.list v) .nil)), .dict k v, v, .list v]

/-- the type arguments the generator instantiates them with -/
def deepArgs : List Ty := [.int, .str, .float, .bool, .list .int]

/-! ## which handlers of ProceduralResolver the Lean model follows -/

/-- handlers with an arm of `infer` (Model/Infer.lean; the comment of each arm names them) -/
def handlersInInfer : List Str := [
  ['o', 'n', '_', 'i', 'n', 't', 'e', 'g', 'e', 'r'],
  ['o', 'n', '_', 'f', 'l', 'o', 'a', 't'],
  ['o', 'n', '_', 's', 't', 'r', 'i', 'n', 'g'],
  ['o', 'n', '_', 't', 'r', 'u', 't', 'h', 'y'],
  ['o', 'n', '_', 'f', 'a', 'l', 's', 'y'],
  ['o', 'n', '_', 'n', 'u', 'l', 'l'],
  ['o', 'n', '_', 'e', 'm', 'p', 't', 'y'],
  ['o', 'n', '_', 'v', 'a', 'r'],
  ['o', 'n', '_', 'f', 'a', 'c', 't', 'o', 'r'],
  ['o', 'n', '_', 'n', 'o', 't', '_', 'c', 'o', 'm', 'p', 'a', 'r', 'e'],
  ['o', 'n', '_', 'o', 'r', '_', 'c', 'o', 'm', 'p', 'a', 'r', 'e'],
  ['o', 'n', '_', 'a', 'n', 'd', '_', 'c', 'o', 'm', 'p', 'a', 'r', 'e'],
  ['o', 'n', '_', 'c', 'o', 'm', 'p', 'a', 'r', 'i', 's', 'o', 'n'],
  ['o', 'n', '_', 'o', 'r', '_', 'b', 'i', 't', 'w', 'i', 's', 'e'],
  ['o', 'n', '_', 'x', 'o', 'r', '_', 'b', 'i', 't', 'w', 'i', 's', 'e'],
  ['o', 'n', '_', 'a', 'n', 'd', '_', 'b', 'i', 't', 'w', 'i', 's', 'e'],
  ['o', 'n', '_', 's', 'h', 'i', 'f', 't', '_', 'b', 'i', 't', 'w', 'i', 's', 'e'],
  ['o', 'n', '_', 's', 'u', 'm'],
  ['o', 'n', '_', 't', 'e', 'r', 'm'],
  ['o', 'n', '_', 't', 'e', 'r', 'n', 'a', 'r', 'y', '_', 'o', 'p', 'e', 'r', 'a', 't', 'o', 'r'],
  ['o', 'n', '_', 'p', 'a', 'i', 'r'],
  ['o', 'n', '_', 'l', 'i', 's', 't'],
  ['o', 'n', '_', 'd', 'i', 'c', 't'],
  ['o', 'n', '_', 't', 'u', 'p', 'l', 'e'],
  ['o', 'n', '_', 'g', 'r', 'o', 'u', 'p'],
  ['o', 'n', '_', 'i', 'n', 'd', 'e', 'x', 'e', 'r'],
  ['o', 'n', '_', 'r', 'e', 'l', 'a', 'y'],
  ['o', 'n', '_', 'f', 'u', 'n', 'c', '_', 'c', 'a', 'l', 'l'],
  ['o', 'n', '_', 'f', 'o', 'r', '_', 'i', 'n'],
  ['o', 'n', '_', 'c', 'o', 'm', 'p', '_', 'f', 'o', 'r'],
  ['o', 'n', '_', 'l', 'i', 's', 't', '_', 'c', 'o', 'm', 'p'],
  ['o', 'n', '_', 'd', 'i', 'c', 't', '_', 'c', 'o', 'm', 'p']
]

/-- handlers modelled beside `infer`: `on_spread` (`onSpread`, this file), `on_lambda` (`lambdaType`, Model/InferLambda.lean) -/
def handlersBeside : List Str := [
  ['o', 'n', '_', 's', 'p', 'r', 'e', 'a', 'd'],
  ['o', 'n', '_', 'l', 'a', 'm', 'b', 'd', 'a']
]

/-- handlers OUTSIDE the Lean model: declarations and statements (their effect on the environment is the `decl` / `for` / `bind` ops of
    the driver, tied by the stream infer-programs), type annotations (read by the harness with CPython `ast`), arguments, imports,
    class / this / super references, doc strings, the fallback — observed by the streams and the search only -/
def handlersOutside : List Str := [
  ['o', 'n', '_', 'f', 'a', 'l', 'l', 'b', 'a', 'c', 'k'],
  ['o', 'n', '_', 'p', 'a', 'r', 'a', 'm', 'e', 't', 'e', 'r'],
  ['o', 'n', '_', 'm', 'o', 'v', 'e', '_', 'a', 's', 's', 'i', 'g', 'n'],
  ['o', 'n', '_', 'a', 'n', 'n', 'o', '_', 'a', 's', 's', 'i', 'g', 'n'],
  ['o', 'n', '_', 'a', 'u', 'g', '_', 'a', 's', 's', 'i', 'g', 'n'],
  ['o', 'n', '_', 'r', 'e', 't', 'u', 'r', 'n'],
  ['o', 'n', '_', 'y', 'i', 'e', 'l', 'd'],
  ['o', 'n', '_', 'a', 's', 's', 'e', 'r', 't'],
  ['o', 'n', '_', 'a', 'r', 'g', 'u', 'm', 'e', 'n', 't'],
  ['o', 'n', '_', 'i', 'n', 'h', 'e', 'r', 'i', 't', '_', 'a', 'r', 'g', 'u', 'm', 'e', 'n', 't'],
  ['o', 'n', '_', 'a', 'r', 'g', 'u', 'm', 'e', 'n', 't', '_', 'l', 'a', 'b', 'e', 'l'],
  ['o', 'n', '_', 'd', 'e', 'c', 'l', '_', 'c', 'l', 'a', 's', 's', '_', 'v', 'a', 'r'],
  ['o', 'n', '_', 'd', 'e', 'c', 'l', '_', 't', 'h', 'i', 's', '_', 'v', 'a', 'r', '_', 'f', 'o', 'r', 'w', 'a', 'r', 'd'],
  ['o', 'n', '_', 'd', 'e', 'c', 'l', '_', 't', 'h', 'i', 's', '_', 'v', 'a', 'r'],
  ['o', 'n', '_', 'd', 'e', 'c', 'l', '_', 'l', 'o', 'c', 'a', 'l', '_', 'v', 'a', 'r'],
  ['o', 'n', '_', 'd', 'e', 'c', 'l', '_', 'c', 'l', 'a', 's', 's', '_', 'p', 'a', 'r', 'a', 'm'],
  ['o', 'n', '_', 'd', 'e', 'c', 'l', '_', 't', 'h', 'i', 's', '_', 'p', 'a', 'r', 'a', 'm'],
  ['o', 'n', '_', 't', 'y', 'p', 'e', 's', '_', 'n', 'a', 'm', 'e'],
  ['o', 'n', '_', 'i', 'm', 'p', 'o', 'r', 't', '_', 'n', 'a', 'm', 'e'],
  ['o', 'n', '_', 'i', 'm', 'p', 'o', 'r', 't', '_', 'a', 's', '_', 'n', 'a', 'm', 'e'],
  ['o', 'n', '_', 'c', 'l', 'a', 's', 's', '_', 'r', 'e', 'f'],
  ['o', 'n', '_', 't', 'h', 'i', 's', '_', 'r', 'e', 'f'],
  ['o', 'n', '_', 'r', 'e', 'l', 'a', 'y', '_', 'o', 'f', '_', 't', 'y', 'p', 'e'],
  ['o', 'n', '_', 'v', 'a', 'r', '_', 'o', 'f', '_', 't', 'y', 'p', 'e'],
  ['o', 'n', '_', 'l', 'i', 't', 'e', 'r', 'a', 'l', '_', 't', 'y', 'p', 'e'],
  ['o', 'n', '_', 'l', 'i', 's', 't', '_', 't', 'y', 'p', 'e'],
  ['o', 'n', '_', 'd', 'i', 'c', 't', '_', 't', 'y', 'p', 'e'],
  ['o', 'n', '_', 'c', 'a', 'l', 'l', 'a', 'b', 'l', 'e', '_', 't', 'y', 'p', 'e'],
  ['o', 'n', '_', 'c', 'u', 's', 't', 'o', 'm', '_', 't', 'y', 'p', 'e'],
  ['o', 'n', '_', 'l', 'i', 't', 'e', 'r', 'a', 'l', '_', 'd', 'i', 'c', 't', '_', 't', 'y', 'p', 'e'],
  ['o', 'n', '_', 'u', 'n', 'i', 'o', 'n', '_', 't', 'y', 'p', 'e'],
  ['o', 'n', '_', 'n', 'u', 'l', 'l', '_', 't', 'y', 'p', 'e'],
  ['o', 'n', '_', 's', 'u', 'p', 'e', 'r'],
  ['o', 'n', '_', 'd', 'o', 'c', '_', 's', 't', 'r', 'i', 'n', 'g']
]

end Tranp.Infer
