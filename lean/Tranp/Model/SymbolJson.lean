/-
  Tranp.Model.SymbolJson — executable model of the symbol-table JSON export / import (property C14).

  Modelled code (rog-works/tranp):
    rogw/tranp/lang/sequence.py:32-61                    seqs.expand (the shape used by serialize: a list of objects
                                                         iterated through `iter_key='attrs'`)
    rogw/tranp/semantics/reflection/serializer.py:37-61  ReflectionSerializer.serialize (two record shapes)
    rogw/tranp/semantics/reflection/serializer.py:64-88  ReflectionSerializer.deserialize
    rogw/tranp/semantics/reflection/serializer.py:90-133 ReflectionSerializer._deserialize_attrs
    rogw/tranp/semantics/reflection/reflection.py        Symbol / Reflection: stack (116-124), attrs (370-395),
                                                         extends (398-412), via/decl defaults (330-334)
    rogw/tranp/semantics/reflection/db.py:33-43          SymbolDB.__setitem__
    rogw/tranp/semantics/reflection/db.py:125-156        completed / on_complete / unload
    rogw/tranp/semantics/reflection/db.py:158-214        to_json / import_json / _order_keys / _order_keys_recursive
    rogw/tranp/dsn/module.py:94-104                      ModuleDSN.parsed (module part of a key)

  Index paths of nested attributes ("0", "1.10.2") are modelled as `List Nat`; the dotted decimal spelling is the
  separate codec `encPath` / `decPath` (used by the driver at the I/O boundary, round trip proved in Props/C14).
  Nodes of the syntax tree are identified by their DSN string ("module#full.path"); what the entrypoints know about a
  node (does it exist, is it a ClassDef, is it a declaration, its `fullyname`) is the parameter `World`.
-/
import Tranp.Str

namespace Tranp.SymbolJson
open Tranp

/-- Exceptions the modelled code can raise (same enum as `harness.common.exc_enum`). -/
inductive Err where
  | symbolNotDefined | indexError | never | nodeNotFound | illegalConvertion
  /-- not an exception: the input leaves the modelled domain (see `extendNode`) -/
  | sharedEntry
deriving DecidableEq, Repr

def Err.toString : Err → String
  | .symbolNotDefined => "Errors.SymbolNotDefined"
  | .indexError => "IndexError"
  | .never => "Errors.Never"
  | .nodeNotFound => "Errors.NodeNotFound"
  | .illegalConvertion => "Errors.IllegalConvertion"
  | .sharedEntry => "out-of-model"

/-! ## insertion-ordered dict -/

/-- `d[k] = v`: overwrite keeps the position, a new key goes to the end. -/
def dictInsert {α β : Type} [DecidableEq α] : List (α × β) → α → β → List (α × β)
  | [], k, v => [(k, v)]
  | (k', v') :: rest, k, v => if k' = k then (k', v) :: rest else (k', v') :: dictInsert rest k v

/-- `{**a, **b}`. -/
def dictMerge {α β : Type} [DecidableEq α] (a b : List (α × β)) : List (α × β) :=
  b.foldl (fun acc kv => dictInsert acc kv.1 kv.2) a

def dictGet? {α β : Type} [DecidableEq α] : List (α × β) → α → Option β
  | [], _ => none
  | (k', v) :: rest, k => if k' = k then some v else dictGet? rest k

def dictHas {α β : Type} [DecidableEq α] (d : List (α × β)) (k : α) : Bool := (dictGet? d k).isSome

/-! ## attribute forests -/

/-- A reflection as `serialize` sees it through `.types.fullyname` and `.attrs`. -/
inductive Attr where
  | mk (key : Str) (attrs : List Attr)
deriving Repr, Inhabited

abbrev Forest := List Attr

mutual
/-- decidable equality by structural recursion (kernel-reducible) -/
def Attr.decEq : (a b : Attr) → Decidable (a = b)
  | .mk k1 c1, .mk k2 c2 =>
    if h : k1 = k2 then
      match Attr.decEqList c1 c2 with
      | isTrue h2 => isTrue (by subst h h2; rfl)
      | isFalse h2 => isFalse (by intro h'; injection h' with _ h3; exact h2 h3)
    else isFalse (by intro h'; injection h' with h3 _; exact h h3)
def Attr.decEqList : (a b : List Attr) → Decidable (a = b)
  | [], [] => isTrue rfl
  | [], _ :: _ => isFalse (by intro h; cases h)
  | _ :: _, [] => isFalse (by intro h; cases h)
  | x :: xs, y :: ys =>
    match Attr.decEq x y with
    | isTrue h1 =>
      match Attr.decEqList xs ys with
      | isTrue h2 => isTrue (by rw [h1, h2])
      | isFalse h2 => isFalse (by intro h'; injection h' with _ h3; exact h2 h3)
    | isFalse h1 => isFalse (by intro h'; injection h' with h3 _; exact h1 h3)
end

instance : DecidableEq Attr := Attr.decEq

namespace Attr
def key : Attr → Str
  | mk k _ => k
def attrs : Attr → List Attr
  | mk _ cs => cs
end Attr

/-- index path of a nested attribute, outermost index first: "1.10.2" = [1, 10, 2] -/
abbrev Path := List Nat

/-- the serialized `attrs` dict: index path ↦ type key, in insertion order -/
abbrev Flat := List (Path × Str)

/-! ### the string codec of index paths -/

/-- `'.'.join(str(i) for i in p)` -/
def encPath (p : Path) : Str := Str.join ['.'] (p.map Str.natToDec)

/-- `[int(e) for e in s.split('.')]` (plain ASCII digits only) -/
def decPath (s : Str) : Option Path := (Str.splitOn '.' s).mapM Str.decToNat?

/-! ### `seqs.expand(symbol.attrs, iter_key='attrs')` (sequence.py:32-61)

  The entry is a `list` (line 43): element `index` gets `in_path = str(index)`; an element is neither list nor dict, so
  line 54 stores it under its path and lines 55-59 iterate its `.attrs` with `in_path = path + '.' + str(index)`
  (`routes` drops the empty start path). Every level merges with `{**entries, **expand(...)}`. -/
mutual
def expandNode (p : Path) : Attr → Flat
  | .mk k cs => expandElems p 0 cs [(p, k)]
def expandElems (p : Path) (i : Nat) : List Attr → Flat → Flat
  | [], entries => entries
  | a :: rest, entries => expandElems p (i + 1) rest (dictMerge entries (expandNode (p ++ [i]) a))
end

/-- `seqs.expand(attrs, iter_key='attrs')` followed by `attr.types.fullyname` per value (serializer.py:45-46) -/
def expand (f : Forest) : Flat := expandElems [] 0 f []

/-! ### the same flattening as a pre-order listing (specification; `expand = flatten` is a theorem) -/
mutual
def flatNode : Attr → Flat
  | .mk k cs => ([], k) :: flatList 0 cs
def flatList (i : Nat) : List Attr → Flat
  | [] => []
  | a :: rest => (flatNode a).map (fun pk => (i :: pk.1, pk.2)) ++ flatList (i + 1) rest
end

/-- pre-order flattening of the attribute forest to `{index path ↦ type key}` -/
def flatten (f : Forest) : Flat := flatList 0 f

/-! ## `_deserialize_attrs` (serializer.py:90-133) -/

/-- A reflection under reconstruction: `db[key].stack()` has the type key of the table entry, no own attributes and
    sees the entry's attributes through `origin` (reflection.py:388-395). -/
inductive RNode where
  | mk (key : Str) (own : List RNode) (inherited : Forest)
deriving Repr, Inhabited

namespace RNode
def key : RNode → Str
  | mk k _ _ => k
def own : RNode → List RNode
  | mk _ o _ => o
end RNode

mutual
/-- what `.types.fullyname` / `.attrs` show of a rebuilt reflection (reflection.py:370-395: own attributes if any,
    else the attributes of the origin) -/
def obs : RNode → Attr
  | .mk k [] inh => .mk k inh
  | .mk k (o :: os) _ => .mk k (obs o :: obsList os)
def obsList : List RNode → List Attr
  | [] => []
  | r :: rs => obs r :: obsList rs
end

/-- what the table knows about a key: the type key and the (observable) attributes of the entry -/
abbrev Lookup := Str → Option (Str × Forest)

/-- `key.count('.')` of the encoded path -/
def depth (p : Path) : Nat := p.length - 1

/-- `sorted(keys, key=lambda key: key.count('.'))` (line 100): the stable sort by depth, written as a bucket sort
    (`sortByDepth_perm / _sorted / _stable` in Lemmas show it is *the* stable sort). -/
def buckets (l : Flat) : Nat → Nat → Flat
  | _, 0 => []
  | d, n + 1 => l.filter (fun pk => depth pk.1 == d) ++ buckets l (d + 1) n

def maxDepth (l : Flat) : Nat := l.foldr (fun pk m => max (depth pk.1) m) 0

def sortByDepth (l : Flat) : Flat := buckets l 0 (maxDepth l + 1)

/-- `'.'.join(elems[:-1])` -/
def parent (p : Path) : Path := p.dropLast

/-- the scan of lines 103-114/118: starting at `index`, `end` runs over the following paths while their parent path
    equals the parent path of the first; repeated until the list is used up. `fuel` = number of paths (each round
    consumes at least one). -/
def groupsFuel : Nat → Flat → List Flat
  | 0, _ => []
  | _, [] => []
  | n + 1, x :: rest =>
    let same := fun (pk : Path × Str) => parent pk.1 == parent x.1
    (x :: rest.takeWhile same) :: groupsFuel n (rest.dropWhile same)

def groups (l : Flat) : List Flat := groupsFuel l.length l

/-- line 117: `[db[data_attrs[path]].stack() for path in paths[index:end]]` -/
def stackAll (look : Lookup) : Flat → Except Err (List RNode)
  | [] => .ok []
  | (_, k) :: rest =>
    match look k with
    | none => .error .symbolNotDefined
    | some (tk, inh) =>
      match stackAll look rest with
      | .ok rs => .ok (.mk tk [] inh :: rs)
      | .error e => .error e

/-- `attrs[i]` on a Python list, non-negative index -/
def listGet {α : Type} (l : List α) (i : Nat) : Except Err α :=
  match l[i]? with
  | some a => .ok a
  | none => .error .indexError

/-- lines 126-131 below the first index: `attr = attr.attrs[i]` … `attr.extends(*new_attrs)`.
    `attr.attrs` of a reflection without own attributes falls through to the origin's attribute objects
    (reflection.py:391); extending one of those would mutate a shared table entry — outside the model
    (`Err.sharedEntry`, never produced by the real code; the driver prints `out-of-model`). `C14.rebuild_isolated`: a prefix-closed
    dict — every exported one — never gets here. -/
def extendNode (new : List RNode) : Path → RNode → Except Err RNode
  | [], .mk k own inh =>
    -- Reflection.extends (reflection.py:408-412)
    if own.isEmpty then .ok (.mk k new inh) else .error .never
  | i :: rest, .mk k own inh =>
    if own.isEmpty then
      (if i < inh.length then .error .sharedEntry else .error .indexError)
    else
      match own[i]? with
      | none => .error .indexError
      | some c =>
        match extendNode new rest c with
        | .ok c' => .ok (.mk k (own.set i c') inh)
        | .error e => .error e

/-- lines 126-131: `index_keys = [int(k) for k in own_path.split('.')]`, `attr = attrs[index_keys.pop(0)]`, walk, extend.
    (`own_path` of a path of depth ≥ 1 is never empty; `[]` cannot be reached from `decPath`.) -/
def extendAt (new : List RNode) : Path → List RNode → Except Err (List RNode)
  | [], _ => .error .indexError
  | i :: rest, attrs =>
    match attrs[i]? with
    | none => .error .indexError
    | some a =>
      match extendNode new rest a with
      | .ok a' => .ok (attrs.set i a')
      | .error e => .error e

/-- one round of the `while index < len(paths)` loop for one group of paths (lines 104-131) -/
def stepGroup (look : Lookup) (attrs : List RNode) (grp : Flat) : Except Err (List RNode) :=
  match grp with
  | [] => .ok attrs
  | (p, _) :: _ =>
    match stackAll look grp with
    | .error e => .error e
    | .ok new =>
      -- `len(elems) == 1` (line 121)
      if p.length ≤ 1 then .ok (attrs ++ new) else extendAt new (parent p) attrs

def stepGroups (look : Lookup) : List Flat → List RNode → Except Err (List RNode)
  | [], attrs => .ok attrs
  | g :: gs, attrs =>
    match stepGroup look attrs g with
    | .ok attrs' => stepGroups look gs attrs'
    | .error e => .error e

/-- `_deserialize_attrs(db, data_attrs)` -/
def rebuild (look : Lookup) (data : Flat) : Except Err (List RNode) :=
  stepGroups look (groups (sortByDepth data)) []

/-! ## symbols, records, table -/

/-- What the entrypoints know about syntax-tree nodes (identified by DSN). -/
structure World where
  /-- `whole_by` finds the node -/
  known : Str → Bool
  /-- `node.is_a(defs.ClassDef)` -/
  isClassDef : Str → Bool
  /-- `node.one_of(*defs.DeclAllTs)` succeeds -/
  isDecl : Str → Bool
  /-- `node.fullyname` -/
  fullyname : Str → Str

/-- A table entry as far as export / import can see it. `types`, `node`, `decl` are node DSNs
    (`ModuleDSN.full_joined(n.module_path, n.full_path)`), `via` is `via.types.fullyname`, `attrs` the observable
    attribute forest. -/
structure Sym where
  types : Str
  node : Str
  decl : Str
  via : Str
  attrs : Forest
deriving DecidableEq, Repr, Inhabited

/-- `symbol.types.fullyname` -/
def Sym.typesKey (W : World) (s : Sym) : Str := W.fullyname s.types

/-- the test of serializer.py:47 -/
def Sym.isClassSymbol (W : World) (s : Sym) : Bool := W.isClassDef s.node && s.types == s.decl

/-- `DictSymbol | DictReflection` (serialization.py:6-8) -/
inductive Row where
  | symbol (types : Str) (attrs : Flat)
  | reflection (node decl origin via : Str) (attrs : Flat)
deriving DecidableEq, Repr, Inhabited

/-- `ReflectionSerializer.serialize` (serializer.py:37-61) -/
def serialize (W : World) (s : Sym) : Row :=
  if s.isClassSymbol W then .symbol s.types (expand s.attrs)
  else .reflection s.node s.decl (s.typesKey W) s.via (expand s.attrs)

/-- `SymbolDB`: `__items` (with `__paths` in the same order) and `__completed`. -/
structure Table where
  items : List (Str × Sym) := []
  completed : List Str := []
deriving DecidableEq, Repr, Inhabited

/-- `ModuleDSN.parsed(key)[0]` = `key.split('#')[0]` -/
def modOf (key : Str) : Str := key.takeWhile (fun c => c != '#')

namespace Table

/-- `db[key]` (db.py:18-31) -/
def get (t : Table) (k : Str) : Except Err Sym :=
  match dictGet? t.items k with
  | some s => .ok s
  | none => .error .symbolNotDefined

/-- `db[key] = symbol` (db.py:33-43) -/
def set (t : Table) (k : Str) (s : Sym) : Table := { t with items := dictInsert t.items k s }

/-- db.py:125-133 -/
def isCompleted (t : Table) (m : Str) : Bool := t.completed.contains m

/-- db.py:135-142 -/
def onComplete (t : Table) (m : Str) : Table :=
  if t.completed.contains m then t else { t with completed := t.completed ++ [m] }

/-- db.py:114-123 -/
def hasModule (t : Table) (m : Str) : Bool := t.items.any (fun ks => modOf ks.1 == m)

/-- db.py:144-156 -/
def unload (t : Table) (m : Str) : Table :=
  { items := t.items.filter (fun ks => modOf ks.1 != m), completed := t.completed.erase m }

/-- the view of the table `_deserialize_attrs` uses -/
def lookup (W : World) (t : Table) : Lookup := fun k =>
  match dictGet? t.items k with
  | some s => some (s.typesKey W, s.attrs)
  | none => none

end Table

/-- `ReflectionSerializer.deserialize` (serializer.py:64-88). -/
def deserialize (W : World) (t : Table) : Row → Except Err Sym
  | .symbol ty fl =>
    -- line 75: load + whole_by + as_a(ClassDef)
    if !W.known ty then .error .nodeNotFound
    else if !W.isClassDef ty then .error .illegalConvertion
    else
      -- line 76: Symbol.instantiate(types).stack(): types = decl = node = the class, via = the Symbol itself
      match rebuild (t.lookup W) fl with
      | .error e => .error e
      | .ok rs => .ok { types := ty, node := ty, decl := ty, via := W.fullyname ty, attrs := obsList rs }
  | .reflection nd dc origin via fl =>
    if !W.known nd then .error .nodeNotFound
    else if !W.known dc then .error .nodeNotFound
    else if !W.isDecl dc then .error .illegalConvertion
    else
      match t.get origin with
      | .error e => .error e
      | .ok o =>
        -- line 85: `via = db[data['via']] if data['origin'] != data['via'] else None`; reflection.py:333
        let viaKey : Except Err Str :=
          if origin != via then (match t.get via with | .ok v => .ok (v.typesKey W) | .error e => .error e)
          else .ok o.via
        match viaKey with
        | .error e => .error e
        | .ok vk =>
          match rebuild (t.lookup W) fl with
          | .error e => .error e
          | .ok rs =>
            -- reflection.py:388-395: own attributes if any, else those of the origin
            .ok { types := o.types, node := nd, decl := dc, via := vk, attrs := if rs.isEmpty then o.attrs else obsList rs }

/-! ### `_order_keys` / `_order_keys_recursive` (db.py:182-238, after fix 95feeba) -/

/-- Python truthiness of `for_module_path: str | None` -/
def falsy : Option Str → Bool
  | none => true
  | some s => s.isEmpty

/-- db.py:230-235: before the class key `k` is listed, the attributes of the table entry of `k` are walked (`sub`), unless `k` is
    no table key or is being expanded already (`resolving`). -/
def entryFirst (look : Str → Option Forest) (sub : Forest → List Str → List Str → List Str) (k : Str) (o1 res : List Str) : List Str :=
  match look k with
  | some ea => if res.contains k then o1 else sub ea o1 (res ++ [k])
  | none => o1

mutual
/-- `_order_keys_recursive` (db.py:200-238) on one reflection. `look k` = `self.__items[k].attrs` if `k in self.__items`;
    `sub` walks the attributes of such a table entry (the same function one nesting level down, see `orderFuel`);
    `res` = `resolving`, passed down extended and restored by the `pop()` on return.
    The guard of line 229 parses as `(not fm) or (fm == module_path and key not in orders)`. -/
def orderNode (look : Str → Option Forest) (sub : Forest → List Str → List Str → List Str) (fm : Option Str) :
    Attr → List Str → List Str → List Str
  | .mk k cs, orders, res =>
    -- lines 225-226
    let o1 := orderList look sub fm cs orders res
    -- line 229
    if falsy fm || (fm == some (modOf k) && !o1.contains k) then
      -- lines 230-235: the keys the class entry itself refers to go first
      let o2 := entryFirst look sub k o1 res
      -- lines 237-238
      if falsy fm || !o2.contains k then o2 ++ [k] else o2
    else o1
def orderList (look : Str → Option Forest) (sub : Forest → List Str → List Str → List Str) (fm : Option Str) :
    List Attr → List Str → List Str → List Str
  | [], orders, _ => orders
  | a :: rest, orders, res => orderList look sub fm rest (orderNode look sub fm a orders res) res
end

/-- the walk over a list of reflections with `fuel` nesting levels of entry expansion left. Every expansion adds a new
    table key to `resolving`, so `number of table keys + 1` levels are never used up (`orderKeys` starts with that;
    `C14.order_fuel` proves it for every table, also with class entries that refer to themselves). -/
def orderFuel (look : Str → Option Forest) (fm : Option Str) : Nat → Forest → List Str → List Str → List Str
  | 0, _, orders, _ => orders
  | n + 1, f, orders, res => orderList look (orderFuel look fm n) fm f orders res

/-- a table entry as `_order_keys_recursive` sees it -/
def Sym.asAttr (W : World) (s : Sym) : Attr := .mk (s.typesKey W) s.attrs

/-- `self.__items[key].attrs` -/
def Table.entryAttrs (t : Table) (k : Str) : Option Forest :=
  match dictGet? t.items k with
  | some s => some s.attrs
  | none => none

/-- db.py:190-198 -/
def orderKeysLoop (W : World) (t : Table) (fm : Option Str) : List (Str × Sym) → List Str → List Str
  | [], orders => orders
  | (k, s) :: rest, orders =>
    let m := modOf k
    if fm == none || fm == some m then
      let orders := orderFuel t.entryAttrs (some m) (t.items.length + 1) [s.asAttr W] orders []
      orderKeysLoop W t fm rest (if orders.contains k then orders else orders ++ [k])
    else orderKeysLoop W t fm rest orders

def orderKeys (W : World) (t : Table) (fm : Option Str) : List Str := orderKeysLoop W t fm t.items []

/-- db.py:167: `{key: serializer.serialize(self[key]) for key in self._order_keys(for_module_path)}` -/
def toJsonRows (W : World) (t : Table) : List Str → List (Str × Row) → Except Err (List (Str × Row))
  | [], acc => .ok acc
  | k :: ks, acc =>
    match t.get k with
    | .error e => .error e
    | .ok s => toJsonRows W t ks (dictInsert acc k (serialize W s))

def toJson (W : World) (t : Table) (fm : Option Str) : Except Err (List (Str × Row)) :=
  toJsonRows W t (orderKeys W t fm) []

/-- db.py:176-180 -/
def importJson (W : World) : Table → List (Str × Row) → Except Err Table
  | t, [] => .ok t
  | t, (k, row) :: rest =>
    match deserialize W t row with
    | .error e => .error e
    | .ok s => importJson W ((t.set k s).onComplete (modOf k)) rest


/-! ## node DSNs: `ModuleDSN.full_joined` / `parsed` (rogw/tranp/dsn/module.py:33-51, 94-104), `DSN.join` (rogw/tranp/dsn/dsn.py)

  `serialize` writes `ModuleDSN.full_joined(node.module_path, node.full_path)`, `deserialize` reads it back with
  `ModuleDSN.parsed` and asks the entrypoints for `(module, path)`. -/

/-- `DSN.join(*parts, delimiter=d)`: empty parts are dropped -/
def dsnJoin (d : Char) (parts : List Str) : Str := Str.join [d] (parts.filter (fun p => !p.isEmpty))

/-- `ModuleDSN.local_joined(*elems)` -/
def localJoined (elems : List Str) : Str := dsnJoin '.' elems

/-- `ModuleDSN.full_joined(dsn, *elems)`: a `dsn` that already has a `#` only gets the elements appended -/
def fullJoined (dsn : Str) (elems : List Str) : Str :=
  if dsn.contains '#' then dsnJoin '.' (dsn :: elems) else dsnJoin '#' [dsn, localJoined elems]

/-- `ModuleDSN.parsed(dsn)`: `elems = dsn.split('#')`; `(elems[0], elems[1])` if there are at least two, else `(elems[0], '')` -/
def dsnParsed (dsn : Str) : Str × Str :=
  match Str.splitOn '#' dsn with
  | a :: b :: _ => (a, b)
  | [a] => (a, [])
  | [] => ([], [])


/-! ## object identity: shared reflection objects, `to_temporary`, writes through a copy

  A reflection object may sit in several slots of an attribute tree (`tuple[T, T]` resolved with one argument object).
  `IAttr` carries the identity of the object (`id`); the same id in two slots = the same Python object.
  Modelled code: rogw/tranp/lang/sequence.py:32-61 (`expand` never looks at identity), :64-88 (`update`: the write
  `getattr(entry, 'attrs')[i] = value` changes the attribute list of ONE object, visible through every slot that holds it),
  rogw/tranp/semantics/reflection/reflection.py:116-124 (`stack`: a new object), :170-178 (`to_temporary`: a new object per
  node, at every depth). -/

inductive IAttr where
  | mk (id : Nat) (key : Str) (attrs : List IAttr)
deriving Repr, Inhabited

abbrev IForest := List IAttr

mutual
def IAttr.decEq : (a b : IAttr) → Decidable (a = b)
  | .mk i1 k1 c1, .mk i2 k2 c2 =>
    if h : i1 = i2 ∧ k1 = k2 then
      match IAttr.decEqList c1 c2 with
      | isTrue h2 => isTrue (by rw [h.1, h.2, h2])
      | isFalse h2 => isFalse (by intro h'; injection h' with _ _ h3; exact h2 h3)
    else isFalse (by intro h'; injection h' with h3 h4 _; exact h ⟨h3, h4⟩)
def IAttr.decEqList : (a b : List IAttr) → Decidable (a = b)
  | [], [] => isTrue rfl
  | [], _ :: _ => isFalse (by intro h; cases h)
  | _ :: _, [] => isFalse (by intro h; cases h)
  | x :: xs, y :: ys =>
    match IAttr.decEq x y with
    | isTrue h1 =>
      match IAttr.decEqList xs ys with
      | isTrue h2 => isTrue (by rw [h1, h2])
      | isFalse h2 => isFalse (by intro h'; injection h' with _ h3; exact h2 h3)
    | isFalse h1 => isFalse (by intro h'; injection h' with h3 _; exact h1 h3)
end

instance : DecidableEq IAttr := IAttr.decEq

mutual
/-- forget identity: what `.types.fullyname` / `.attrs` show -/
def eraseN : IAttr → Attr
  | .mk _ k cs => .mk k (eraseL cs)
def eraseL : List IAttr → List Attr
  | [] => []
  | a :: rest => eraseN a :: eraseL rest
end

mutual
/-- the objects of a tree -/
def idsN : IAttr → List Nat
  | .mk i _ cs => i :: idsL cs
def idsL : List IAttr → List Nat
  | [] => []
  | a :: rest => idsN a ++ idsL rest
end

mutual
/-- `seqs.expand` on objects with identity (the code never asks for it) -/
def expandINode (p : Path) : IAttr → Flat
  | .mk _ k cs => expandIElems p 0 cs [(p, k)]
def expandIElems (p : Path) (i : Nat) : List IAttr → Flat → Flat
  | [], entries => entries
  | a :: rest, entries => expandIElems p (i + 1) rest (dictMerge entries (expandINode (p ++ [i]) a))
end

def expandI (f : IForest) : Flat := expandIElems [] 0 f []

mutual
/-- NOT the code: `expand` with a visited-set of object ids ("expand the attributes of an object once"), the shape of a
    seeded mutation; kept as the counterexample `C14.visited_counterexample` -/
def expandVNode (p : Path) : IAttr → List Nat → Flat × List Nat
  | .mk i k cs, vis => if vis.contains i then ([(p, k)], vis) else expandVElems p 0 cs [(p, k)] (i :: vis)
def expandVElems (p : Path) (i : Nat) : List IAttr → Flat → List Nat → Flat × List Nat
  | [], entries, vis => (entries, vis)
  | a :: rest, entries, vis =>
    let r := expandVNode (p ++ [i]) a vis
    expandVElems p (i + 1) rest (dictMerge entries r.1) r.2
end

def expandVisited (f : IForest) : Flat := (expandVElems [] 0 f [] []).1

mutual
/-- `to_temporary` (reflection.py:170-178): `new = self.stack()` is a new object (`n`), and so is the copy of every attribute,
    at every depth; returns the next unused id -/
def toTemp : IAttr → Nat → IAttr × Nat
  | .mk _ k cs, n =>
    let r := toTempL cs (n + 1)
    (.mk n k r.1, r.2)
def toTempL : List IAttr → Nat → List IAttr × Nat
  | [], n => ([], n)
  | a :: rest, n =>
    let r1 := toTemp a n
    let r2 := toTempL rest r1.2
    (r1.1 :: r2.1, r2.2)
end

/-- `any(isinstance(in_attr.types, TemplateClass) for in_attr in attr.attrs)` -/
def hasTemplateChild (isTV : Str → Bool) : IAttr → Bool
  | .mk _ _ cs => cs.any (fun c => match c with | .mk _ k _ => isTV k)

mutual
/-- NOT the code: `to_temporary` that copies an attribute only if one of its DIRECT children is a type variable and shares it
    otherwise (a seeded mutation); kept as the counterexample `C14.shallow_temporary_counterexample` -/
def toTempShallow (isTV : Str → Bool) : IAttr → Nat → IAttr × Nat
  | .mk _ k cs, n =>
    let r := toTempShallowL isTV cs (n + 1)
    (.mk n k r.1, r.2)
def toTempShallowL (isTV : Str → Bool) : List IAttr → Nat → List IAttr × Nat
  | [], n => ([], n)
  | a :: rest, n =>
    let r1 := if hasTemplateChild isTV a then toTempShallow isTV a n else (a, n)
    let r2 := toTempShallowL isTV rest r1.2
    (r1.1 :: r2.1, r2.2)
end

mutual
/-- the write of `seqs.update` (sequence.py:83-88) seen from a tree: the attribute list of object `target` gets `v` in slot `j`,
    in every slot of the tree that holds that object -/
def setSlot (target j : Nat) (v : IAttr) : IAttr → IAttr
  | .mk i k cs =>
    let cs' := setSlotL target j v cs
    .mk i k (if i = target then cs'.set j v else cs')
def setSlotL (target j : Nat) (v : IAttr) : List IAttr → List IAttr
  | [] => []
  | a :: rest => setSlot target j v a :: setSlotL target j v rest
end

/-- the object found by the index walk of `seqs.update` below a list of objects -/
def objectAt : List IAttr → Path → Option IAttr
  | _, [] => none
  | f, [i] => f[i]?
  | f, i :: rest => match f[i]? with
    | some (.mk _ _ cs) => objectAt cs rest
    | none => none

end Tranp.SymbolJson
