/-
  Tranp.Model.BlockView — the remaining text helpers beside the bracket scanners of Tranp.Model.Block (property C18):

    * `is_quoted_literal`                      rogw/tranp/lang/string.py:26-49
    * `CppViewHelper.Param.var_type_origin`    rogw/tranp/implements/cpp/view/cpp_view_helper.py:79-85
      (the regular expression `Param.VarType` is the GENERATED term `Generated.C08Regex.CppViewHelper_Param_VarType`,
      translate/gen_c08_regex.py, run by the matcher of Tranp.Model.Regex)
    * `BlockParser.parse_to_formatter(...).format()` with the default formats   rogw/tranp/view/helper/block.py:44-108, 293-316

  Characters: `\w`, `\s` and `str.lstrip()` are modelled for ASCII (Tranp.Regex.isWordChar / isSpaceChar); the streams of
  these three helpers generate ASCII only.
-/
import Tranp.Model.Block
import Tranp.Model.Regex
import Tranp.Generated.C08Regex

namespace Tranp.Block
open Tranp

/-! ## `is_quoted_literal(string, quote)` -/

/-- `s.find(q, start, stop)` for non-negative bounds: the first occurrence that lies inside `s[start:stop]`;
    nothing at all when `start` is behind the (clamped) `stop`. -/
def findIn (s q : Str) (start stop : Nat) : Option Nat :=
  if min stop s.length < start then none
  else (Str.find (slice s start stop) q).map (· + start)

/-- the `while index < length - 1` loop (string.py:40-47); fuel = number of iterations still allowed -/
def iqlLoop (s q : Str) : Nat → Nat → Except Err Bool
  | 0, _ => .error .Fuel
  | fuel + 1, index =>
    if index < s.length - 1 then
      match findIn s q index (s.length - 1) with
      | none => .ok true
      | some found =>
        (charAt s (found - 1)).bind fun c =>
          if c ≠ '\\' then .ok false else iqlLoop s q fuel (found + 1)
    else .ok true

/-- `is_quoted_literal(string, quote)` -/
def isQuotedLiteral (s q : Str) : Except Err Bool :=
  if !(Str.startsWith s q && Str.endsWith s q) then .ok false
  else iqlLoop s q (s.length + 1) 1

/-- the specification for a one-character quote: every quote character of the body stands behind a backslash
    (`prev` = the character in front of the body) -/
def escapedBody (q : Char) : Char → Str → Bool
  | _, [] => true
  | prev, c :: cs => (c != q || prev == '\\') && escapedBody q c cs

/-! ## `Param.var_type_origin` -/

inductive VErr
  | TypeError
  | IndexError
  /-- model artefact: a mandatory group did not take part in the match (never produced) -/
  | NoGroup
  deriving DecidableEq, Repr

def VErr.toString : VErr → String
  | .TypeError => "TypeError"
  | .IndexError => "IndexError"
  | .NoGroup => "model-no-group"

def constBlank : Str := ['c', 'o', 'n', 's', 't', ' ']

/-- `Param.VarType.search(var_type)[2]`: `None[2]` is a TypeError -/
def varTypeGroup2 (varType : Str) : Except VErr Str :=
  match Regex.search Generated.C08Regex.CppViewHelper_Param_VarType varType with
  | none => .error .TypeError
  | some (_, (_, caps)) =>
    match Regex.groupText varType caps 2 with
    | some g => .ok g
    | none => .error .NoGroup

/-- `var_type.split('<')[0]` -/
def beforeLt (s : Str) : Str := s.takeWhile (· != '<')

/-- `Param.var_type_origin` (cpp_view_helper.py:79-85) -/
def varTypeOrigin (varType : Str) : Except VErr Str :=
  if Str.startsWith varType constBlank || Str.endsWith varType ['*'] || Str.endsWith varType ['&'] then
    varTypeGroup2 varType
  else .ok (beforeLt varType)

/-- the direct reading of the regular expression: an optional `const` + blanks in front of a name, then the longest run
    of name characters (`[\w\d:]`) -/
def isNameChar (c : Char) : Bool := Regex.isWordChar c || c == ':'

/-! ## `parse_to_formatter(text, brackets, delimiter).format()` -/

/-- `str.lstrip()` (ASCII white space) -/
def lstripWs (s : Str) : Str := Str.lstripBy Regex.isSpaceChar s

/-- `text[entry.begin:text.find(brackets[0], entry.begin)]` (block.py:304-305; `find` = -1 gives `text[begin:-1]`) -/
def formatterName (text : Str) (o : Char) (begin : Nat) : Str :=
  if text.length < begin then []
  else match Str.find (text.drop begin) [o] with
    | some i => slice text begin (begin + i)
    | none => slice text begin (text.length - 1)

mutual
/-- `to_formatter(entry).format()` with `join_format = '{delimiter} '`, `block_format = '{name}{open}{elems}{close}'` -/
def formatEntry (text delimiter : Str) (o c : Char) : Entry → Str
  | .mk b _ _ _ es =>
    formatterName text o b ++ [o] ++ Str.join (delimiter ++ [' ']) (formatElems text delimiter o c es) ++ [c]
/-- the elements: a nested block is formatted, an element text is `lstrip`ped (block.py:105) -/
def formatElems (text delimiter : Str) (o c : Char) : List Entry → List Str
  | [] => []
  | x :: rest =>
    (if x.kind = .Block then formatEntry text delimiter o c x else lstripWs (slice text x.begin x.end_))
      :: formatElems text delimiter o c rest
end

/-- `BlockParser.parse_to_formatter(text, brackets, delimiter).format()` -/
def parseToFormatterFormat (text brackets delimiter : Str) : Except Err Str :=
  (parse text brackets delimiter).bind fun root =>
  (charAt brackets 0).bind fun o =>
  (charAt brackets 1).bind fun c =>
  .ok (formatEntry text delimiter o c root)

end Tranp.Block
