/-
  Tranp.Model.EmitValue — the second observation point of property C17: the text py2cpp inlines for `Enum.Member.value`.

  Modelled code (rog-works/tranp):
    rogw/tranp/implements/cpp/transpiler/py2cpp.py:850-860   Py2Cpp.on_relay, branch `org_prop == 'value'`
    data/cpp/template/relay/literalize.j2                    (generated table Tranp/Generated/RelayLiteralize.lean)

  `emitValue` sits on top of `execImpl`. What `Reflections.type_of(var_value)` answers (the printed type name and whether it
  is `str`, or the error it raises) is an input (`Member.ty`), like the `tyErr` of reference nodes: static type inference is C03's.
-/
import Tranp.Model.Evaluator
import Tranp.Generated.RelayLiteralize

namespace Tranp.Evaluator
open Tranp Tranp.Generated.RelayLiteralize

/-- `var_symbol = self.reflections.type_of(var_value).impl(refs.Object)` as far as the branch looks at it. -/
structure TyInfo where
  varType : Str     -- `self.to_domain_name(var_symbol)` (py2cpp.py:853)
  isStr : Bool      -- `var_symbol.type_is(str)` (py2cpp.py:857, 860)
deriving DecidableEq, Repr

/-- an enum member as `on_relay` sees it: the value node and the collaborator's answer about its type. -/
structure Member where
  value : Expr
  ty : Except TyErr TyInfo

/-- relay/literalize.j2 -/
def renderLiteralize (varType : Str) (literal : Str) : Str :=
  if numericTypes.contains varType then literal else quote :: (literal ++ [quote])

/-- `var_value.tokens if var_value.is_a(defs.Literal) and not var_value.is_a(defs.String) else str(self.evaluator.exec(var_value))`
    (py2cpp.py:855, since 61fd1e4). Of the node kinds of `Expr` the non-string literals are Integer and Float: their tokens are
    emitted without the evaluator; a String literal goes through the evaluator like every other value. -/
def literalOf {F} (ops : FloatOps F) (env : Env) (fuel : Nat) (e : Expr) : Except Err Str :=
  match e with
  | .integer tok => .ok tok
  | .float tok => .ok tok
  | e => (execImpl ops env fuel e).map (pyStrOf ops)

/-- `Py2Cpp.on_relay`, branch `value` (py2cpp.py:850-860). -/
def emitValue {F} (ops : FloatOps F) (env : Env) (fuel : Nat) (m : Member) : Except Err Str :=
  match m.ty with
  | .error te => .error te.toErr
  | .ok ti => do
    let literal ← literalOf ops env fuel m.value
    -- a negative number is parenthesised (py2cpp.py:856-858)
    let literal := if !ti.isStr && Str.startsWith literal ['-'] then '(' :: (literal ++ [')']) else literal
    pure (renderLiteralize ti.varType (if ti.isStr then unq literal else literal))

/-! ## reading the emitted text back -/

/-- what a C++ / Python reader makes of the emitted text: a number (decimal text, or a literal token), optionally in
    parentheses, or a text between double quotes — which must not contain a double quote itself (the template prints the content
    raw: `"say "hi""` is not one C++ literal; contents here are free of backslashes, so there is no `\"`). Floats stay abstract: the text is Python's `str(x)` or a token `float()` reads as `x`. -/
inductive Denotes {F : Type} (ops : FloatOps F) : Str → V F → Prop where
  | dec {t : Str} {n : Int} : Str.decToInt? t = some n → Denotes ops t (.int n)
  | intTok {tok : Str} {n : Int} : pyIntLit .py tok = .ok n → Denotes ops tok (.int n)
  | floatStr (x : F) : Denotes ops (ops.toStr x) (.float x)
  | floatTok {tok : Str} {x : F} : ops.parse tok = .ok x → Denotes ops tok (.float x)
  | str (c : Str) : c.contains '"' = false → Denotes ops ('"' :: (c ++ ['"'])) (.str c)
  | parenInt {t : Str} {n : Int} : Denotes ops t (.int n) → Denotes ops ('(' :: (t ++ [')'])) (.int n)
  | parenFloat {t : Str} {x : F} : Denotes ops t (.float x) → Denotes ops ('(' :: (t ++ [')'])) (.float x)

/-- the type answer fits CPython's value: `str` exactly for strings, a bare-printed name exactly for numbers. -/
def TyInfo.fits {F} (ti : TyInfo) : V F → Prop
  | .str _ => ti.isStr = true ∧ numericTypes.contains ti.varType = false
  | _ => ti.isStr = false ∧ numericTypes.contains ti.varType = true

end Tranp.Evaluator
