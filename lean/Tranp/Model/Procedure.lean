/-
  Tranp.Model.Procedure — executable model of the AST procedure (property C09).

  Modelled code (rog-works/tranp):
    rogw/tranp/semantics/procedure.py     Procedure.exec / __exec_impl / __result / __action / __run_action /
                                          __emit / __make_event / __is_prop_list_by / __stack_pop
    rogw/tranp/syntax/node/node.py        Node.prop_keys (179-198, as data) / procedural (236-253) /
                                          __prop_expand (255-268) / __prop_of_nodes (270-276) / _under_expand (374-380, as data)
    rogw/tranp/lang/middleware.py         Middleware.usable / emit (handler table, as data)

  A node is what the procedure can see of it: its classification, whether it refuses expansion
  (`not can_expand`), its expandable properties in `prop_keys()` order (each with the list/single flag read from the
  return annotation *and* the run-time shape of the value), and the `_under_expand()` fallback list.
  The 2.6k lines of node definitions are inputs (the harness exports real trees); nothing of them is modelled.

  Handlers are arbitrary programs (`HProg`) that return, raise, or start a nested `exec` on the same procedure
  (optionally inside try/except); they cannot touch the stacks otherwise (name-mangled private state).
-/
import Tranp.Str

namespace Tranp.Procedure
open Tranp

abbrev Key := Str

/-- Exceptions leaving `Procedure.exec` (same strings as the harness' `exc` canonicaliser). -/
inductive Err where
  /-- `Errors.Logic(node, 'Stack is empty')` procedure.py:198 -/
  | logicStackEmpty
  /-- `Errors.Logic(root, len(stack), 'Invalid number of stacks')` procedure.py:92 -/
  | logicStacks (n : Nat)
  /-- `Errors.MustBeImplemented(node, 'Handler not defined')` procedure.py:134 -/
  | mustBeImplemented
  /-- `Errors.InvalidSchema(node, event)` procedure.py:167 (a TypeError inside the handler call) -/
  | invalidSchema
  /-- `Errors.Fatal(node, 'Unhandled error', e)` procedure.py:174 -/
  | fatal
  /-- raw `TypeError`: `len()` of a non-list value of a property annotated `list[...]` (procedure.py:191, outside every try) -/
  | typeError
  /-- raw `IndexError`: `self.__stacks[-1]` / `self.__stacks.pop()` on an empty stack-of-stacks (unreachable through `exec`) -/
  | indexError
  /-- the nesting budget of the model ran out (Python: `RecursionError`) -/
  | recursionError
  /-- any other `Errors.<name>` raised by a handler -/
  | tranp (name : Str)
  /-- any non-tranp `Exception` raised by a handler -/
  | other (name : Str)
deriving DecidableEq, Repr

def Err.toString : Err → String
  | .logicStackEmpty => "Errors.Logic:Stack is empty"
  | .logicStacks n => s!"Errors.Logic:Invalid number of stacks:{n}"
  | .mustBeImplemented => "Errors.MustBeImplemented"
  | .invalidSchema => "Errors.InvalidSchema"
  | .fatal => "Errors.Fatal"
  | .typeError => "TypeError"
  | .indexError => "IndexError"
  | .recursionError => "RecursionError"
  | .tranp n => "Errors." ++ String.ofList n
  | .other n => String.ofList n

/-- What `__emit` (procedure.py:164-174) turns an exception raised inside `emitter.emit(...)` into:
    TypeError → InvalidSchema; an `Errors.Error` keeps its class; everything else → Fatal. -/
def Err.wrap : Err → Err
  | .typeError => .invalidSchema
  | .indexError => .fatal
  | .recursionError => .fatal
  | .other _ => .fatal
  | e => e

mutual
/-- The procedure's view of a node. `id` is an opaque label (used by handlers / the driver only). -/
inductive PNode where
  | mk (id : Nat) (cls : Str) (terminal : Bool) (props : List PProp) (under : List PNode)
/-- One expandable property: key, `annList` = "the getter's return annotation is `list[...]`"
    (`__is_prop_list_by`, procedure.py:200-210), and the run-time value (`one` = a node, `many` = a Python list). -/
inductive PProp where
  | one (key : Key) (annList : Bool) (n : PNode)
  | many (key : Key) (annList : Bool) (ns : List PNode)
end

instance : Inhabited PNode := ⟨.mk 0 [] true [] []⟩

namespace PProp
def key : PProp → Key
  | one k _ _ => k
  | many k _ _ => k
def annList : PProp → Bool
  | one _ a _ => a
  | many _ a _ => a
/-- `isinstance(value, list)` (node.py:263) -/
def isMany : PProp → Bool
  | one .. => false
  | many .. => true
def nodes : PProp → List PNode
  | one _ _ n => [n]
  | many _ _ ns => ns
end PProp

namespace PNode
def id : PNode → Nat | mk i _ _ _ _ => i
def cls : PNode → Str | mk _ c _ _ _ => c
def terminal : PNode → Bool | mk _ _ t _ _ => t
def props : PNode → List PProp | mk _ _ _ p _ => p
def under : PNode → List PNode | mk _ _ _ _ u => u
end PNode

/-! ### node.py: flattening -/

/-- A Python dict built from `(key, value)` pairs in order: a repeated key keeps its first position.
    (`getattr(self, key)` is a function of the key, so the value of a repeated key is the first one's.) -/
def dedupKey {α : Type} : List (Key × α) → List (Key × α)
  | [] => []
  | (k, a) :: rest => (k, a) :: (dedupKey rest).filter (fun p => p.1 != k)

/-- `__prop_expand` (node.py:255-268) over `__prop_of_nodes` (node.py:270-276). -/
def propExpand (props : List PProp) : List PNode :=
  (dedupKey (props.map fun p => (p.key, p.nodes))).flatMap (·.2)

mutual
/-- `Node.procedural` (node.py:236-253): post-order flattening of what lies below the node (the node itself excluded). -/
def procedural : PNode → List PNode
  | .mk _ _ terminal props under =>
    if terminal then []                                                 -- node.py:249-250
    else if (propExpand props).isEmpty then proceduralList under        -- node.py:252 `… or self._under_expand()`
    else (dedupKey (proceduralProps props)).flatMap (·.2)              -- node.py:253 over the property nodes
/-- node.py:253 `flatten([[*node.procedural(), node] for node in under])` -/
def proceduralList : List PNode → List PNode
  | [] => []
  | c :: cs => procedural c ++ [c] ++ proceduralList cs
/-- per property (in `prop_keys()` order): the flattening of that property's nodes -/
def proceduralProps : List PProp → List (Key × List PNode)
  | [] => []
  | .one k _ n :: ps => (k, procedural n ++ [n]) :: proceduralProps ps
  | .many k _ ns :: ps => (k, proceduralList ns) :: proceduralProps ps
end

/-- The nodes processed by `exec root`, in processing order (procedure.py:84-85). -/
def visited (root : PNode) : List PNode := procedural root ++ [root]

/-! ### well-formedness of node definitions (the obligation C09 puts on `definition/*.py`) -/

/-- A node is well-formed for the procedure when flattening pushes exactly what event building pops.
    Each clause is necessary (`Tranp.C09.wf_necessary`). -/
def WFNode (n : PNode) : Prop :=
  -- a terminal node (never flattened) has no property that yields a node (its event would pop results of siblings);
  -- properties that yield empty lists are harmless
  (n.terminal = true → (n.props.flatMap PProp.nodes).isEmpty = true) ∧
  -- a node whose properties yield nothing also has nothing underneath (those results would never be popped)
  (n.terminal = false → (propExpand n.props).isEmpty = true → n.under.isEmpty = true) ∧
  -- a key that `prop_keys()` repeats yields nothing (the dict of `__prop_of_nodes` flattens it once, `__make_event`
  -- pops it once per repetition)
  (∀ p ∈ n.props, (n.props.map PProp.key).count p.key > 1 → p.nodes.isEmpty = true) ∧
  -- the return annotation says `list[...]` exactly when the value is a list
  (∀ p ∈ n.props, p.annList = p.isMany)

instance (n : PNode) : Decidable (WFNode n) := by unfold WFNode; infer_instance

/-- Every node the run visits is well-formed. -/
def WF (root : PNode) : Prop := ∀ m ∈ visited root, WFNode m

instance (root : PNode) : Decidable (WF root) := by unfold WF; infer_instance

/-- which clause of `WFNode` fails (driver / harness report) -/
def wfViolations (n : PNode) : List String :=
  (if n.terminal && !(n.props.flatMap PProp.nodes).isEmpty then ["terminal-with-props"] else []) ++
  (if !n.terminal && (propExpand n.props).isEmpty && !n.under.isEmpty then ["under-not-consumed"] else []) ++
  (if n.props.all (fun p => (n.props.map PProp.key).count p.key ≤ 1 || p.nodes.isEmpty) then [] else ["duplicate-key"]) ++
  (if n.props.all (fun p => p.annList == p.isMany) then [] else ["annotation-shape"])

/-! ### handlers -/

/-- value of one event entry: a single result or a list of results -/
inductive EvVal (R : Type) where
  | one (r : R)
  | many (rs : List R)
deriving Repr

def EvVal.flat {R : Type} : EvVal R → List R
  | .one r => [r]
  | .many rs => rs

/-- The keyword arguments of a handler call (without `node`), in dict order. -/
abbrev Event (R : Type) := List (Key × EvVal R)

def Event.flat {R : Type} (ev : Event R) : List R := ev.flatMap (·.2.flat)

/-- `event[prop_key] = v` on an insertion-ordered dict -/
def dictSet {R : Type} : Event R → Key → EvVal R → Event R
  | [], k, v => [(k, v)]
  | (k', v') :: rest, k, v => if k' = k then (k, v) :: rest else (k', v') :: dictSet rest k v

/-- the keyword-argument dict built from per-property values in the order `__make_event` inserts them
    (reversed `prop_keys()`; a repeated key keeps its first position and takes the later value) -/
def refEvent {R : Type} (evs : Event R) : Event R :=
  evs.reverse.foldl (fun acc kv => dictSet acc kv.1 kv.2) []

/-- What a handler does, as far as the procedure can tell. -/
inductive HProg (R : Type) where
  /-- return a result -/
  | ret (r : R)
  /-- raise -/
  | fail (e : Err)
  /-- `self.exec(root)` on the same procedure, then continue with its result (an exception propagates) -/
  | call (root : PNode) (k : R → HProg R)
  /-- the same inside `try … except`: the continuation also sees the exception -/
  | tryCall (root : PNode) (k : Except Err R → HProg R)

abbrev Handler (R : Type) := PNode → Event R → HProg R

/-- `Middleware` handler table: `on_<classification>` entries and the optional `on_fallback`. -/
structure Handlers (R : Type) where
  specific : Str → Option (Handler R)
  fallback : Option (Handler R)

/-- `__action` (procedure.py:128-134): the specific handler, else `on_fallback`, else none. -/
def Handlers.find {R : Type} (hs : Handlers R) (cls : Str) : Option (Handler R) :=
  match hs.specific cls with
  | some h => some h
  | none => hs.fallback

/-! ### procedure.py: the stack machine -/

/-- `self.__stacks`: head = newest frame (`self.__stacks[-1]`), inside a frame head = top. -/
abbrev St (R : Type) := List (List R)

section machine
variable {R : Type}

/-- `[self.__stack_pop() for _ in range(counts)]` (procedure.py:192): frame afterwards and the items in pop order;
    `none` = the `assert self.__stack` of `__stack_pop` failed (everything available has been popped by then). -/
def popN : Nat → List R → List R × Option (List R)
  | 0, fr => (fr, some [])
  | _ + 1, [] => ([], none)
  | k + 1, x :: fr =>
    match popN k fr with
    | (fr', some xs) => (fr', some (x :: xs))
    | (fr', none) => (fr', none)

/-- `getattr(node, key)`: the first property with that key -/
def lookupProp (props : List PProp) (k : Key) : Option PProp := props.find? (fun p => p.key == k)

/-- The loop of `__make_event` (procedure.py:189-194) over the keys still to do (already reversed). -/
def makeEventLoop (props : List PProp) : List PProp → List R → Event R → List R × Except Err (Event R)
  | [], fr, acc => (fr, .ok acc)
  | q :: qs, fr, acc =>
    -- annotation and value are read through the key (`getattr(node.__class__, key)`, `getattr(node, key)`)
    match (lookupProp props q.key).getD q with
    | .one _ annList _ =>
      if annList then (fr, .error .typeError)                          -- `len(node)` procedure.py:191
      else
        match fr with
        | [] => ([], .error .logicStackEmpty)                           -- procedure.py:197-198
        | x :: fr' => makeEventLoop props qs fr' (dictSet acc q.key (.one x))
    | .many _ annList ns =>
      if annList then
        match popN ns.length fr with
        | (fr', none) => (fr', .error .logicStackEmpty)
        | (fr', some xs) => makeEventLoop props qs fr' (dictSet acc q.key (.many xs.reverse))
      else
        match fr with
        | [] => ([], .error .logicStackEmpty)
        | x :: fr' => makeEventLoop props qs fr' (dictSet acc q.key (.one x))

/-- `__make_event` (procedure.py:176-198) on the current frame. -/
def makeEvent (n : PNode) (fr : List R) : List R × Except Err (Event R) :=
  makeEventLoop n.props n.props.reverse fr []

/-- Running a handler program: `__emit` (procedure.py:163-174) around `emitter.emit(action, node=node, **event)`.
    `nested` is `self.exec`. -/
def runProg (nested : St R → PNode → St R × Except Err R) : St R → HProg R → St R × Except Err R
  | st, .ret r => (st, .ok r)
  | st, .fail e => (st, .error e.wrap)
  | st, .call root k =>
    match nested st root with
    | (st', .ok r) => runProg nested st' (k r)
    | (st', .error e) => (st', .error e.wrap)
  | st, .tryCall root k =>
    match nested st root with
    | (st', res) => runProg nested st' (k res)

/-- `__process` → `__action` → `__run_action` (procedure.py:110-148) for one node. -/
def processNode (nested : St R → PNode → St R × Except Err R) (hs : Handlers R) (st : St R) (n : PNode) :
    St R × Except Err Unit :=
  match hs.find n.cls with
  | none => (st, .error .mustBeImplemented)                             -- procedure.py:134
  | some h =>
    match st with
    | [] => (st, .error .indexError)                                    -- procedure.py:143 `len(self.__stack)`
    | fr :: rest =>
      match makeEvent n fr with
      | (fr', .error e) => (fr' :: rest, .error e)
      | (fr', .ok ev) =>
        match runProg nested (fr' :: rest) (h n ev) with
        | (st2, .error e) => (st2, .error e)
        | (st2, .ok r) =>
          -- procedure.py:145-146 `self.__stack.append(result)`: the frame that is newest *now*
          match st2 with
          | [] => (st2, .error .indexError)
          | fr2 :: rest2 => ((r :: fr2) :: rest2, .ok ())

/-- the `for node in flatted` loop (procedure.py:87-88) -/
def run (nested : St R → PNode → St R × Except Err R) (hs : Handlers R) : St R → List PNode → St R × Except Err Unit
  | st, [] => (st, .ok ())
  | st, n :: ns =>
    match processNode nested hs st n with
    | (st', .ok ()) => run nested hs st' ns
    | (st', .error e) => (st', .error e)

/-- `__exec_impl` (procedure.py:72-92) with `__result` (99-108). -/
def execImpl (nested : St R → PNode → St R × Except Err R) (hs : Handlers R) (st : St R) (root : PNode) :
    St R × Except Err R :=
  match run nested hs st (visited root) with
  | (st1, .error e) => (st1, .error e)
  | (st1, .ok ()) =>
    match st1 with
    | [] => (st1, .error .indexError)
    | [r] :: rest => ([] :: rest, .ok r)                               -- `assert len == 1; return self.__stack.pop()`
    | fr :: _ => (st1, .error (.logicStacks fr.length))                 -- procedure.py:91-92

/-- `exec` (procedure.py:55-70). No `finally`: after an exception the pushed frame stays. -/
def execWith (nested : St R → PNode → St R × Except Err R) (hs : Handlers R) (st : St R) (root : PNode) :
    St R × Except Err R :=
  match execImpl nested hs ([] :: st) root with                        -- procedure.py:67
  | (st1, .error e) => (st1, .error e)
  | (st1, .ok r) =>
    match st1 with                                                      -- procedure.py:69 `self.__stacks.pop()`
    | [] => (st1, .error .indexError)
    | _ :: rest => (rest, .ok r)

/-- `exec` with a budget for the nesting depth of `exec` inside handlers (0 = Python's RecursionError). -/
def exec (hs : Handlers R) : Nat → St R → PNode → St R × Except Err R
  | 0 => fun st _ => (st, .error .recursionError)
  | fuel + 1 => execWith (exec hs fuel) hs

/-! ### what the run is supposed to compute (no stacks): the reference semantics -/

/-- a handler program when every nested run simply yields its value -/
def denoteProg (dn : PNode → Except Err R) : HProg R → Except Err R
  | .ret r => .ok r
  | .fail e => .error e.wrap
  | .call root k =>
    match dn root with
    | .ok r => denoteProg dn (k r)
    | .error e => .error e.wrap
  | .tryCall root k => denoteProg dn (k (dn root))

mutual
/-- the result of a node: its handler applied to the results of exactly its own property nodes -/
def denote (dn : PNode → Except Err R) (hs : Handlers R) : PNode → Except Err R
  | .mk id cls terminal props under =>
    match denoteProps dn hs props with
    | .error e => .error e
    | .ok evs =>
      match hs.find cls with
      | none => .error .mustBeImplemented
      | some h => denoteProg dn (h (.mk id cls terminal props under) (refEvent evs))
def denoteList (dn : PNode → Except Err R) (hs : Handlers R) : List PNode → Except Err (List R)
  | [] => .ok []
  | c :: cs =>
    match denote dn hs c with
    | .error e => .error e
    | .ok r =>
      match denoteList dn hs cs with
      | .error e => .error e
      | .ok rs => .ok (r :: rs)
/-- per property, in `prop_keys()` order: single value or list, source order kept -/
def denoteProps (dn : PNode → Except Err R) (hs : Handlers R) : List PProp → Except Err (Event R)
  | [] => .ok []
  | .one k _ n :: ps =>
    match denote dn hs n with
    | .error e => .error e
    | .ok r =>
      match denoteProps dn hs ps with
      | .error e => .error e
      | .ok evs => .ok ((k, .one r) :: evs)
  | .many k _ ns :: ps =>
    match denoteList dn hs ns with
    | .error e => .error e
    | .ok rs =>
      match denoteProps dn hs ps with
      | .error e => .error e
      | .ok evs => .ok ((k, .many rs) :: evs)
end

/-- the reference semantics with the same nesting budget as `exec` -/
def denoteF (hs : Handlers R) : Nat → PNode → Except Err R
  | 0 => fun _ => .error .recursionError
  | fuel + 1 => denote (denoteF hs fuel) hs

/-- the event a visited node's handler must receive (dict order = reversed `prop_keys()` order) -/
def eventOf (dn : PNode → Except Err R) (hs : Handlers R) (n : PNode) : Except Err (Event R) :=
  match denoteProps dn hs n.props with
  | .ok evs => .ok (refEvent evs)
  | .error e => .error e

end machine

/-! ### conditions on handler programs -/

/-- A handler program that never catches the exception of a nested run, and whose nested roots satisfy `P`. -/
inductive HProg.Good {R : Type} (P : PNode → Prop) : HProg R → Prop where
  | ret (r : R) : Good P (.ret r)
  | fail (e : Err) : Good P (.fail e)
  | call (root : PNode) (k : R → HProg R) : P root → (∀ r, Good P (k r)) → Good P (.call root k)

def Handlers.Good {R : Type} (P : PNode → Prop) (hs : Handlers R) : Prop :=
  ∀ cls h, hs.find cls = some h → ∀ n ev, (h n ev).Good P

/-- The weaker condition that allows catching: every nested root satisfies `P`. -/
inductive HProg.Roots {R : Type} (P : PNode → Prop) : HProg R → Prop where
  | ret (r : R) : Roots P (.ret r)
  | fail (e : Err) : Roots P (.fail e)
  | call (root : PNode) (k : R → HProg R) : P root → (∀ r, Roots P (k r)) → Roots P (.call root k)
  | tryCall (root : PNode) (k : Except Err R → HProg R) : P root → (∀ x, Roots P (k x)) → Roots P (.tryCall root k)

def Handlers.Roots {R : Type} (P : PNode → Prop) (hs : Handlers R) : Prop :=
  ∀ cls h, hs.find cls = some h → ∀ n ev, (h n ev).Roots P

end Tranp.Procedure
