/-
  Tranp.Model.DIPy — the small Python vocabulary the GENERATED method bodies of di.py are written in (property C19).

  `Generated/DIMethods.lean` (translator translate/gen_di_state.py) contains the bodies of the registry methods of `DI` and
  `LazyDI` translated statement by statement into `do` blocks of the monad `PyM` below: a method call on one container is
  a function of the receiver (and the instance counter) that returns the receiver afterwards and a value or an
  exception — mutations made before a `raise` stay, as in Python. `Props/C19.lean` proves these generated bodies equal to
  the hand-written functions of `Model/DI.lean`.
-/
import Tranp.Model.DI

namespace Tranp.DI

abbrev PySt := Cont × Nat

def PyM (α : Type) := PySt → PySt × Except Err α

namespace PyM

instance : Monad PyM where
  pure a := fun s => (s, .ok a)
  bind m f := fun s =>
    match m s with
    | (s', .ok a) => f a s'
    | (s', .error e) => (s', .error e)

/-- `raise E(...)` -/
def raise {α : Type} (e : Err) : PyM α := fun s => (s, .error e)

/-- the receiver as it is now -/
def self : PyM Cont := fun s => (s, .ok s.1)

def modify (f : Cont → Cont) : PyM Unit := fun s => ((f s.1, s.2), .ok ())

/-- a Python-level function that may raise -/
def liftE {α : Type} : Except Err α → PyM α
  | .ok a => pure a
  | .error e => raise e

/-- `d[k]` -/
def getItem {α : Type} (d : Dict α) (k : Nat) : PyM α :=
  match d.get? k with
  | some v => pure v
  | none => raise .keyError

/-- `del d[k]`: KeyError when absent -/
def checkDel {α : Type} (d : Dict α) (k : Nat) : PyM Unit :=
  if d.contains k then pure () else raise .keyError

/-- run a method call on a container -/
def run {α : Type} (m : PyM α) (c : Cont) (nx : Nat) : Cont × Nat × Except Err α :=
  match m (c, nx) with
  | ((c', nx'), r) => (c', nx', r)

/-- a model function of the shape `Cont → Nat → … → Res α` as an action -/
def ofRes {α : Type} (f : Cont → Nat → Cont × Nat × Except Err α) : PyM α :=
  fun s => match f s.1 s.2 with
    | (c', nx', r) => ((c', nx'), r)

end PyM

/-- dictionary keys: a class object (a subscripted generic `Gen[A]` is a key of its own, different from `Gen`), or a
    path string (identified with the id of the class it names, see Model/DI.lean) -/
class PyKey (α : Type) where
  key : α → Nat

def genericKeyBase : Nat := 1000000000

instance : PyKey SymRef := ⟨fun r => if r.generic then genericKeyBase + r.origin else r.origin⟩
instance : PyKey Nat := ⟨id⟩

/-- `getattr(symbol, '__origin__', symbol)` -/
def SymRef.originRef (r : SymRef) : SymRef := ⟨r.origin, false⟩

/-- `to_fullyname(symbol)` (module.py): `__module__` + `__name__`/`__qualname__`, which a subscripted generic takes from its origin -/
def SymRef.path (r : SymRef) : Nat := r.origin

/-- a factory handed to `__register` is a definition like a path string is -/
instance : Coe Factory Injector := ⟨.direct⟩

end Tranp.DI
