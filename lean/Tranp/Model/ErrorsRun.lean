/-
  Tranp.Model.ErrorsRun — second part of the C07 model: termination of the drivers, the transpile stage outside Procedure,
  and the whole `ErrorRender.render()`.

  Modelled code of /repo:
    * module/modules.py  Modules.load / __load_libraries / __load_dependencies (registration precedes the recursion) and
      Modules.unload / __dependent_paths (removal precedes the cascade)
    * semantics/procedure.py:83-90  the node loop of __exec_impl (step count)
    * implements/cpp/transpiler/py2cpp.py  Py2Cpp.transpile (= one Procedure.exec between a push and a pop, no except clause)
    * bin/transpile.py  Runner._run_impl (no except clause), `__main__` (`except Exception as e: print(ErrorRender(e))`)
    * view/error_render.py:23-54  ErrorRender.render / __build_stacktrace / __build_name
-/
import Tranp.Model.Errors

namespace Tranp.Errors
open Tranp Tranp.Generated.ErrorsTable

/-! ## Marking walks: Modules.unload and Modules.load -/

/-- A walk that takes an element out of the remaining set BEFORE it recurses into the elements `next` names
    (`next` may look at the remaining set). `none` = the fuel ran out. The trace lists the elements in the order they were taken.

    * `Modules.unload`: remaining = registered modules, taking = `loader.unload` + `del`, `next` = `__dependent_paths`.
    * `Modules.load` (no library modules pending): remaining = modules not yet registered, taking = `loader.load` + registration,
      `next` = the module's imports. -/
def visit {α : Type} [DecidableEq α] (next : List α → α → List α) : Nat → List α × List α → α → Option (List α × List α)
  | 0, _, _ => none
  | f + 1, (rem, trace), p =>
    if p ∈ rem then
      (next (rem.erase p) p).foldlM (fun st q => visit next f st q) (rem.erase p, trace ++ [p])
    else some (rem, trace)

/-- The seeded variant (seeded/C07-4): recurse into `next` first, take the element afterwards. -/
def visitCascadeFirst {α : Type} [DecidableEq α] (next : List α → α → List α) : Nat → List α × List α → α → Option (List α × List α)
  | 0, _, _ => none
  | f + 1, (rem, trace), p =>
    if p ∈ rem then
      match (next rem p).foldlM (fun st q => visitCascadeFirst next f st q) (rem, trace) with
      | some (rem', trace') => some (rem'.erase p, trace' ++ [p])
      | none => none
    else some (rem, trace)

/-- import graph: module ↦ the modules its import statements name -/
abbrev Graph := List (Str × List Str)

def Graph.imports (g : Graph) (p : Str) : List Str :=
  match g.find? (fun e => e.1 = p) with
  | some e => e.2
  | none => []

/-- modules.py `__dependent_paths`: registered modules that import `p`; a library module is depended on by every non-library module -/
def dependents (g : Graph) (libs : List Str) (registered : List Str) (p : Str) : List Str :=
  registered.filter (fun q => (g.imports q).contains p || (libs.contains p && !libs.contains q))

/-- modules.py `Modules.unload(p)`: remaining registry and the order of `loader.unload` calls -/
def unloadFuel (g : Graph) (libs : List Str) (fuel : Nat) (registered : List Str) (p : Str) : Option (List Str × List Str) :=
  visit (dependents g libs) fuel (registered, []) p

/-- `Modules.unload` of the current tree: without the cascade (generated flag `modulesUnloadCascades`, false on the pinned tree)
    only the module itself is removed -/
def unloadCurrent (g : Graph) (libs : List Str) (fuel : Nat) (registered : List Str) (p : Str) : Option (List Str × List Str) :=
  if modulesUnloadCascades then unloadFuel g libs fuel registered p else visit (fun _ _ => []) fuel (registered, []) p

/-- modules.py `Modules.load(p)` as a walk over the modules that are not registered yet (library modules all registered or none configured) -/
def loadWalkFuel (g : Graph) (fuel : Nat) (unregistered : List Str) (p : Str) : Option (List Str × List Str) :=
  visit (fun _ q => g.imports q) fuel (unregistered, []) p

/-- modules.py `Modules.load(p)` with library modules: a non-library module first loads every library (while it is itself still
    unregistered), looks itself up again, registers, then loads its imports. Returns the registry and the order of `loader.load` calls. -/
def loadFuel (g : Graph) (libs : List Str) (recheck : Bool := true) : Nat → List Str × List Str → Str → Option (List Str × List Str)
  | 0, (reg, trace), p => if p ∈ reg then some (reg, trace) else none
  | f + 1, (reg, trace), p =>
    if p ∈ reg then some (reg, trace) else
    match (if libs.contains p then some (reg, trace) else libs.foldlM (fun st l => loadFuel g libs recheck f st l) (reg, trace)) with
    | none => none
    | some (reg1, trace1) =>
      if recheck && decide (p ∈ reg1) then some (reg1, trace1) else   -- the re-check of f3f812f (generated flag `modulesLoadRechecks`)
      (g.imports p).foldlM (fun st q => loadFuel g libs recheck f st q) (reg1 ++ [p], trace1 ++ [p])

/-! ## Procedure: number of handler calls -/

/-- `runNodes` with a step counter: how many nodes `__exec_impl` handed to `__process` -/
def runNodesSteps : Nat → List NodeEv → Nat
  | _, [] => 0
  | h, ev :: evs => match runNode h ev with
    | .ok h' => 1 + runNodesSteps h' evs
    | .error _ => 1

/-! ## The transpile stage -/

/-- py2cpp.py `Py2Cpp.transpile`: push a dependency frame, `self.__procedure.exec(node)`, pop — no except clause -/
def pyTranspile (procedural : Except Exc Unit) (evs : List NodeEv) : Except Exc Unit :=
  execImpl procedural evs

/-- one target of `Runner._run_impl`: `modules.load(...)`, `transpiler.transpile(...)`, `Writer.put/flush` — no except clause -/
structure Target where
  load : Except Exc Unit
  transpile : Except Exc Unit
  write : Except Exc Unit

/-- bin/transpile.py `Runner._run_impl`: the targets in order; the first exception ends the run. Number of targets written. -/
def runnerRun : List Target → Except Exc Nat
  | [] => .ok 0
  | t :: ts =>
    match t.load with
    | .error x => .error x
    | .ok _ => match t.transpile with
      | .error x => .error x
      | .ok _ => match t.write with
        | .error x => .error x
        | .ok _ => match runnerRun ts with
          | .error x => .error x
          | .ok n => .ok (n + 1)

inductive MainEnd where
  | done (written : Nat)        -- all targets written
  | reported (x : Exc)          -- `print(ErrorRender(e))` succeeded
  | crashed (x : Exc)           -- an exception left the process (traceback)

/-- bin/transpile.py `__main__`: `try: App(...).run(...) except Exception as e: print(ErrorRender(e))` (`mainCatch` generated) -/
def mainRun (targets : List Target) (render : Exc → Except Exc Unit) : MainEnd :=
  match runnerRun targets with
  | .ok n => .done n
  | .error x =>
    if catchesAny mainCatch x then
      match render x with
      | .ok _ => .reported x
      | .error y => .crashed y
    else .crashed x

/-! ## ErrorRender.render -/

/-- Python `str.strip()` whitespace -/
def pyIsSpace (c : Char) : Bool :=
  c = ' ' || (9 ≤ c.toNat && c.toNat ≤ 13) || (28 ≤ c.toNat && c.toNat ≤ 31) || c.toNat = 0x85 || c.toNat = 0xa0 || c.toNat = 0x1680 ||
  (0x2000 ≤ c.toNat && c.toNat ≤ 0x200a) || c.toNat = 0x2028 || c.toNat = 0x2029 || c.toNat = 0x202f || c.toNat = 0x205f || c.toNat = 0x3000

def pyStrip (s : Str) : Str := Str.stripBy pyIsSpace s

/-- `s.replace(old, '')` for a non-empty `old` -/
def removeAll (old : Str) : Nat → Str → Str
  | 0, s => s
  | _, [] => []
  | f + 1, c :: cs =>
    if old ≠ [] ∧ Str.startsWith (c :: cs) old then removeAll old f ((c :: cs).drop old.length)
    else c :: removeAll old f cs

/-- `traces[i].split('\n')[1].strip()` -/
def secondLine (traces : List Str) (i : Int) : Except Exc Str :=
  match pyIndex traces i with
  | .error x => .error x
  | .ok t => match pyIndex (Str.splitOn '\n' t) 1 with
    | .error x => .error x
    | .ok l => .ok (pyStrip l)

/-- one entry of `traceback.format_exception(...)` together with what the frame regexp finds in it
    (`File "<path>", line <n>, in <func>`: the regexp engine is CPython's, its result is an input of the model) -/
structure TraceEntry where
  text : Str
  frame : Option (Str × Str × Str)

/-- error_render.py:37-50 the loop body for entry `index` -/
def stackEntry (rootDir : Str) (traces : List Str) (index : Nat) (e : TraceEntry) : Except Exc (List Str) :=
  if index > 0 ∧ Str.startsWith e.text ['T', 'r', 'a', 'c', 'e', 'b', 'a', 'c', 'k'] then
    match secondLine traces ((index : Int) - 3) with
    | .error x => .error x
    | .ok w => match pyIndex traces ((index : Int) - 2) with
      | .error x => .error x
      | .ok t => .ok [[' ', ' ', ' ', ' ', '>', '>', '>', ' '] ++ w, [' ', ' '] ++ pyStrip t]
  else
    match e.frame with
    | none => .ok []
    | some (path, lineNo, func) => .ok [[' ', ' '] ++ removeAll rootDir path.length path ++ [':'] ++ lineNo ++ [' '] ++ func]

def stackLoop (rootDir : Str) (traces : List Str) : Nat → List TraceEntry → Except Exc (List Str)
  | _, [] => .ok []
  | i, e :: es => match stackEntry rootDir traces i e with
    | .error x => .error x
    | .ok ls => match stackLoop rootDir traces (i + 1) es with
      | .error x => .error x
      | .ok rest => .ok (ls ++ rest)

/-- error_render.py:31-54 `__build_stacktrace` -/
def buildStacktrace (rootDir : Str) (entries : List TraceEntry) : Except Exc (List Str) :=
  let traces := entries.map (·.text)
  match stackLoop rootDir traces 0 entries with
  | .error x => .error x
  | .ok ls => match secondLine traces (-2) with
    | .error x => .error x
    | .ok last => .ok ([['S', 't', 'a', 'c', 'k', 't', 'r', 'a', 'c', 'e', ':']] ++ ls ++ [[' ', ' ', ' ', ' ', '>', '>', '>', ' '] ++ last])

/-- error_render.py:23-29 `render()`: stacktrace, quotation, name, message — in this order; the first failure leaves -/
def renderWith (fallback : Bool) (rootDir : Str) (entries : List TraceEntry) (quotation : Except Exc (List Str)) (name : Str) (args : List Arg) : Except Exc Str :=
  match buildStacktrace rootDir entries with
  | .error x => .error x
  | .ok traces => match quotation with
    | .error x => .error x
    | .ok q => match buildMessageWith fallback args with
      | .error x => .error x
      | .ok m => .ok (Str.join ['\n'] (traces ++ q) ++ ['\n'] ++ name ++ [':', ' '] ++ m)

/-! ## One turn of the interactive loop -/

/-- bin/transpile.py `Interactive.rebuild_module` + the transpile call (:420-421): `modules.unload(main)`, `modules.load(main)`,
    `transpiler.transpile(entrypoint)` — the first failure is the turn's outcome. Only `load` runs under `Modules.load`'s clauses. -/
def interactiveTurn (unload load transpile : Except Exc Unit) : Except Exc Unit :=
  match unload with
  | .error x => .error x
  | .ok _ => match load with
    | .error x => .error x
    | .ok _ => transpile

/-! ## Normalising sites and the audit of every except clause -/

def Atom.all : List Atom := ErrName.all.map .err ++ Builtin.all.map .bi

/-- an except clause whose outcome is always a member of the hierarchy: it wraps into `Errors.<n>`, or it only catches members
    of the hierarchy and hands the same class on (`renode` / bare `raise`) -/
def handlerSafe (h : Handler) : Bool :=
  match h.action with
  | .wrap _ _ => true
  | .renode => h.catches.isA (.err .Error)
  | .reraise => h.catches.isA (.err .Error)

/-- the clauses of a try statement convert EVERY `Exception`: each clause up to and including one that catches `Exception` itself is safe -/
def coversException : List Handler → Bool
  | [] => false
  | h :: hs => handlerSafe h && (h.catches == .bi .Exception || coversException hs)

/-- … and every clause wraps into the class `n` (the parser's `Errors.Syntax`) -/
def wrapsAllInto (n : ErrName) (hs : List Handler) : Bool :=
  hs.all (fun h => match h.action with | .wrap m _ => m == n | _ => false)

/-- shape of a clause: caught class and disposition (the model's tables vs the audit table) -/
def Handler.shape (h : Handler) : Atom × Disposition :=
  (h.catches, match h.action with | .wrap n _ => .wrap n | .renode => .renode | .reraise => .reraise)

def auditShapes (s : Site) (tryNo : Nat) : List (Atom × Disposition) :=
  (exceptAudit.filter (fun c => c.site == s && c.tryNo == tryNo)).filterMap (fun c => match c.catches with | [a] => some (a, c.disp) | _ => none)

/-- the exception does not leave the clause -/
def swallows : Disposition → Bool
  | .print | .pass | .value | .retry => true
  | _ => false

/-! ## Writer.flush (file/writer.py) -/

/-- the classes `Writer.flush` retries on: the clause(s) of the audit at that site with the disposition `retry` -/
def writerRetryCatch : List Atom :=
  (auditShapes .file_writer_Writer_flush 0).filterMap (fun ad => if ad.2 = .retry then some ad.1 else none)

/-- file/writer.py:24-37 `flush`: create the directory, `_flush`; on a caught class sleep 0.1 s and `_flush` once more (no second clause:
    whatever the second attempt raises leaves) -/
def writerFlush (mkdir first second : Except Exc Unit) : Except Exc Unit :=
  match mkdir with
  | .error x => .error x
  | .ok _ =>
    match first with
    | .ok _ => .ok ()
    | .error x => if catchesAny writerRetryCatch x then second else .error x

end Tranp.Errors
