/-
  Table-driven readings of the control flow of three tokenizer functions, interpreted over shapes that
  verif/translate/gen_lexer_shape.py extracts from the source text of rogw/tranp/implements/syntax/tranp/tokenizer.py on
  every run (`Generated/LexerShape.lean`):

    * `Lexer.parse_symbol`      — the `for i in range(n)` window loop: width of each window, what the "window does not fit"
                                  guard and the "not a combined symbol" guard do (`continue` / `break`);
    * `Tokenizer.handle_white_space` — per branch (EOF, deeper, shallower, same): how far the index advances, what
                                  `context.nest` becomes, and the emitted token list incl. the DEDENT multiplier;
    * `Tokenizer.handle_symbol` — the bracket types that raise / lower `context.enclosure`.

  `Props/C13.lean` proves the hand-written model functions of `Model/Lexer.lean` equal to these interpreters on the generated
  shapes (`shape_parse_symbol`, `shape_handle_white_space`, `shape_handle_symbol`): a change of the code's control flow
  changes the generated shape and the equality stops building (or the translator refuses an unknown shape).
-/
import Tranp.Model.Lexer

namespace Tranp.Lexer

/-! ### `parse_symbol` -/

/-- what a guard inside the `for` loop does when it fires -/
inductive LoopExit where
  | next   -- `continue`
  | stop   -- `break`
deriving DecidableEq, Repr

/-- one round of `for i in range(n)`: `end = begin + width`, the fit guard, the table guard -/
structure SymWindow where
  width : Nat
  misfit : LoopExit
  notFound : LoopExit
deriving DecidableEq, Repr

/-- the loop over the windows; `none` = fell out of the loop (or left it by `break`) without returning -/
def scanWindows (d : TokenDef) (src : Str) (b : Nat) : List SymWindow → Except Err (Option (Nat × Token))
  | [] => .ok none
  | w :: ws =>
    let e := b + w.width
    if e - 1 ≥ src.length then
      match w.misfit with
      | .next => scanWindows d src b ws
      | .stop => .ok none
    else
      let value := slice src b e
      match indexOf? value d.combinedSymbols with
      | none =>
        match w.notFound with
        | .next => scanWindows d src b ws
        | .stop => .ok none
      | some off => do
        let ty ← typeOf d (T.beginCombine + off)
        pure (some (e, ⟨ty, value, mkMap src b e⟩))

/-- the code after the loop (tokenizer.py:393-402): one character, the unary-minus marking -/
def singleSymbol (d : TokenDef) (src : Str) (b : Nat) : Except Err (Nat × Token) := do
  let value ← charAt src b
  match indexOf? value d.symbol with
  | none => .error .valueError
  | some off =>
    let ty ← typeOf d (Dom.symbol * 16 + off)
    let e := b + 1
    if ty = T.minus then
      if e < src.length then
        let ws ← charIn d.whiteSpace src e
        if !ws then pure (e, Token.opUnaryMinus (mkMap src b e))
        else pure (e, ⟨ty, [value], mkMap src b e⟩)
      else pure (e, ⟨ty, [value], mkMap src b e⟩)
    else pure (e, ⟨ty, [value], mkMap src b e⟩)

/-- `parse_symbol` read through a window table -/
def parseSymbolBy (ws : List SymWindow) (d : TokenDef) (src : Str) (b : Nat) : Except Err (Nat × Token) := do
  match ← scanWindows d src b ws with
  | some r => pure r
  | none => singleSymbol d src b

/-! ### `handle_white_space` -/

/-- a repetition count written in the code -/
inductive Count where
  | one    -- the element itself
  | nest   -- `* context.nest`
  | diff   -- `* (context.nest - next_nest)`
deriving DecidableEq, Repr

/-- one element of a returned token list -/
inductive Emit where
  | newLine            -- `token.to_new_line()`
  | indent             -- `token.to_indent()`
  | dedent (k : Count) -- `token.to_dedent()` / `*([token.to_dedent()] * k)`
deriving DecidableEq, Repr

/-- `begin + 1` / `begin + len(token.string)` -/
inductive Adv where
  | one | strLen
deriving DecidableEq, Repr

/-- the assignment to `context.nest` in a branch -/
inductive NestSet where
  | keep | zero | next
deriving DecidableEq, Repr

structure WsBranch where
  adv : Adv
  setNest : NestSet
  emit : List Emit
deriving DecidableEq, Repr

/-- the four emitting branches of `handle_white_space` -/
structure WsShape where
  eof : WsBranch
  deeper : WsBranch
  shallower : WsBranch
  same : WsBranch
deriving DecidableEq, Repr

/-- counts are evaluated on the context BEFORE the branch assigns `context.nest` (the translator checks that order) -/
def Count.eval (c : Ctx) (next : Nat) : Count → Nat
  | .one => 1
  | .nest => c.nest
  | .diff => c.nest - next

def emitOne (t : Token) (c : Ctx) (next : Nat) : Emit → Except Err (List Token)
  | .newLine => do let x ← t.toNewLine; pure [x]
  | .indent => do let x ← t.toIndent; pure [x]
  | .dedent k => do let x ← t.toDedent; pure (List.replicate (k.eval c next) x)

def emitAll (t : Token) (c : Ctx) (next : Nat) : List Emit → Except Err (List Token)
  | [] => pure []
  | e :: es => do
    let a ← emitOne t c next e
    let r ← emitAll t c next es
    pure (a ++ r)

def runBranch (br : WsBranch) (c : Ctx) (next : Nat) (t : Token) : Except Err (Nat × Ctx × List Token) := do
  let out ← emitAll t c next br.emit
  pure (match br.adv with | .one => 1 | .strLen => t.string.length,
        match br.setNest with | .keep => c | .zero => { c with nest := 0 } | .next => { c with nest := next },
        out)

/-- `handle_white_space` read through a branch table (guards as in the code, tokenizer.py:527-552) -/
def handleWhiteSpaceBy (sh : WsShape) (c : Ctx) (t : Token) : Except Err (Nat × Ctx × List Token) :=
  if c.enclosure > 0 then .ok (1, c, [])
  else if t.type = T.whiteSpace then .ok (1, c, [])
  else if t.type = T.eof then runBranch sh.eof c 0 t
  else if t.type ≠ T.lineBreak then .error .assertionError
  else
    let indent := lastLineLen t.string
    let (c, next) := c.toNest indent
    if c.nest < next then runBranch sh.deeper c next t
    else if c.nest > next then runBranch sh.shallower c next t
    else runBranch sh.same c next t

/-! ### `handle_symbol` -/

/-- `handle_symbol` read through the two type lists -/
def handleSymbolBy (opens closes : List Nat) (c : Ctx) (t : Token) : Ctx :=
  if opens.contains t.type then { c with enclosure := c.enclosure + 1 }
  else if closes.contains t.type then { c with enclosure := c.enclosure - 1 }
  else c

end Tranp.Lexer
