/-
  Tranp.Model.Classify — which node class a tree position gets (property C02).

  Modelled code (rog-works/tranp):
    rogw/tranp/providers/syntax/resolver.py:6-130      ordered tag → classes table (→ Generated/ResolverTable.lean)
    rogw/tranp/syntax/ast/resolver.py:36-40,89-103     Resolver.load / resolve (registration order, fallback class)
    rogw/tranp/syntax/node/resolver.py:33-55           NodeResolver.resolve: first class whose match_feature accepts
    rogw/tranp/syntax/node/definition/statement_compound.py:488-582,723-733   _in_class_block, ClassMethod/Constructor/Method/Closure/Enum (as of e2c3e47)
    rogw/tranp/syntax/node/definition/primary.py:50-54,86-187,222-231,253-307,378-446,543-548,700-879
                                                        ArgumentLabel, Decl*, TypesName, ImportName, Relay, ClassRef, ThisRef,
                                                        ImportPath, DecoratorPath, ListType/DictType/CallableType/CustomType, Super,
                                                        DeclableMatcher
    rogw/tranp/syntax/node/definition/literal.py:29-49,73-78   Integer/Float (Terminal.match_terminal), DocString
    rogw/tranp/syntax/node/node.py:452-474              Node.match_feature (default: True)

  A position is an abstract path (`AstPath.Path`, C10) below the root; `tagsOf` are the de-identified elements of the
  tranp full path (root tag first). The decision logic of the multi-class tags `function_def`, `name`, `var` is
  factored through small feature records (`FuncFeat`, `NameFeat`) so that Props/C02.lean can state it for all inputs.
-/
import Tranp.Str
import Tranp.Model.AstPath
import Tranp.Generated.DeclMatchers

namespace Tranp.Classify
open Tranp Tranp.AstPath

inductive CErr where
  | nodeNotFound | indexError | illegalConvertion | unresolvedNode | unmodelled
deriving DecidableEq, Repr

def CErr.toString : CErr → String
  | .nodeNotFound => "Errors.NodeNotFound"
  | .indexError => "IndexError"
  | .illegalConvertion => "Errors.IllegalConvertion"
  | .unresolvedNode => "Errors.UnresolvedNode"
  | .unmodelled => "unmodelled"

/-- `c!"abc"` = `['a','b','c']` (a literal the kernel can compute with, unlike `"abc".toList`) -/
scoped macro:max "c!" lit:str : term => do
  let elems := lit.getString.toList.toArray.map fun ch => Lean.Syntax.mkCharLit ch
  `(([$elems,*] : List Char))

/-! ## tree access -/

mutual
/-- `Nodes.values(path)`: non-empty token values below (and at) an entry, document order (`query.py:198-209`) -/
def values : Entry → List Str
  | .tree _ cs => valuesList cs
  | .token _ v => if v.isEmpty then [] else [v]
  | .empty => []
def valuesList : List Entry → List Str
  | [] => []
  | c :: cs => values c ++ valuesList cs
end

/-- `Node.tokens` (`node.py:169-171`) -/
def tokens (e : Entry) : Str := Str.join ['.'] (values e)

/-- the child addressed by a bare tag: it exists under that path element iff the tag is unique among the siblings
    (`finder.py:127-133`) -/
def childByTag (e : Entry) (tag : Str) : Option Entry :=
  if countTag tag e.children == 1 then e.children.find? (fun c => c.name == tag) else none

/-- `_by('a.b')` from an entry -/
def byTags : Entry → List Str → Except CErr Entry
  | e, [] => .ok e
  | e, t :: ts => match childByTag e t with
    | some c => byTags c ts
    | none => .error .nodeNotFound

def existsTags (e : Entry) (ts : List Str) : Bool :=
  match byTags e ts with
  | .ok _ => true
  | .error _ => false

/-! ## path helpers -/

/-- de-identified elements of the full path: root tag first, own tag last -/
def tagsOf (root : Entry) (p : Path) : List Str := root.name :: p.map (·.tag)

/-- `elems[-k]` (k ≥ 1); `none` = IndexError -/
def fromEnd (xs : List Str) (k : Nat) : Option Str := if k = 0 ∨ xs.length < k then none else xs[xs.length - k]?

/-- `EntryPath.parent_tag`: `shift(-1).last[0]`; IndexError on a one-element path (`path.py`) -/
def parentTag (tags : List Str) : Except CErr Str :=
  match fromEnd tags 2 with
  | some t => .ok t
  | none => .error .indexError

/-- `last_index_of(elems, x)` (`lang/sequence.py`): -1 when absent -/
def lastIndexOf (xs : List Str) (x : Str) : Int :=
  match (xs.reverse.findIdx? (· == x)) with
  | some i => (xs.length - 1 - i : Nat)
  | none => -1

/-- own path element carries index 0 or none (`via_full_path.last[1] in [0, -1]`) -/
def isReceiver (p : Path) : Bool :=
  match p.getLast? with
  | some el => el.idx == none || el.idx == some 0
  | none => true

/-! ## decision logic on feature records -/

/-- what `function_def`'s candidates look at -/
structure FuncFeat where
  decorators : List Str        -- `path.tokens` of each decorator, in order
  name : Str                   -- `function_def_raw.name`
  firstParam : Option Str      -- symbol of the first parameter, `none` = no parameters
  tags : List Str              -- de-identified path elements (root … `function_def`)
deriving DecidableEq, Repr

inductive FuncClass where
  | classMethod | constructor | method | closure | function
deriving DecidableEq, Repr

def FuncClass.name : FuncClass → Str
  | .classMethod => c!"ClassMethod"
  | .constructor => c!"Constructor"
  | .method => c!"Method"
  | .closure => c!"Closure"
  | .function => c!"Function"

/-- `ClassMethod.match_feature` (`statement_compound.py:499-502`, after fix e2c3e47): `classmethod` anywhere in the decorator list -/
def isClassMethod (f : FuncFeat) : Bool := f.decorators.contains c!"classmethod"
/-- `Function._in_class_block` (`statement_compound.py:488-492`): the path ends `class_def_raw . block . function_def` -/
def inClassBlock (f : FuncFeat) : Bool := fromEnd f.tags 3 == some c!"class_def_raw"
/-- `Constructor.match_feature` (`statement_compound.py:521-523`) -/
def isConstructor (f : FuncFeat) : Bool := inClassBlock f && f.name == c!"__init__"
/-- `Method.match_feature` (`statement_compound.py:542-555`) -/
def isMethod (f : FuncFeat) : Bool := inClassBlock f && (f.name != c!"__init__" && f.firstParam == some c!"self")
/-- `Closure.match_feature` (`statement_compound.py:578-582`) -/
def isClosure (f : FuncFeat) : Bool :=
  let isFunction := !f.tags.contains (c!"class_def_raw") && !f.tags.contains (c!"function_def_raw")
  let isMethod := !isFunction && fromEnd f.tags 3 == some (c!"class_def_raw")
  !isFunction && !isMethod

/-- first accepting candidate in the registered order ClassMethod, Constructor, Method, Closure, Function -/
def funcClass (f : FuncFeat) : FuncClass :=
  if isClassMethod f then .classMethod
  else if isConstructor f then .constructor
  else if isMethod f then .method
  else if isClosure f then .closure
  else .function

/-- what the candidates of `name` / `var` look at -/
structure NameFeat where
  tags : List Str              -- de-identified path elements, own tag last
  tokens : Str
  receiver : Bool              -- own path element has index 0 or none
deriving DecidableEq, Repr

def NameFeat.parentTag (f : NameFeat) : Option Str := fromEnd f.tags 2
def NameFeat.lastTag (f : NameFeat) : Option Str := fromEnd f.tags 1

/-- the string constants of `DeclableMatcher` are generated (`Generated/DeclMatchers.lean`, translate/gen_decl_matchers.py, which
    also pins the logic of every method by the digest of its skeleton); the predicates below are that logic over them -/
def isClassOrThis (t : Str) : Bool := Generated.DeclMatchers.localExcluded.contains t

/-- `[a, b]` are the last two elements of `parents` -/
def endsWith2 (parents : List Str) (a b : Str) : Bool := fromEnd parents 2 == some a && fromEnd parents 1 == some b

/-- `DeclableMatcher.is_decl_local_var` (`primary.py`) -/
def isDeclLocalVar (f : NameFeat) : Bool :=
  let byNameOnly := Generated.DeclMatchers.nameOnlyParents.any (fun t => f.parentTag == some t)
  if byNameOnly && f.lastTag == some Generated.DeclMatchers.nameTag then true
  else
    -- `de_identify().shift(-1).elements[-2:]`
    let parents := f.tags.dropLast
    let inDeclVar := Generated.DeclMatchers.localAssigns.any (fun a => endsWith2 parents a Generated.DeclMatchers.localNamelist)
    inDeclVar && !isClassOrThis f.tokens && dsnElemCounts f.tokens == 1

def isParamClass (f : NameFeat) : Bool := f.parentTag == some Generated.DeclMatchers.paramParent && f.tokens == Generated.DeclMatchers.clsWord
def isParamThis (f : NameFeat) : Bool := f.parentTag == some Generated.DeclMatchers.paramParent && f.tokens == Generated.DeclMatchers.selfParamWord
def isParam (f : NameFeat) : Bool :=
  f.parentTag == some Generated.DeclMatchers.paramParent && !(f.tokens == Generated.DeclMatchers.clsWord || f.tokens == Generated.DeclMatchers.selfParamWord)
def inDeclClassType (f : NameFeat) : Bool := Generated.DeclMatchers.classTypeParents.any (fun t => f.parentTag == some t)
def inDeclImport (f : NameFeat) : Bool := f.parentTag == some Generated.DeclMatchers.importParent
def isArgumentLabel (f : NameFeat) : Bool := f.parentTag == some (c!"argvalue")

/-- `DeclableMatcher.is_decl_class_var` (`endswith` on the joined parent path = its last two tags) -/
def isDeclClassVar (f : NameFeat) : Bool :=
  let parents := f.tags.dropLast
  Generated.DeclMatchers.classVarParents.any fun pat => match pat with
    | [a, b] => endsWith2 parents a b
    | _ => false

/-- `DeclableMatcher.is_decl_this_var_forward` -/
def isDeclThisVarForward (f : NameFeat) : Bool :=
  match fromEnd f.tags 5 with
  | none => false
  | some t5 =>
    if !Str.startsWith t5 Generated.DeclMatchers.forwardScope then false
    else
      let actual := lastIndexOf f.tags Generated.DeclMatchers.forwardScope
      let expect : Int := (f.tags.length - 5 : Nat)
      let inDeclVar := fromEnd f.tags 3 == some Generated.DeclMatchers.forwardAssign && fromEnd f.tags 2 == some Generated.DeclMatchers.forwardNamelist
      inDeclVar && actual == expect && dsnElemCounts f.tokens == 1 && f.receiver

/-- `DeclableMatcher.in_decl_alt_class_type` -/
def inDeclAltClassType (f : NameFeat) : Bool :=
  if f.parentTag != some Generated.DeclMatchers.altNamelist then false
  else
    let expect : Int := (f.tags.length : Int) - 3
    Generated.DeclMatchers.altAssigns.any fun t => lastIndexOf f.tags t == expect

inductive NameClass where
  | argumentLabel | declClassParam | declThisParam | declParam | declLocalVar | typesName | importName
  | declClassVar | declThisVarForward | altTypesName | classRef | thisRef | var
deriving DecidableEq, Repr

def NameClass.name : NameClass → Str
  | .argumentLabel => c!"ArgumentLabel"
  | .declClassParam => c!"DeclClassParam"
  | .declThisParam => c!"DeclThisParam"
  | .declParam => c!"DeclParam"
  | .declLocalVar => c!"DeclLocalVar"
  | .typesName => c!"TypesName"
  | .importName => c!"ImportName"
  | .declClassVar => c!"DeclClassVar"
  | .declThisVarForward => c!"DeclThisVarForward"
  | .altTypesName => c!"AltTypesName"
  | .classRef => c!"ClassRef"
  | .thisRef => c!"ThisRef"
  | .var => c!"Var"

/-- tag `name`: ArgumentLabel, DeclClassParam, DeclThisParam, DeclParam, DeclLocalVar, TypesName, ImportName, Var -/
def nameClass (f : NameFeat) : NameClass :=
  if isArgumentLabel f then .argumentLabel
  else if isParamClass f then .declClassParam
  else if isParamThis f then .declThisParam
  else if isParam f then .declParam
  else if isDeclLocalVar f then .declLocalVar
  else if inDeclClassType f then .typesName
  else if inDeclImport f then .importName
  else .var

/-- tag `var`: DeclClassVar, DeclThisVarForward, DeclLocalVar, AltTypesName, ClassRef, ThisRef, Var -/
def varClass (f : NameFeat) : NameClass :=
  if isDeclClassVar f then .declClassVar
  else if isDeclThisVarForward f then .declThisVarForward
  else if isDeclLocalVar f then .declLocalVar
  else if inDeclAltClassType f then .altTypesName
  else if f.tokens == c!"cls" then .classRef
  else if f.tokens == c!"self" then .thisRef
  else .var

/-! ## feature extraction and the remaining `match_feature`s -/

/-- `decorators[i].as_a(Decorator).path.tokens` -/
def decoratorTokens (d : Entry) : Except CErr Str :=
  if d.name != c!"decorator" then .error .illegalConvertion
  else (byTags d [c!"dotted_name"]).map tokens

def funcFeat (root : Entry) (p : Path) (e : Entry) : Except CErr FuncFeat := do
  let decos ← match childByTag e (c!"decorators") with
    | some d => d.children.mapM decoratorTokens
    | none => pure []
  let name ← byTags e [c!"function_def_raw", c!"name"]
  let first ← match byTags e [c!"function_def_raw", c!"parameters"] with
    | .ok ps => match ps.children.head? with
      | some param => (byTags param [c!"typedparam", c!"name"]).map fun n => some (tokens n)
      | none => pure none
    | .error _ => pure none
  pure ⟨decos, tokens name, first, tagsOf root p⟩

def nameFeat (root : Entry) (p : Path) (e : Entry) : NameFeat := ⟨tagsOf root p, tokens e, isReceiver p⟩

def typeTags : List Str :=
  [c!"typed_getattr", c!"typed_var", c!"typed_literal", c!"typed_getitem", c!"typed_dict", c!"typed_or_expr", c!"typed_none"]

/-- `Enum.match_feature` (`statement_compound.py:726-733`) -/
def isEnum (e : Entry) : Except CErr Bool :=
  match byTags e [c!"class_def_raw", c!"inherit_arguments"] with
  | .error _ => .ok false
  | .ok ia => do
    let toks ← (ia.children.filter (fun c => c.name == c!"typed_argvalue")).mapM fun inh =>
      match inh.children.head? with
      | none => Except.error CErr.nodeNotFound
      | some t => if typeTags.contains t.name then .ok (tokens t) else .error .illegalConvertion
    pure (toks.contains (c!"Enum"))

/-- `DeclableMatcher.is_decl_this_var` (`primary.py:745-768`, after fix 4e765ba: the receiver is `self`, `DSN.root(tokens) == 'self'`) -/
def isDeclThisVar (root : Entry) (p : Path) (e : Entry) : Except CErr Bool :=
  let tags := tagsOf root p
  match fromEnd tags 5 with
  | none => .ok false
  | some t5 =>
    if !Str.startsWith t5 Generated.DeclMatchers.thisScope then .ok false
    else
      -- `via_full_path.shift(-5).joined('function_def_raw.name')` then `query_raw(...)[0]`
      -- (the root element is not part of `p`; `elems[-5]` is not the root, so 5 ≤ |p|)
      match if p.length < 5 then none else (pluckRel (p.take (p.length - 5)) root).bind (fun fd => (byTags fd Generated.DeclMatchers.thisNamePath).toOption) with
      | none => .error .nodeNotFound
      | some nm =>
        match (values nm).head? with
        | none => .error .indexError
        | some methodName =>
          let toks := tokens e
          let inDeclVar := Generated.DeclMatchers.thisAssigns.any (fun a => fromEnd tags 3 == some a) && fromEnd tags 2 == some Generated.DeclMatchers.thisNamelist
          .ok (methodName == Generated.DeclMatchers.ctorName && inDeclVar && (dsnElemCounts toks == 2 && (dsnElements toks).head? == some Generated.DeclMatchers.selfWord) && isReceiver p)

/-- `Terminal.match_terminal(via, allow_tags)` for a `number` entry: every token below carries an allowed terminal name -/
def numberTerminals (e : Entry) (allow : List Str) : Bool := e.children.all fun c => allow.contains c.name

/-- `match_feature` of the class that defines it (`owner`), at entry `e` = position `p` of `root` -/
def matchFeature (owner : Str) (root : Entry) (p : Path) (e : Entry) : Except CErr Bool :=
  let tags := tagsOf root p
  let nf := nameFeat root p e
  if owner == c!"Node" then .ok true
  else if owner == c!"ClassMethod" then (funcFeat root p e).map isClassMethod
  else if owner == c!"Constructor" then (funcFeat root p e).map isConstructor
  else if owner == c!"Method" then (funcFeat root p e).map isMethod
  else if owner == c!"Closure" then (funcFeat root p e).map isClosure
  else if owner == c!"Enum" then isEnum e
  else if owner == c!"ArgumentLabel" then (parentTag tags).map fun _ => isArgumentLabel nf
  else if owner == c!"DeclClassParam" then (parentTag tags).map fun _ => isParamClass nf
  else if owner == c!"DeclThisParam" then (parentTag tags).map fun _ => isParamThis nf
  else if owner == c!"DeclParam" then (parentTag tags).map fun _ => isParam nf
  else if owner == c!"DeclLocalVar" then (parentTag tags).map fun _ => isDeclLocalVar nf
  else if owner == c!"TypesName" then (parentTag tags).map fun _ => inDeclClassType nf
  else if owner == c!"ImportName" then (parentTag tags).map fun _ => inDeclImport nf
  else if owner == c!"DeclClassVar" then .ok (isDeclClassVar nf)
  else if owner == c!"DeclThisVarForward" then .ok (isDeclThisVarForward nf)
  else if owner == c!"AltTypesName" then (parentTag tags).map fun _ => inDeclAltClassType nf
  else if owner == c!"ClassRef" then .ok (nf.tokens == c!"cls")
  else if owner == c!"ThisRef" then .ok (nf.tokens == c!"self")
  else if owner == c!"DeclThisVar" then isDeclThisVar root p e
  else if owner == c!"Relay" then do
    let _ ← parentTag tags
    let thisVar ← isDeclThisVar root p e
    pure !(isDeclLocalVar nf || thisVar || inDeclClassType nf || inDeclAltClassType nf || inDeclImport nf)
  else if owner == c!"ImportPath" then (parentTag tags).map (· == c!"import_stmt")
  else if owner == c!"DecoratorPath" then (parentTag tags).map (· == c!"decorator")
  else if owner == c!"ListType" then match e.children.head? with
    | some c => .ok (tokens c == c!"list")
    | none => .error .nodeNotFound
  else if owner == c!"DictType" then match e.children.head? with
    | some c => .ok (tokens c == c!"dict")
    | none => .error .nodeNotFound
  else if owner == c!"CallableType" then match byTags e [c!"typed_slices"] with
    | .ok ts => .ok (ts.children.length == 2 && (ts.children.head?.any fun c => c.name == c!"typed_list" || c.name == c!"typed_elipsis"))
    | .error er => .error er
  else if owner == c!"CustomType" then .ok true
  else if owner == c!"Super" then match e.children.head? with
    | some c => .ok (tokens c == c!"super")
    | none => .error .nodeNotFound
  else if owner == c!"Integer" then .ok (numberTerminals e [c!"number", c!"DEC_NUMBER", c!"HEX_NUMBER"])
  else if owner == c!"Float" then .ok (numberTerminals e [c!"number", c!"FLOAT_NUMBER"])
  else if owner == c!"DocString" then (parentTag tags).map fun pt =>
    pt == c!"block" && Str.startsWith (tokens e) (c!"\"\"\"") && Str.endsWith (tokens e) (c!"\"\"\"")
  else .error .unmodelled

/-- the owners `matchFeature` models (`C02.classify_owners_modelled` checks the generated table against it) -/
def modelledOwners : List Str := [
  c!"Node", c!"ClassMethod", c!"Constructor", c!"Method", c!"Closure", c!"Enum", c!"ArgumentLabel", c!"DeclClassParam",
  c!"DeclThisParam", c!"DeclParam", c!"DeclLocalVar", c!"TypesName", c!"ImportName", c!"DeclClassVar", c!"DeclThisVarForward",
  c!"AltTypesName", c!"ClassRef", c!"ThisRef", c!"DeclThisVar", c!"Relay", c!"ImportPath", c!"DecoratorPath", c!"ListType",
  c!"DictType", c!"CallableType", c!"CustomType", c!"Super", c!"Integer", c!"Float", c!"DocString"]

/-- `NodeResolver.resolve`: the first candidate whose `match_feature` accepts (`syntax/node/resolver.py:46-54`) -/
def firstMatch (root : Entry) (p : Path) (e : Entry) : List (Str × Str) → Except CErr Str
  | [] => .error .unresolvedNode
  | (cls, owner) :: rest =>
    match matchFeature owner root p e with
    | .error er => .error er
    | .ok true => .ok cls
    | .ok false => firstMatch root p e rest

/-- class name of the node at position `p` -/
def classify (table : List (Str × List (Str × Str))) (fallback : Str) (root : Entry) (p : Path) : Except CErr Str :=
  match pluckRel p root with
  | none => .error .nodeNotFound
  | some e =>
    match table.find? (fun row => row.1 == e.name) with
    | some row => firstMatch root p e row.2
    | none => .ok fallback     -- the fallback class (Terminal) has the default match_feature

end Tranp.Classify
