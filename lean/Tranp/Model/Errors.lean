/-
  Tranp.Model.Errors — executable model of tranp's exception flow (property C07).

  Modelled code of /repo (pinned tree ffa113e):
    * rogw/tranp/errors.py                              → `Generated.ErrorsTable.ErrName` (+ parent table)   [generated]
    * CPython builtin exception hierarchy                → `Generated.ErrorsTable.Builtin`                    [generated]
    * except clauses of the functions below              → `Generated.ErrorsTable.*Handlers` / `*Catch`        [generated from the AST]
    * semantics/procedure.py:55-221  Procedure.exec / __exec_impl / __result / __action / __run_action / __emit / __make_event / __stack_pop
    * implements/syntax/lark/parser.py:73-102  SyntaxParserOfLark.__load_entry (in-memory branch, on-disk branch)
    * bin/transpile.py:407-431  Interactive.run
    * module/modules.py  Modules.load (normalisation + rollback of 8079937; a plain call sequence on the pinned tree)
    * view/error_render.py:56-144  ErrorRender.__build_quotation / __build_message / Quotation

  Conventions: Python `str` = `Tranp.Str`; an exception is `Exc` (class + what `args[0]` is); a computation that may raise is
  `Except Exc α`. Imports only other model files (the driver is compiled to a native executable).
-/
import Tranp.Str
import Tranp.Generated.ErrorsTable

/-! ## Exception classes -/

namespace Tranp.Generated.ErrorsTable

/-- direct base of a named class (`none`: `object`) -/
def Atom.parent? : Atom → Option Atom
  | .err n => some n.parent
  | .bi b => (Builtin.parent? b).map .bi

/-- the class followed by its proper ancestors (fuel-bounded walk up the parent table) -/
def Atom.mroFuel : Nat → Atom → List Atom
  | 0, a => [a]
  | f + 1, a =>
    match Atom.parent? a with
    | none => [a]
    | some p => a :: Atom.mroFuel f p

/-- `cls.__mro__` without `object`. The fuel 16 is sufficient: every chain ends in `BaseException` (`Lemmas`: `mro_ends_in_root`). -/
def Atom.mro (a : Atom) : List Atom := Atom.mroFuel 16 a

/-- `issubclass(a, t)` for named classes -/
def Atom.isA (a t : Atom) : Bool := a.mro.contains t

def Atom.toString : Atom → String
  | .err n => "Errors." ++ n.toString
  | .bi b => b.toString

end Tranp.Generated.ErrorsTable

namespace Tranp.Errors
open Tranp Tranp.Generated.ErrorsTable

/-- An exception class: a named one, or an arbitrary user-defined / third-party class given by its name, its direct bases
    (multiple inheritance allowed) and whether the call `cls(x)` with ONE positional argument succeeds
    (Procedure.__emit re-instantiates `e.__class__(node)`). -/
inductive Cls where
  | atom (a : Atom)
  | user (name : Str) (bases : List Cls) (ctor1 : Bool)

mutual
/-- `issubclass(c, t)` where `t` is a named class (every `except` clause of the modelled code names one) -/
def Cls.isA : Cls → Atom → Bool
  | .atom a, t => a.isA t
  | .user _ bs _, t => Cls.anyIsA bs t
def Cls.anyIsA : List Cls → Atom → Bool
  | [], _ => false
  | c :: cs, t => c.isA t || Cls.anyIsA cs t
end

/-- does `cls(x)` succeed? Members of `Errors` inherit `Exception.__init__` unless they define their own (table `definesCtor`). -/
def Cls.ctor1 : Cls → Bool
  | .atom (.err n) => !n.definesCtor
  | .atom (.bi _) => true
  | .user _ _ c => c

def Cls.display : Cls → String
  | .atom a => a.toString
  | .user n _ _ => "U:" ++ String.ofList n

/-- An exception instance, as far as the modelled code looks at it. -/
structure Exc where
  cls : Cls
  arg0 : Arg0

def Exc.ofErr (n : ErrName) (a : Arg0) : Exc := ⟨.atom (.err n), a⟩
def Exc.ofBuiltin (b : Builtin) (a : Arg0) : Exc := ⟨.atom (.bi b), a⟩

/-- member of the application hierarchy: `isinstance(e, Errors.Error)` -/
def Exc.inHierarchy (x : Exc) : Bool := x.cls.isA (.err .Error)

/-- `isinstance(e, Exception)` -/
def Exc.isException (x : Exc) : Bool := x.cls.isA (.bi .Exception)

/-- the `assert` statements of Procedure (`__result`, `__stack_pop`) -/
def assertionError : Exc := Exc.ofBuiltin .AssertionError .none

/-- `TypeError` raised by `e.__class__(node)` when the class does not accept one positional argument -/
def ctorTypeError : Exc := Exc.ofBuiltin .TypeError .other

/-! ## `try … except` -/

/-- the exception that leaves an `except` body -/
def runAction (act : Action) (x : Exc) : Exc :=
  match act with
  | .wrap n a => Exc.ofErr n a
  | .renode =>
    -- procedure.py:169-172
    if x.arg0 = .other then
      (if x.cls.ctor1 then ⟨x.cls, .node⟩ else ctorTypeError)
    else x
  | .reraise => x

/-- the exception that leaves a `try` statement with the given `except` clauses when its body raised `x`
    (first matching clause wins; an exception raised inside a clause is not re-examined by the later clauses) -/
def propagate : List Handler → Exc → Exc
  | [], x => x
  | h :: hs, x => if x.cls.isA h.catches then runAction h.action x else propagate hs x

def catchesAnyCls (cs : List Atom) (c : Cls) : Bool := cs.any (fun t => c.isA t)

def tryWith {α : Type} (hs : List Handler) : Except Exc α → Except Exc α
  | .ok a => .ok a
  | .error x => .error (propagate hs x)

/-! ## Procedure (semantics/procedure.py) -/

/-- one expandable property of a node, in the order `__make_event` visits them (`reversed(node.prop_keys())`) -/
inductive PropSpec where
  | single                 -- a single child result: one pop
  | list (n : Nat)         -- `len(getattr(node, key))` results: n pops
  | raises (x : Exc)       -- evaluating the node property raises

/-- which handler `__action` finds -/
inductive HandlerKind where
  | own | fallback | missing
  deriving DecidableEq

/-- everything Procedure observes about one node of `flatted` -/
structure NodeEv where
  handler : HandlerKind
  props : List PropSpec
  result : Except Exc Unit     -- what the handler call does (`self.__emitter.emit(action, node=node, **event)`)

/-- procedure.py:186-196 the pops of `__make_event` on a stack of height `h` (before its `except AssertionError`) -/
def makeEventRaw : Nat → List PropSpec → Except Exc Nat
  | h, [] => .ok h
  | h, .single :: ps => if h = 0 then .error assertionError else makeEventRaw (h - 1) ps
  | h, .list n :: ps => if h < n then .error assertionError else makeEventRaw (h - n) ps
  | _, .raises x :: _ => .error x

/-- procedure.py:118-148 `__action` → `__run_action` → `__emit`: stack height after the node -/
def runNode (h : Nat) (ev : NodeEv) : Except Exc Nat :=
  match ev.handler with
  | .missing => .error (Exc.ofErr .MustBeImplemented .node)          -- :134
  | _ => do
    let h' ← tryWith makeEventHandlers (makeEventRaw h ev.props)      -- :163 (outside the try of __emit), :186-198
    let _ ← tryWith emitHandlers ev.result                            -- :164-174
    pure (h' + 1)                                                     -- :146

def runNodes : Nat → List NodeEv → Except Exc Nat
  | h, [] => .ok h
  | h, ev :: evs => match runNode h ev with
    | .ok h' => runNodes h' evs
    | .error x => .error x

/-- procedure.py:83-92 `__exec_impl` (`procedural`: what `root.procedural()` does; the stack of an `exec` starts empty, :67) -/
def execImpl (procedural : Except Exc Unit) (evs : List NodeEv) : Except Exc Unit :=
  tryWith execImplHandlers (do
    let _ ← procedural
    let h ← runNodes 0 evs
    if h = 1 then pure () else .error assertionError)                 -- :107

/-! ## SyntaxParserOfLark.__load_entry (implements/syntax/lark/parser.py:73-102) -/

/-- the text handed to lark: the provider's text, completed by a final line feed when the tree has `__load_source`
    (generated flags `sourceCompletesNewline`, `sourceCompletionSkipsEmpty`; parser.py `__load_source`) -/
def loadSource (s : Str) : Str :=
  if sourceCompletesNewline && !(Str.endsWith s ['\n']) && !(sourceCompletionSkipsEmpty && s.isEmpty) then s ++ ['\n'] else s

/-- `parse`: what `parser.parse(<loaded source>)` does (raising while the source is loaded counts as well). `memHandlers`: the except clauses around the
    in-memory branch (`Generated.parserMemHandlers`: none on the pinned tree). On a cache hit the on-disk branch does not parse. -/
def loadEntry (memHandlers : List Handler) (onDisk cached : Bool) (parse : Except Exc Unit) : Except Exc Unit :=
  if !onDisk then tryWith memHandlers parse                           -- :88-89
  else if cached then .ok ()                                          -- :101-102 (decorator returns the stored entry)
  else tryWith parserDiskHandlers parse                               -- :91-95

/-! ## Modules.load (module/modules.py) -/

/-- `registered`: the module is in the registry on entry; `registeredAfterLibs`: … after the library modules were loaded (they may
    load it themselves). Stages: `libs` = `__load_libraries`, `load` = `loader.load`, `body` = `__load_dependencies` + `loader.preprocess`,
    `unload` = the rollback `self.unload(module_path)`. `handlers`/`rollback`: the generated `modulesLoadHandlers` /
    `modulesLoadRollbackCatch` (both empty on the pinned tree, where `load` has no try statement and no rollback). -/
def modulesLoadBody (rollback : List Atom) (recheck registered registeredAfterLibs : Bool)
    (libs load body unload : Except Exc Unit) : Except Exc Unit :=
  match (if registered then .ok () else libs) with
  | .error x => .error x
  | .ok _ =>
    if registered || (recheck && registeredAfterLibs) then .ok () else   -- the re-check after the libraries (f3f812f)
    match load with
    | .error x => .error x
    | .ok _ =>
      match body with
      | .ok _ => .ok ()
      | .error x =>
        if catchesAnyCls rollback x.cls then
          (match unload with
            | .ok _ => .error x          -- `self.unload(module_path)` ; bare `raise`
            | .error y => .error y)
        else .error x

def modulesLoadWith (handlers : List Handler) (rollback : List Atom) (recheck registered registeredAfterLibs : Bool)
    (libs load body unload : Except Exc Unit) : Except Exc Unit :=
  tryWith handlers (modulesLoadBody rollback recheck registered registeredAfterLibs libs load body unload)

def modulesLoad := modulesLoadWith modulesLoadHandlers modulesLoadRollbackCatch modulesLoadRechecks

/-! ## Interactive.run (bin/transpile.py:407-431) -/

inductive Input where
  | exit                                                   -- the user typed `exit` (:416)
  | interrupt                                              -- KeyboardInterrupt while reading
  | code (result : Except Exc Unit) (render : Except Exc Unit)  -- outcome of rebuild_module+transpile; outcome of `print(ErrorRender(e))`

inductive Status where
  | running            -- the loop asks for the next input
  | quit               -- left through `break` / the outer `except KeyboardInterrupt`
  | died (x : Exc)     -- an exception left `run`

def catchesAny (cs : List Atom) (x : Exc) : Bool := cs.any (fun t => x.cls.isA t)

/-- the outer `try … except KeyboardInterrupt: pass` -/
def outer (x : Exc) : Status := if catchesAny interactiveOuterCatch x then .quit else .died x

def step : Input → Status
  | .exit => .quit
  | .interrupt => outer (Exc.ofBuiltin .KeyboardInterrupt .none)
  | .code (.ok _) _ => .running
  | .code (.error x) render =>
    if catchesAny interactiveInnerCatch x then
      match render with
      | .ok _ => .running
      | .error y => outer y
    else outer x

/-- final status and number of inputs consumed -/
def run : List Input → Status × Nat
  | [] => (.running, 0)
  | i :: is =>
    match step i with
    | .running => let r := run is; (r.1, r.2 + 1)
    | s => (s, 1)

/-! ## ErrorRender (view/error_render.py) -/

/-- one element of `e.args`: a `str` is quoted, anything else goes through `str(arg)` which may raise (`repr`: what `repr(arg)` gives) -/
inductive Arg where
  | str (s : Str)
  | obj (text : Except Exc Str) (repr : Str)

/-- `fallback`: an argument whose `str()` raises an `Exception` is shown by its `repr()` (`try: str(arg) except Exception: repr(arg)`;
    generated flag `messageStrFallback`, false on the pinned tree) -/
def argTextWith (fallback : Bool) : Arg → Except Exc Str
  | .str s => .ok (('"' :: s) ++ ['"'])
  | .obj (.ok t) _ => .ok t
  | .obj (.error x) r => if fallback && x.isException then .ok r else .error x

def mapArgsWith (fallback : Bool) : List Arg → Except Exc (List Str)
  | [] => .ok []
  | a :: as => match argTextWith fallback a with
    | .error x => .error x
    | .ok s => match mapArgsWith fallback as with
      | .error x => .error x
      | .ok ss => .ok (s :: ss)

/-- error_render.py:79-82 -/
def buildMessageWith (fallback : Bool) (args : List Arg) : Except Exc Str :=
  match mapArgsWith fallback args with
  | .error x => .error x
  | .ok parts => .ok (('(' :: Str.join [',', ' '] parts) ++ [')'])

/-- `__build_message` of the current tree -/
def buildMessage (args : List Arg) : Except Exc Str := buildMessageWith messageStrFallback args

def indexError : Exc := Exc.ofBuiltin .IndexError .other

/-- Python index normalisation: a negative index counts from the end -/
def pyNorm (n i : Int) : Int := if i < 0 then n + i else i

/-- Python `xs[i]` for a list -/
def pyIndex {α : Type} (xs : List α) (i : Int) : Except Exc α :=
  if pyNorm xs.length i < 0 then .error indexError else
  match xs[(pyNorm xs.length i).toNat]? with
  | some v => .ok v
  | none => .error indexError

/-- `.replace('\n', '').replace('\t', ' ')` -/
def cleanLine (l : Str) : Str := (l.filter (fun c => c != '\n')).map (fun c => if c = '\t' then ' ' else c)

structure SourceMap where
  beginLine : Int
  beginColumn : Int
  endLine : Int
  endColumn : Int

structure Quotation where
  filepath : Str
  beginLine : Int
  causeLine : Str
  causeBegin : Int
  causeEnd : Int

/-- error_render.py:87-125 `Quotation.__init__` (`lines` = `f.readlines()` decoded) -/
def Quotation.new (filepath : Str) (lines : List Str) (sm : SourceMap) : Except Exc Quotation :=
  match pyIndex lines sm.beginLine with
  | .error x => .error x
  | .ok l =>
    let cause := cleanLine l
    let diff := sm.endColumn - sm.beginColumn
    let e : Int := if sm.beginLine = sm.endLine then sm.beginColumn + diff else cause.length
    .ok ⟨filepath, sm.beginLine, cause, sm.beginColumn, e⟩

/-- Python `c * n` for a one-character string -/
def pyRepeat (c : Char) (n : Int) : Str := List.replicate n.toNat c

/-- error_render.py:138-144 -/
def Quotation.lineMark (q : Quotation) : Str :=
  pyRepeat ' ' q.causeBegin ++ pyRepeat '^' (max 1 (q.causeEnd - q.causeBegin))

/-- error_render.py:127-136 -/
def Quotation.build (q : Quotation) : List Str :=
  [ ['v', 'i', 'a', ' ', 'N', 'o', 'd', 'e', ':'],
    [' ', ' '] ++ q.filepath ++ [':'] ++ Str.intToDec (q.beginLine + 1),
    [' ', ' ', ' ', ' ', '>', '>', '>', ' '] ++ q.causeLine,
    [' ', ' ', ' ', ' ', ' ', ' ', ' ', ' '] ++ q.lineMark ]

/-- error_render.py:56-77 `__build_quotation`; `sm1` is the (1-based) lark source map of the node, `lines` what the file holds NOW
    (the node may stem from an earlier parse). `spanGuard`: the early return for a node without a position; `lineGuard`: the early
    return for a node whose begin line is beyond the file (both generated flags) -/
def buildQuotationWith (spanGuard lineGuard : Bool) (arg0 : Arg0) (fileExists : Bool) (filepath : Str) (lines : List Str) (sm1 : SourceMap) : Except Exc (List Str) :=
  if arg0 ≠ .node then .ok []
  else if !fileExists then .ok []
  else if spanGuard && (decide (sm1.beginLine < 1) || decide (sm1.beginColumn < 1)) then .ok []
  else if lineGuard && !decide (sm1.beginLine ≤ lines.length) then .ok []
  else
    match Quotation.new filepath lines ⟨sm1.beginLine - 1, sm1.beginColumn - 1, sm1.endLine - 1, sm1.endColumn - 1⟩ with
    | .error x => .error x
    | .ok q => .ok q.build

/-- `__build_quotation` of the current tree -/
def buildQuotation := buildQuotationWith quotationSpanGuard quotationLineGuard

/-! ## The request boundary of the interactive mode: bin/io.py `tty` (:25-46) and the quit test of Interactive.run (bin/transpile.py:416) -/

/-- Python value of a generated quit test over the request `lines`: `len`, `==` and truth are total, `lines[i]` raises
    IndexError outside the list, `and` / `or` evaluate the right operand only when the left one does not decide -/
def evalTest (lines : List Str) : ReqTest → Except Exc Bool
  | .lenEq n => .ok (lines.length == n)
  | .itemEq i s => match pyIndex lines i with
    | .ok l => .ok (l == s)
    | .error x => .error x
  | .nonEmpty => .ok (!lines.isEmpty)
  | .not a => match evalTest lines a with
    | .ok b => .ok (!b)
    | .error x => .error x
  | .and a b => match evalTest lines a with
    | .ok true => evalTest lines b
    | .ok false => .ok false
    | .error x => .error x
  | .or a b => match evalTest lines a with
    | .ok true => .ok true
    | .ok false => evalTest lines b
    | .error x => .error x

/-- one pass of the loop body for the request `lines` (transpile.py:415-428): the quit test stands OUTSIDE the inner `try`, so an
    exception of the test itself meets the outer handler only -/
def stepRequest (test : ReqTest) (lines : List Str) (result render : Except Exc Unit) : Status :=
  match evalTest lines test with
  | .error x => outer x
  | .ok true => .quit
  | .ok false => step (.code result render)

/-- what `tty(prompt)` does in one pass: hands over a request (with the outcome of serving it / of printing its error) or is interrupted -/
inductive Request where
  | lines (ls : List Str) (result : Except Exc Unit) (render : Except Exc Unit)
  | interrupt
  | raises (x : Exc)      -- `tty` itself raises (`readline` decoding what was typed, the helper process, …)

def stepReq (test : ReqTest) : Request → Status
  | .lines ls r d => stepRequest test ls r d
  | .interrupt => step .interrupt
  | .raises x => outer x           -- `lines = tty(prompt)` stands outside the inner `try`

/-- final status and number of requests consumed -/
def runRequests (test : ReqTest) : List Request → Status × Nat
  | [] => (.running, 0)
  | q :: qs =>
    match stepReq test q with
    | .running => let r := runRequests test qs; (r.1, r.2 + 1)
    | s => (s, 1)

/-- bin/io.py:37-46 the `while True` of `tty`: `keys` are the results of the coming `readline()` calls, `acc` is `lines`;
    `none`: the keyboard has nothing more (the call is still waiting) -/
def ttyLoop (quitLine : Str) (quitResult : List Str) : List Str → List Str → Option (List Str × List Str)
  | [], _ => none
  | l :: ks, acc =>
    if l.isEmpty then some (acc, ks)                       -- `if not line: break` … `return lines`
    else if l = quitLine then some (quitResult, ks)        -- `elif line == 'exit': return ['exit']`
    else ttyLoop quitLine quitResult ks (acc ++ [l])       -- `lines.append(line)`

/-- `tty(prompt)` on the generated constants → (request, keys left) -/
def tty (keys : List Str) : Option (List Str × List Str) := ttyLoop ttyQuitLine ttyQuitResult keys []

/-- a whole session for a keyboard transcript; `oc served req` = outcome of serving the request `req` and of printing its error after the
    requests `served` (most recent first) — serving depends on the history: modules of earlier requests stay registered.
    Final status and number of `tty` calls started; the fuel is never exhausted for `keys.length + 1` (every call eats a key) -/
def runKeysFuel (test : ReqTest) (oc : List (List Str) → List Str → Except Exc Unit × Except Exc Unit) : Nat → List (List Str) → List Str → Status × Nat
  | 0, _, _ => (.running, 0)
  | f + 1, served, keys =>
    match tty keys with
    | none => (.running, 1)
    | some (req, rest) =>
      match stepRequest test req (oc served req).1 (oc served req).2 with
      | .running => let r := runKeysFuel test oc f (req :: served) rest; (r.1, r.2 + 1)
      | s => (s, 1)

def runKeys (test : ReqTest) (oc : List (List Str) → List Str → Except Exc Unit × Except Exc Unit) (keys : List Str) : Status × Nat :=
  runKeysFuel test oc (keys.length + 1) [] keys

end Tranp.Errors
