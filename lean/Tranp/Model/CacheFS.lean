/-
  Tranp.Model.CacheFS — executable model of tranp's three on-disk cache layers (property C05).

  Modelled code (/repo):
    rogw/tranp/cache/cache.py            CachedProxy.get / gen_cache_path / save_cache / find_oldest / load_cache (92-176),
                                         CachedDummy.get (179-191), CacheProvider.get (243-268: `enabled` selects the class)
    rogw/tranp/implements/syntax/lark/parser.py   __load_parser (49-71: identity = grammar path, mtime, start, algorithm),
                                         __load_entry (73-103: identity = grammar mtime + source mtime), EntryStored/LarkStored
    rogw/tranp/module/module.py          Module.depends_on / Module.identity / __collect_hashes (66-122: md5 over the (file, hash)
                                         pairs of the import closure, collected with a visited dict, sorted by file path; memoised)
    rogw/tranp/semantics/reflection/persistent.py  SymbolDBPersistor (stored/store/restore, _can_store, _can_restore, _store,
                                         _restore, _find_oldest)
    rogw/tranp/semantics/processors/restore_symbols.py / store_symbols.py, rogw/tranp/providers/module.py ModuleLoader.preprocess
    rogw/tranp/module/modules.py         Modules.load (libraries first, parse, imports, preprocess)
    rogw/tranp/bin/transpile.py          Runner._run_impl / can_transpile (only as far as it selects the modules that are loaded)
    rogw/tranp/app/loader.py             FileLoader.hash / mtime / exists

  Abstract (parameters of `Sem`, DESIGN.md §8): md5 (as three functions, one per identity shape: their injectivity is a
  hypothesis of the theorems, never an axiom), lark parsing, symbol analysis, rendering, the JSON/pickle decoders (`valid`).
  Python `str`/`bytes` is `Tranp.Str`.
-/
import Tranp.Str
import Tranp.Generated.LarkCache

namespace Tranp.CacheFS
open Tranp

/-! ### file system: ordered map path ↦ (bytes, mtime) -/

structure File where
  data : Str
  mtime : Nat
deriving DecidableEq, Repr

/-- ordered map (insertion order; overwriting keeps the position) -/
abbrev Dir := List (Str × File)

def Dir.get? (d : Dir) (p : Str) : Option File := List.lookup p d

def Dir.put : Dir → Str → File → Dir
  | [], p, f => [(p, f)]
  | (q, g) :: rest, p, f => if p = q then (q, f) :: rest else (q, g) :: Dir.put rest p f

def Dir.erase (d : Dir) (p : Str) : Dir := d.filter (fun e => e.1 ≠ p)

def Dir.paths (d : Dir) : List Str := d.map (·.1)

/-! ### the abstract part -/

/-- Everything tranp delegates to md5, lark, the analyser and the renderer. -/
structure Sem where
  /-- `md5(str({'grammar_mtime': g, 'grammar': path, 'start': …, 'algorithem': …, 'mtime': t}))` (parser.py:100-106, since
      9dfb5b4), arguments: grammar path, start, algorithm, grammar mtime, source mtime, and the source's content hash when the
      identity dictionary has the key `hash` (`treeHashArg`; `[]` otherwise) -/
  treeIdent : Str → Str → Str → Nat → Nat → Str → Str
  /-- `md5(str({'mtime': g, 'grammar': path, 'start': …, 'algorithem': …}))` (parser.py:63-68), arguments: grammar path,
      start, algorithm, grammar mtime -/
  parserIdent : Str → Str → Str → Nat → Str
  /-- `hashlib.md5(content_bytes).hexdigest()` (loader.py:49) -/
  hash : Str → Str
  /-- `hashlib.md5(str(identities).encode()).hexdigest()` (module.py:94-96) -/
  identL : List Str → Str
  /-- `f'{filepath}:{hash}'` (module.py:94) -/
  entry : Str → Str → Str
  /-- the pickled Lark instance built from (grammar path, start, algorithm, grammar file as of mtime): content of
      `parser.cache-*.bin`, and the parser object a process works with -/
  parserBlob : Str → Str → Str → Nat → Str
  /-- parser, source text ↦ compact JSON text of the serialised tree (EntryStored.save ∘ parser.parse) -/
  parse : Str → Str → Str
  /-- module keys imported by a tree, in source order (`entrypoint.imports`) -/
  importsOf : Str → List Str
  /-- module key, tree, what the module sees of each direct import's symbol table ↦ its own symbol table -/
  analyse : Str → Str → List Str → Str
  /-- `json.dumps(db.to_json(serializer, for_module_path), separators=(',', ':'))`: the payload of a symbol file -/
  encTab : Str → Str
  /-- `db.import_json(serializer, json.loads(content))`: the table restored from a payload; `none` = the decoder raises.
      That `decTab (encTab t) = some t` is property C14 (`C14.rt`: export, then import into the table of the other modules,
      restores every entry) composed with the JSON round trip. -/
  decTab : Str → Option Str
  /-- the part of a symbol table a dependant looks at -/
  view : Str → Str
  /-- module key, tree, symbol tables loaded in the session (load order) ↦ transpiled text -/
  render : Str → Str → List (Str × Str) → Str
  /-- the decoder accepts the text (json.load / pickle.load do not raise) -/
  valid : Str → Bool

/-! ### file names (cache.py:108-121, 153-165; persistent.py:101-125) -/

def jsonExt : Str := ['.', 'j', 's', 'o', 'n']
def binExt : Str := ['.', 'b', 'i', 'n']
def parserKey : Str := ['p', 'a', 'r', 's', 'e', 'r', '.', 'c', 'a', 'c', 'h', 'e']
def symInfix : Str := ['-', 's', 'y', 'm', 'b', 'o', 'l', 's', '-']

/-- `f'{cache_key}-{identifier}{extention}'` relative to the cache base directory -/
def cachePath (key ident ext : Str) : Str := key ++ '-' :: (ident ++ ext)

/-- `f'{basepath}-symbols-{identity}.json'` -/
def symPath (key ident : Str) : Str := key ++ (symInfix ++ (ident ++ jsonExt))

/-- Does the identity dictionary of the tree files (parser.py `__load_entry`, read from the source on every run:
    `Generated/LarkCache.treeIdentity`) carry the key `hash` (the content hash of the source, `self.__sources.hash(source_path)`)? -/
def treeKeyHasHash : Bool := Generated.LarkCache.treeIdentity.any (fun kv => kv.1 == ['h', 'a', 's', 'h'])

/-- the content-hash component of a tree identity: the md5 of the source bytes if the code's dictionary has it, nothing otherwise -/
def treeHashArg (S : Sem) (data : Str) : Str := if treeKeyHasHash then S.hash data else []

def treePath (S : Sem) (key : Str) (gp st al : Str) (g t : Nat) (h : Str) : Str := cachePath key (S.treeIdent gp st al g t h) jsonExt
def parserPath (S : Sem) (gp st al : Str) (g : Nat) : Str := cachePath parserKey (S.parserIdent gp st al g) binExt

/-- `'-'.join(cache_path.split('-')[:-1])` (cache.py:160-161) -/
def basepathOf (p : Str) : Str := Str.join ['-'] (Str.splitOn '-' p).dropLast

/-- directory part of a relative path (`os.path.dirname`), `[]` for the base directory itself -/
def dirname (p : Str) : Str := Str.join ['/'] (Str.splitOn '/' p).dropLast

/-- `name` matches the glob `pre*suf` inside one directory: `*` is any run of characters without `/` (glob.glob: the
    pattern's directory part has no magic, `fnmatch` is applied to the names of that directory only). -/
def globMatch (pre suf name : Str) : Bool :=
  Str.startsWith name pre && Str.endsWith name suf && decide (pre.length + suf.length ≤ name.length) &&
    !(((name.drop pre.length).take (name.length - pre.length - suf.length)).contains '/')

/-- `find_oldest` (cache.py:153-165): `glob(f'{basepath}-*{ext}')` over the files of the cache directory -/
def findOldest (cache : Dir) (cachePath ext : Str) : List Str :=
  cache.paths.filter (globMatch (basepathOf cachePath ++ ['-']) ext)

/-- `_find_oldest` (persistent.py:175-183): `glob(f'{basepath}-symbols-*.json')` -/
def findOldestSym (cache : Dir) (key : Str) : List Str :=
  cache.paths.filter (globMatch (key ++ symInfix) jsonExt)

/-! ### persistent world and one command-line session -/

inductive Err
  | decodeJson   -- json.load / json.loads raised (ValueError)
  | decodeBin    -- lark.Lark.load raised
  | noDir        -- open(..., 'wb') in a directory that does not exist (FileNotFoundError)
  | noSource     -- an imported module has no file
  | fuel         -- import cycle (outside the model: the real loader terminates on cycles)
deriving DecidableEq, Repr

def Err.toString : Err → String
  | .decodeJson => "ValueError"
  | .decodeBin => "BinLoadError"
  | .noDir => "FileNotFoundError"
  | .noSource => "NoSource"
  | .fuel => "Fuel"

structure World where
  clock : Nat := 1
  grammarMtime : Nat := 0
  /-- `ParserSetting`: grammar path, start rule, algorithm -/
  grammar : Str := []
  start : Str := []
  algo : Str := []
  /-- module key (`module_path_to_filepath`, e.g. `app/a`) ↦ source file -/
  srcs : Dir := []
  /-- `ModulePaths` in Runner order -/
  order : List Str := []
  /-- `LibraryPaths` -/
  libs : List Str := []
  /-- files below the cache base directory -/
  cache : Dir := []
  /-- existing directories below the base directory (`[]` = the base directory) -/
  dirs : List Str := []
  /-- `CacheSetting.enabled` -/
  enabled : Bool := true
  /-- module key ↦ source hash recorded in the header of its current output file -/
  outs : List (Str × Str) := []

/-- one event of the access log: `'r'` open for reading, `'w'` open for writing, `'d'` unlink -/
abbrev Event := Char × Str

structure Sess where
  w : World
  /-- SymbolDB / Modules of the running process: module key ↦ symbol table, in load order -/
  db : List (Str × Str) := []
  /-- Entrypoints of the running process: module key ↦ tree as obtained from `treeGet` -/
  trees : List (Str × Str) := []
  /-- keys of Modules.__modules (registered before the imports are loaded) -/
  loaded : List Str := []
  /-- `Module.__identity` of the modules of this process (computed once, then cached) -/
  ids : List (Str × Str) := []
  /-- modules whose `depends_on` was called (all their imports are loaded) -/
  depd : List Str := []
  /-- an analysis ran while one of its imports was still being loaded (import cycle) -/
  cyc : Bool := false
  /-- CacheProvider.__instances holds the parser of this process -/
  parser : Option Str := none
  err : Option Err := none
  log : List Event := []
  /-- transpiled text per target of this run -/
  out : List (Str × Str) := []

def Sess.fail (s : Sess) (e : Err) : Sess := { s with err := some e }
def Sess.ev (s : Sess) (k : Char) (p : Str) : Sess := { s with log := s.log ++ [(k, p)] }

/-- the base directory, the proper ancestors of a directory and the directory itself: what `os.makedirs` creates -/
def ancestors (d : Str) : List Str :=
  let comps := Str.splitOn '/' d
  ([] :: (List.range (comps.length - 1)).map (fun i => Str.join ['/'] (comps.take (i + 1)))) ++ [d]

def World.mkdirs (w : World) (d : Str) : World :=
  { w with dirs := (ancestors d).foldl (fun ds a => if ds.contains a then ds else ds ++ [a]) w.dirs }

/-- `for oldest in …: os.unlink(oldest)` -/
def Sess.evict (s : Sess) (victims : List Str) : Sess :=
  victims.foldl (fun s p => { (s.ev 'd' p) with w := { s.w with cache := s.w.cache.erase p } }) s

/-- `with open(path, 'wb') as f: f.write(data)`; the directory must exist -/
def Sess.write (s : Sess) (dir p data : Str) : Sess :=
  let s := s.ev 'w' p
  if s.w.dirs.contains dir then
    { s with w := { s.w with cache := s.w.cache.put p ⟨data, s.w.clock⟩, clock := s.w.clock + 1 } }
  else s.fail .noDir

/-- `CacheProvider.get(key, identity, format)(factory)()` (cache.py:243-268, 92-107): the value, or `none` after a failure.
    `dir` is the directory of the cache file (`dirname key`; identifiers contain no `/`). -/
def cacheGet (S : Sem) (s : Sess) (dir key ident ext fresh : Str) (bin : Bool) : Sess × Option Str :=
  if !s.w.enabled then (s, some fresh)                                   -- CachedDummy.get: the factory, no file access
  else
    let p := cachePath key ident ext
    match s.w.cache.get? p with
    | some f =>                                                          -- cache_exists → load_cache
      let s := s.ev 'r' p
      if S.valid f.data then (s, some f.data) else (s.fail (if bin then .decodeBin else .decodeJson), none)
    | none =>                                                            -- instantiate → save_cache
      let s := { s with w := s.w.mkdirs dir }
      let s := s.evict (findOldest s.w.cache p ext)
      let s := s.write dir p fresh
      (s, if s.err.isSome then none else some fresh)

/-- SyntaxParserOfLark.__call__ (parser.py:38-47): parser (once per process), then the module's tree. -/
def World.parserNow (S : Sem) (w : World) : Str := S.parserBlob w.grammar w.start w.algo w.grammarMtime

/-- `__load_parser` (parser.py:49-71), once per process -/
def parserGet (S : Sem) (s : Sess) : Sess × Option Str :=
  match s.parser with
  | some pz => (s, some pz)
  | none =>
    match cacheGet S s [] parserKey (S.parserIdent s.w.grammar s.w.start s.w.algo s.w.grammarMtime) binExt (s.w.parserNow S) true with
    | (s, some pz) => ({ s with parser := some pz }, some pz)
    | (s, none) => (s, none)

def treeGet (S : Sem) (s : Sess) (key : Str) : Sess × Option Str :=
  match parserGet S s with
  | (s, none) => (s, none)
  | (s, some pz) =>
    match s.w.srcs.get? key with
    | none => (s.fail .noSource, none)
    | some src => cacheGet S s (dirname key) key (S.treeIdent s.w.grammar s.w.start s.w.algo s.w.grammarMtime src.mtime (treeHashArg S src.data)) jsonExt (S.parse pz src.data) false

def pyExt : Str := ['.', 'p', 'y']

/-- Python's order on `str`: lexicographic by code point -/
def strLt : Str → Str → Bool
  | [], [] => false
  | [], _ :: _ => true
  | _ :: _, [] => false
  | a :: as, b :: bs => if a.toNat < b.toNat then true else if b.toNat < a.toNat then false else strLt as bs

/-- `sorted(hashes.keys())`: insertion into a list sorted by file path (`key + '.py'`) -/
def insertPair (x : Str × Str) : List (Str × Str) → List (Str × Str)
  | [] => [x]
  | y :: ys => if strLt (x.1 ++ pyExt) (y.1 ++ pyExt) then x :: y :: ys else y :: insertPair x ys

def sortPairs (l : List (Str × Str)) : List (Str × Str) := l.foldl (fun acc x => insertPair x acc) []

/-- the `else` branch of `__collect_hashes` (module.py:116-120): a module whose own imports are still being loaded
    contributes the files of its direct imports only -/
def shallow (S : Sem) (srcs : Dir) : List (Str × Str) → List Str → Option (List (Str × Str))
  | H, [] => some H
  | H, d :: ds =>
    if (List.lookup d H).isSome then shallow S srcs H ds else
    match srcs.get? d with
    | some f => shallow S srcs (H ++ [(d, S.hash f.data)]) ds
    | none => none                                                  -- FileNotFoundError

/-- `Module.__collect_hashes` (module.py:100-120): depth-first over the loaded dependency modules with the visited dict
    `hashes` (module key ↦ file hash, insertion order). `none` = FileNotFoundError (or the fuel of the model ran out:
    it does not for `fuel > number of registered modules`, every descent adds a new key). -/
def collect (S : Sem) (srcs : Dir) (trees : List (Str × Str)) (depd : List Str) : Nat → List (Str × Str) → Str → Option (List (Str × Str))
  | 0, _, _ => none
  | f + 1, H, k =>
    if (List.lookup k H).isSome then some H else                    -- `if self.filepath in hashes: return`
    match srcs.get? k, List.lookup k trees with
    | some own, some tree =>
      let H1 := H ++ [(k, S.hash own.data)]
      if depd.contains k then
        (S.importsOf tree).foldl (fun acc d =>
          match acc with
          | none => none
          | some H => if (srcs.get? d).isSome then collect S srcs trees depd f H d else some H) (some H1)   -- `if module.in_storage()`
      else shallow S srcs H1 (S.importsOf tree)
    | _, _ => none

/-- Module.identity (module.py:76-97): memoised; the (file path, hash) pairs of the import closure except the own file,
    sorted by file path, rendered as `path:hash`, then the own hash. `none` = FileNotFoundError. -/
def identityCore (S : Sem) (srcs : Dir) (trees : List (Str × Str)) (depd : List Str) (ids : List (Str × Str)) (key : Str) :
    List (Str × Str) × Option Str :=
  match List.lookup key ids with
  | some i => (ids, some i)
  | none =>
    match collect S srcs trees depd (trees.length + 2) [] key, srcs.get? key with
    | some H, some own =>
      let i := S.identL ((sortPairs (H.filter (fun p => p.1 ≠ key))).map (fun p => S.entry (p.1 ++ pyExt) p.2) ++ [S.hash own.data])
      (ids ++ [(key, i)], some i)
    | _, _ => (ids, none)

def identityM (S : Sem) (s : Sess) (key : Str) : Sess × Option Str :=
  ({ s with ids := (identityCore S s.w.srcs s.trees s.depd s.ids key).1 }, (identityCore S s.w.srcs s.trees s.depd s.ids key).2)

/-- the persistor's part of `preprocess`, for a known identity -/
def preprocessWith (S : Sem) (s : Sess) (key tree : Str) (views : List Str) (ident : Str) : Sess × Option Str :=
  let p := symPath key ident
  match s.w.cache.get? p with
  | some f =>
    if s.w.enabled then                                               -- _can_restore: enabled ∧ in_storage ∧ exists
      let s := s.ev 'r' p
      match S.decTab f.data with                                        -- json.loads + import_json
      | some table => (s, some table)
      | none => (s.fail .decodeJson, none)
    else
      (s, some (S.analyse key tree views))                              -- analysed; _can_store: not enabled → no store
  | none =>
    let table := S.analyse key tree views
    if !s.w.enabled then (s, some table) else                           -- _can_store (persistent.py:126-135): enabled ∧ …
    let s := s.evict (findOldestSym s.w.cache key)
    let s := s.write (dirname key) p (S.encTab table)
    (s, if s.err.isSome then none else some table)

/-- RestoreSymbols … StoreSymbols around the analysis (restore_symbols.py:22-46, store_symbols.py:22-35,
    persistent.py:77-173). `views` = what the analysis sees of the direct imports. Returns the module's symbol table. -/
def preprocess (S : Sem) (s : Sess) (key tree : Str) (views : List Str) : Sess × Option Str :=
  match identityM S s key with
  | (s, none) => (s.fail .noSource, none)
  | (s, some ident) => preprocessWith S s key tree views ident

/-- what the analysis of a module sees: the views of those direct imports whose table is already in the db (an import that
    is still being loaded — an import cycle — contributes nothing and sets `cyc`) -/
def viewsOf (S : Sem) (db : List (Str × Str)) (imports : List Str) : List Str :=
  imports.filterMap (fun d => (List.lookup d db).map S.view)

/-- Modules.load (modules.py:59-95): `if module_path not in self.__modules:` libraries first (for a non-library module),
    `if module_path not in self.__modules:` again, parse and register the module, load its imports, preprocess.
    (The wrapping of foreign exceptions into `Errors.Fatal` and the `unload` of a module whose load failed do not show in
    the model: a failed run ends the session, and `Err` names the root cause.) -/
def loadMod (S : Sem) : Nat → Sess → Str → Sess
  | 0, s, _ => s.fail .fuel
  | f + 1, s, key =>
    if s.err.isSome then s else
    if s.loaded.contains key then s else
    let s := if s.w.libs.contains key then s else s.w.libs.foldl (loadMod S f) s     -- __load_libraries
    if s.err.isSome then s else
    if s.loaded.contains key then s else             -- re-check: the module may have been loaded while the libraries were
    match treeGet S s key with                                                         -- loader.load → entrypoints.load → parser
    | (s, none) => s
    | (s, some tree) =>
      let s := { s with loaded := s.loaded ++ [key], trees := s.trees ++ [(key, tree)] }
      let s := (S.importsOf tree).foldl (loadMod S f) s                                -- __load_dependencies
      if s.err.isSome then s else
      let s := { s with depd := s.depd ++ [key] }                                      -- via_module.depends_on(depends)
      let imports := S.importsOf tree
      let s := if imports.all (fun d => (List.lookup d s.db).isSome) then s else { s with cyc := true }
      match preprocess S s key tree (viewsOf S s.db imports) with                      -- loader.preprocess
      | (s, none) => s
      | (s, some table) => { s with db := s.db ++ [(key, table)] }

def srcHash (S : Sem) (w : World) (key : Str) : Option Str := (w.srcs.get? key).map (fun f => S.hash f.data)

/-- Runner.can_transpile (transpile.py:311-324) reduced to what the cache model needs: header hash ≠ current hash. -/
def canTranspile (S : Sem) (w : World) (key : Str) : Bool := List.lookup key w.outs != srcHash S w key || (srcHash S w key).isNone

def fuelOf (w : World) : Nat := w.srcs.length + 2

/-- Runner._run_impl (transpile.py:303-309): targets are selected up front, then loaded and transpiled one by one. -/
def runTargets (S : Sem) (s : Sess) (targets : List Str) : Sess :=
  targets.foldl (fun s key =>
    if s.err.isSome then s else
    let s := loadMod S (fuelOf s.w) s key
    if s.err.isSome then s else
      -- transpile(entrypoint): the tree is the one `treeGet` returned in this session; Writer + header (hash of the file)
      match List.lookup key s.trees, srcHash S s.w key with
      | some tree, some h =>
        { s with out := s.out ++ [(key, S.render key tree s.db)],
                 w := { s.w with outs := (s.w.outs.filter (fun e => e.1 ≠ key)) ++ [(key, h)] } }
      | _, _ => s) s

def run (S : Sem) (w : World) (force : Bool) : Sess :=
  let targets := if force then w.order else w.order.filter (canTranspile S w)
  runTargets S { w := w } targets

/-! ### histories -/

inductive Op
  | edit (key src : Str)         -- the file is rewritten: new content, fresh mtime
  | run (force : Bool)
  | clear                        -- rm -rf of the cache directory
  | delete (path : Str)          -- one cache file disappears
  | trunc (path : Str) (k : Nat) -- an interrupted write: the file keeps its first k bytes (a proper prefix)
  | enable (b : Bool)
  | grammar (path : Str)         -- the configuration names another grammar file / the grammar file is rewritten: fresh mtime
  | setting (path start algo : Str)  -- `ParserSetting` is changed (another grammar file with the SAME mtime, another start rule / algorithm)
deriving Repr

def World.clearCache (w : World) : World := { w with cache := [], dirs := [] }

def truncFile (f : File) (k : Nat) : File := { f with data := f.data.take (min k (f.data.length - 1)) }

def step (S : Sem) (w : World) : Op → World
  | .edit key src => { w with srcs := w.srcs.put key ⟨src, w.clock⟩, clock := w.clock + 1 }
  | .run force => (run S w force).w
  | .clear => w.clearCache
  | .delete p => { w with cache := w.cache.erase p }
  | .trunc p k => match w.cache.get? p with
    | some f => { w with cache := w.cache.put p (truncFile f k) }
    | none => w
  | .enable b => { w with enabled := b }
  | .grammar path => { w with grammar := path, grammarMtime := w.clock, clock := w.clock + 1 }
  | .setting path st al => { w with grammar := path, start := st, algo := al }

def exec (S : Sem) (w : World) (h : List Op) : World := h.foldl (step S) w

end Tranp.CacheFS
