/-
  Tranp.Model.DI — executable model of the dependency container (property C19).

  Modelled code (rog-works/tranp, tree with the repairs c3fd82c (invoke) and 6d5a231 (combine)):
    rogw/tranp/lang/di.py        DI (bind / unbind / rebind / resolve / can_resolve / invoke / _clone / combine,
                                 __find_symbol, _acceptable_symbol, __to_annotated, __pluck_annotations,
                                 __assert_invoke, _binded)
                                 LazyDI (instantiate / __register / __unregister / can_resolve / __symbolize / bind /
                                 unbind / resolve / __bind_proxy / _binded / _clone / combine; rebind is inherited)
    rogw/tranp/lang/module.py    to_fullyname (symbol paths of LazyDI), load_module_path (by-name definitions)
    rogw/tranp/lang/locator.py   Locator protocol (can_resolve / resolve / invoke)

  Two layers.
  * concrete (`Cont`, `State`, `step`): the four dictionaries exactly as the code keeps them — `instances`,
    `injectors` (keyed by the symbol after `__origin__` normalisation), `invocations` (annotation cache keyed by the
    callable whose annotations are read), `definitions` (LazyDI) — and a heap of containers, because `_clone`/`combine`
    create new ones.
  * abstract (`SCont`, `Spec`, `specStep`): per container one map `symbol ↦ (effective binding, lazy?, instance?)`
    and nothing else; `abs` is the abstraction function (it forgets the annotation cache, which is unobservable
    because a cached value is always the annotation list of its own key). `Props/C19.lean` proves the forward
    simulation. In the Spec `combine` is the right-biased choice per symbol (`preferRight`) and `invoke` is the invoke
    law itself (`sInvokeFill`): curry the leading resolvable annotated parameters of the factory, validate the rest on
    every call, then call.
    Binding generations are not numbered in the state: they are the stretches of a history between two
    bind / rebind / unbind ops of one symbol on one container (`touches`).

  Conventions
  * Python dicts are association lists (`Dict`). No code path of di.py iterates over `instances`, `injectors`,
    `definitions` or `invocations` (only `{**a, **b}` merges and key lookups), so insertion order is unobservable;
    `Dict.merge` is chosen such that its lookup law holds unconditionally.
  * A factory is the record of what di.py can see of it: object identity, the identity of the callable whose
    `__annotations__` are read (`__to_annotated`: the function / bound method itself, `__call__`, or `__init__`), and
    the positional parameters with their annotation (`none` = unannotated, which `__annotations__` does not list).
  * An instance is a fresh id plus the factory identity and the values it was built from.
  * Symbols are class identities (`Nat`); `SymRef` keeps whether the reference was written in subscripted form
    (`Query[Node]`), which `_acceptable_symbol` normalises away. LazyDI keys `definitions` by `to_fullyname(symbol)`;
    symbols have pairwise different full names (`__module__` + `__qualname__`), so `symbolize` is the identity on ids;
    `loadSymbol` is its inverse for importable module-level classes (every definition in rogw/tranp/app/config.py) and
    fails for nested classes (ids from `nestedFrom`): LazyDI cannot materialise a definition of a nested class.
  * Resolution recursion carries fuel; exhaustion is `RecursionError` (what CPython raises on a cyclic graph).
-/
import Tranp.Str

namespace Tranp.DI
open Tranp

/-- Exceptions the modelled code can raise (same strings as `harness.common.exc_enum`). -/
inductive Err where
  | valueError | indexError | typeError | attributeError | recursionError | keyError | moduleNotFound | notImplemented
deriving DecidableEq, Repr

def Err.toString : Err → String
  | .valueError => "ValueError"
  | .indexError => "IndexError"
  | .typeError => "TypeError"
  | .attributeError => "AttributeError"
  | .recursionError => "RecursionError"
  | .keyError => "KeyError"
  | .moduleNotFound => "Other:builtins.ModuleNotFoundError"
  | .notImplemented => "NotImplementedError"

/-- A symbol as written at the call site: class `origin`, possibly subscripted (`Gen[A]`). -/
structure SymRef where
  origin : Nat
  generic : Bool := false
deriving DecidableEq, Repr

/-- `DI._acceptable_symbol` (di.py:129): `getattr(symbol, '__origin__', symbol)`. -/
def SymRef.accept (r : SymRef) : Nat := r.origin

/-- `LazyDI.__symbolize` (di.py:329): `to_fullyname(self._acceptable_symbol(symbol))`; paths are identified with the
    class ids they name (see the header). -/
def symbolize (r : SymRef) : Nat := r.accept

/-- symbol ids from here on stand for classes nested in a class or a function (`Reader.Setting`,
    `make.<locals>.Setting`): their full name is still unique (`__qualname__`), but it is not an import path -/
def nestedFrom : Nat := 500

def importable (p : Nat) : Bool := p < nestedFrom

/-- `load_module_path(symbol_path)` for a symbol path (di.py:393, module.py:29-32), under the same identification: the
    path of a nested class names its enclosing scope as the module, `import_module` raises ModuleNotFoundError. -/
def loadSymbol (p : Nat) : Except Err SymRef :=
  if importable p then .ok { origin := p } else .error .moduleNotFound

/-- a remaining positional argument of `invoke`: an external value with its run-time class -/
structure Arg where
  id : Nat
  ty : Nat
deriving DecidableEq, Repr

inductive Val where
  | inst (id : Nat)
  | ext (id : Nat)
deriving DecidableEq, Repr

/-- an instance made by a factory call: fresh id, the factory object that made it, the values passed -/
structure Obj where
  id : Nat
  fid : Nat
  args : List Val
deriving DecidableEq, Repr

/-- `__to_annotated(factory)` (di.py:181-186): the callable whose `__annotations__` are plucked — its identity (hash /
    equality class of the Python object) and the parameters it declares -/
structure Annotated where
  aid : Nat
  params : List (Option SymRef)
deriving DecidableEq, Repr

structure Factory where
  fid : Nat
  /-- identity of `__to_annotated(factory)` -/
  aid : Nat
  params : List (Option SymRef)
  /-- the body of the factory raises (the model's stand-in: NotImplementedError) instead of returning an object -/
  raises : Bool
deriving DecidableEq, Repr

def Factory.annotated (f : Factory) : Annotated := ⟨f.aid, f.params⟩

/-- what `load_module_path` raises for a path that does not name anything (module.py:18,31) -/
inductive LoadErr where
  | noAttribute   -- getattr(module, name): AttributeError
  | noModule      -- import_module(path): ModuleNotFoundError
deriving DecidableEq, Repr

def LoadErr.toErr : LoadErr → Err
  | .noAttribute => .attributeError
  | .noModule => .moduleNotFound

/-- a value of `ModuleDefinitions`: a factory, or a module path string together with what `load_module_path`
    makes of it (the module table does not change during a run) -/
inductive Injector where
  | direct (f : Factory)
  | named (name : Nat) (f : Factory)
  | broken (name : Nat) (e : LoadErr)
deriving DecidableEq, Repr

/-- `injector if callable(injector) else load_module_path(injector)` (di.py:385) -/
def Injector.load : Injector → Except Err Factory
  | .direct f => .ok f
  | .named _ f => .ok f
  | .broken _ e => .error e.toErr

/-! ## Python dicts -/

/-- a Python dict with `Nat` keys: the list of its items in insertion order -/
structure Dict (α : Type) where
  items : List (Nat × α) := []
deriving DecidableEq, Repr

namespace Dict
variable {α : Type}

def getL : List (Nat × α) → Nat → Option α
  | [], _ => none
  | (k', v) :: m, k => if k' = k then some v else getL m k

/-- `d[k] = v`: keeps the position of an existing key -/
def setL : List (Nat × α) → Nat → α → List (Nat × α)
  | [], k, v => [(k, v)]
  | (k', v') :: m, k, v => if k' = k then (k, v) :: m else (k', v') :: setL m k v

/-- `d.get(k)` -/
def get? (m : Dict α) (k : Nat) : Option α := getL m.items k

/-- `d[k] = v` -/
def set (m : Dict α) (k : Nat) (v : α) : Dict α := ⟨setL m.items k v⟩

/-- `del d[k]` -/
def del (m : Dict α) (k : Nat) : Dict α := ⟨m.items.filter (fun kv => kv.1 ≠ k)⟩

/-- `{**a, **b}` -/
def merge (a b : Dict α) : Dict α := ⟨b.items.foldr (fun kv m => setL m kv.1 kv.2) a.items⟩

/-- `k in d` -/
def contains (m : Dict α) (k : Nat) : Bool := (get? m k).isSome

/-- `{k: v for k, v in d.items() if p(k)}` -/
def filterKeys (m : Dict α) (p : Nat → Bool) : Dict α := ⟨m.items.filter (fun kv => p kv.1)⟩

end Dict

/-- `DI.__invocations` (di.py:19): a dict keyed by callables -/
structure Memo where
  items : List (Annotated × List SymRef) := []
deriving DecidableEq, Repr

namespace Memo

def getL : List (Annotated × List SymRef) → Annotated → Option (List SymRef)
  | [], _ => none
  | (k', v) :: m, k => if k' = k then some v else getL m k

def setL : List (Annotated × List SymRef) → Annotated → List SymRef → List (Annotated × List SymRef)
  | [], k, v => [(k, v)]
  | (k', v') :: m, k, v => if k' = k then (k, v) :: m else (k', v') :: setL m k v

def get? (m : Memo) (k : Annotated) : Option (List SymRef) := getL m.items k
def set (m : Memo) (k : Annotated) (v : List SymRef) : Memo := ⟨setL m.items k v⟩
def contains (m : Memo) (k : Annotated) : Bool := (get? m k).isSome

end Memo

/-! ## concrete state -/

/-- one container object; `lazy` is its class (`DI` / `LazyDI`) -/
structure Cont where
  lazy : Bool
  instances : Dict Obj := {}              -- DI.__instances   (di.py:17)
  injectors : Dict Factory := {}          -- DI.__injectors   (di.py:18)
  invocations : Memo := {}                -- DI.__invocations (di.py:19), keyed by the annotated callable
  definitions : Dict Injector := {}       -- LazyDI.__definitions (di.py:275)
deriving DecidableEq, Repr

/-- result of a method call on a container: the container afterwards, the instance counter afterwards, and the
    value or the exception (mutations made before a `raise` stay) -/
abbrev Res (α : Type) := Cont × Nat × Except Err α

namespace Cont

/-- `DI.__find_symbol(symbol) is not None` (di.py:40,140) -/
def innerBinded (c : Cont) (r : SymRef) : Bool := c.injectors.contains r.accept

/-- `LazyDI.__can_resolve` (di.py:319) -/
def defined (c : Cont) (p : Nat) : Bool := c.definitions.contains p

/-- `can_resolve` with virtual dispatch: DI (di.py:30) / LazyDI (di.py:309) -/
def canResolve (c : Cont) (r : SymRef) : Bool :=
  if c.lazy then c.defined (symbolize r) else c.innerBinded r

/-- `DI.bind` (di.py:51-55) -/
def diBind (c : Cont) (r : SymRef) (f : Factory) : Cont × Except Err Unit :=
  let s := r.accept
  if c.innerBinded ⟨s, false⟩ then (c, .error .valueError)
  else ({ c with injectors := c.injectors.set s f }, .ok ())

/-- `DI.unbind` (di.py:63-69) -/
def diUnbind (c : Cont) (r : SymRef) : Cont :=
  if c.innerBinded r then
    { c with injectors := c.injectors.del r.accept, instances := c.instances.del r.accept }
  else c

/-- `LazyDI.__register` (di.py:286-289) -/
def register (c : Cont) (p : Nat) (inj : Injector) : Cont × Except Err Unit :=
  if c.defined p then (c, .error .valueError)
  else ({ c with definitions := c.definitions.set p inj }, .ok ())

/-- `LazyDI.__unregister` (di.py:297-298) -/
def unregister (c : Cont) (p : Nat) : Cont :=
  if c.defined p then { c with definitions := c.definitions.del p } else c

/-- `LazyDI.bind` (di.py:341-345) -/
def lazyBind (c : Cont) (r : SymRef) (f : Factory) : Cont × Except Err Unit :=
  let p := symbolize r
  let c1 := if !c.defined p then (c.register p (.direct f)).1 else c
  c1.diBind r f

/-- `LazyDI.unbind` (di.py:354-357) -/
def lazyUnbind (c : Cont) (r : SymRef) : Cont :=
  let c1 := if c.canResolve r then c.unregister (symbolize r) else c
  c1.diUnbind r

/-- `self.bind(...)` -/
def bind (c : Cont) (r : SymRef) (f : Factory) : Cont × Except Err Unit :=
  if c.lazy then c.lazyBind r f else c.diBind r f

/-- `self.unbind(...)` -/
def unbind (c : Cont) (r : SymRef) : Cont :=
  if c.lazy then c.lazyUnbind r else c.diUnbind r

/-- `DI.rebind` (di.py:78-81), inherited by LazyDI: the test looks at the base-class registry only -/
def rebind (c : Cont) (r : SymRef) (f : Factory) : Cont × Except Err Unit :=
  let c1 := if c.innerBinded r then c.unbind r else c
  c1.bind r f

/-- `LazyDI.__bind_proxy` (di.py:384-385) -/
def bindProxy (c : Cont) (p : Nat) : Cont × Except Err Unit :=
  match c.definitions.get? p with
  | none => (c, .error .keyError)
  | some inj =>
    match loadSymbol p with
    | .error e => (c, .error e)
    | .ok sym =>
      match inj.load with
      | .error e => (c, .error e)
      | .ok f => c.bind sym f

end Cont

/-- `DI.__pluck_annotations` (di.py:196-197): the annotated parameters of the callable, in order -/
def pluckA (a : Annotated) : List SymRef := a.params.filterMap id

/-- the annotations `invoke` works with for a factory: those of `__to_annotated(factory)` -/
def pluck (f : Factory) : List SymRef := pluckA f.annotated

/-- `self.__invocations[annotated]` after lines di.py:157-161: the cached annotations if the callable was seen
    before, otherwise the ones just plucked -/
def annosFor (cached : Option (List SymRef)) (f : Factory) : List SymRef :=
  match cached with
  | some a => a
  | none => pluck f

/-- the list comprehension of `__assert_invoke` (di.py:212): arguments accepted by their partner in `zip` -/
def allowCount : List Arg → List Nat → Nat
  | a :: as, e :: es => (if a.ty = e then 1 else 0) + allowCount as es
  | _, _ => 0

/-- `DI.__assert_invoke` (di.py:211-214) -/
def assertInvoke (annos : List SymRef) (curried : List Obj) (args : List Arg) : Except Err Unit :=
  let expect := (annos.drop curried.length).map SymRef.accept
  if expect.length ≠ args.length ∨ expect.length ≠ allowCount args expect then .error .valueError else .ok ()

/-- `factory(*curried_args, *remain_args)` (di.py:171): CPython's arity check, then the body: it raises, or returns a
    fresh instance -/
def call (nx : Nat) (f : Factory) (curried : List Obj) (args : List Arg) : Nat × Except Err Obj :=
  if curried.length + args.length = f.params.length then
    if f.raises then (nx, .error .notImplemented) else
    (nx + 1, .ok ⟨nx, f.fid, curried.map (fun o => Val.inst o.id) ++ args.map (fun a => Val.ext a.id)⟩)
  else (nx, .error .typeError)

/-- the `for anno in annos.values()` loop of `invoke` (di.py:165-169); `rec` is `self.resolve` -/
def curryWith (rec : Cont → Nat → SymRef → Res Obj) : Cont → Nat → List SymRef → List Obj → Res (List Obj)
  | c, nx, [], acc => (c, nx, .ok acc)
  | c, nx, a :: as, acc =>
    if c.canResolve a then
      match rec c nx a with
      | (c', nx', .ok o) => curryWith rec c' nx' as (acc ++ [o])
      | (c', nx', .error e) => (c', nx', .error e)
    else (c, nx, .ok acc)

/-- `DI.invoke` (di.py:157-171); `rec` is `self.resolve` -/
def invokeWith (rec : Cont → Nat → SymRef → Res Obj) (c : Cont) (nx : Nat) (f : Factory) (args : List Arg) : Res Obj :=
  let annotated := f.annotated
  let annos := annosFor (c.invocations.get? annotated) f
  let c1 := if c.invocations.contains annotated then c
    else { c with invocations := c.invocations.set annotated (pluckA annotated) }
  match curryWith rec c1 nx annos [] with
  | (c2, nx2, .error e) => (c2, nx2, .error e)
  | (c2, nx2, .ok curried) =>
    match assertInvoke annos curried args with
    | .error e => (c2, nx2, .error e)
    | .ok () =>
      let (nx3, r) := call nx2 f curried args
      (c2, nx3, r)

/-- `DI.resolve` (di.py:94-102) -/
def diResolveWith (rec : Cont → Nat → SymRef → Res Obj) (c : Cont) (nx : Nat) (r : SymRef) : Res Obj :=
  let s := r.accept
  match c.injectors.get? s with
  | none => (c, nx, .error .valueError)
  | some f =>
    match c.instances.get? s with
    | some o => (c, nx, .ok o)
    | none =>
      match invokeWith rec c nx f [] with
      | (c', nx', .ok o) => ({ c' with instances := c'.instances.set s o }, nx', .ok o)
      | (c', nx', .error e) => (c', nx', .error e)

/-- `LazyDI.resolve` (di.py:370-374) -/
def lazyResolveWith (rec : Cont → Nat → SymRef → Res Obj) (c : Cont) (nx : Nat) (r : SymRef) : Res Obj :=
  let p := symbolize r
  if !c.innerBinded r && c.defined p then
    match c.bindProxy p with
    | (c1, .error e) => (c1, nx, .error e)
    | (c1, .ok ()) => diResolveWith rec c1 nx r
  else diResolveWith rec c nx r

/-- `self.resolve(symbol)` with `fuel` nested resolutions left -/
def resolveF : Nat → Cont → Nat → SymRef → Res Obj
  | 0, c, nx, _ => (c, nx, .error .recursionError)
  | fuel + 1, c, nx, r =>
    if c.lazy then lazyResolveWith (resolveF fuel) c nx r else diResolveWith (resolveF fuel) c nx r

/-- `self.invoke(factory, *remain_args)` -/
def invokeF (fuel : Nat) (c : Cont) (nx : Nat) (f : Factory) (args : List Arg) : Res Obj :=
  invokeWith (resolveF fuel) c nx f args

/-- `DI._clone` / `LazyDI._clone` (di.py:222-225, 413-415): `self.__class__()` then copied dictionaries; the
    annotation cache starts empty -/
def Cont.clone (c : Cont) : Cont :=
  { lazy := c.lazy, instances := c.instances, injectors := c.injectors, invocations := {},
    definitions := if c.lazy then c.definitions else {} }

/-- `_binded(symbol)` for a key of the base dictionaries: DI (di.py:259) asks the base registry, LazyDI (di.py:404)
    `can_resolve`, i.e. the definitions -/
def Cont.binded (c : Cont) (s : Nat) : Bool :=
  if c.lazy then c.defined s else c.injectors.contains s

/-- `a.combine(b)` (di.py:242-249, 433-435) -/
def Cont.combine (a b : Cont) : Except Err Cont :=
  if !a.lazy && b.lazy then .error .typeError            -- not isinstance(self, other.__class__)
  else if a.lazy && !b.lazy then .error .attributeError   -- other.__definitions of a plain DI
  else
    let di := a.clone
    .ok { di with
      instances := (di.instances.filterKeys (fun s => !b.binded s)).merge b.instances,
      injectors := (di.injectors.filterKeys (fun s => !b.binded s)).merge b.injectors,
      definitions := if a.lazy then a.definitions.merge b.definitions else {} }

/-- `LazyDI.instantiate` (di.py:266-270) -/
def instantiate : Cont → List (Nat × Injector) → Except Err Cont
  | c, [] => .ok c
  | c, (p, inj) :: rest =>
    match c.register p inj with
    | (_, .error e) => .error e
    | (c', .ok ()) => instantiate c' rest

/-! ## operations and the step function -/

/-- method calls on one container -/
inductive ContOp where
  | bind (r : SymRef) (f : Factory)
  | rebind (r : SymRef) (f : Factory)
  | unbind (r : SymRef)
  | resolve (r : SymRef)
  | can (r : SymRef)
  | invoke (f : Factory) (args : List Arg)
deriving DecidableEq, Repr

inductive Op where
  | newDI
  | newLazy (defs : List (Nat × Injector))
  | on (c : Nat) (op : ContOp)
  | clone (c : Nat)
  | combine (a b : Nat)
deriving DecidableEq, Repr

inductive Out where
  | ok
  | bool (b : Bool)
  | obj (o : Obj)
  | cont (id : Nat)
  | err (e : Err)
  | bad                -- the op names a container that does not exist
deriving DecidableEq, Repr

def Out.isFine : Out → Bool
  | .err _ => false
  | .bad => false
  | _ => true

def Out.isObj : Out → Bool
  | .obj _ => true
  | _ => false

def outUnit : Except Err Unit → Out
  | .ok () => .ok
  | .error e => .err e

def outObj : Except Err Obj → Out
  | .ok o => .obj o
  | .error e => .err e

/-- one method call on one container -/
def stepCont (fuel : Nat) (c : Cont) (nx : Nat) : ContOp → Cont × Nat × Out
  | .bind r f => let (c', res) := c.bind r f; (c', nx, outUnit res)
  | .rebind r f => let (c', res) := c.rebind r f; (c', nx, outUnit res)
  | .unbind r => (c.unbind r, nx, .ok)
  | .resolve r => let (c', nx', res) := resolveF fuel c nx r; (c', nx', outObj res)
  | .can r => (c, nx, .bool (c.canResolve r))
  | .invoke f args => let (c', nx', res) := invokeF fuel c nx f args; (c', nx', outObj res)

structure State where
  conts : List Cont := []
  next : Nat := 0
deriving DecidableEq, Repr

def State.init : State := {}

def step (fuel : Nat) (σ : State) : Op → State × Out
  | .newDI => ({ σ with conts := σ.conts ++ [{ lazy := false }] }, .cont σ.conts.length)
  | .newLazy defs =>
    match instantiate { lazy := true } defs with
    | .error e => (σ, .err e)
    | .ok c => ({ σ with conts := σ.conts ++ [c] }, .cont σ.conts.length)
  | .on i op =>
    match σ.conts[i]? with
    | none => (σ, .bad)
    | some c =>
      let (c', nx', out) := stepCont fuel c σ.next op
      ({ conts := σ.conts.set i c', next := nx' }, out)
  | .clone i =>
    match σ.conts[i]? with
    | none => (σ, .bad)
    | some c => ({ σ with conts := σ.conts ++ [c.clone] }, .cont σ.conts.length)
  | .combine i j =>
    match σ.conts[i]?, σ.conts[j]? with
    | some a, some b =>
      match a.combine b with
      | .error e => (σ, .err e)
      | .ok c => ({ σ with conts := σ.conts ++ [c] }, .cont σ.conts.length)
    | _, _ => (σ, .bad)

/-- run an op sequence; outputs in order -/
def run (fuel : Nat) : State → List Op → State × List Out
  | σ, [] => (σ, [])
  | σ, op :: ops =>
    let (σ1, o) := step fuel σ op
    let (σ2, os) := run fuel σ1 ops
    (σ2, o :: os)

/-! ## the abstract reference `Spec` -/

/-- what a container knows about one symbol -/
structure SEntry where
  /-- the effective binding -/
  inj : Injector
  /-- `true`: only a (by-name or direct) definition, not yet bound in the base registry (LazyDI) -/
  lazy : Bool
  inst : Option Obj
deriving DecidableEq, Repr

@[ext] structure SCont where
  isLazy : Bool
  ents : Nat → Option SEntry

structure Spec where
  conts : List SCont
  next : Nat

abbrev SRes (α : Type) := SCont × Nat × Except Err α

def fset {β : Type} (m : Nat → Option β) (k : Nat) (v : Option β) : Nat → Option β :=
  fun k' => if k' = k then v else m k'

namespace SCont

def canResolve (c : SCont) (r : SymRef) : Bool := (c.ents r.accept).isSome

def setEnt (c : SCont) (s : Nat) (e : Option SEntry) : SCont := { c with ents := fset c.ents s e }

/-- bind: refused for a materialised binding; a definition that was never resolved is silently replaced
    (LazyDI registers only when absent, then binds in the base registry) -/
def bind (c : SCont) (r : SymRef) (f : Factory) : SCont × Except Err Unit :=
  match c.ents r.accept with
  | some e => if e.lazy then (c.setEnt r.accept (some ⟨.direct f, false, none⟩), .ok ()) else (c, .error .valueError)
  | none => (c.setEnt r.accept (some ⟨.direct f, false, none⟩), .ok ())

def unbind (c : SCont) (r : SymRef) : SCont :=
  match c.ents r.accept with
  | some _ => c.setEnt r.accept none
  | none => c

def rebind (c : SCont) (r : SymRef) (f : Factory) : SCont × Except Err Unit :=
  (c.setEnt r.accept (some ⟨.direct f, false, none⟩), .ok ())

end SCont

def sCurryWith (rec : SCont → Nat → SymRef → SRes Obj) : SCont → Nat → List SymRef → List Obj → SRes (List Obj)
  | c, nx, [], acc => (c, nx, .ok acc)
  | c, nx, a :: as, acc =>
    if c.canResolve a then
      match rec c nx a with
      | (c', nx', .ok o) => sCurryWith rec c' nx' as (acc ++ [o])
      | (c', nx', .error e) => (c', nx', .error e)
    else (c, nx, .ok acc)

/-- the remaining arguments must match the unresolved annotated parameters one to one, else ValueError -/
def validateFill (annos : List SymRef) (curried : List Obj) (args : List Arg) : Except Err Unit :=
  if args.map (fun a => a.ty) = (annos.drop curried.length).map SymRef.accept then .ok () else .error .valueError

/-- the invoke law: curry the leading resolvable annotated parameters of the factory itself, validate the rest on
    every call, then call -/
def sInvokeFill (rec : SCont → Nat → SymRef → SRes Obj) (c : SCont) (nx : Nat) (f : Factory) (args : List Arg) : SRes Obj :=
  let annos := pluck f
  match sCurryWith rec c nx annos [] with
  | (c2, nx2, .error e) => (c2, nx2, .error e)
  | (c2, nx2, .ok curried) =>
    match validateFill annos curried args with
    | .error e => (c2, nx2, .error e)
    | .ok () =>
      let (nx3, r) := call nx2 f curried args
      (c2, nx3, r)

/-- resolve: unknown symbol → ValueError; a lazy entry is materialised first (its by-name target is loaded);
    an existing instance is returned, otherwise the factory is invoked without remaining arguments -/
def sResolveWith (rec : SCont → Nat → SymRef → SRes Obj) (c : SCont) (nx : Nat) (r : SymRef) : SRes Obj :=
  let s := r.accept
  match c.ents s with
  | none => (c, nx, .error .valueError)
  | some e =>
    if e.lazy && !importable s then (c, nx, .error .moduleNotFound) else
    match e.inj.load with
    | .error err => (c, nx, .error err)
    | .ok f =>
      let c1 := if e.lazy then c.setEnt s (some ⟨.direct f, false, none⟩) else c
      match (if e.lazy then none else e.inst) with
      | some o => (c1, nx, .ok o)
      | none =>
        match sInvokeFill rec c1 nx f [] with
        | (c', nx', .ok o) => (c'.setEnt s (some ⟨.direct f, false, some o⟩), nx', .ok o)
        | (c', nx', .error err) => (c', nx', .error err)

def sResolveF : Nat → SCont → Nat → SymRef → SRes Obj
  | 0, c, nx, _ => (c, nx, .error .recursionError)
  | fuel + 1, c, nx, r => sResolveWith (sResolveF fuel) c nx r

def sInvokeF (fuel : Nat) (c : SCont) (nx : Nat) (f : Factory) (args : List Arg) : SRes Obj :=
  sInvokeFill (sResolveF fuel) c nx f args

def sStepCont (fuel : Nat) (c : SCont) (nx : Nat) : ContOp → SCont × Nat × Out
  | .bind r f => let (c', res) := c.bind r f; (c', nx, outUnit res)
  | .rebind r f => let (c', res) := c.rebind r f; (c', nx, outUnit res)
  | .unbind r => (c.unbind r, nx, .ok)
  | .resolve r => let (c', nx', res) := sResolveF fuel c nx r; (c', nx', outObj res)
  | .can r => (c, nx, .bool (c.canResolve r))
  | .invoke f args => let (c', nx', res) := sInvokeF fuel c nx f args; (c', nx', outObj res)

/-- entries of `LazyDI.instantiate(definitions)`; a key registered twice is ValueError -/
def sInstantiate : (Nat → Option SEntry) → List (Nat × Injector) → Except Err (Nat → Option SEntry)
  | m, [] => .ok m
  | m, (p, inj) :: rest =>
    if (m p).isSome then .error .valueError else sInstantiate (fset m p (some ⟨inj, true, none⟩)) rest

/-- right-biased choice of entries: what `combine` gives per symbol -/
def preferRight (l r : Option SEntry) : Option SEntry :=
  match r with
  | some e => some e
  | none => l

def SCont.combine (a b : SCont) : Except Err SCont :=
  if !a.isLazy && b.isLazy then .error .typeError
  else if a.isLazy && !b.isLazy then .error .attributeError
  else .ok { isLazy := a.isLazy, ents := fun s => preferRight (a.ents s) (b.ents s) }

def specStep (fuel : Nat) (σ : Spec) : Op → Spec × Out
  | .newDI => ({ σ with conts := σ.conts ++ [⟨false, fun _ => none⟩] }, .cont σ.conts.length)
  | .newLazy defs =>
    match sInstantiate (fun _ => none) defs with
    | .error e => (σ, .err e)
    | .ok m => ({ σ with conts := σ.conts ++ [⟨true, m⟩] }, .cont σ.conts.length)
  | .on i op =>
    match σ.conts[i]? with
    | none => (σ, .bad)
    | some c =>
      let (c', nx', out) := sStepCont fuel c σ.next op
      ({ conts := σ.conts.set i c', next := nx' }, out)
  | .clone i =>
    match σ.conts[i]? with
    | none => (σ, .bad)
    | some c => ({ σ with conts := σ.conts ++ [c] }, .cont σ.conts.length)
  | .combine i j =>
    match σ.conts[i]?, σ.conts[j]? with
    | some a, some b =>
      match a.combine b with
      | .error e => (σ, .err e)
      | .ok c => ({ σ with conts := σ.conts ++ [c] }, .cont σ.conts.length)
    | _, _ => (σ, .bad)

def specRun (fuel : Nat) : Spec → List Op → Spec × List Out
  | σ, [] => (σ, [])
  | σ, op :: ops =>
    let (σ1, o) := specStep fuel σ op
    let (σ2, os) := specRun fuel σ1 ops
    (σ2, o :: os)

def Spec.init : Spec := ⟨[], 0⟩

/-! ## vocabulary of the property theorems -/

/-- the op is a bind / rebind / unbind of symbol `s` on container `c` (it starts a new binding generation) -/
def touches (c s : Nat) : Op → Bool
  | .on c' (.bind r _) => c' == c && r.accept == s
  | .on c' (.rebind r _) => c' == c && r.accept == s
  | .on c' (.unbind r) => c' == c && r.accept == s
  | _ => false

/-- the abstract entry of symbol `s` in container `c` -/
def look (σ : Spec) (c s : Nat) : Option SEntry := (σ.conts[c]?).bind (fun sc => sc.ents s)

/-- the container an op is addressed to (creating ops address none of the existing ones) -/
def Op.target : Op → Option Nat
  | .on c _ => some c
  | _ => none

/-- the invoke law as a step on the Spec heap (this is what `specStep` does for an `invoke` op) -/
def fillStep (fuel : Nat) (σ : Spec) (i : Nat) (f : Factory) (args : List Arg) : Spec × Out :=
  match σ.conts[i]? with
  | none => (σ, .bad)
  | some c =>
    let (c', nx', res) := sInvokeFill (sResolveF fuel) c σ.next f args
    ({ conts := σ.conts.set i c', next := nx' }, outObj res)

/-- the factories an op mentions -/
def Injector.facs : Injector → List Factory
  | .direct f => [f]
  | .named _ f => [f]
  | .broken _ _ => []

/-! ## how tranp uses the container (providers/app.py, providers/syntax/entrypoints.py) -/

/-- the symbols that play a role in the usage pattern -/
structure Roles where
  locator : Nat
  invoker : Nat
  modulePath : Nat
  entrypoint : Nat
  /-- resolved in the shared container before every combine (entrypoints.py:28-31: SyntaxParser, CacheProvider,
      SymbolMapping) -/
  preResolved : List Nat
deriving Repr

/-- `lambda: di` where `di` is container `k` (providers/app.py:18, entrypoints.py:34): a closure is a factory object
    of its own; which container it closes over is part of its identity -/
def locatorFactory (k : Nat) : Factory := ⟨1000000 + 2 * k, 1000000 + 2 * k, [], false⟩

/-- `lambda: di.invoke` where `di` is container `k` (providers/app.py:19, entrypoints.py:35) -/
def invokerFactory (k : Nat) : Factory := ⟨1000001 + 2 * k, 1000001 + 2 * k, [], false⟩

/-- `di_container(definitions)` (providers/app.py:17-20) on a heap that holds `n` containers: the new container is `n` -/
def diContainerOps (R : Roles) (n : Nat) (defs : List (Nat × Injector)) : List Op :=
  [.newLazy defs, .on n (.bind ⟨R.locator, false⟩ (locatorFactory n)), .on n (.bind ⟨R.invoker, false⟩ (invokerFactory n))]

/-- the body of `handler(module_path)` (providers/syntax/entrypoints.py:27-37) for the shared container `s` on a heap
    that holds `n` containers: `n` is `dependency_di`, `n + 1` is `new_di`; `mp` is `lambda: module_path` -/
def loadModuleOps (R : Roles) (s n : Nat) (deps : List (Nat × Injector)) (mp : Factory) : List Op :=
  R.preResolved.map (fun x => Op.on s (.resolve ⟨x, false⟩)) ++
  [.newLazy deps, .combine s n,
   .on (n + 1) (.rebind ⟨R.locator, false⟩ (locatorFactory (n + 1))),
   .on (n + 1) (.rebind ⟨R.invoker, false⟩ (invokerFactory (n + 1))),
   .on (n + 1) (.bind ⟨R.modulePath, false⟩ mp),
   .on (n + 1) (.resolve ⟨R.entrypoint, false⟩)]

/-- the instance a container currently holds for a symbol (none for an unresolved definition) -/
def instOf (σ : Spec) (c x : Nat) : Option Obj :=
  match look σ c x with
  | some e => if e.lazy then none else e.inst
  | none => none

/-! ## abstraction function -/

/-- the abstract entry of symbol `s` in a concrete container -/
def absEnt (c : Cont) (s : Nat) : Option SEntry :=
  match c.injectors.get? s with
  | some f => some ⟨.direct f, false, c.instances.get? s⟩
  | none =>
    if c.lazy then
      match c.definitions.get? s with
      | some inj => some ⟨inj, true, none⟩
      | none => none
    else none

def absC (c : Cont) : SCont := { isLazy := c.lazy, ents := absEnt c }

def abs (σ : State) : Spec := ⟨σ.conts.map absC, σ.next⟩

end Tranp.DI
