/-
  Tranp.Model.CppLiteral — the reader at the far end of property C17's second observation point: what a C++ compiler makes of the
  text between the double quotes that `relay/literalize.j2` prints for a string enum value (`"{{ literal }}"`, the raw body of the
  evaluator's token, py2cpp.py:861).

  `cppBytes body` = the bytes of the array a narrow string literal `"body"` denotes (ISO C++ [lex.ccon]/[lex.string], UTF-8 as
  execution character set — what g++ does by default; the harness ties this model to g++ on every run, stream `cppread`), or `none`
  when `"body"` is not one well-defined literal: an unescaped `"`, a raw line feed, an escape ISO C++ does not define (`\d`, `\8`:
  "conditionally-supported"), a `\x…` / `\ooo` value beyond one byte, a `\u` / `\U` of a surrogate or beyond U+10FFFF, a body
  ending inside an escape.  `\x` takes ALL following hexadecimal digits (Python: exactly two).

  The Python side of the comparison is `utf8s (decodeEsc body)`: the UTF-8 encoding of the `str` CPython builds from the same body
  (Tranp/Model/Evaluator.lean).
-/
import Tranp.Model.Evaluator

namespace Tranp.Evaluator
open Tranp

/-- UTF-8 encoding of a code point (bytes as naturals) -/
def utf8 (n : Nat) : List Nat :=
  if n < 0x80 then [n]
  else if n < 0x800 then [0xC0 + n / 64, 0x80 + n % 64]
  else if n < 0x10000 then [0xE0 + n / 4096, 0x80 + n / 64 % 64, 0x80 + n % 64]
  else [0xF0 + n / 262144, 0x80 + n / 4096 % 64, 0x80 + n / 64 % 64, 0x80 + n % 64]

/-- `s.encode('utf-8')` -/
def utf8s : Str → List Nat
  | [] => []
  | c :: cs => utf8 c.toNat ++ utf8s cs

/-- state of the C++ reader: plain text, after a backslash, inside `\ooo` (value, digits so far), inside `\x…` (value, whether a
    digit was read: the escape takes every following hexadecimal digit), inside `\uhhhh` / `\Uhhhhhhhh` (digits to come, value). -/
inductive CppState where
  | normal | backslash | oct (v n : Nat) | hexG (v : Nat) (any : Bool) | ucn (need : Nat) (v : Nat)
deriving DecidableEq, Repr

/-- a character of the s-char-sequence outside an escape: any character but `"`, `\` and a line feed -/
def cppPlain (c : Char) : Option (List Nat × CppState) :=
  if c = '\\' then some ([], .backslash)
  else if c = '"' || c = '\n' then none
  else some (utf8 c.toNat, .normal)

/-- the simple-escape-sequences of ISO C++ ([lex.ccon]: \n \t \v \b \r \f \a \\ \? \' \") and the byte each denotes -/
def cppSimple : List (Char × Nat) :=
  [('n', 10), ('t', 9), ('v', 11), ('b', 8), ('r', 13), ('f', 12), ('a', 7), ('\\', 92), ('?', 63), ('\'', 39), ('"', 34)]

/-- one character: the bytes that are complete now and the next state; `none` = not a well-defined literal. -/
def cppStep : CppState → Char → Option (List Nat × CppState)
  | .normal, c => cppPlain c
  | .backslash, c =>
    match octVal c with
    | some d => some ([], .oct d 1)
    | none =>
      if c = 'x' then some ([], .hexG 0 false)
      else if c = 'u' then some ([], .ucn 4 0)
      else if c = 'U' then some ([], .ucn 8 0)
      else match cppSimple.lookup c with
        | some b => some ([b], .normal)
        | none => none
  | .oct v n, c =>
    match octVal c with
    | some d =>
      if n < 2 then some ([], .oct (v * 8 + d) (n + 1))
      else if v * 8 + d < 256 then some ([v * 8 + d], .normal) else none
    | none =>
      match cppPlain c with
      | some (bs, st) => some (v :: bs, st)
      | none => none
  | .hexG v any, c =>
    match Str.hexVal c with
    | some d => some ([], .hexG (v * 16 + d) true)
    | none =>
      if any && v < 256 then
        match cppPlain c with
        | some (bs, st) => some (v :: bs, st)
        | none => none
      else none
  | .ucn need v, c =>
    match Str.hexVal c with
    | some d =>
      if need ≤ 1 then (if validScalar (v * 16 + d) then some (utf8 (v * 16 + d), .normal) else none)
      else some ([], .ucn (need - 1) (v * 16 + d))
    | none => none

/-- the closing quote -/
def cppFlush : CppState → Option (List Nat)
  | .normal => some []
  | .backslash => none
  | .oct v _ => some [v]
  | .hexG v any => if any && v < 256 then some [v] else none
  | .ucn _ _ => none

def cppGo (st : CppState) : Str → Option (List Nat)
  | [] => cppFlush st
  | c :: cs =>
    match cppStep st c with
    | some (bs, st') =>
      match cppGo st' cs with
      | some rest => some (bs ++ rest)
      | none => none
    | none => none

/-- the bytes of the C++ narrow string literal `"body"` -/
def cppBytes (body : Str) : Option (List Nat) := cppGo .normal body

/-- the next character does not continue a `\x…` escape -/
def notHexNext : Str → Bool
  | [] => true
  | c :: _ => (Str.hexVal c).isNone

/-- a character both readers take as plain text -/
def plainOk (c : Char) : Bool := !(c = '"' || c = '\n')

/-- the body is read alike by CPython and by C++ (scan over CPython's decoder states): no unescaped `"` and no raw line feed;
    only escapes both languages define (octal, `\xhh`, `\uhhhh`, `\Uhhhhhhhh`, n t r a b f v \ ' " — not `\?`, which only C++ has, and
    no unknown escape, which only Python keeps); a `\xhh` / `\ooo` value below 0x80 (above, C++ has one byte where Python has a
    character of two UTF-8 bytes); no hexadecimal digit right after `\xhh`; `\u` / `\U` of a scalar value; not ending inside `\`,
    `\x`, `\u`, `\U`. -/
def cppSafeGo : DecState → Str → Bool
  | st, [] => (match st with | .normal => true | .oct v _ => decide (v < 128) | _ => false)
  | st, c :: cs =>
    (match st with
     | .normal => c = '\\' || plainOk c
     | .backslash => (octVal c).isSome || (hexWidth c).isSome || (simpleEsc c).isSome
     | .oct v n =>
       (match octVal c with
        | some d => n < 2 || decide (v * 8 + d < 128)
        | none => decide (v < 128) && (c = '\\' || plainOk c))
     | .hex k need _ v =>
       (match Str.hexVal c with
        | some d =>
          1 < need || (if k = 'x' then decide (v * 16 + d < 128) && notHexNext cs
                       else if k = 'u' || k = 'U' then validScalar (v * 16 + d) else false)
        | none => false)) && cppSafeGo (stepSt st c).2 cs

def cppSafe (body : Str) : Bool := cppSafeGo .normal body

/-- the C++ reader state that corresponds to a state of CPython's decoder -/
def toCpp : DecState → CppState
  | .normal => .normal
  | .backslash => .backslash
  | .oct v n => .oct v n
  | .hex k need seen v => if k = 'x' then .hexG v (!seen.isEmpty) else .ucn need v

end Tranp.Evaluator
