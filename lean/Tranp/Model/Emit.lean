/-
  Tranp.Model.Emit — tranp's operator core as `Py2Cpp` renders it (property C01).

  Modelled code (/repo):
    rogw/tranp/syntax/node/definition/operator.py        node shapes: Factor, NotCompare, the nine flat BinaryOperator
                                                          kinds (one per ladder level), TernaryOperator; expression.py:6 Group
    rogw/tranp/implements/cpp/transpiler/py2cpp.py
      1379-1388  on_factor / on_not_compare               unary_operator.j2, operator '!' for `not`; guards: a factor under the same
                                                          sign and a regrouped operand of `not` are wrapped in `( )`
      1447-1472  is_regrouped_operand                     operand is a (non-Group) BinaryOperator whose loosest known C++ precedence
                                                          is below the precedence of the operator applied to it
      1578-1608  CppOperatorPrecedences                   translated: Generated.CppTemplates.cppPrecBinary / cppPrecUnary
      1385-1410  on_or_compare … on_term                  all → proc_binary_operation
      1486-1501  proc_binary_operation_expression         left fold over the chain, one template instance per operator, every operand
                                                          guarded by is_regrouped_operand (the first one against operators[0]),
                                                          `primary_raw` (type of the LEFT operand of the next operator) = the type of the
                                                          previous RIGHT element unless it already is floating point (`Ty.acc`, 6063966)
      1457-1458  on_ternary_operator, 1518-1519 on_group
    data/cpp/template/operation/*.j2, expression/group.j2  via Tranp.Generated.CppTemplates (translator) — the model
                                                          *interprets* the generated branches, it does not restate them
  Not modelled: `proc_binary_operation_fill_list` (`[x] * n`, py2cpp.py:1428-1433), the leaf handlers (an atom carries the
  text its handler produced), type inference (each chain element carries the domain name `reflections.type_of` gave).
-/
import Tranp.Str
import Tranp.Prec
import Tranp.Generated.CppTemplates

namespace Tranp.Emit
open Tranp Tranp.Generated.CppTemplates

/-! ## operators of the ladder -/

inductive BOp where
  | or | and
  | lt | gt | eq | ge | le | ltgt | ne | in_ | notIn | is | isNot
  | bor | bxor | band | shl | shr | add | sub | mul | div | mod
deriving DecidableEq, Repr, Inhabited

inductive UOp where
  | pos | neg | inv
deriving DecidableEq, Repr, Inhabited

/-- operator text as `Terminal.tokens` hands it to the template (`"not" "in"` is joined with a dot) -/
def BOp.tok : BOp → Str
  | .or => ['o', 'r'] | .and => ['a', 'n', 'd']
  | .lt => ['<'] | .gt => ['>'] | .eq => ['=', '='] | .ge => ['>', '='] | .le => ['<', '='] | .ltgt => ['<', '>'] | .ne => ['!', '=']
  | .in_ => ['i', 'n'] | .notIn => ['n', 'o', 't', '.', 'i', 'n'] | .is => ['i', 's'] | .isNot => ['i', 's', '.', 'n', 'o', 't']
  | .bor => ['|'] | .bxor => ['^'] | .band => ['&'] | .shl => ['<', '<'] | .shr => ['>', '>']
  | .add => ['+'] | .sub => ['-'] | .mul => ['*'] | .div => ['/'] | .mod => ['%']

def UOp.tok : UOp → Str
  | .pos => ['+'] | .neg => ['-'] | .inv => ['~']

/-- index of the operator's level in the ladder of data/grammar.lark (0 = or_test, loosest) -/
def BOp.level : BOp → Nat
  | .or => 0 | .and => 1
  | .lt | .gt | .eq | .ge | .le | .ltgt | .ne | .in_ | .notIn | .is | .isNot => 3
  | .bor => 4 | .bxor => 5 | .band => 6 | .shl | .shr => 7 | .add | .sub => 8 | .mul | .div | .mod => 9

def notLevel : Nat := 2
def factorLevel : Nat := 10
def cmpLevel : Nat := 3

def allBOps : List BOp :=
  [.or, .and, .lt, .gt, .eq, .ge, .le, .ltgt, .ne, .in_, .notIn, .is, .isNot, .bor, .bxor, .band, .shl, .shr, .add, .sub, .mul, .div, .mod]
def allUOps : List UOp := [.pos, .neg, .inv]

/-- the ladder as the model's operator enumeration sees it; `ladder_eq` (Props/C01) proves it equal to the generated one -/
def modelLadder : List LadderLevel :=
  (List.range 11).map fun i =>
    if i = notLevel then ⟨['n', 'o', 't', '_', 't', 'e', 's', 't'], .prefix, [['n', 'o', 't']]⟩
    else if i = factorLevel then ⟨['f', 'a', 'c', 't', 'o', 'r'], .prefix, allUOps.map UOp.tok⟩
    else ⟨(ladder.getD i ⟨[], .chain, []⟩).tag, .chain, (allBOps.filter fun o => o.level = i).map BOp.tok⟩

/-- domain names `to_domain_name` can give an operand; only float/double matter to the templates -/
inductive Ty where
  | int | float | double | bool | other
deriving DecidableEq, Repr, Inhabited

def Ty.name : Ty → Str
  | .int => ['i', 'n', 't'] | .float => ['f', 'l', 'o', 'a', 't'] | .double => ['d', 'o', 'u', 'b', 'l', 'e']
  | .bool => ['b', 'o', 'o', 'l'] | .other => ['o', 't', 'h', 'e', 'r']

def Ty.isFloat : Ty → Bool
  | .float | .double => true
  | _ => false

/-- py2cpp.py:1497 (6063966): the type kept for the accumulated left operand of a chain — once floating point it stays
    floating point, otherwise it is the type of the element just consumed -/
def Ty.acc (pty ty : Ty) : Ty := if pty.isFloat then pty else ty

/-! ## nodes -/

mutual
/-- operator nodes as operator.py shapes them -/
inductive Node where
  /-- any primary (variable, literal, call …): `text` is what its own handler rendered -/
  | atom (id : Nat) (text : Str)
  /-- `Group` (expression.py:6): a pair of parentheses the user wrote -/
  | group (e : Node)
  /-- `Factor`: `+ - ~` -/
  | factor (op : UOp) (e : Node)
  /-- `NotCompare` -/
  | notCompare (e : Node)
  /-- a flat `BinaryOperator` of ladder level `lv`; `fty` = domain name of the first element -/
  | chain (lv : Nat) (fty : Ty) (first : Node) (rest : Rest)
  /-- `TernaryOperator`: `primary if cond else secondary` -/
  | ternary (primary cond secondary : Node)
/-- `op element` pairs of a flat chain; `dict` = the element's type is `dict` (py2cpp.py:1449), `ty` = its domain name -/
inductive Rest where
  | nil
  | cons (op : BOp) (dict : Bool) (ty : Ty) (e : Node) (rest : Rest)
end

mutual
def Node.decEq : (a b : Node) → Decidable (a = b)
  | .atom i s, .atom j t => if h : i = j ∧ s = t then isTrue (by rw [h.1, h.2]) else isFalse (by intro e; cases e; exact h ⟨rfl, rfl⟩)
  | .group a, .group b => match Node.decEq a b with
    | isTrue h => isTrue (by rw [h])
    | isFalse h => isFalse (by intro e; cases e; exact h rfl)
  | .factor o a, .factor p b => match Node.decEq a b with
    | isTrue h => if ho : o = p then isTrue (by rw [h, ho]) else isFalse (by intro e; cases e; exact ho rfl)
    | isFalse h => isFalse (by intro e; cases e; exact h rfl)
  | .notCompare a, .notCompare b => match Node.decEq a b with
    | isTrue h => isTrue (by rw [h])
    | isFalse h => isFalse (by intro e; cases e; exact h rfl)
  | .chain l t a r, .chain l' t' a' r' => match Node.decEq a a', Rest.decEq r r' with
    | isTrue h, isTrue h2 => if hl : l = l' ∧ t = t' then isTrue (by rw [h, h2, hl.1, hl.2]) else isFalse (by intro e; cases e; exact hl ⟨rfl, rfl⟩)
    | isFalse h, _ => isFalse (by intro e; cases e; exact h rfl)
    | _, isFalse h => isFalse (by intro e; cases e; exact h rfl)
  | .ternary a b c, .ternary a' b' c' => match Node.decEq a a', Node.decEq b b', Node.decEq c c' with
    | isTrue h, isTrue h2, isTrue h3 => isTrue (by rw [h, h2, h3])
    | isFalse h, _, _ => isFalse (by intro e; cases e; exact h rfl)
    | _, isFalse h, _ => isFalse (by intro e; cases e; exact h rfl)
    | _, _, isFalse h => isFalse (by intro e; cases e; exact h rfl)
  | .atom .., .group .. | .atom .., .factor .. | .atom .., .notCompare .. | .atom .., .chain .. | .atom .., .ternary ..
  | .group .., .atom .. | .group .., .factor .. | .group .., .notCompare .. | .group .., .chain .. | .group .., .ternary ..
  | .factor .., .atom .. | .factor .., .group .. | .factor .., .notCompare .. | .factor .., .chain .. | .factor .., .ternary ..
  | .notCompare .., .atom .. | .notCompare .., .group .. | .notCompare .., .factor .. | .notCompare .., .chain .. | .notCompare .., .ternary ..
  | .chain .., .atom .. | .chain .., .group .. | .chain .., .factor .. | .chain .., .notCompare .. | .chain .., .ternary ..
  | .ternary .., .atom .. | .ternary .., .group .. | .ternary .., .factor .. | .ternary .., .notCompare .. | .ternary .., .chain .. =>
    isFalse (by intro e; cases e)
def Rest.decEq : (a b : Rest) → Decidable (a = b)
  | .nil, .nil => isTrue rfl
  | .cons o d t e r, .cons o' d' t' e' r' => match Node.decEq e e', Rest.decEq r r' with
    | isTrue h, isTrue h2 => if hl : o = o' ∧ d = d' ∧ t = t' then isTrue (by rw [h, h2, hl.1, hl.2.1, hl.2.2]) else isFalse (by intro e; cases e; exact hl ⟨rfl, rfl, rfl⟩)
    | isFalse h, _ => isFalse (by intro e; cases e; exact h rfl)
    | _, isFalse h => isFalse (by intro e; cases e; exact h rfl)
  | .nil, .cons .. | .cons .., .nil => isFalse (by intro e; cases e)
end

instance : DecidableEq Node := Node.decEq
instance : DecidableEq Rest := Rest.decEq

def Rest.length : Rest → Nat
  | .nil => 0
  | .cons _ _ _ _ r => r.length + 1

/-! ## template interpretation (jinja2 semantics of the generated skeleton) -/

/-- variables a template instance sees in its conditions -/
structure Vars where
  strs : List (Str × Str) := []
  flags : List Str := []

def lookup (k : Str) : List (Str × α) → Option α
  | [] => none
  | (k', v) :: rest => if k = k' then some v else lookup k rest

def Cond.eval (v : Vars) : Cond → Bool
  | .eq x s => lookup x v.strs == some s
  | .flag x => v.flags.contains x
  | .inList x ss => match lookup x v.strs with
    | some s => ss.contains s
    | none => false
  | .not c => !(Cond.eval v c)
  | .and a b => Cond.eval v a && Cond.eval v b
  | .or a b => Cond.eval v a || Cond.eval v b

/-- first branch whose condition holds; `none` when no branch matches and there is no `else` (jinja renders nothing) -/
def select (v : Vars) : List Branch → Option (List Piece)
  | [] => none
  | b :: bs => match b.cond with
    | none => some b.shape
    | some c => if Cond.eval v c then some b.shape else select v bs

/-- emitted C++ token: an atom (opaque primary) or a symbol/keyword/identifier coming from a template -/
inductive CTok where
  | atom (id : Nat) (text : Str)
  | sym (text : Str)
deriving DecidableEq, Repr, Inhabited

/-- raw output: tokens and the blanks the templates put between them -/
inductive RTok where
  | t (tok : CTok)
  | sp
deriving DecidableEq, Repr, Inhabited

/-- `{{ name }}` of an undefined name renders as the empty string in jinja2 (default `Undefined`) -/
def instantiate (args : List (Str × List RTok)) : List Piece → List RTok
  | [] => []
  | .var x :: ps => (lookup x args).getD [] ++ instantiate args ps
  | .tok s :: ps => .t (.sym s) :: instantiate args ps
  | .sp :: ps => .sp :: instantiate args ps

def render (bs : List Branch) (v : Vars) (args : List (Str × List RTok)) : List RTok :=
  match select v bs with
  | some shape => instantiate args shape
  | none => []

def sOperator : Str := ['o', 'p', 'e', 'r', 'a', 't', 'o', 'r']
def sValue : Str := ['v', 'a', 'l', 'u', 'e']
def sLeft : Str := ['l', 'e', 'f', 't']
def sRight : Str := ['r', 'i', 'g', 'h', 't']
def sLeftTy : Str := ['l', 'e', 'f', 't', '_', 'v', 'a', 'r', '_', 't', 'y', 'p', 'e']
def sRightTy : Str := ['r', 'i', 'g', 'h', 't', '_', 'v', 'a', 'r', '_', 't', 'y', 'p', 'e']
def sRightIsDict : Str := ['r', 'i', 'g', 'h', 't', '_', 'i', 's', '_', 'd', 'i', 'c', 't']
def sCondition : Str := ['c', 'o', 'n', 'd', 'i', 't', 'i', 'o', 'n']
def sPrimary : Str := ['p', 'r', 'i', 'm', 'a', 'r', 'y']
def sSecondary : Str := ['s', 'e', 'c', 'o', 'n', 'd', 'a', 'r', 'y']
def sExpression : Str := ['e', 'x', 'p', 'r', 'e', 's', 's', 'i', 'o', 'n']

/-- py2cpp.py:1380 / 1383: `operation/unary_operator` with vars operator, value -/
def renderUnary (opText : Str) (value : List RTok) : List RTok :=
  render unaryOperator { strs := [(sOperator, opText)] } [(sOperator, [.t (.sym opText)]), (sValue, value)]

def isIn (op : BOp) : Bool := op == .in_ || op == .notIn

/-- py2cpp.py:1448-1451: one step of the fold -/
def renderBinary (op : BOp) (dict : Bool) (lty rty : Ty) (left right : List RTok) : List RTok :=
  if isIn op then
    render binaryIn { strs := [(sOperator, op.tok)], flags := if dict then [sRightIsDict] else [] }
      [(sLeft, left), (sOperator, [.t (.sym op.tok)]), (sRight, right)]
  else
    render binaryOperator { strs := [(sOperator, op.tok), (sLeftTy, lty.name), (sRightTy, rty.name)] }
      [(sLeft, left), (sOperator, [.t (.sym op.tok)]), (sRight, right)]

/-- `CppOperatorPrecedences.precedence_of` (py2cpp.py:1599-1608): `binary.get(operator, unary)` over the translated table -/
def precOf (operator : Str) : Nat := (lookup operator cppPrecBinary).getD cppPrecUnary

/-- precedences of the operators of a chain that the table knows (py2cpp.py:1467-1468) -/
def restPrecs : Rest → List Nat
  | .nil => []
  | .cons op _ _ _ rest => match lookup op.tok cppPrecBinary with
    | some k => k :: restPrecs rest
    | none => restPrecs rest

def minList : List Nat → Nat
  | [] => 0
  | [x] => x
  | x :: xs => Nat.min x (minList xs)

/-- `Py2Cpp.is_regrouped_operand` (py2cpp.py:1447-1472) -/
def isRegrouped (operand : Node) (operator : Str) : Bool :=
  match operand with
  | .chain _ _ _ rest =>
    let ps := restPrecs rest
    if ps.isEmpty then false else decide (minList ps < precOf operator)
  | _ => false

/-- `f'({value})'` -/
def wrapParen (r : List RTok) : List RTok := .t (.sym ['(']) :: (r ++ [.t (.sym [')'])])

def guardIf (b : Bool) (r : List RTok) : List RTok := if b then wrapParen r else r

/-- py2cpp.py:1381: the operand is a Factor with the same sign `+`/`-` -/
def sameSign (op : UOp) : Node → Bool
  | .factor op' _ => (op == .pos || op == .neg) && op == op'
  | _ => false

/-- operator token of the first operator of a chain (`operators[0]`) -/
def Rest.firstTok : Rest → Option Str
  | .nil => none
  | .cons op _ _ _ _ => some op.tok

mutual
/-- the text `Py2Cpp` produces for an operator node, as tokens and blanks -/
def emitRaw : Node → List RTok
  | .atom id text => [.t (.atom id text)]
  | .group e => render group {} [(sExpression, emitRaw e)]
  | .factor op e => renderUnary op.tok (guardIf (sameSign op e) (emitRaw e))
  | .notCompare e => renderUnary ['!'] (guardIf (isRegrouped e ['!']) (emitRaw e))
  | .chain _ fty first rest =>
    -- py2cpp.py:1476: the first operand is guarded against `operators[0]` (a chain always has one; none = not guarded)
    emitRest (guardIf (match rest.firstTok with | some o => isRegrouped first o | none => false) (emitRaw first)) fty rest
  | .ternary p c s => render ternaryOperator {} [(sPrimary, emitRaw p), (sCondition, emitRaw c), (sSecondary, emitRaw s)]
/-- py2cpp.py:1486-1499: `primary`/`primary_raw` threaded through the chain, each right operand guarded -/
def emitRest (primary : List RTok) (pty : Ty) : Rest → List RTok
  | .nil => primary
  | .cons op dict ty e rest =>
    emitRest (renderBinary op dict pty ty primary (guardIf (isRegrouped e op.tok) (emitRaw e))) (pty.acc ty) rest
end

def CTok.text : CTok → Str
  | .atom _ s => s
  | .sym s => s

/-- the emitted text -/
def text : List RTok → Str
  | [] => []
  | .t k :: ts => k.text ++ text ts
  | .sp :: ts => ' ' :: text ts

/-- tokens in emission order, blanks dropped, nothing merged -/
def unspaced : List RTok → List CTok
  | [] => []
  | .t k :: ts => k :: unspaced ts
  | .sp :: ts => unspaced ts

def symMinus : CTok := .sym ['-']
def symPlus : CTok := .sym ['+']

/-- what a C++ lexer (maximal munch) makes of the emitted text, for the token vocabulary the operator core can emit:
    two sign symbols with no blank between them fuse into `--` / `++`; nothing else can fuse (binary operators are
    blank-separated by binary_operator.j2, `!`, `~`, `(`, `)` start no longer operator with their possible successors) -/
def cppLexGo (prev : Option CTok) : List RTok → List CTok
  | [] => prev.toList
  | .sp :: ts => prev.toList ++ cppLexGo none ts
  | .t b :: ts =>
    match prev with
    | none => cppLexGo (some b) ts
    | some a =>
      if a = symMinus ∧ b = symMinus then .sym ['-', '-'] :: cppLexGo none ts
      else if a = symPlus ∧ b = symPlus then .sym ['+', '+'] :: cppLexGo none ts
      else a :: cppLexGo (some b) ts

/-- `prev` = the last token read, not yet output, with no blank after it -/
def cppLex (ts : List RTok) : List CTok := cppLexGo none ts

/-- the C++ token stream of a node -/
def emit (n : Node) : List CTok := cppLex (emitRaw n)

/-! ## the two precedence tables -/

/-- C++ operator symbols of the core; the code of a symbol is its index + 1 -/
def cppSyms : List Str :=
  [['|', '|'], ['&', '&'], ['|'], ['^'], ['&'], ['=', '='], ['!', '='], ['<'], ['>'], ['<', '='], ['>', '='],
   ['<', '<'], ['>', '>'], ['+'], ['-'], ['*'], ['/'], ['%'], ['!'], ['~']]

def symCode (s : Str) : Nat :=
  match cppSyms.idxOf? s with
  | some i => i + 1
  | none => 0

open Prec in
/-- C++ expression grammar [expr.log.or] … [expr.unary] (ISO C++20 §7.6), loosest first. Trusted constant; validated by the
    `cpptable` stream (g++ evaluates flat text and the fully parenthesised re-parse to the same values). -/
def cppTable : Table := [
  ⟨.infixl, [symCode ['|', '|']]⟩,
  ⟨.infixl, [symCode ['&', '&']]⟩,
  ⟨.infixl, [symCode ['|']]⟩,
  ⟨.infixl, [symCode ['^']]⟩,
  ⟨.infixl, [symCode ['&']]⟩,
  ⟨.infixl, [symCode ['=', '='], symCode ['!', '=']]⟩,
  ⟨.infixl, [symCode ['<'], symCode ['>'], symCode ['<', '='], symCode ['>', '=']]⟩,
  ⟨.infixl, [symCode ['<', '<'], symCode ['>', '>']]⟩,
  ⟨.infixl, [symCode ['+'], symCode ['-']]⟩,
  ⟨.infixl, [symCode ['*'], symCode ['/'], symCode ['%']]⟩,
  ⟨.prefix, [symCode ['!'], symCode ['~'], symCode ['+'], symCode ['-']]⟩
]

open Prec in
/-- Python's ladder (data/grammar.lark, = `Generated.ladder`, proved in `C01.ladder_eq`) written over the C++ symbols the
    templates map each operator to (`or→||`, `and→&&`, `not→!`, `is→==`, `is.not→!=`) -/
def pyTable : Table := [
  ⟨.infixl, [symCode ['|', '|']]⟩,
  ⟨.infixl, [symCode ['&', '&']]⟩,
  ⟨.prefix, [symCode ['!']]⟩,
  ⟨.chain, [symCode ['<'], symCode ['>'], symCode ['=', '='], symCode ['>', '='], symCode ['<', '='], symCode ['!', '=']]⟩,
  ⟨.infixl, [symCode ['|']]⟩,
  ⟨.infixl, [symCode ['^']]⟩,
  ⟨.infixl, [symCode ['&']]⟩,
  ⟨.infixl, [symCode ['<', '<'], symCode ['>', '>']]⟩,
  ⟨.infixl, [symCode ['+'], symCode ['-']]⟩,
  ⟨.infixl, [symCode ['*'], symCode ['/'], symCode ['%']]⟩,
  ⟨.prefix, [symCode ['+'], symCode ['-'], symCode ['~']]⟩
]

def cppOps : Prec.Ops := Prec.Table.ops cppTable
def pyOps : Prec.Ops := Prec.Table.ops pyTable

/-- the C++ symbol the templates render a ladder operator as (binary_operator.j2); `none`: not an infix symbol
    (`in`/`not.in` become calls, `<>` has no C++ counterpart) -/
def BOp.cpp : BOp → Option Str
  | .or => some ['|', '|'] | .and => some ['&', '&']
  | .lt => some ['<'] | .gt => some ['>'] | .eq => some ['=', '='] | .ge => some ['>', '='] | .le => some ['<', '='] | .ne => some ['!', '=']
  | .is => some ['=', '='] | .isNot => some ['!', '=']
  | .ltgt => none | .in_ => none | .notIn => none
  | .bor => some ['|'] | .bxor => some ['^'] | .band => some ['&'] | .shl => some ['<', '<'] | .shr => some ['>', '>']
  | .add => some ['+'] | .sub => some ['-'] | .mul => some ['*'] | .div => some ['/'] | .mod => some ['%']

def BOp.code (o : BOp) : Nat := match o.cpp with
  | some s => symCode s
  | none => 0

def UOp.code (o : UOp) : Nat := symCode o.tok
def bangCode : Nat := symCode ['!']

/-- emitted token → token of the precedence library (`(`/`)` and known operator symbols; every other symbol gets code 0,
    which neither table knows) -/
def CTok.toPrec : CTok → Prec.Tok
  | .atom id _ => .atom id
  | .sym s => if s = ['('] then .lp else if s = [')'] then .rp else .op (symCode s)

def toks (n : Node) : List Prec.Tok := (emit n).map CTok.toPrec

/-! ## the grouping Python gives a node -/

mutual
/-- Python's grouping as a binary tree over the C++ symbols: flat chains nest to the left (also comparison chains — for
    those this is *not* Python's meaning, see `cmpChainFree`), `Group` = `paren`. Ternary / `in` / `<>` / float `%`
    have no counterpart in `Prec.Expr`; `Core` excludes them (they map to atom 0 / code 0 here). -/
def pyExprL : Node → Prec.Expr
  | .atom id _ => .atom id
  | .group e => .paren (pyExprL e)
  | .factor op e => .pre op.code (pyExprL e)
  | .notCompare e => .pre bangCode (pyExprL e)
  | .chain _ _ first rest => pyRestL (pyExprL first) rest
  | .ternary _ _ _ => .atom 0
def pyRestL (acc : Prec.Expr) : Rest → Prec.Expr
  | .nil => acc
  | .cons op _ _ e rest => pyRestL (.bin op.code acc (pyExprL e)) rest
end

def wrapE (b : Bool) (e : Prec.Expr) : Prec.Expr := if b then .paren e else e

mutual
/-- the tree the emitted text spells: `pyExprL` plus a `paren` wherever the emitter's guards put parentheses -/
def cppExprL : Node → Prec.Expr
  | .atom id _ => .atom id
  | .group e => .paren (cppExprL e)
  | .factor op e => .pre op.code (wrapE (sameSign op e) (cppExprL e))
  | .notCompare e => .pre bangCode (wrapE (isRegrouped e ['!']) (cppExprL e))
  | .chain _ _ first rest =>
    cppRestL (wrapE (match rest.firstTok with | some o => isRegrouped first o | none => false) (cppExprL first)) rest
  | .ternary _ _ _ => .atom 0
def cppRestL (acc : Prec.Expr) : Rest → Prec.Expr
  | .nil => acc
  | .cons op _ _ e rest => cppRestL (.bin op.code acc (wrapE (isRegrouped e op.tok) (cppExprL e))) rest
end

mutual
/-- the operator core the grouping theorems talk about: no ternary, no `in`/`not.in`, no `<>`, no float `%` (rendered as a call) -/
def core : Node → Bool
  | .atom _ _ => true
  | .group e => core e
  | .factor _ e => core e
  | .notCompare e => core e
  | .chain _ fty first rest => core first && coreRest fty rest
  | .ternary _ _ _ => false
def coreRest (pty : Ty) : Rest → Bool
  | .nil => true
  | .cons op _ ty e rest => op.cpp.isSome && !(op == .mod && (pty.isFloat || ty.isFloat)) && core e && coreRest (pty.acc ty) rest
end

mutual
/-- no comparison node with two or more operators -/
def cmpChainFree : Node → Bool
  | .atom _ _ => true
  | .group e => cmpChainFree e
  | .factor _ e => cmpChainFree e
  | .notCompare e => cmpChainFree e
  | .chain lv _ first rest => !(lv == cmpLevel && decide (2 ≤ rest.length)) && cmpChainFree first && cmpChainFreeRest rest
  | .ternary p c s => cmpChainFree p && cmpChainFree c && cmpChainFree s
def cmpChainFreeRest : Rest → Bool
  | .nil => true
  | .cons _ _ _ e rest => cmpChainFree e && cmpChainFreeRest rest
end

/-- the C++ tree with Python's grouping, when there is one -/
def pyExpr (n : Node) : Option Prec.Expr :=
  if core n && cmpChainFree n then some (pyExprL n) else none

/-- ladder level of a node's head (atoms and groups bind tightest) -/
def topLevel : Node → Nat
  | .atom _ _ => 11
  | .group _ => 11
  | .factor _ _ => factorLevel
  | .notCompare _ => notLevel
  | .chain lv _ _ _ => lv
  | .ternary _ _ _ => 0

mutual
/-- node trees the grammar can produce (data/grammar.lark ladder): elements of a level-`lv` chain are strictly tighter,
    every operator of the chain belongs to that level, a chain has at least one operator; `factor` takes a factor or a
    primary, `not` a not_test or comparison; ternary parts are or_tests (the secondary may be a ternary) -/
def wf : Node → Bool
  | .atom _ _ => true
  | .group e => wf e
  | .factor _ e => decide (factorLevel ≤ topLevel e) && wf e
  | .notCompare e => decide (notLevel ≤ topLevel e) && !(e matches .ternary ..) && wf e
  | .chain lv _ first rest => decide (lv < topLevel first) && !(first matches .ternary ..) && wf first && decide (1 ≤ rest.length) && wfRest lv rest
  | .ternary p c s => !(p matches .ternary ..) && !(c matches .ternary ..) && wf p && wf c && wf s
def wfRest (lv : Nat) : Rest → Bool
  | .nil => true
  | .cons op _ _ e rest => decide (op.level = lv) && decide (lv < topLevel e) && !(e matches .ternary ..) && wf e && wfRest lv rest
end

/-! ## bad pairs -/

/-- operator heads both tables know -/
def vocabulary : List Prec.Head := Prec.Table.heads cppTable

/-- parent/child slots Python leaves bare and C++ regroups — computed from the two tables -/
def badPairs : List (Prec.Head × Prec.Side × Prec.Head) := Prec.badSlots pyOps cppOps vocabulary

/-- the parent/child slots of a node's Python grouping -/
def slots (n : Node) : List (Prec.Head × Prec.Side × Prec.Head) := Prec.pairs (pyExprL n)

/-- C++ maximal munch merges no two emitted tokens -/
def noFuse (n : Node) : Bool := cppLex (emitRaw n) == unspaced (emitRaw n)

/-- no comparison chain, no fused signs, no slot in `badPairs` -/
def noBadPair (n : Node) : Bool :=
  cmpChainFree n && noFuse n && (slots n).all fun s => !badPairs.contains s

end Tranp.Emit
