/-
  Tranp.Model.Naming — executable model of class naming and of the by-name member lookup (property C08), both layers.

  Modelled code (rog-works/tranp):
    rogw/tranp/semantics/reflection/helper/naming.py:57-177   ClassDomainNaming.domain_name / fullyname / accessible_name /
                                                             __alias_or_domain_name / __namespace / __ancestor_classes
    rogw/tranp/dsn/translation.py:4-14                        alias_dsn
    rogw/tranp/i18n/i18n.py:39-48                             I18n.t (= the alias handler: dict lookup with fallback)
    rogw/tranp/dsn/dsn.py:65-126                              DSN.shift / relativefy (only used by the handler-less __namespace)
    rogw/tranp/syntax/node/definition/statement_compound.py:735-749   Enum.vars / Enum.var_value (member lookup by name)

  Abstract layer (namespace `Tranp.Naming`): a class is its fully-qualified key, its name and its `Embed.alias` decorator; a
  produced name is a list of pieces (`DomOut`: alias text / user name / alias prefix + user name).  String layer (namespace
  `Tranp.NamingStr`): the strings the Python builds with `DSN.join`, the alias table keyed by `aliases.<fullyname>`.
-/
import Tranp.Model.ScopeStr

namespace Tranp.Naming
open Tranp Tranp.Scope

/-- `@Embed.alias('text')` / `@Embed.alias('text', prefix=True)` as evaluated by `__alias_or_domain_name` (naming.py:131-136). -/
structure EmbedAlias where
  text : Str
  isPrefix : Bool
deriving DecidableEq, Repr

/-- What the naming functions read from a `ClassDef` node. -/
structure Cls (M N : Type) where
  /-- `types.fullyname` -/
  fullyname : Key M N
  /-- `types.domain_name` -/
  name : N
  /-- `types.alias_embedder`, evaluated -/
  embed : Option EmbedAlias
deriving DecidableEq, Repr

/-- One produced name: the alias text of the translation table or of the decorator, the user's name, or prefix + name. -/
inductive DomOut (N : Type) where
  | text (t : Str)
  | name (n : N)
  | pre (t : Str) (n : N)
deriving DecidableEq, Repr

section
variable {M N : Type} [DecidableEq M] [DecidableEq N]

/-- the alias table seen through `alias_handler(alias_dsn(fullyname), fallback)`: keys are fully-qualified names -/
abbrev Aliases (M N : Type) := List (Key M N × Str)

/-- `ClassDomainNaming.__alias_or_domain_name(types, alias_transpiler)` (naming.py:119-137). -/
def aliasOrDomainName (withTranspiler : Bool) (c : Cls M N) : DomOut N :=
  if !withTranspiler then .name c.name
  else match c.embed with
    | none => .name c.name
    | some e => if e.isPrefix then .pre e.text c.name else .text e.text

/-- `ClassDomainNaming.domain_name(types, alias_handler, alias_transpiler)` (naming.py:57-72); `none` = no alias handler. -/
def domainName (aliases : Option (Aliases M N)) (withTranspiler : Bool) (c : Cls M N) : DomOut N :=
  match aliases with
  | none => aliasOrDomainName withTranspiler c
  | some tbl =>
    match lookup tbl c.fullyname with
    | some t => .text t
    | none => aliasOrDomainName withTranspiler c

/-- a piece that `DSN.join` drops -/
def DomOut.isEmptyText : DomOut N → Bool
  | .text t => t.isEmpty
  | _ => false

/-- `ClassDomainNaming.__namespace` with an alias handler (naming.py:155): the names of the enclosing classes, outermost
    first (`__ancestor_classes`: every enclosing `ClassDef`, which includes functions), as the pieces `DSN.join` keeps. -/
def namespacePieces (tbl : Aliases M N) (withTranspiler : Bool) (ancestors : List (Cls M N)) : List (DomOut N) :=
  (ancestors.map (domainName (some tbl) withTranspiler)).filter (fun o => !o.isEmptyText)

/-- `ClassDomainNaming.accessible_name(types, alias_handler, alias_transpiler)` (naming.py:88-98) for a handler:
    `DSN.join(namespace, domain_name)` as pieces. -/
def accessibleName (tbl : Aliases M N) (withTranspiler : Bool) (ancestors : List (Cls M N)) (c : Cls M N) : List (DomOut N) :=
  namespacePieces tbl withTranspiler ancestors ++ [domainName (some tbl) withTranspiler c].filter (fun o => !o.isEmptyText)

/-- `ClassDomainNaming.fullyname(types, alias_handler)` (naming.py:74-86) for a handler: module path, then the pieces
    (no alias transpiler on this path). -/
def fullyname (tbl : Aliases M N) (ancestors : List (Cls M N)) (c : Cls M N) (mod : M) : M × List (DomOut N) :=
  (mod, accessibleName tbl false ancestors c)

/-! ### member lookup by name (Enum.var_value) -/

/-- `[var for var in self.vars if var.symbol.domain_name == var_name][0]` (statement_compound.py:747-749); `none` = IndexError. -/
def varValue {V : Type} (vars : List (N × V)) (name : N) : Option V :=
  (vars.find? (fun nv => nv.1 = name)).map (·.2)

/-- `'Enum' in [inherit.class_type.tokens for inherit in inherits]` (statement_compound.py:733): equality with a fixed word. -/
def isEnum (enumWord : N) (inherits : List N) : Bool := inherits.contains enumWord

end

/-! ### the action of a renaming -/

section
variable {M N N' : Type}

def Cls.map (r : N → N') (c : Cls M N) : Cls M N' := ⟨c.fullyname.map r, r c.name, c.embed⟩

def DomOut.map (r : N → N') : DomOut N → DomOut N'
  | .text t => .text t
  | .name n => .name (r n)
  | .pre t n => .pre t (r n)

def Aliases.map (r : N → N') (tbl : Aliases M N) : Aliases M N' := List.map (fun kv => (kv.1.map r, kv.2)) tbl

end

end Tranp.Naming

namespace Tranp.NamingStr
open Tranp Tranp.Scope Tranp.ScopeStr

/-- What the naming functions read from a `ClassDef` node, as strings. -/
structure ClsS where
  fullyname : Str
  name : Str
  embed : Option Naming.EmbedAlias
deriving DecidableEq, Repr

/-- `alias_dsn(fullyname)` = `DSN.join('aliases', fullyname)` (translation.py:4-14). -/
def aliasDsn (fullyname : Str) : Str := dsnJoin [['a','l','i','a','s','e','s'], fullyname]

/-- the translation table `I18n.t` reads (key ↦ text) -/
abbrev AliasesS := List (Str × Str)

/-- `ClassDomainNaming.__alias_or_domain_name` (naming.py:119-137). -/
def aliasOrDomainName (withTranspiler : Bool) (c : ClsS) : Str :=
  if !withTranspiler then c.name
  else match c.embed with
    | none => c.name
    | some e => if e.isPrefix then e.text ++ c.name else e.text

/-- `ClassDomainNaming.domain_name` (naming.py:57-72): `alias_handler(alias_dsn(types.fullyname), fallback=…)`. -/
def domainName (aliases : Option AliasesS) (withTranspiler : Bool) (c : ClsS) : Str :=
  match aliases with
  | none => aliasOrDomainName withTranspiler c
  | some tbl =>
    match lookup tbl (aliasDsn c.fullyname) with
    | some t => t
    | none => aliasOrDomainName withTranspiler c

/-- `ClassDomainNaming.__namespace` with an alias handler (naming.py:155). -/
def namespaceH (tbl : AliasesS) (withTranspiler : Bool) (ancestors : List ClsS) : Str :=
  dsnJoin (ancestors.map (domainName (some tbl) withTranspiler))

/-- `ClassDomainNaming.accessible_name` with an alias handler (naming.py:88-98). -/
def accessibleName (tbl : AliasesS) (withTranspiler : Bool) (ancestors : List ClsS) (c : ClsS) : Str :=
  dsnJoin [namespaceH tbl withTranspiler ancestors, domainName (some tbl) withTranspiler c]

/-- `ClassDomainNaming.fullyname` with an alias handler (naming.py:74-86). -/
def fullyname (tbl : AliasesS) (ancestors : List ClsS) (c : ClsS) (mod : Str) : Str :=
  dsnJoin [mod, namespaceH tbl false ancestors, domainName (some tbl) false c]

/-- REGRESSION (seeded mutation, never on the pinned tree): `accessible_name` with a guard "do not qualify twice" written as a
    bare `domain_name.startswith(namespace)`. -/
def accessibleNameBroken (tbl : AliasesS) (withTranspiler : Bool) (ancestors : List ClsS) (c : ClsS) : Str :=
  let ns := namespaceH tbl withTranspiler ancestors
  let dn := domainName (some tbl) withTranspiler c
  if Str.startsWith dn ns then dn else dsnJoin [ns, dn]

/-! ### the handler-less `__namespace` (naming.py:152-153): `DSN.shift(DSN.relativefy(types.namespace, types.module_path), -1)`.
    Not reachable from Py2Cpp (every call passes `i18n.t`); string layer only. -/

/-- `s.split(sep)` for a non-empty multi-character separator -/
def splitOnStrAux (sep : Str) : Nat → Str → Str → List Str
  | 0, cur, _ => [cur.reverse]
  | _ + 1, cur, [] => [cur.reverse]
  | f + 1, cur, c :: cs =>
    if Str.startsWith (c :: cs) sep then cur.reverse :: splitOnStrAux sep f [] ((c :: cs).drop sep.length)
    else splitOnStrAux sep f (c :: cur) cs

def splitOnStr (sep s : Str) : List Str := splitOnStrAux sep (s.length + 1) [] s

/-- `DSN.relativefy(origin, starts)` (dsn.py:111-126); `none` = ValueError (`split('')`) / IndexError. -/
def relativefy (origin starts : Str) : Option Str :=
  if starts ≠ origin ∧ !Str.startsWith origin (starts ++ dot) then some origin
  else if starts.isEmpty then none   -- `origin.split('')` raises ValueError
  else match splitOnStr starts origin with
    | _ :: second :: _ => some (dsnJoin (Str.splitOn '.' second))
    | _ => none

/-- `DSN.shift(origin, -1)` (dsn.py:65-85). -/
def shiftLast (origin : Str) : Str := dsnJoin (dsnElements origin).dropLast

/-- `ClassDomainNaming.__namespace(types, None, …)`. -/
def namespaceNoHandler (typesNamespace modulePath : Str) : Option Str :=
  (relativefy typesNamespace modulePath).map shiftLast

/-! ### member lookup by name -/

/-- `Enum.var_value` on strings: equality of names. -/
def varValue {V : Type} (vars : List (Str × V)) (name : Str) : Option V :=
  (vars.find? (fun nv => nv.1 = name)).map (·.2)

/-- REGRESSION (seeded mutation): the first member whose name is a SUFFIX of the requested name. -/
def varValueBroken {V : Type} (vars : List (Str × V)) (name : Str) : Option V :=
  (vars.find? (fun nv => Str.endsWith name nv.1)).map (·.2)

/-! ### codec -/

def encOut : Naming.DomOut Str → Str
  | .text t => t
  | .name n => n
  | .pre t n => t ++ n

def encCls (c : Naming.Cls Str Str) : ClsS := ⟨encKey c.fullyname, c.name, c.embed⟩

def encAliases (tbl : Naming.Aliases Str Str) : AliasesS := List.map (fun kv => (aliasDsn (encKey kv.1), kv.2)) tbl

/-- the dotted string a list of pieces stands for -/
def encPieces (ps : List (Naming.DomOut Str)) : Str := Str.join dot (ps.map encOut)

end Tranp.NamingStr
