/-
  Tranp.Model.RunnerLoads — `json.loads` for the header reader of property C06, as a total function.

  `MetaHeader.from_json` (data/meta/header.py:33-43) hands the slice of the first line to `json.loads`. The runner model
  (Model/Runner.lean) takes the decoder as a parameter (`Env.loads`); this file provides the decoder itself, built from the
  JSON codec of Model/JsonCodec.lean (CPython's `json` scanner on the language of compact `json.dumps` output plus the rest of
  RFC 8259 that needs no white space inside the text and no fraction/exponent; tied to the real decoder by the streams of C15
  and by the stream `loads` of C06): leading white space is skipped (the slice starts with the blank after `@tranp.meta:`),
  the value is parsed to the end of the text, `None` = `json.JSONDecodeError` (a `ValueError`).
  Pairs of an object are kept as written (a repeated key is outside the model, like in Model/JsonCodec.lean).
-/
import Tranp.Model.Runner
import Tranp.Model.JsonCodec

namespace Tranp.Runner
open Tranp

mutual
  /-- the runner model's JSON values as values of the codec -/
  def toLark : Json → Lark.Json
    | .null => .null
    | .bool b => .bool b
    | .num i => .num i
    | .str s => .str s
    | .arr xs => .arr (toLarkList xs)
    | .obj kvs => .obj (toLarkKvs kvs)
  def toLarkList : List Json → List Lark.Json
    | [] => []
    | x :: xs => toLark x :: toLarkList xs
  def toLarkKvs : List (Str × Json) → List (Str × Lark.Json)
    | [] => []
    | (k, v) :: kvs => (k, toLark v) :: toLarkKvs kvs
end

mutual
  def ofLark : Lark.Json → Json
    | .null => .null
    | .bool b => .bool b
    | .num i => .num i
    | .str s => .str s
    | .arr xs => .arr (ofLarkList xs)
    | .obj kvs => .obj (ofLarkKvs kvs)
  def ofLarkList : List Lark.Json → List Json
    | [] => []
    | x :: xs => ofLark x :: ofLarkList xs
  def ofLarkKvs : List (Str × Lark.Json) → List (Str × Json)
    | [] => []
    | (k, v) :: kvs => (k, ofLark v) :: ofLarkKvs kvs
end

/-- JSON white space (json/decoder.py `WHITESPACE`) -/
def isJsonWs (c : Char) : Bool := c == ' ' || c == '\t' || c == '\n' || c == '\r'

def dropWs : Str → Str
  | [] => []
  | c :: cs => if isJsonWs c then dropWs cs else c :: cs

/-- `json.loads(text)` on texts without inner white space -/
def loadsCodec (text : Str) : Except Err Json :=
  match Lark.parseJson (dropWs text) with
  | some j => .ok (ofLark j)
  | none => .error .valueError

end Tranp.Runner
