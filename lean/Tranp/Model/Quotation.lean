/-
  Tranp.Model.Quotation — executable model of tranp's own span handling (property C16).

  Modelled code (rog-works/tranp):
    rogw/tranp/implements/syntax/lark/entry.py:78-108     span selection (`Lark.sourceMap`, shared with C15)
    rogw/tranp/syntax/node/query.py:221-230               Nodes.source_map = EntryCache.by(full_path).source_map
    rogw/tranp/syntax/node/node.py:151-154                Node.source_map
    rogw/tranp/syntax/ast/finder.py                       full_pathfy (paths of the cache, as in Model/AstPath.lean)
    rogw/tranp/view/error_render.py:56-77                 ErrorRender.__build_quotation (exists check, no-position guard, minus-one shift)
    rogw/tranp/view/error_render.py:88-148                Quotation (__load_line, __cause_range, build, __build_line_mark)
    rogw/tranp/implements/syntax/tranp/syntax.py:352-406  ErrorCollector (_quotation_lines, _cause_token_range, _cause_line,
                                                          _cause_line_mark); `_progress` (uses repr()) is not modelled

  File contents are modelled as decoded text (`Str`); invalid UTF-8 (`UnicodeDecodeError`) is outside the model.
-/
import Tranp.Str
import Tranp.Model.AstPath
import Tranp.Model.LarkEntry

namespace Tranp.Quote
open Tranp Tranp.Lark

/-! ## Node.source_map: path lookup in the entry cache -/

def countName (n : Str) (cs : List View) : Nat :=
  (cs.filter (fun c => match c with | .mk m _ _ _ _ _ _ => m == n)).length

def View.name : View → Str
  | .mk n _ _ _ _ _ _ => n

def View.sourceMap : View → Except Err SM
  | .mk _ _ _ _ _ _ sm => sm

mutual
/-- `ASTFinder.full_pathfy` over the `Entry` interface (same rule as `AstPath.pathfyS`: plain tag iff unique among the siblings). -/
def pathfyV (v : View) (path : Str) : List (Str × View) :=
  match v with
  | .mk n true cs it val ie sm => (path, .mk n true cs it val ie sm) :: pathfyVList cs cs 0 path
  | v => [(path, v)]
def pathfyVList (all : List View) (cs : List View) (i : Nat) (path : Str) : List (Str × View) :=
  match cs with
  | [] => []
  | c :: rest =>
    let inPath :=
      if countName (View.name c) all == 1 then AstPath.dsnJoin [path, View.name c]
      else AstPath.dsnJoin [path, View.name c ++ '[' :: Str.natToDec i ++ [']']]
    pathfyV c inPath ++ pathfyVList all rest (i+1) path
end

/-- the entry a Python dict filled by successive `d[path] = entry` holds under `path` (last assignment wins) -/
def lookupLast (kvs : List (Str × View)) (path : Str) : Option View :=
  (kvs.reverse.find? (fun kv => kv.1 == path)).map (·.2)

/-- `Nodes.source_map(full_path)`: `NodeNotFound` for an unknown path, otherwise the entry's own span selection. -/
def nodeSourceMapIn (cache : List (Str × View)) (path : Str) : Except Err SM :=
  match lookupLast cache path with
  | some v => View.sourceMap v
  | none => .error .nodeNotFound

/-- the entry cache of a tree: `full_pathfy(root)` -/
def entryCache (root : View) : List (Str × View) := pathfyV root (View.name root)

def nodeSourceMap (root : View) (path : Str) : Except Err SM := nodeSourceMapIn (entryCache root) path

/-! ## ErrorRender / Quotation -/

/-- 0-based span after the minus-one shift -/
structure Span where
  bl : Int
  bc : Int
  el : Int
  ec : Int
deriving DecidableEq, Repr

/-- `x - 1` on a position: `None - 1` raises TypeError -/
def dec1 : Pos → Except Err Int
  | some n => .ok (n - 1)
  | none => .error .typeError

/-- error_render.py:70-76 -/
def shift (sm : SM) : Except Err Span := do
  let a ← dec1 sm.bl
  let b ← dec1 sm.bc
  let c ← dec1 sm.el
  let d ← dec1 sm.ec
  pure ⟨a, b, c, d⟩

/-- `f.readlines()`: pieces end after each '\n'; no empty piece after a final '\n' -/
def readlines : Str → List Str
  | [] => []
  | c :: cs =>
    if c = '\n' then [c] :: readlines cs
    else match readlines cs with
      | [] => [[c]]
      | l :: ls => (c :: l) :: ls

/-- `xs[i]` with Python's negative indices; `IndexError` outside `-len ≤ i < len` -/
def pyIndex {α : Type} (xs : List α) (i : Int) : Except Err α :=
  let j := if i < 0 then i + xs.length else i
  if j < 0 then .error .indexError
  else match xs[j.toNat]? with
    | some x => .ok x
    | none => .error .indexError

def dropNl (s : Str) : Str := s.filter (fun c => c != '\n')
def tabToSpace (s : Str) : Str := s.map (fun c => if c = '\t' then ' ' else c)

/-- `Quotation.__load_line` (error_render.py:103-114): `.replace('\n', '').replace('\t', ' ')` -/
def loadLine (content : Str) (lineNo : Int) : Except Err Str := do
  let l ← pyIndex (readlines content) lineNo
  pure (tabToSpace (dropNl l))

/-- `Quotation.__cause_range` (error_render.py:116-129) -/
def causeRange (causeLine : Str) (s : Span) : Int × Int :=
  let diff := s.ec - s.bc
  (s.bc, if s.bl = s.el then s.bc + diff else (causeLine.length : Int))

/-- `c * n` for a one-character string (empty for n ≤ 0) -/
def pyRepeat (c : Char) (n : Int) : Str := List.replicate n.toNat c

/-- `__build_line_mark` (error_render.py:142-148, syntax.py:399-406) -/
def lineMark (r : Int × Int) : Str :=
  pyRepeat ' ' r.1 ++ pyRepeat '^' (max 1 (r.2 - r.1))

def sViaNode : Str := ['v', 'i', 'a', ' ', 'N', 'o', 'd', 'e', ':']
def sIndent2 : Str := [' ', ' ']
def sQuote : Str := [' ', ' ', ' ', ' ', '>', '>', '>', ' ']
def sMarkIndent : Str := [' ', ' ', ' ', ' ', ' ', ' ', ' ', ' ']
def sCollQuote : Str := [')', ' ', '>', '>', '>', ' ']
def sCollIndent : Str := [' ', ' ', ' ', ' ', ' ', ' ']

/-- `Quotation(filepath, source_map).build()` (error_render.py:91-101, 131-140) -/
def quotationBuild (filepath content : Str) (s : Span) : Except Err (List Str) := do
  let causeLine ← loadLine content s.bl
  let range := causeRange causeLine s
  pure [
    sViaNode,
    sIndent2 ++ filepath ++ [':'] ++ Str.intToDec (s.bl + 1),
    sQuote ++ causeLine,
    sMarkIndent ++ lineMark range ]

/-- `x < 1` on a position: `None < 1` raises TypeError -/
def lt1 : Pos → Except Err Bool
  | some n => .ok (decide (n < 1))
  | none => .error .typeError

/-- `ErrorRender.__build_quotation` for an exception whose first argument is a node (error_render.py:56-77):
    nothing when the module's file does not exist, nothing for a node without a source position (begin line or begin
    column below 1, `or` short-circuits — fix dc3e568), otherwise the quotation of the node's shifted span. -/
def buildQuotation (fileExists : Bool) (filepath content : Str) (sm : Except Err SM) : Except Err (List Str) :=
  if !fileExists then .ok []
  else do
    let m ← sm
    let noLine ← lt1 m.bl
    if noLine then pure []
    else do
      let noCol ← lt1 m.bc
      if noCol then pure []
      else do
        let s ← shift m
        quotationBuild filepath content s

/-- the quotation printed for the node at `path` -/
def nodeQuotationIn (cache : List (Str × View)) (path : Str) (fileExists : Bool) (filepath content : Str) : Except Err (List Str) :=
  buildQuotation fileExists filepath content (nodeSourceMapIn cache path)

def nodeQuotation (root : View) (path : Str) (fileExists : Bool) (filepath content : Str) : Except Err (List Str) :=
  nodeQuotationIn (entryCache root) path fileExists filepath content

/-! ## ErrorRender.render: assembly of the whole report -/

/-- `ErrorRender.__build_message` (error_render.py:83-86) on arguments already converted by `__arg_to_str` -/
def buildMessage (args : List Str) : Str := '(' :: (Str.join [',', ' '] args ++ [')'])

/-- `ErrorRender.render` (error_render.py:22-28): `"\n".join([*traces, *quotation])`, a line feed, `name: message`.
    The stack trace lines (`__build_stacktrace`, which parses `traceback.format_exception` text with a regular expression),
    the exception's class path and `str(node)` are inputs, not modelled. -/
def renderText (traces quotation : List Str) (name message : Str) : Str :=
  Str.join ['\n'] (traces ++ quotation) ++ '\n' :: (name ++ ':' :: ' ' :: message)

/-- the whole report for an error raised with the node at `path` -/
def nodeRenderIn (cache : List (Str × View)) (path : Str) (fileExists : Bool) (filepath content : Str)
    (traces : List Str) (name message : Str) : Except Err Str := do
  let q ← nodeQuotationIn cache path fileExists filepath content
  pure (renderText traces q name message)

/-! ## ErrorCollector of the self-hosted parser (0-based token spans) -/

/-- `ErrorCollector._quotation_lines` (syntax.py:367-373) with `_cause_token`, `_cause_line`, `_cause_token_range`, `_cause_line_mark` -/
def collectorLines (source : Str) (tokens : List Span) (steps : Int) : Except Err (List Str) := do
  let sm ← pyIndex tokens steps
  let lineNo := sm.bl + 1
  let lineNs := pyRepeat ' ' ((Str.intToDec lineNo).length : Int)
  let causeLine ← pyIndex (Str.splitOn '\n' source) sm.bl
  let range := causeRange causeLine sm
  pure [
    ['('] ++ Str.intToDec lineNo ++ sCollQuote ++ causeLine,
    [' '] ++ lineNs ++ sCollIndent ++ lineMark range ]

/-- the columns (counted from `i`) of a printed mark line that carry a caret -/
def markedColsFrom : Nat → Str → List Nat
  | _, [] => []
  | i, c :: cs => if c = '^' then i :: markedColsFrom (i + 1) cs else markedColsFrom (i + 1) cs

def markedCols (m : Str) : List Nat := markedColsFrom 0 m

end Tranp.Quote
