/-
  Tranp.Model.GramClass — the five regexp terminals of the meta-grammar (data/syntax/gram.lark) as Lean predicates, so that the
  token class the engine model needs (`Tok.cls`: bit i = i-th regexp terminal of gram_rules() full-matches the token string) can
  be computed inside Lean for gram texts instead of being dumped by the translator.

      symbol := /[a-zA-Z_]\w*/     string := /"[^"]+"/     regexp := /[\/].+[\/]/     repeat := /[*+?]/     unwrap := /[1*]/

  Hand transcription (ASCII: Python's `\w` also accepts non-ASCII letters, which no grammar text here contains). It is tied to the
  code on every run: C12.gram_class_agrees decides that the regexp list of gram_rules() is these five texts and that on every token
  of gram.lark, py_gram.lark and the round-trip witnesses `gramClass` equals the class the real `re.fullmatch` gave; the
  `rules-text` correspondence compares it with the real `re` on every token it sees.
-/
import Tranp.Str

namespace Tranp.GramClass
open Tranp

def isWordChar (c : Char) : Bool := c.isAlphanum || c = '_'

/-- `[a-zA-Z_]\w*` -/
def isSymbol : Str → Bool
  | [] => false
  | c :: cs => (c.isAlpha || c = '_') && cs.all isWordChar

/-- body of a delimited token: everything between the first and the last character -/
def body (s : Str) : Str := (s.drop 1).dropLast

/-- `"[^"]+"` -/
def isString (s : Str) : Bool :=
  decide (3 ≤ s.length) && s.head? == some '"' && s.getLast? == some '"' && (body s).all (· != '"')

/-- `[\/].+[\/]` (`.` is any character but a line feed) -/
def isRegexp (s : Str) : Bool :=
  decide (3 ≤ s.length) && s.head? == some '/' && s.getLast? == some '/' && (body s).all (· != '\n')

/-- `[*+?]` -/
def isRepeat (s : Str) : Bool := s == ['*'] || s == ['+'] || s == ['?']

/-- `[1*]` -/
def isUnwrap (s : Str) : Bool := s == ['1'] || s == ['*']

def bit (b : Bool) (i : Nat) : Nat := if b then 2 ^ i else 0

/-- token class under gram_rules(): bit mask over its regexp terminals in rule order (symbol, string, regexp, repeat, unwrap) -/
def gramClass (s : Str) : Nat :=
  bit (isSymbol s) 0 + bit (isString s) 1 + bit (isRegexp s) 2 + bit (isRepeat s) 3 + bit (isUnwrap s) 4

/-- the regexp texts these predicates transcribe, in rule order -/
def gramRegexpTexts : List Str :=
  [['[','a','-','z','A','-','Z','_',']','\\','w','*'], ['"','[','^','"',']','+','"'], ['[','\\','/',']','.','+','[','\\','/',']'],
   ['[','*','+','?',']'], ['[','1','*',']']]

end Tranp.GramClass
