/-
  Tranp.Model.Engine — executable model of tranp's self-hosted grammar engine (properties C11, C12).

  Modelled code (rog-works/tranp):
    rogw/tranp/implements/syntax/tranp/rule.py     Roles/Comps/Operators/Repeators/Unwraps, Pattern, Patterns,
                                                   Rules.__getitem__ / unwrap_by / keywords / _collect_keyword   (:14-351)
    rogw/tranp/implements/syntax/tranp/syntax.py   Step, Context, SyntaxParser.parse / _match_symbol / _unwrap_children /
                                                   _match_entry / _match_or / _match_and / _match_repeat / _match_terminal /
                                                   _compare_token (:87-314), ProgreessMonitor.peek, ErrorCollector (:337-406)
    rogw/tranp/implements/syntax/tranp/ast.py      ASTToken / ASTTree / simplify / pretty (:11-118)
    rogw/tranp/implements/syntax/tranp/token.py    Token.string, Token.SourceMap, Token.empty

  Conventions of the model
  * Regular expressions are NOT modelled. `re.fullmatch(pattern.expression, token.string)` is the oracle parameter
    `Env.rx : Str → Tok → Bool`; theorems quantify over every oracle, the driver and the generated tables instantiate it
    with a classification table that the translator/harness obtain by evaluating the real `re` (token class `Tok.cls`).
  * The matcher works from the last token backwards: the context is the cursor (tokens consumed from the right) together
    with the not-yet-consumed tokens in reverse order (`Ctx.rest = tokens.reverse.drop cursor`), so that
    `tokens[len-1-cursor]` is `rest.head`.
  * `route` (a DSN string used for logging) is represented by its last element, the symbol: `DSN.right(route, 1)` of
    `DSN.join(route, e)` is `e` for every symbol expression built by `Pattern.make` (non-empty, no '.').
  * Recursion carries a fuel argument; running out of it is the explicit outcome `Err.outOfFuel` (theorem C11.T1 shows it
    cannot happen for well-formed rule sets with the stated fuel).
  * `Out.trace` is ghost state (not in the Python): the consumed tokens of a successful match in source order, each
    flagged by whether a *named* terminal rule (`_match_symbol` on a terminal) consumed it. It feeds theorem C11.T3 only.
-/
import Tranp.Str

namespace Tranp.Engine
open Tranp

/-! ## exceptions -/

inductive Err where
  | syntax (summary : Str)      -- Errors.Syntax(message)
  | keyError | indexError | assertionError | valueError
  | outOfFuel                   -- model only
deriving DecidableEq, Repr

def Err.toString : Err → String
  | .syntax _ => "Errors.Syntax"
  | .keyError => "KeyError"
  | .indexError => "IndexError"
  | .assertionError => "AssertionError"
  | .valueError => "ValueError"
  | .outOfFuel => "out-of-fuel"

instance instDecEqExcept {ε α : Type} [DecidableEq ε] [DecidableEq α] : DecidableEq (Except ε α)
  | .ok a, .ok b => if h : a = b then isTrue (by rw [h]) else isFalse (by intro h'; injection h' with h2; exact h h2)
  | .error a, .error b => if h : a = b then isTrue (by rw [h]) else isFalse (by intro h'; injection h' with h2; exact h h2)
  | .ok _, .error _ => isFalse (by intro h; cases h)
  | .error _, .ok _ => isFalse (by intro h; cases h)

/-! ## rule.py: enums, Pattern, Patterns -/

inductive Role where | symbol | terminal deriving DecidableEq, Repr
inductive Comp where | noComp | regexp | equals deriving DecidableEq, Repr
inductive Op where | and | or deriving DecidableEq, Repr
inductive Rep where | overZero | overOne | oneOrZero | oneOrEmpty | noRepeat deriving DecidableEq, Repr
inductive Unwrap where | off | oneTime | always deriving DecidableEq, Repr

/-- `Pattern | Patterns` (rule.py:90-229). -/
inductive Pat where
  | pattern (expr : Str) (role : Role) (comp : Comp)
  | group (entries : List Pat) (op : Op) (rep : Rep)
deriving Repr

instance : Inhabited Pat := ⟨.pattern [] .symbol .noComp⟩

mutual
def Pat.decEq : (a b : Pat) → Decidable (a = b)
  | .pattern e1 r1 c1, .pattern e2 r2 c2 =>
    if h : e1 = e2 ∧ r1 = r2 ∧ c1 = c2 then isTrue (by rw [h.1, h.2.1, h.2.2])
    else isFalse (by intro h'; injection h' with h1 h2 h3; exact h ⟨h1, h2, h3⟩)
  | .group es1 o1 r1, .group es2 o2 r2 =>
    if h : o1 = o2 ∧ r1 = r2 then
      match Pat.decEqList es1 es2 with
      | isTrue h2 => isTrue (by rw [h.1, h.2, h2])
      | isFalse h2 => isFalse (by intro h'; injection h' with h3 _ _; exact h2 h3)
    else isFalse (by intro h'; injection h' with _ h3 h4; exact h ⟨h3, h4⟩)
  | .pattern _ _ _, .group _ _ _ => isFalse (by intro h; cases h)
  | .group _ _ _, .pattern _ _ _ => isFalse (by intro h; cases h)
def Pat.decEqList : (a b : List Pat) → Decidable (a = b)
  | [], [] => isTrue rfl
  | [], _ :: _ => isFalse (by intro h; cases h)
  | _ :: _, [] => isFalse (by intro h; cases h)
  | x :: xs, y :: ys =>
    match Pat.decEq x y with
    | isTrue h1 =>
      match Pat.decEqList xs ys with
      | isTrue h2 => isTrue (by rw [h1, h2])
      | isFalse h2 => isFalse (by intro h'; injection h' with _ h3; exact h2 h3)
    | isFalse h1 => isFalse (by intro h'; injection h' with h3 _; exact h1 h3)
end

instance : DecidableEq Pat := Pat.decEq

/-- `Rules._rules`: dict from the *original* symbol (`expr`, `expr[1]`, `args[*]`) to its pattern, in insertion order. -/
abbrev Rules := List (Str × Pat)

def hasKey (R : Rules) (k : Str) : Bool := R.any (fun kv => kv.1 == k)

def lookup (R : Rules) (k : Str) : Option Pat :=
  match R with
  | [] => none
  | (k', p) :: rest => if k' == k then some p else lookup rest k

/-- `dict.__setitem__`: overwrite keeps the first position. -/
def insert (R : Rules) (k : Str) (p : Pat) : Rules :=
  match R with
  | [] => [(k, p)]
  | (k', p') :: rest => if k' == k then (k', p) :: rest else (k', p') :: insert rest k p

def keyOne (sym : Str) : Str := sym ++ ['[', '1', ']']
def keyAll (sym : Str) : Str := sym ++ ['[', '*', ']']

/-- `Rules.unwrap_by` (rule.py:313-326). -/
def unwrapBy (R : Rules) (sym : Str) : Unwrap :=
  if hasKey R sym then .off
  else if hasKey R (keyOne sym) then .oneTime
  else .always

/-- `Rules.__getitem__` (rule.py:273-287); a missing key is `KeyError`. -/
def getRule (R : Rules) (sym : Str) : Except Err Pat :=
  let key := match unwrapBy R sym with
    | .off => sym
    | .oneTime => keyOne sym
    | .always => keyAll sym
  match lookup R key with
  | some p => .ok p
  | none => .error .keyError

mutual
/-- `Rules._collect_keyword` (rule.py:340-351): expressions of ALL terminals (string and regexp), document order. -/
def collectKeyword : Pat → List Str
  | .pattern e role _ => if role = .terminal then [e] else []
  | .group es _ _ => collectKeywordList es
def collectKeywordList : List Pat → List Str
  | [] => []
  | p :: ps => collectKeyword p ++ collectKeywordList ps
end

def dedup : List Str → List Str → List Str
  | acc, [] => acc.reverse
  | acc, x :: xs => if acc.contains x then dedup acc xs else dedup (x :: acc) xs

/-- `Rules.keywords` (rule.py:328-338). -/
def keywords (R : Rules) : List Str := dedup [] (R.flatMap fun kv => collectKeyword kv.2)

/-! ## token.py / ast.py -/

/-- `Token.SourceMap` (begin_line, begin_column, end_line, end_column); EOF-derived tokens carry -1 everywhere. -/
structure SrcMap where
  bl : Int
  bc : Int
  el : Int
  ec : Int
deriving DecidableEq, Repr, Inhabited

/-- A token as the engine sees it: its string, its source map and its class for the regexp oracle. -/
structure Tok where
  str : Str
  cls : Nat := 0
  map : SrcMap := ⟨0, 0, 0, 0⟩
deriving DecidableEq, Repr, Inhabited

/-- `ASTToken | ASTTree`; `empty` is `ASTToken.empty()` = `ASTToken('__empty__', Token.empty())`. -/
inductive Ast where
  | token (name : Str) (tok : Tok)
  | empty
  | tree (name : Str) (children : List Ast)
deriving Repr

instance : Inhabited Ast := ⟨.empty⟩

mutual
def Ast.decEq : (a b : Ast) → Decidable (a = b)
  | .token n1 t1, .token n2 t2 =>
    if h : n1 = n2 ∧ t1 = t2 then isTrue (by rw [h.1, h.2])
    else isFalse (by intro h'; injection h' with h1 h2; exact h ⟨h1, h2⟩)
  | .empty, .empty => isTrue rfl
  | .tree n1 c1, .tree n2 c2 =>
    if h : n1 = n2 then
      match Ast.decEqList c1 c2 with
      | isTrue h2 => isTrue (by rw [h, h2])
      | isFalse h2 => isFalse (by intro h'; injection h' with _ h3; exact h2 h3)
    else isFalse (by intro h'; injection h' with h3 _; exact h h3)
  | .token _ _, .empty => isFalse (by intro h; cases h)
  | .token _ _, .tree _ _ => isFalse (by intro h; cases h)
  | .empty, .token _ _ => isFalse (by intro h; cases h)
  | .empty, .tree _ _ => isFalse (by intro h; cases h)
  | .tree _ _, .token _ _ => isFalse (by intro h; cases h)
  | .tree _ _, .empty => isFalse (by intro h; cases h)
def Ast.decEqList : (a b : List Ast) → Decidable (a = b)
  | [], [] => isTrue rfl
  | [], _ :: _ => isFalse (by intro h; cases h)
  | _ :: _, [] => isFalse (by intro h; cases h)
  | x :: xs, y :: ys =>
    match Ast.decEq x y with
    | isTrue h1 =>
      match Ast.decEqList xs ys with
      | isTrue h2 => isTrue (by rw [h1, h2])
      | isFalse h2 => isFalse (by intro h'; injection h' with _ h3; exact h2 h3)
    | isFalse h1 => isFalse (by intro h'; injection h' with h3 _; exact h1 h3)
end

instance : DecidableEq Ast := Ast.decEq

/-- Tuple form (`TupleToken | TupleTree`, ast.py:6-8), the result of `simplify()`. -/
inductive TEntry where
  | token (name : Str) (value : Str)
  | tree (name : Str) (children : List TEntry)
deriving Repr

instance : Inhabited TEntry := ⟨.token [] []⟩

mutual
def TEntry.decEq : (a b : TEntry) → Decidable (a = b)
  | .token n1 v1, .token n2 v2 =>
    if h : n1 = n2 ∧ v1 = v2 then isTrue (by rw [h.1, h.2])
    else isFalse (by intro h'; injection h' with h1 h2; exact h ⟨h1, h2⟩)
  | .tree n1 c1, .tree n2 c2 =>
    if h : n1 = n2 then
      match TEntry.decEqList c1 c2 with
      | isTrue h2 => isTrue (by rw [h, h2])
      | isFalse h2 => isFalse (by intro h'; injection h' with _ h3; exact h2 h3)
    else isFalse (by intro h'; injection h' with h3 _; exact h h3)
  | .token _ _, .tree _ _ => isFalse (by intro h; cases h)
  | .tree _ _, .token _ _ => isFalse (by intro h; cases h)
def TEntry.decEqList : (a b : List TEntry) → Decidable (a = b)
  | [], [] => isTrue rfl
  | [], _ :: _ => isFalse (by intro h; cases h)
  | _ :: _, [] => isFalse (by intro h; cases h)
  | x :: xs, y :: ys =>
    match TEntry.decEq x y with
    | isTrue h1 =>
      match TEntry.decEqList xs ys with
      | isTrue h2 => isTrue (by rw [h1, h2])
      | isFalse h2 => isFalse (by intro h'; injection h' with _ h3; exact h2 h3)
    | isFalse h1 => isFalse (by intro h'; injection h' with h3 _; exact h1 h3)
end

instance : DecidableEq TEntry := TEntry.decEq

def emptyName : Str := ['_', '_', 'e', 'm', 'p', 't', 'y', '_', '_']

mutual
/-- `ASTToken.simplify` / `ASTTree.simplify` (ast.py:40-42, 92-94). -/
def Ast.simplify : Ast → TEntry
  | .token n t => .token n t.str
  | .empty => .token emptyName []
  | .tree n cs => .tree n (Ast.simplifyList cs)
def Ast.simplifyList : List Ast → List TEntry
  | [] => []
  | c :: cs => c.simplify :: Ast.simplifyList cs
end

/-! ## syntax.py: the matcher -/

/-- Everything the matcher reads but never changes: the rules, their memoised keyword list, the regexp oracle. -/
structure Env where
  rules : Rules
  kw : List Str
  rx : Str → Tok → Bool

/-- regexp oracle from a classification table: regexp expression → accepted token classes (translator / harness output) -/
def rxOfTable (tbl : List (Str × List Nat)) : Str → Tok → Bool := fun e t =>
  match tbl.lookup e with
  | some cs => cs.contains t.cls
  | none => false

def Env.of (R : Rules) (rx : Str → Tok → Bool) : Env := ⟨R, keywords R, rx⟩

/-- `Context` (syntax.py:61-84) plus the unconsumed tokens, last token first. -/
structure Ctx where
  cursor : Nat
  rest : List Tok
deriving Repr

def Ctx.start (toks : List Tok) : Ctx := ⟨0, toks.reverse⟩
def Ctx.step (c : Ctx) (n : Nat) : Ctx := ⟨c.cursor + n, c.rest.drop n⟩

/-- `(Step, children)` of the `_match_*` methods, plus `ProgreessMonitor.peek` after the call and the ghost trace. -/
structure Out where
  ok : Bool
  steps : Nat
  children : List Ast
  peek : Nat
  trace : List (Tok × Bool) := []
deriving Repr

def Out.ng (peek : Nat) : Out := ⟨false, 0, [], peek, []⟩

/-- `SyntaxParser._compare_token` (syntax.py:296-314). -/
def compareToken (env : Env) (tok : Tok) (e : Str) (comp : Comp) : Except Err Bool :=
  match comp with
  | .noComp => .error .assertionError                 -- assert pattern.comp != Comps.NoComp
  | .equals => .ok (e == tok.str)
  | .regexp => if env.kw.contains tok.str then .ok false else .ok (env.rx e tok)

/-- `SyntaxParser._match_terminal` (syntax.py:273-294): the token under the cursor, if it matches. -/
def matchTerminal (env : Env) (ctx : Ctx) (e : Str) (comp : Comp) : Except Err (Option Tok) :=
  match ctx.rest with
  | [] => .ok none                                    -- len(tokens) <= context.cursor
  | tok :: _ =>
    match compareToken env tok e comp with
    | .error er => .error er
    | .ok true => .ok (some tok)
    | .ok false => .ok none

/-- `SyntaxParser._unwrap_children` (syntax.py:144-164). -/
def unwrapOne (R : Rules) : Ast → List Ast
  | .tree n cs =>
    match unwrapBy R n with
    | .oneTime => if cs.length == 1 then cs else [.tree n cs]
    | .always => cs
    | .off => [.tree n cs]
  | c => [c]

def unwrapList (R : Rules) : List Ast → List Ast
  | [] => []
  | c :: cs => unwrapOne R c ++ unwrapList R cs

def unwrapChildren (R : Rules) (sym : Str) (children : List Ast) : Ast := .tree sym (unwrapList R children)

/-- result of `_match_repeat` once the loop has ended (syntax.py:263-271) -/
def repeatFinish (rep : Rep) (found steps : Nat) (children : List Ast) (peek : Nat) (trace : List (Tok × Bool)) : Out :=
  if found == 0 then
    match rep with
    | .overZero | .oneOrZero => ⟨true, 0, [], peek, []⟩
    | .oneOrEmpty => ⟨true, 0, [.empty], peek, []⟩
    | _ => Out.ng peek
  else ⟨true, steps, children, peek, trace⟩

mutual
/-- `_match_symbol` (syntax.py:122-142). The returned `children` is the singleton `[entry]`. -/
def matchSymbol (env : Env) : Nat → Ctx → Nat → Str → Except Err Out
  | 0, _, _, _ => .error .outOfFuel
  | fuel + 1, ctx, peek, sym =>
    match getRule env.rules sym with
    | .error e => .error e
    | .ok (.pattern e .terminal comp) =>
      match matchTerminal env ctx e comp with
      | .error er => .error er
      | .ok (some tok) => .ok ⟨true, 1, [.token sym tok], peek, [(tok, true)]⟩
      | .ok none => .ok ⟨false, 0, [.empty], peek, []⟩
    | .ok pattern =>
      match matchEntry env fuel ctx peek pattern true with
      | .error er => .error er
      | .ok out => .ok { out with children := [unwrapChildren env.rules sym out.children] }

/-- `_match_entry` (syntax.py:166-192). -/
def matchEntry (env : Env) : Nat → Ctx → Nat → Pat → Bool → Except Err Out
  | 0, _, _, _, _ => .error .outOfFuel
  | fuel + 1, ctx, peek, pattern, allowRepeat =>
    let peek := max ctx.cursor peek                   -- self.monitor.peek = max(context.cursor, self.monitor.peek)
    match pattern with
    | .group es op rep =>
      if rep ≠ .noRepeat ∧ allowRepeat then matchRepeat env fuel ctx peek es op rep 0 0 [] []
      else if op = .or then matchOr env fuel ctx peek es
      else matchAnd env fuel ctx peek es.reverse 0 [] []
    | .pattern e .terminal comp =>
      match matchTerminal env ctx e comp with
      | .error er => .error er
      | .ok (some tok) => .ok ⟨true, 1, [], peek, [(tok, false)]⟩
      | .ok none => .ok (Out.ng peek)
    | .pattern e .symbol _ => matchSymbol env fuel ctx peek e

/-- `_match_or` (syntax.py:194-210): ordered choice, first success wins. -/
def matchOr (env : Env) : Nat → Ctx → Nat → List Pat → Except Err Out
  | 0, _, _, _ => .error .outOfFuel
  | _ + 1, _, peek, [] => .ok (Out.ng peek)
  | fuel + 1, ctx, peek, p :: ps =>
    match matchEntry env fuel ctx peek p true with
    | .error er => .error er
    | .ok out => if out.ok then .ok out else matchOr env fuel ctx out.peek ps

/-- `_match_and` (syntax.py:212-233): the entries in REVERSE order (the caller passes `entries.reverse`). -/
def matchAnd (env : Env) : Nat → Ctx → Nat → List Pat → Nat → List Ast → List (Tok × Bool) → Except Err Out
  | 0, _, _, _, _, _, _ => .error .outOfFuel
  | _ + 1, _, peek, [], steps, children, trace => .ok ⟨true, steps, children, peek, trace⟩
  | fuel + 1, ctx, peek, p :: ps, steps, children, trace =>
    match matchEntry env fuel (ctx.step steps) peek p true with
    | .error er => .error er
    | .ok out =>
      if out.ok then matchAnd env fuel ctx out.peek ps (steps + out.steps) (out.children ++ children) (out.trace ++ trace)
      else .ok (Out.ng out.peek)

/-- `_match_repeat` (syntax.py:235-271): one call = one evaluation of the `while` condition. -/
def matchRepeat (env : Env) : Nat → Ctx → Nat → List Pat → Op → Rep → Nat → Nat → List Ast → List (Tok × Bool) → Except Err Out
  | 0, _, _, _, _, _, _, _, _, _ => .error .outOfFuel
  | fuel + 1, ctx, peek, es, op, rep, found, steps, children, trace =>
    if (ctx.rest.drop steps).isEmpty then .ok (repeatFinish rep found steps children peek trace)   -- cursor + steps < len(tokens) fails
    else
      match matchEntry env fuel (ctx.step steps) peek (.group es op rep) false with
      | .error er => .error er
      | .ok out =>
        if out.ok then
          if rep = .oneOrZero ∨ rep = .oneOrEmpty then
            .ok (repeatFinish rep (found + 1) (steps + out.steps) (out.children ++ children) out.peek (out.trace ++ trace))
          else matchRepeat env fuel ctx out.peek es op rep (found + 1) (steps + out.steps) (out.children ++ children) (out.trace ++ trace)
        else .ok (repeatFinish rep found steps children out.peek trace)
end

/-! ## ErrorCollector (syntax.py:337-406) -/

def hexNib (n : Nat) : Char := if n < 10 then Char.ofNat (48 + n) else Char.ofNat (87 + n)

/-- `repr(s)` of a Python `str`, exact for ASCII; code points ≥ 0x80 are kept (all printable ones are, the others
    are outside the model and never generated). -/
def pyRepr (s : Str) : Str :=
  let q : Char := if s.contains '\'' && !s.contains '"' then '"' else '\''
  let body := s.flatMap fun c =>
    if c = '\\' then ['\\', '\\']
    else if c = q then ['\\', q]
    else if c = '\n' then ['\\', 'n']
    else if c = '\r' then ['\\', 'r']
    else if c = '\t' then ['\\', 't']
    else if c.toNat < 32 ∨ c.toNat = 127 then ['\\', 'x', hexNib (c.toNat / 16), hexNib (c.toNat % 16)]
    else [c]
  [q] ++ body ++ [q]

/-- Python list indexing with a possibly negative index. -/
def pyIndex {α : Type} (xs : List α) (i : Int) : Option α :=
  if 0 ≤ i then xs[i.toNat]?
  else if i.natAbs ≤ xs.length then xs[xs.length - i.natAbs]?
  else none

def spaces (n : Int) : Str := List.replicate n.toNat ' '

/-- `ErrorCollector(source, tokens, steps).summary()`. -/
def summary (source : Str) (toks : List Tok) (steps : Nat) : Except Err Str :=
  match toks[steps]? with
  | none => .error .indexError
  | some cause =>
    let m := cause.map
    match pyIndex (Str.splitOn '\n' source) m.bl with
    | none => .error .indexError
    | some causeLine =>
      let progress := ['p', 'a', 's', 's', ':', ' '] ++ Str.natToDec steps ++ ['/'] ++ Str.natToDec toks.length ++ [',', ' ', 't', 'o', 'k', 'e', 'n', ':', ' '] ++ pyRepr cause.str
      let lineNo : Int := m.bl + 1
      let lineNs := spaces (Str.intToDec lineNo).length
      let diff := m.ec - m.bc
      let begin_ := m.bc
      let end_ : Int := if m.bl = m.el then m.bc + diff else causeLine.length
      let mark := spaces begin_ ++ List.replicate (max 1 (end_ - begin_)).toNat '^'
      let l1 := ['('] ++ Str.intToDec lineNo ++ [')', ' ', '>', '>', '>', ' '] ++ causeLine
      let l2 := [' '] ++ lineNs ++ [' ', ' ', ' ', ' ', ' ', ' '] ++ mark
      .ok (progress ++ ['\n'] ++ l1 ++ ['\n'] ++ l2)

/-- line number printed by the summary for cause token `t` (`_quotation_lines`: begin_line + 1) -/
def summaryLineNo (t : Tok) : Int := t.map.bl + 1

/-- index of the cause token handed to ErrorCollector by `parse`: `max(0, length - 1 - peek)` -/
def causeIndex (length peek : Nat) : Nat := length - 1 - peek

/-! ## SyntaxParser.parse (syntax.py:101-120) -/

def parse (env : Env) (fuel : Nat) (source : Str) (toks : List Tok) (entrypoint : Str) : Except Err Ast :=
  match matchSymbol env fuel (Ctx.start toks) 0 entrypoint with
  | .error e => .error e
  | .ok out =>
    if out.steps ≠ toks.length then
      match summary source toks (causeIndex toks.length out.peek) with
      | .error e => .error e
      | .ok msg => .error (.syntax msg)
    else
      match out.children with
      | [.tree n cs] => .ok (.tree n cs)             -- as_a(ASTTree, entry)
      | _ => .error .assertionError

/-! ## ASTToken.pretty / ASTTree.pretty (ast.py:44-46, 96-99) -/

/-- `sep.join(xs)` -/
def joinStr (sep : Str) : List Str → Str
  | [] => []
  | [x] => x
  | x :: y :: xs => x ++ sep ++ joinStr sep (y :: xs)

mutual
def Ast.pretty (indent : Str) : Ast → Str
  | .token n t => ['(', '\''] ++ n ++ ['\'', ',', ' ', '\''] ++ t.str ++ ['\'', ')']
  | .empty => ['(', '\''] ++ emptyName ++ ['\'', ',', ' ', '\''] ++ ['\'', ')']
  | .tree n cs =>
    ['(', '\''] ++ n ++ ['\'', ',', ' ', '[', '\n'] ++ indent ++ joinStr ([',', '\n'] ++ indent) (Ast.prettyList indent cs) ++ ['\n', ']', ')']
def Ast.prettyList (indent : Str) : List Ast → List Str
  | [] => []
  | c :: cs => joinStr (['\n'] ++ indent) (Str.splitOn '\n' (Ast.pretty indent c)) :: Ast.prettyList indent cs
end

end Tranp.Engine
