/-
  Tranp.Model.Evaluator — executable model of constant folding (property C17).

  Modelled code (rog-works/tranp):
    rogw/tranp/implements/transpiler/evaluator.py   LiteralEvaluator (every `on_*` handler, `_op_bin_each`, `_calc`,
                                                    `_bitwise`, `_allow_string`, `_cat`)
    rogw/tranp/semantics/procedure.py               Procedure.exec: post-order over the expanded properties, one result per node,
                                                    `Errors.Error` re-raised with its class, any other exception → `Errors.Fatal`
    rogw/tranp/implements/cpp/transpiler/py2cpp.py:842-848   the consumer: `str(evaluator.exec(v))`, `[1:-1]` for `str` members

  Two evaluators over two tree shapes:
    * `execImpl` runs on tranp's node tree (`Expr`): operator levels are FLAT chains `a op b op c …` (BinaryOperator.elements),
      parentheses are `Group` nodes, strings are their source tokens WITH quotes;
    * `evalPy` is CPython's semantics on CPython's own grouping (`PyExpr`, binary `BinOp` nodes); `toPy` is the grouping CPython
      gives the same tokens (a flat chain becomes the left-nested tree, parentheses vanish).

  `float` is an abstract type `F` with named operations (`FloatOps`): no IEEE claim, every theorem holds for all interpretations.
  The driver instantiates `F` with the term algebra `FTerm`, the harness interprets the terms with CPython's floats.
-/
import Tranp.Str
import Tranp.Generated.EvalOps
import Tranp.Generated.UnicodeDigits
import Tranp.Generated.PyEscapes

namespace Tranp.Evaluator
open Tranp Tranp.Generated.EvalOps

/-! ## values, errors -/

/-- Python exceptions that can occur while evaluating (same names as `harness.common.exc_enum`).
    `unsupported` = outside the modelled CPython fragment (never an answer about CPython);
    `excluded` = raised only by the strict mode of `evalPy` on the one region it cuts out (`0X…` literals). -/
inductive PyExc where
  | zeroDivision | valueError | overflowError | typeError | indexError | nameError | recursionError
  | syntaxError | unsupported | excluded | other (tag : Str)
deriving DecidableEq, Repr

/-- what `LiteralEvaluator.exec` raises: always an application error (`Errors.*`). -/
inductive Err where
  | notAllowed            -- Errors.OperationNotAllowed (evaluator.py:87, 200, 232, 242, 249)
  | unresolvedSymbol      -- Errors.UnresolvedSymbol, from Reflections.type_of inside on_var / on_relay
  | fatal (e : PyExc)     -- Errors.Fatal(node, 'Unhandled error', e)  (procedure.py:180-181)
  | reflections (cls : Str)   -- any other Errors.<cls> raised by Reflections.type_of while inferring the referenced declaration
deriving DecidableEq, Repr

/-- what `Reflections.type_of` raised at a reference node (observed on the real collaborator, an input of the model). -/
inductive TyErr where
  | notAllowed | unresolvedSymbol | recursion | other (cls : Str)
deriving DecidableEq, Repr

def TyErr.toErr : TyErr → Err
  | .notAllowed => .notAllowed
  | .unresolvedSymbol => .unresolvedSymbol
  | .recursion => .fatal .recursionError
  | .other c => .reflections c

/-- the operations on `float` the two evaluators use; partial ones return the Python exception. -/
structure FloatOps (F : Type) where
  add : F → F → F
  sub : F → F → F
  mul : F → F → F
  div : F → F → Except PyExc F           -- `x / y` on floats (ZeroDivisionError)
  mod : F → F → Except PyExc F           -- `x % y` on floats (ZeroDivisionError)
  neg : F → F
  ofInt : Int → Except PyExc F           -- `float(n)` (OverflowError)
  toInt : F → Except PyExc Int           -- `int(x)` (OverflowError for inf, ValueError for nan)
  parse : Str → Except PyExc F           -- `float(s)` (ValueError); also the value of a float literal token
  toStr : F → Str                        -- `str(x)`
  truediv : Int → Int → Except PyExc F   -- CPython's `a / b` on two ints (correctly rounded quotient)

inductive V (F : Type) where
  | int (n : Int)
  | float (x : F)
  | str (s : Str)
deriving DecidableEq, Repr

instance {ε α : Type} [DecidableEq ε] [DecidableEq α] : DecidableEq (Except ε α)
  | .ok a, .ok b => if h : a = b then isTrue (by rw [h]) else isFalse (by intro h'; injection h' with h''; exact h h'')
  | .error a, .error b => if h : a = b then isTrue (by rw [h]) else isFalse (by intro h'; injection h' with h''; exact h h'')
  | .ok _, .error _ => isFalse (by intro h; cases h)
  | .error _, .ok _ => isFalse (by intro h; cases h)

/-! ## CPython primitives both evaluators share (the folder runs CPython's own int and str operations) -/

def isQuote (c : Char) : Bool := quoteChars.contains c

/-- `s[1:-1]` -/
def unq (s : Str) : Str := (s.drop 1).dropLast

/-- bitwise operations on unbounded two's-complement ints, via `Nat` (`negSucc n` = `~n`). -/
def land : Int → Int → Int
  | .ofNat m, .ofNat n => .ofNat (m &&& n)
  | .ofNat m, .negSucc n => .ofNat (m ^^^ (m &&& n))
  | .negSucc m, .ofNat n => .ofNat (n ^^^ (n &&& m))
  | .negSucc m, .negSucc n => .negSucc (m ||| n)

def lor : Int → Int → Int
  | .ofNat m, .ofNat n => .ofNat (m ||| n)
  | .ofNat m, .negSucc n => .negSucc (n ^^^ (n &&& m))
  | .negSucc m, .ofNat n => .negSucc (m ^^^ (m &&& n))
  | .negSucc m, .negSucc n => .negSucc (m &&& n)

def lxor : Int → Int → Int
  | .ofNat m, .ofNat n => .ofNat (m ^^^ n)
  | .ofNat m, .negSucc n => .negSucc (m ^^^ n)
  | .negSucc m, .ofNat n => .negSucc (m ^^^ n)
  | .negSucc m, .negSucc n => .ofNat (m ^^^ n)

/-- CPython `a <op> b` on two ints for every operator but `/`. -/
def intBin (k : BinKind) (a b : Int) : Except PyExc Int :=
  match k with
  | .add => .ok (a + b)
  | .sub => .ok (a - b)
  | .mult => .ok (a * b)
  | .mod => if b = 0 then .error .zeroDivision else .ok (Int.fmod a b)
  | .bitOr => .ok (lor a b)
  | .bitXor => .ok (lxor a b)
  | .bitAnd => .ok (land a b)
  | .lShift =>
    if b < 0 then .error .valueError
    else if a = 0 then .ok 0
    else if 30 * (2 : Int) ^ 63 ≤ b then .error .overflowError          -- "too many digits in integer"
    else if (2 : Int) ^ 40 ≤ b then .error (.other ['M', 'e', 'm', 'o', 'r', 'y', 'E', 'r', 'r', 'o', 'r'])   -- ≥ 128 GiB
    else .ok (a * (2 : Int) ^ b.toNat)
  | .rShift =>
    if b < 0 then .error .valueError
    else if (2 : Int) ^ 64 ≤ b then .ok (if a < 0 then -1 else 0)
    else .ok (a >>> b.toNat)
  | .div => .error .unsupported

def isArith : BinKind → Bool
  | .add | .sub | .mult | .div | .mod => true
  | _ => false

/-- CPython `x <op> y` on two floats. -/
def floatBin {F} (ops : FloatOps F) (k : BinKind) (x y : F) : Except PyExc F :=
  match k with
  | .add => .ok (ops.add x y)
  | .sub => .ok (ops.sub x y)
  | .mult => .ok (ops.mul x y)
  | .div => ops.div x y
  | .mod => ops.mod x y
  | _ => .error .typeError

/-- `str(n)` for a natural number, by fuel (kernel-reducible; `n` has at most `log2 n + 1` digits). -/
def natDigits : Nat → Nat → Str → Str
  | 0, _, acc => acc
  | fuel + 1, n, acc => if n < 10 then Str.digitChar n :: acc else natDigits fuel (n / 10) (Str.digitChar (n % 10) :: acc)

def showNat (n : Nat) : Str := natDigits (n.log2 + 1) n []

/-- `str(i)` -/
def showInt (i : Int) : Str := if i < 0 then '-' :: showNat i.natAbs else showNat i.natAbs

/-- code points `int(str)` / `float(str)` strip: C `isspace` for ASCII (\t \n \v \f \r and space — NOT \x1c–\x1f, which only
    `str.isspace` counts) and the Unicode White_Space characters beyond ASCII. The table is MEASURED on the pinned interpreter by the
    translator on every run (`Generated/UnicodeDigits.intBlanks`: `int(chr(c) + '1' + chr(c)) == 1`, and `float` alike). -/
def wsCodes : List Nat := Generated.UnicodeDigits.intBlanks

def isWs (c : Char) : Bool := wsCodes.contains c.toNat

/-- decimal value of a code point of category Nd (generated table of the zeros of the 0..9 blocks) -/
def uniDec (n : Nat) : Option Nat :=
  match Generated.UnicodeDigits.decimalZeros.find? (fun z => z ≤ n && n < z + 10) with
  | some z => some (n - z)
  | none => none

/-- digit value as `int(str, base)` reads it: ASCII digits and (base 16) hex letters, and every Unicode decimal digit. -/
def digVal (base : Nat) (c : Char) : Option Nat :=
  match Str.hexVal c with
  | some d => if d < base then some d else none
  | none =>
    match uniDec c.toNat with
    | some d => if d < base then some d else none
    | none => none

/-- digits after a digit: single underscores between digits are skipped (PEP 515); trailing blanks are accepted. -/
def goDigits (base : Nat) (acc : Nat) : Str → Option Nat
  | [] => some acc
  | '_' :: c :: cs => match digVal base c with
    | some d => goDigits base (acc * base + d) cs
    | none => none
  | c :: cs => match digVal base c with
    | some d => goDigits base (acc * base + d) cs
    | none => if (c :: cs).all isWs then some acc else none

def parseDigits (base : Nat) : Str → Option Nat
  | [] => none
  | c :: cs => match digVal base c with
    | some d => goDigits base d cs
    | none => none

def signed (s : Str) : Bool × Str :=
  match s with
  | '-' :: r => (true, r)
  | '+' :: r => (false, r)
  | r => (false, r)

def applySign (neg : Bool) (n : Nat) : Int := if neg then - (n : Int) else (n : Int)

/-- strip the optional `0x` / `0X` (and one underscore after it) that `int(s, 16)` accepts. -/
def dropHexPrefix : Str → Str
  | '0' :: 'x' :: '_' :: r => r
  | '0' :: 'X' :: '_' :: r => r
  | '0' :: 'x' :: r => r
  | '0' :: 'X' :: r => r
  | r => r

/-- `int(s, base)` for `base` 10 and 16 on ASCII input: blanks stripped, optional sign, digits with single underscores.
    Digits are the Unicode decimal digits (category Nd), as CPython's `int()` takes them. -/
def pyInt (base : Nat) (s : Str) : Except PyExc Int :=
  let (neg, body) := signed (s.dropWhile isWs)
  let body := if base = 16 then dropHexPrefix body else body
  match parseDigits base body with
  | some n => .ok (applySign neg n)
  | none => .error .valueError

/-- a token without blanks (literal tokens never contain any) -/
def noWs (tok : Str) : Bool := tok.all (fun c => !isWs c)

/-- shape of an integer literal token: `0[xX](_?hex)+` | `[1-9](_?digit)*` | `0(_?0)*`; the result is the base. -/
def intLitBase (tok : Str) : Option Nat :=
  if !noWs tok || !tok.all (fun c => c.toNat < 128) then none   -- a literal token is ASCII
  else if Str.startsWith tok ['0', 'x'] || Str.startsWith tok ['0', 'X'] then
    (if (parseDigits 16 (dropHexPrefix tok)).isSome && 2 < tok.length then some 16 else none)
  else if Str.startsWith tok ['0'] then
    (if parseDigits 10 tok = some 0 && tok.all (fun c => c = '0' || c = '_') then some 10 else none)
  else if (parseDigits 10 tok).isSome then some 10 else none

/-- which quoted form a string token has. -/
inductive StrTok where
  | plain (body : Str)     -- 'body' or "body": no prefix, no unescaped quote of its own kind, no newline (escapes allowed)
  | triple (body : Str)    -- '''body''' or """body""": no prefix, no backslash
  | other                  -- prefixed (r b u f), escaped, or not a string token
deriving DecidableEq, Repr

/-- scanning the body of a one-line token: no unescaped quote of its own kind, no raw newline, not ending in a lone backslash -/
def scanPlain (q : Char) : Bool → Str → Bool
  | esc, [] => !esc
  | false, c :: cs => if c = '\\' then scanPlain q true cs else c ≠ q && c ≠ '\n' && scanPlain q false cs
  | true, c :: cs => c ≠ '\n' && scanPlain q false cs

def plainBodyOk (q : Char) (body : Str) : Bool := scanPlain q false body

def tripleBodyOk (q : Char) (body : Str) : Bool :=
  body.all (fun c => c ≠ '\\') && (Str.find body [q, q, q]).isNone && body.getLast? ≠ some q

def classifyStr (tok : Str) : StrTok :=
  match tok with
  | q :: rest =>
    if isQuote q then
      if 6 ≤ tok.length && tok.take 3 = [q, q, q] && tok.drop (tok.length - 3) = [q, q, q] then
        (if tripleBodyOk q ((tok.drop 3).take (tok.length - 6)) then .triple ((tok.drop 3).take (tok.length - 6)) else .other)
      else if rest.getLast? = some q && plainBodyOk q rest.dropLast then .plain rest.dropLast
      else .other
    else .other
  | [] => .other

/-! ## tranp's node tree and its evaluation -/

/-- the part of the node tree `LiteralEvaluator` has handlers for. Operators are their tokens. -/
inductive Expr where
  | integer (tok : Str)                                   -- defs.Integer
  | float (tok : Str)                                     -- defs.Float
  | string (tok : Str)                                    -- defs.String (token text with quotes/prefix)
  | factor (op : Str) (e : Expr)                          -- defs.Factor(operator, value)
  | chain (handler : Str) (first : Expr) (rest : List (Str × Expr))   -- BinaryOperator.elements = first, op, e, op, e, …
  | group (e : Expr)                                      -- defs.Group
  | call (fn : Str) (args : List Expr)                    -- defs.FuncCall(calls = Var fn, arguments)
  | var (key : Str) (tyErr : Option TyErr)                 -- defs.Var: bare name (key = member key or other symbol)
  | value (enum : Str) (key : Str) (tyErr : Option TyErr)  -- defs.Relay `Enum.Member.value`
deriving Repr, Inhabited

/-- The injected collaborator `Reflections`, as a table: enum members in source order (key ↦ value expression of the
    declaration) and the other symbols that resolve (classes, builtin functions). What `Reflections.type_of` raises at a
    reference node (static type inference is property C03's subject and is taken as given here) is recorded on the node
    itself: `tyErr` of `Expr.var` / `Expr.value`. -/
structure Env where
  members : List (Str × Expr)
  known : List Str
deriving Inhabited

def liftPy {α} (r : Except PyExc α) : Except Err α :=
  match r with
  | .ok a => .ok a
  | .error e => .error (.fatal e)

/-- `on_terminal` (evaluator.py:244-249) -/
def onTerminal (tok : Str) : Except Err Str :=
  if allowOps.contains tok then .ok tok else .error .notAllowed

/-- `on_integer` (evaluator.py:203-208) -/
def onInteger {F} (tok : Str) : Except Err (V F) :=
  if Str.startsWith tok ['0', 'x'] then liftPy ((pyInt 16 tok).map .int) else liftPy ((pyInt 10 tok).map .int)

/-- `on_float` (evaluator.py:210-211) -/
def onFloat {F} (ops : FloatOps F) (tok : Str) : Except Err (V F) := liftPy ((ops.parse tok).map .float)

/-- `on_factor` (evaluator.py:235-241); the operator went through `on_terminal` before. -/
def onFactor {F} (ops : FloatOps F) (op : Str) (v : V F) : Except Err (V F) :=
  match v with
  | .int n => .ok (.int (if op = ['-'] then -n else n))
  | .float x => .ok (.float (if op = ['-'] then ops.neg x else x))
  | .str _ => .error .notAllowed

/-- `float(x)` as Python applies it to an evaluator value. -/
def toFloat {F} (ops : FloatOps F) : V F → Except PyExc F
  | .int n => ops.ofInt n
  | .float x => .ok x
  | .str s => ops.parse s

/-- `_allow_string` (evaluator.py:133-147): a token that starts and ends with the same triple quote is rejected first. -/
def allowString (s : Str) : Bool :=
  if longQuoteMinLen ≤ s.length && longQuotes.contains (s.take 3) && s.drop (s.length - 3) = s.take 3 then false
  else 2 ≤ s.length && (match s.head? with | some c => isQuote c | none => false) && (match s.getLast? with | some c => isQuote c | none => false)

/-- `_cat` (evaluator.py:142-152) -/
def cat (l r : Str) : Str :=
  match l with
  | q :: _ => q :: (unq l ++ unq r ++ [q])
  | [] => unq l ++ unq r

/-! ## escape sequences of string-literal bodies: `_cat` joins token TEXTS, `_joins_escape` (evaluator.py:150-161, since 05486b1)
       refuses the joins that would change what the texts decode to -/

/-- decoder state: plain text, after a backslash, inside `\ooo` (value, digits so far), inside a hexadecimal escape `\xhh`,
    `\uhhhh`, `\Uhhhhhhhh` (introducing letter, digits still to come (≥ 1), digits read so far, their value). -/
inductive DecState where
  | normal | backslash | oct (v n : Nat) | hex (k : Char) (need : Nat) (seen : Str) (v : Nat)
deriving DecidableEq, Repr

def octVal (c : Char) : Option Nat := if 48 ≤ c.toNat ∧ c.toNat ≤ 55 then some (c.toNat - 48) else none

/-- the one-character escapes of Python string literals: the table is MEASURED on the pinned interpreter by the translator on every run
    (`Generated/PyEscapes.simpleEscapes`: for every printable ASCII `c` the literal `'\c'` is evaluated). -/
def simpleEsc (c : Char) : Option Char := (Generated.PyEscapes.simpleEscapes.lookup c).map Char.ofNat

/-- a character in plain text -/
def stepNormal (c : Char) : Str × DecState := if c = '\\' then ([], .backslash) else ([c], .normal)

/-- number of hexadecimal digits after the introducing letter: `\xhh`, `\uhhhh`, `\Uhhhhhhhh` -/
def hexWidth (c : Char) : Option Nat :=
  if c = 'x' then some 2 else if c = 'u' then some 4 else if c = 'U' then some 8 else none

/-- a code point a Python `str` AND a Lean `Char` can hold (lone surrogates, which `\ud800` yields in CPython, have no `Char`;
    above U+10FFFF CPython rejects the literal) -/
def validScalar (n : Nat) : Bool := n < 0xD800 || (0xDFFF < n && n < 0x110000)

/-- one character of the body: what is emitted, and the next state. `\ooo` takes 1–3 octal digits, `\xhh` / `\uhhhh` /
    `\Uhhhhhhhh` exactly two / four / eight hex digits, an unknown escape keeps its backslash (CPython does, with a warning);
    `\N{…}` and a malformed hexadecimal escape are outside the model (`escOk`; never generated: CPython rejects the latter). -/
def stepSt : DecState → Char → Str × DecState
  | .normal, c => stepNormal c
  | .backslash, c =>
    match octVal c with
    | some d => ([], .oct d 1)
    | none =>
      match hexWidth c with
      | some w => ([], .hex c w [] 0)
      | none =>
        match simpleEsc c with
        | some e => ([e], .normal)
        | none => (['\\', c], .normal)
  | .oct v n, c =>
    match octVal c with
    | some d => if n < 2 then ([], .oct (v * 8 + d) (n + 1)) else ([Char.ofNat (v * 8 + d)], .normal)
    | none => (Char.ofNat v :: (stepNormal c).1, (stepNormal c).2)
  | .hex k need seen v, c =>
    match Str.hexVal c with
    | some d => if need ≤ 1 then ([Char.ofNat (v * 16 + d)], .normal) else ([], .hex k (need - 1) (seen ++ [c]) (v * 16 + d))
    | none => ('\\' :: k :: (seen ++ (stepNormal c).1), (stepNormal c).2)

/-- what is still pending at the end of the body -/
def flushSt : DecState → Str
  | .normal => []
  | .backslash => ['\\']
  | .oct v _ => [Char.ofNat v]
  | .hex k _ seen _ => '\\' :: k :: seen

def decodeGo (st : DecState) : Str → Str
  | [] => flushSt st
  | c :: cs => (stepSt st c).1 ++ decodeGo (stepSt st c).2 cs

/-- the state the decoder is in after a body -/
def endState (st : DecState) : Str → DecState
  | [] => st
  | c :: cs => endState (stepSt st c).2 cs

/-- CPython's decoding of the body of a (non-raw) string literal. -/
def decodeEsc (body : Str) : Str := decodeGo .normal body

/-- joining the bodies `l` and `r` changes what they decode to: `l` ends inside an escape that `r` would continue
    (for the bodies of valid tokens: `l` ends in `\o` or `\oo` and `r` starts with an octal digit). -/
def joinsEscape (l r : Str) : Bool :=
  match endState .normal l with
  | .normal => false
  | .oct _ _ => (match r with | c :: _ => (octVal c).isSome | [] => false)
  | _ => true

/-- the body uses only escape sequences the decoder models (`\N{…}`, a line continuation, a malformed hexadecimal escape and a
    `\u` / `\U` escape of a surrogate or beyond U+10FFFF are not) and does not end inside `\` or a hexadecimal escape. -/
def escOkGo : DecState → Str → Bool
  | st, [] => (match st with | .normal => true | .oct _ _ => true | _ => false)
  | st, c :: cs =>
    (match st with
     | .backslash => !(c = 'N' || c = '\n')
     | .hex _ need _ v => (match Str.hexVal c with | some d => 1 < need || validScalar (v * 16 + d) | none => false)
     | _ => true) && escOkGo (stepSt st c).2 cs

def escOk (body : Str) : Bool := escOkGo .normal body

/-- the shipped join rule: `assert … and not self._joins_escape(left, right)` then `_cat` (evaluator.py:80-81). -/
def catSafe (l r : Str) : Except Err Str :=
  if joinsEscape (unq l) (unq r) then .error .notAllowed else .ok (cat l r)

/-- `_calc` on two floats (evaluator.py:90-109): the ladder is the generated `calcTable`; `assert False` → OperationNotAllowed. -/
def calcF {F} (ops : FloatOps F) (op : Str) (x y : F) : Except Err F :=
  match calcTable.lookup op with
  | some k => if isArith k then liftPy (floatBin ops k x y) else .error .notAllowed
  | none => .error .notAllowed

/-- `int(self._calc(left, op, right))` on two ints (evaluator.py:74). -/
def calcI {F} (ops : FloatOps F) (op : Str) (a b : Int) : Except Err Int :=
  match calcTable.lookup op with
  | some .div => liftPy (do let x ← ops.truediv a b; ops.toInt x)
  | some k => if isArith k then liftPy (intBin k a b) else .error .notAllowed
  | none => .error .notAllowed

/-- `self._calc(left, op, right)` on the two ints themselves (evaluator.py:72-73, taken for `/`): Python's own operation,
    no `int(...)` around it. -/
def calcII {F} (ops : FloatOps F) (op : Str) (a b : Int) : Except Err (V F) :=
  match calcTable.lookup op with
  | some .div => liftPy ((ops.truediv a b).map .float)
  | some k => if isArith k then liftPy ((intBin k a b).map .int) else .error .notAllowed
  | none => .error .notAllowed

/-- `_bitwise` (evaluator.py:111-129): the ladder is the generated `bitTable`. -/
def bitwiseI (op : Str) (a b : Int) : Except Err Int :=
  match bitTable.lookup op with
  | some k => if isArith k then .error .notAllowed else liftPy (intBin k a b)
  | none => .error .notAllowed

/-- one iteration of the `while` in `_op_bin_each` (evaluator.py:67-89). -/
def step {F} (ops : FloatOps F) (op : Str) (l r : V F) : Except Err (V F) :=
  let isF : V F → Bool := fun v => match v with | .float _ => true | _ => false
  let isI : V F → Bool := fun v => match v with | .int _ => true | _ => false
  if isI l && isI r && op = ['/'] then
    match l, r with
    | .int a, .int b => calcII ops op a b
    | _, _ => .error .notAllowed
  else if isF l || isF r || op = ['/'] then do
    let x ← liftPy (toFloat ops l)
    let y ← liftPy (toFloat ops r)
    let z ← calcF ops op x y
    pure (.float z)
  else match l, r with
    | .int a, .int b =>
      if arithmeticOps.contains op then (calcI ops op a b).map .int else (bitwiseI op a b).map .int
    | .str a, .str b =>
      if op = ['+'] then
        if allowString a && allowString b then (catSafe a b).map .str else .error .notAllowed   -- evaluator.py:80-81
      else .error .notAllowed
    | _, _ => .error .notAllowed

/-- `_op_bin_each`: pairwise left fold (evaluator.py:56-88). -/
def opBinEach {F} (ops : FloatOps F) (l : V F) : List (Str × V F) → Except Err (V F)
  | [] => .ok l
  | (op, r) :: rest => do
    let l' ← step ops op l r
    opBinEach ops l' rest

/-- `str(x)` as Python applies it to an evaluator value. -/
def pyStrOf {F} (ops : FloatOps F) : V F → Str
  | .int n => showInt n
  | .float x => ops.toStr x
  | .str s => s

/-- `on_func_call` (evaluator.py:187-209): exactly `castArity` arguments, then the cast ladder. -/
def onFuncCall {F} (ops : FloatOps F) (fn : Str) (args : List (V F)) : Except Err (V F) :=
  if args.length ≠ castArity then .error .notAllowed
  else if fn = ['i', 'n', 't'] then
    match args with
    | [] => .error (.fatal .indexError)
    | .str s :: _ => liftPy ((pyInt 10 (unq s)).map .int)
    | .int n :: _ => .ok (.int n)
    | .float x :: _ => liftPy ((ops.toInt x).map .int)
  else if fn = ['f', 'l', 'o', 'a', 't'] then
    match args with
    | [] => .error (.fatal .indexError)
    | .str s :: _ => liftPy ((ops.parse (unq s)).map .float)
    | a :: _ => liftPy ((toFloat ops a).map .float)
  else if fn = ['s', 't', 'r'] then
    match args with
    | [] => .error (.fatal .indexError)
    | .str s :: _ => .ok (.str ('"' :: (unq s ++ ['"'])))
    | a :: _ => .ok (.str ('"' :: (pyStrOf ops a ++ ['"'])))
  else .error .notAllowed

/-- results of the chain's children in document order: first the operator terminal (on_terminal), then the operand. -/
def mapRest {F} (f : Expr → Except Err (V F)) : List (Str × Expr) → Except Err (List (Str × V F))
  | [] => .ok []
  | (op, e) :: rest => do
    let op' ← onTerminal op
    let v ← f e
    let vs ← mapRest f rest
    pure ((op', v) :: vs)

def mapArgs {F} (f : Expr → Except Err (V F)) : List Expr → Except Err (List (V F))
  | [] => .ok []
  | e :: rest => do
    let v ← f e
    let vs ← mapArgs f rest
    pure (v :: vs)

/-- `LiteralEvaluator.exec`. `fuel` bounds the nesting depth (Python: the recursion limit → RecursionError → Errors.Fatal);
    every recursive call spends one unit, so the definition is structural and kernel-reducible. -/
def execImpl {F} (ops : FloatOps F) (env : Env) : Nat → Expr → Except Err (V F)
  | 0, _ => .error (.fatal .recursionError)
  | fuel + 1, e =>
    match e with
    | .integer tok => onInteger tok
    | .float tok => onFloat ops tok
    | .string tok => if allowString tok then .ok (.str tok) else .error .notAllowed   -- on_string (evaluator.py:221-225)
    | .factor op e => do
      let op' ← onTerminal op
      let v ← execImpl ops env fuel e
      onFactor ops op' v
    | .chain handler first rest =>
      if chainHandlers.contains handler then do
        let a ← execImpl ops env fuel first
        let xs ← mapRest (execImpl ops env fuel) rest
        opBinEach ops a xs
      else .error .notAllowed                                             -- on_fallback
    | .group e => execImpl ops env fuel e                                 -- on_group
    | .call fn args => do
      -- `calls` is a Var: on_var resolves it first (a class is not a DeclLocalVar → '')
      if !(env.known.contains fn) then throw Err.unresolvedSymbol
      let vs ← mapArgs (execImpl ops env fuel) args
      onFuncCall ops fn vs
    | .var key tyErr =>                                                   -- on_var (evaluator.py:160-167)
      match tyErr with
      | some er => .error er.toErr                                        -- `type_of(node)` raises
      | none =>
        match env.members.lookup key with
        | some e' => execImpl ops env fuel e'
        | none => if env.known.contains key then .ok (.str []) else .error .unresolvedSymbol
    | .value enum key tyErr =>                                            -- on_relay (evaluator.py:169-178)
      if !(env.known.contains enum) then .error .unresolvedSymbol         -- on_var of the receiver's receiver
      else match tyErr with
        | some er => .error er.toErr                                      -- `type_of(node.receiver)` raises
        | none =>
          match env.members.lookup key with
          | some e' => execImpl ops env fuel e'
          | none => .error .unresolvedSymbol

/-! ## CPython's tree and semantics -/

/-- CPython's `ast` for the same tokens: binary `BinOp`, `UnaryOp`, `Call`, `Name`, `Attribute(.value)`; no parenthesis node. -/
inductive PyExpr where
  | intLit (tok : Str)
  | floatLit (tok : Str)
  | strLit (tok : Str)
  | unary (op : Str) (e : PyExpr)
  | binop (op : Str) (l r : PyExpr)
  | call (fn : Str) (args : List PyExpr)
  | name (key : Str)
  | attrValue (enum : Str) (key : Str)
deriving Repr, Inhabited

mutual
/-- CPython's grouping of the tokens of a tranp node tree. -/
def toPy : Expr → PyExpr
  | .integer tok => .intLit tok
  | .float tok => .floatLit tok
  | .string tok => .strLit tok
  | .factor op e => .unary op (toPy e)
  | .chain _ first rest => toPyChain (toPy first) rest
  | .group e => toPy e
  | .call fn args => .call fn (toPyArgs args)
  | .var key _ => .name key
  | .value enum key _ => .attrValue enum key
/-- a flat chain is left-associative: `a op b op c` is `(a op b) op c`. -/
def toPyChain (acc : PyExpr) : List (Str × Expr) → PyExpr
  | [] => acc
  | (op, e) :: rest => toPyChain (.binop op acc (toPy e)) rest
def toPyArgs : List Expr → List PyExpr
  | [] => []
  | e :: rest => toPy e :: toPyArgs rest
end

/-- which region is cut out of CPython's semantics (`false` = CPython itself). After the repairs of the evaluator one is left. -/
structure Mode where
  lowerHex : Bool      -- H4: a `0X…` literal raises `excluded`
  noEsc : Bool         -- H6: a string token with a backslash raises `excluded`
deriving DecidableEq, Repr

def Mode.py : Mode := ⟨false, false⟩
def Mode.strict : Mode := ⟨true, true⟩

def pyOpTable : List (Str × BinKind) :=
  [(['+'], .add), (['-'], .sub), (['*'], .mult), (['/'], .div), (['%'], .mod),
   (['|'], .bitOr), (['^'], .bitXor), (['&'], .bitAnd), (['<', '<'], .lShift), (['>', '>'], .rShift)]

/-- `s * n`: the count must fit `Py_ssize_t` (OverflowError otherwise); a negative count gives ''. -/
def strRepeat {F} (s : Str) (n : Int) : Except PyExc (V F) :=
  if n < -(2 : Int) ^ 63 || (2 : Int) ^ 63 - 1 < n then .error .overflowError
  else .ok (.str (List.replicate n.toNat s).flatten)

/-- CPython `l <op> r`. -/
def pyBin {F} (_m : Mode) (ops : FloatOps F) (op : Str) (l r : V F) : Except PyExc (V F) :=
  match pyOpTable.lookup op with
  | none => .error .unsupported
  | some k =>
    match l, r with
    | .int a, .int b =>
      if k = .div then (ops.truediv a b).map .float
      else (intBin k a b).map .int
    | .int a, .float y =>
      if isArith k then do let x ← ops.ofInt a; (floatBin ops k x y).map .float else .error .typeError
    | .float x, .int b =>
      if isArith k then do let y ← ops.ofInt b; (floatBin ops k x y).map .float else .error .typeError
    | .float x, .float y => (floatBin ops k x y).map .float
    | .str a, .str b =>
      if k = .add then .ok (.str (a ++ b)) else if k = .mod then .error .unsupported else .error .typeError
    | .str a, .int n =>
      if k = .mult then strRepeat a n else if k = .mod then .error .unsupported else .error .typeError
    | .int n, .str a => if k = .mult then strRepeat a n else .error .typeError
    | .str _, .float _ => if k = .mod then .error .unsupported else .error .typeError
    | .float _, .str _ => .error .typeError

/-- CPython `<op> v`. -/
def pyUnary {F} (ops : FloatOps F) (op : Str) (v : V F) : Except PyExc (V F) :=
  if op = ['-'] then
    match v with
    | .int n => .ok (.int (-n))
    | .float x => .ok (.float (ops.neg x))
    | .str _ => .error .typeError
  else if op = ['+'] then
    match v with
    | .str _ => .error .typeError
    | v => .ok v
  else if op = ['~'] then
    match v with
    | .int n => .ok (.int (-n - 1))
    | _ => .error .typeError
  else .error .unsupported

/-- value of an integer literal token -/
def pyIntLit (m : Mode) (tok : Str) : Except PyExc Int :=
  match intLitBase tok with
  | some base =>
    if m.lowerHex && Str.startsWith tok ['0', 'X'] then .error .excluded else pyInt base tok
  | none => .error .syntaxError

/-- value of a string literal token -/
def pyStrLit (m : Mode) (tok : Str) : Except PyExc Str :=
  match classifyStr tok with
  | .plain body =>
    if m.noEsc && body.contains '\\' then .error .excluded
    else if escOk body then .ok (decodeEsc body) else .error .unsupported
  | .triple body => .ok body
  | .other => .error .unsupported

/-- `str(v)` on a CPython value -/
def pyStrVal {F} (ops : FloatOps F) : V F → Str
  | .int n => showInt n
  | .float x => ops.toStr x
  | .str s => s

/-- the builtins `int`, `float`, `str` applied to evaluated arguments. -/
def pyCall {F} (_m : Mode) (ops : FloatOps F) (fn : Str) (args : List (V F)) : Except PyExc (V F) :=
  if fn = ['i', 'n', 't'] then
    match args with
    | [] => .ok (.int 0)
    | [.str s] => (pyInt 10 s).map .int
    | [.int n] => .ok (.int n)
    | [.float x] => (ops.toInt x).map .int
    | [.str s, .int b] =>
      if b = 10 then (pyInt 10 s).map .int else if b = 16 then (pyInt 16 s).map .int else .error .unsupported
    | _ => .error .typeError
  else if fn = ['f', 'l', 'o', 'a', 't'] then
    match args with
    | [] => (ops.ofInt 0).map .float
    | [.str s] => (ops.parse s).map .float
    | [.int n] => (ops.ofInt n).map .float
    | [.float x] => .ok (.float x)
    | _ => .error .typeError
  else if fn = ['s', 't', 'r'] then
    match args with
    | [] => .ok (.str [])
    | [a] => .ok (.str (pyStrVal ops a))
    | _ => .error .unsupported
  else .error .unsupported

/-- names bound so far, most recent first; a member whose evaluation raised re-raises when it is read. -/
abbrev VEnv (F : Type) := List (Str × Except PyExc (V F))

mutual
/-- CPython's evaluation (operands left to right, then the operation; the first exception wins). -/
def evalPy {F} (m : Mode) (ops : FloatOps F) (known : List Str) (venv : VEnv F) : PyExpr → Except PyExc (V F)
  | .intLit tok => (pyIntLit m tok).map .int
  | .floatLit tok => (ops.parse tok).map .float
  | .strLit tok => (pyStrLit m tok).map .str
  | .unary op e => do
    let v ← evalPy m ops known venv e
    pyUnary ops op v
  | .binop op l r => do
    let a ← evalPy m ops known venv l
    let b ← evalPy m ops known venv r
    pyBin m ops op a b
  | .call fn args =>
    if !(known.contains fn) then .error .nameError
    else do
      let vs ← evalPyArgs m ops known venv args
      pyCall m ops fn vs
  | .name key =>
    match venv.lookup key with
    | some r => r
    | none => if known.contains key then .error .unsupported else .error .nameError
  | .attrValue enum key =>
    if !(known.contains enum) then .error .nameError
    else match venv.lookup key with
      | some r => r
      | none => .error .nameError   -- AttributeError/NameError: the member does not exist (yet)
def evalPyArgs {F} (m : Mode) (ops : FloatOps F) (known : List Str) (venv : VEnv F) : List PyExpr → Except PyExc (List (V F))
  | [] => .ok []
  | e :: rest => do
    let v ← evalPy m ops known venv e
    let vs ← evalPyArgs m ops known venv rest
    pure (v :: vs)
end

/-- executing the class bodies top to bottom: each member is evaluated with the members before it. -/
def bindAll {F} (m : Mode) (ops : FloatOps F) (known : List Str) (acc : VEnv F) : List (Str × Expr) → VEnv F
  | [] => acc
  | (k, e) :: rest => bindAll m ops known ((k, evalPy m ops known acc (toPy e)) :: acc) rest

/-! ## comparing the two results -/

/-- the folder's string `s` is the CPython string `c` between two quote characters. -/
def Quoted (s c : Str) : Prop := ∃ q q', isQuote q = true ∧ isQuote q' = true ∧ s = q :: (c ++ [q'])

/-- same type, same value; strings compared by content: the folder's string `s` is a raw body `raw` between two quote characters
    and CPython's string is what `raw` decodes to. In a mode that cuts escapes out (`noEsc`) the raw body has no backslash. -/
inductive Sim {F : Type} (m : Mode) : V F → V F → Prop where
  | int (n : Int) : Sim m (.int n) (.int n)
  | float (x : F) : Sim m (.float x) (.float x)
  | str {s raw c : Str} : Quoted s raw → decodeEsc raw = c → (m.noEsc = true → raw.contains '\\' = false) → Sim m (.str s) (.str c)

/-- executable version of `Sim` for the driver and `decide`d examples. -/
def simB {F} [DecidableEq F] : V F → V F → Bool
  | .int a, .int b => a = b
  | .float x, .float y => x = y
  | .str s, .str c => allowString s && decodeEsc (unq s) = c
  | _, _ => false

/-! ## the symbolic float used by the driver and by the examples -/

/-- floats as terms: equality is structural, nothing is rounded. -/
inductive FTerm where
  | parse (s : Str)
  | ofInt (n : Int)
  | add (a b : FTerm)
  | sub (a b : FTerm)
  | mul (a b : FTerm)
  | div (a b : FTerm)
  | mod (a b : FTerm)
  | neg (a : FTerm)
  | truediv (a b : Int)
deriving DecidableEq, Repr, Inhabited

/-- the free interpretation: nothing raises (but `float()` of a text with a backslash), `int(x)` is 0, `str(x)` is `?`. Examples only. -/
def freeOps : FloatOps FTerm where
  add := .add
  sub := .sub
  mul := .mul
  div a b := .ok (.div a b)
  mod a b := .ok (.mod a b)
  neg := .neg
  ofInt n := .ok (.ofInt n)
  toInt _ := .ok 0
  parse s := if s.contains '\\' then .error .valueError else .ok (.parse s)
  toStr _ := ['?']
  truediv a b := .ok (.truediv a b)

end Tranp.Evaluator
