/-
  Tranp.Model.InferSpec — the statement-level vocabulary of property C03:

  * `Conf v T`       the run-time value `v` is denoted by the inferred type `T` (a `Union` denotes each of its members,
                     `T | None` therefore is an optional; an iterator type denotes the list of the items it yields);
  * `pyBinTy`, `pyMethodTy`, `pyFuncTy`   CPython's result types (reference typing of operators and of the stub
                     methods/functions that have a pure counterpart in `Tranp.Model.PyEval`);
  * `wt Γ e` (`Core Γ e`)  the subset of the expression core on which the theorems are stated — what the property's sentence
        covers: Python-typable operator applications accepted by the stub table with CPython's result type, unary operators on
        int/float/bool, boolean operands of and/or, non-empty list/dict literals whose element types survive `on_list`'s
        per-class selection (homogeneous literals; one type per class), subscripts of list/dict/str/tuple (tuple: literal index
        in range), slices of list/str and — with literal or omitted bounds — of tuples, whitelisted pure stub calls whose inferred
        result equals CPython's, comprehensions over list/dict/iterator sources.
        Since the repairs 9370d50, 4f4a122, c5f6dc1 there is no separate "agreement subset": `WellTyped = Core`.
-/
import Tranp.Model.PyEval

namespace Tranp.Infer
open Tranp Tranp.Generated

def s_ItemsView : Str := ['I', 't', 'e', 'm', 's', 'V', 'i', 'e', 'w']
def s_Pair : Str := ['P', 'a', 'i', 'r']

def tIter (t : Ty) : Ty := .cls s_Iterator (.cons t .nil)
def tItems (k v : Ty) : Ty := .cls s_ItemsView (.cons k (.cons v .nil))
def tPair (k v : Ty) : Ty := .cls s_Pair (.cons k (.cons v .nil))

mutual
/-- the inferred type `T` denotes the value `v` (`ct`: the user classes — an instance of a class is denoted by the class and by
    each of its bases, and its instance dict holds a conforming value for every declared instance variable) -/
inductive Conf (ct : ClassTable) : Val → Ty → Prop
  | int (n : Int) : Conf ct (.int n) .int
  | float (x : Float) : Conf ct (.float x) .float
  | bool (b : Bool) : Conf ct (.bool b) .bool
  | str (s : Str) : Conf ct (.str s) .str
  | none : Conf ct .none .none
  | list {vs : List Val} {t : Ty} : ConfAll ct vs t → Conf ct (.list vs) (.list t)
  | dict {ks vs : List Val} {k v : Ty} : ConfAll ct ks k → ConfAll ct vs v → Conf ct (.dict ks vs) (.dict k v)
  | tuple {vs : List Val} {ts : Tys} : ConfZip ct vs ts → Conf ct (.tuple vs) (.tuple ts)
  | union {v : Val} {t : Ty} {ts : Tys} : Tys.mem t ts = true → Conf ct v t → Conf ct v (.union ts)
  | iter {vs : List Val} {t : Ty} : ConfAll ct vs t → Conf ct (.list vs) (tIter t)
  | items {vs : List Val} {k v : Ty} : ConfAll ct vs (tPair k v) → Conf ct (.list vs) (tItems k v)
  | pair {a b : Val} {k v : Ty} : Conf ct a k → Conf ct b v → Conf ct (.tuple [a, b]) (tPair k v)
  | obj {c d : Str} {ns : List Str} {vs : List Val} : d ∈ chainOf ct c →
      (∀ e a T, e ∈ chainOf ct c → memberOf ct e a = some ⟨a, .field, T⟩ → ConfField ct ns vs a T) →
      Conf ct (.obj c ns vs) (.cls d .nil)
inductive ConfAll (ct : ClassTable) : List Val → Ty → Prop
  | nil {t : Ty} : ConfAll ct [] t
  | cons {v : Val} {vs : List Val} {t : Ty} : Conf ct v t → ConfAll ct vs t → ConfAll ct (v :: vs) t
inductive ConfZip (ct : ClassTable) : List Val → Tys → Prop
  | nil : ConfZip ct [] .nil
  | cons {v : Val} {vs : List Val} {t : Ty} {ts : Tys} : Conf ct v t → ConfZip ct vs ts → ConfZip ct (v :: vs) (.cons t ts)
/-- the instance dict `(ns, vs)` holds a value denoted by `T` under the name `a` -/
inductive ConfField (ct : ClassTable) : List Str → List Val → Str → Ty → Prop
  | mk {ns : List Str} {vs : List Val} {a : Str} {T : Ty} {x : Val} : fieldGet ns vs a = some x → Conf ct x T → ConfField ct ns vs a T
end

/-- pointwise conformance of argument values to argument types -/
inductive ConfList (ct : ClassTable) : List Val → List Ty → Prop
  | nil : ConfList ct [] []
  | cons {v : Val} {vs : List Val} {t : Ty} {ts : List Ty} : Conf ct v t → ConfList ct vs ts → ConfList ct (v :: vs) (t :: ts)

/-- `ρ ⊨ Γ` -/
def EnvConf (ct : ClassTable) (ρ : VEnv) (Γ : Env) : Prop :=
  ∀ x T, lookup x Γ = some T → ∃ v, lookup x ρ = some v ∧ Conf ct v T

def s_next : Str := ['_', '_', 'n', 'e', 'x', 't', '_', '_']

/-- What the theorems assume of the user program's own code (`World`): every constructor, method, property / class-variable
    read and `__next__` result conforms to the DECLARED type — each method's own typing obligation, seen from every class of
    the receiver's base chain (a well-typed override keeps the declared return type). -/
structure WorldConf (ct : ClassTable) (W : World) : Prop where
  /-- `None` is a keyword: no user class has that name (`T | None` is recognised by the class name) -/
  no_None : findClass ct s_None = none
  new_ok : ∀ c args v, (findClass ct c).isSome → W.new c args = .ok v → Conf ct v (.cls c .nil)
  call_ok : ∀ v c m args mem x, Conf ct v (.cls c .nil) → memberOf ct c m = some mem →
    (mem.kind = .method ∨ mem.kind = .classMethod) → W.call v m args = .ok x → Conf ct x mem.ty
  classAttr_ok : ∀ v c a mem x, Conf ct v (.cls c .nil) → memberOf ct c a = some mem →
    (mem.kind = .classVar ∨ mem.kind = .property) → W.classAttr v a = .ok x → Conf ct x mem.ty
  /-- an entry of the instance dict under the name of a class variable / property (assigned through `self.a = …` somewhere)
      conforms to the declared type as well -/
  shadow_ok : ∀ c0 ns vs c a mem x, Conf ct (.obj c0 ns vs) (.cls c .nil) → memberOf ct c a = some mem →
    (mem.kind = .classVar ∨ mem.kind = .property) → fieldGet ns vs a = some x → Conf ct x mem.ty
  nexts_ok : ∀ it c mem l, Conf ct it (.cls c .nil) → memberOf ct c s_next = some mem → mem.kind = .method →
    W.nexts it = .ok l → ∀ x ∈ l, Conf ct x mem.ty

def EnvNoUnknown (Γ : Env) : Prop := ∀ x T, lookup x Γ = some T → T.noUnknown = true

/-- the declared types of the user classes contain no `Unknown` -/
def CtNoUnknown (ct : ClassTable) : Prop := ∀ c a mem, memberOf ct c a = some mem → mem.ty.noUnknown = true

/-! ## CPython's result types -/

def isIntLike : Ty → Bool
  | .int | .bool => true
  | _ => false

def isNum : Ty → Bool
  | .int | .bool | .float => true
  | _ => false

def numResult (l r : Ty) : Ty := if isIntLike l && isIntLike r then .int else .float

/-- result type of a binary arithmetic/bitwise operator of CPython on operands of the given run-time types -/
def pyBinTy (op : BOp) (l r : Ty) : Option Ty :=
  match op with
  | .add =>
    if isNum l && isNum r then some (numResult l r)
    else (match l, r with
      | .str, .str => some .str
      | .list a, .list b => if a = b then some (.list a) else none
      | _, _ => none)
  | .sub | .mod => if isNum l && isNum r then some (numResult l r) else none
  | .div => if isNum l && isNum r then some .float else none
  | .mul =>
    if isNum l && isNum r then some (numResult l r)
    else (match l, r with
      | .str, x => if isIntLike x then some .str else none
      | .list a, x => if isIntLike x then some (.list a) else none
      | x, .str => if isIntLike x then some .str else none
      | x, .list a => if isIntLike x then some (.list a) else none
      | _, _ => none)
  | .band | .bor | .bxor =>
    if l = .bool && r = .bool then some .bool
    else if isIntLike l && isIntLike r then some .int else none
  | .shl | .shr => if isIntLike l && isIntLike r then some .int else none
  | _ => none

/-- result type of a unary operator of CPython -/
def pyFactorTy (op : UOp) (t : Ty) : Option Ty :=
  match op, t with
  | .inv, .float => none
  | _, .float => some .float
  | _, .int => some .int
  | _, .bool => some .int
  | _, _ => none

/-- result types of the pure stub methods as CPython computes them -/
def pyMethodTy (recv : Ty) (m : MName) (args : List Ty) : Option Ty :=
  match recv, m, args with
  | .str, .split_, [.str] => some (.list .str)
  | .str, .join_, [.list .str] => some .str
  | .str, .upper_, [] => some .str
  | .str, .lower_, [] => some .str
  | .str, .find_, [.str] => some .int
  | .str, .count_, [.str] => some .int
  | .str, .startswith_, [.str] => some .bool
  | .str, .endswith_, [.str] => some .bool
  | .str, .strip_, [.str] => some .str
  | .str, .lstrip_, [.str] => some .str
  | .str, .rstrip_, [.str] => some .str
  | .str, .replace_, [.str, .str] => some .str
  | .list t, .copy_, [] => some (.list t)
  | .list _, .index_, [_] => some .int
  | .dict k v, .copy_, [] => some (.dict k v)
  | .dict k _, .keys_, [] => some (tIter k)
  | .dict _ v, .values_, [] => some (tIter v)
  | .dict k v, .items_, [] => some (tItems k v)
  | .dict _ v, .get_, [_, d] => if d = v then some v else none
  | _, _, _ => none

/-- result types of the pure stub functions / constructors as CPython computes them -/
def pyFuncTy (f : FName) (args : List Ty) : Option Ty :=
  match f with
  | .len_ => (match args with
    | [.str] => some .int
    | [.list _] => some .int
    | [.dict _ _] => some .int
    | [.tuple _] => some .int
    | _ => none)
  | .abs_ => (match args with
    | [.int] => some .int
    | [.bool] => some .int
    | [.float] => some .float
    | _ => none)
  | .min_ | .max_ => (match args with
    | [a, b] => if a = b && (a = .int || a = .float || a = .str) then some a else none
    | _ => none)
  | .int_ => (match args with | [t] => if isNum t then some .int else none | _ => none)
  | .float_ => (match args with | [t] => if isNum t then some .float else none | _ => none)
  | .bool_ => (match args with | [_] => some .bool | _ => none)
  | .str_ => (match args with
    | [.str] => some .str
    | [.int] => some .str
    | [.bool] => some .str
    | [.none] => some .str
    | _ => none)
  | .list_ => (match args with
    | [.list t] => some (.list t)
    | [.dict k _] => some (.list k)
    | [.cls n (.cons t .nil)] => if n = s_Iterator then some (.list t) else none
    | _ => none)
  | .range_ => (match args with | [t] => if isIntLike t then some (tIter .int) else none | _ => none)
  | .reversed_ => (match args with | [.list t] => some (tIter t) | _ => none)
  | .enumerate_ => (match args with
    | [.list t] => some (tIter (.tuple (.cons .int (.cons t .nil))))
    | [.cls n (.cons t .nil)] => if n = s_Iterator then some (tIter (.tuple (.cons .int (.cons t .nil)))) else none
    | _ => none)
  | .other => none

/-! ## the scalar rows of the generated stub table -/

def scalarTys : List Ty := [.int, .float, .bool, .str]
def binOps : List BOp := [.add, .sub, .mul, .div, .mod, .bor, .bxor, .band, .shl, .shr]

def scalarOfName (c : Str) : Option Ty := scalarTys.find? (fun t => t.className = c)

/-- `(receiver type, operator, argument type, declared return type)` for every binary-operator method of a scalar stub
    class and every alternative of its (union) parameter annotation, `Self` resolved to the class -/
def dunderRows : List (Ty × BOp × Ty × Ty) :=
  Dunder.methods.flatMap fun m =>
    match scalarOfName m.cls with
    | none => []
    | some l =>
      binOps.flatMap fun op =>
        if lookup op.token Dunder.operators = some m.name then
          match paramAt0 m l l with
          | some (.union ps) => ps.toList.map fun p => (l, op, p, returnsOf m l (.cons p .nil))
          | some p => [(l, op, p, returnsOf m l (.cons p .nil))]
          | none => []
        else []

def s_neg : Str := ['_', '_', 'n', 'e', 'g', '_', '_']
def s_pos : Str := ['_', '_', 'p', 'o', 's', '_', '_']

/-- `(receiver type, unary operator, declared return type)` of the `__neg__` / `__pos__` rows -/
def unaryRows : List (Ty × UOp × Ty) :=
  Dunder.methods.flatMap fun m =>
    match scalarOfName m.cls with
    | none => []
    | some l =>
      (if m.name = s_neg then [(l, UOp.neg, returnsOf m l .nil)] else []) ++
      (if m.name = s_pos then [(l, UOp.pos, returnsOf m l .nil)] else [])

/-! ## the subsets -/

/-- inference from the fresh session state (the subsets below never touch the state) -/
def inferT (ct : ClassTable) (Γ : Env) (e : Expr) : Except Err Ty := (infer ct Γ e false).1
def inferListT (ct : ClassTable) (Γ : Env) (es : Exprs) : Except Err (List Ty) := (inferList ct Γ es false).1
def inferChainT (ct : ClassTable) (Γ : Env) (c : Chain) : Except Err (List (BOp × Ty)) := (inferChain ct Γ c false).1
def inferPairsT (ct : ClassTable) (Γ : Env) (ps : Pairs) : Except Err (List (Ty × Ty)) := (inferPairs ct Γ ps false).1

def tyOk (r : Except Err Ty) (p : Ty → Bool) : Bool :=
  match r with
  | .ok t => p t
  | .error _ => false

def factorOk (op : UOp) (t : Ty) : Bool := (pyFactorTy op t).isSome

/-- every step of `each_binary_operator` is accepted by the stub table with CPython's result type -/
def stepsOk (ct : ClassTable) : Ty → List (BOp × Ty) → Bool
  | _, [] => true
  | l, (op, r) :: rest =>
    match tryStep ct l op r with
    | some t => decide (pyBinTy op l r = some t) && stepsOk ct t rest
    | none => false

def indexShapeOk (u : Ty) (k : Expr) : Bool :=
  match u with
  | .list _ | .dict _ _ | .str => true
  | .tuple ts => (match k with | .int n => n < ts.length | _ => false)
  | _ => false

def indexOk (t : Ty) (k : Expr) : Bool := indexShapeOk (stripNullable t) k

def sliceShapeOk (u : Ty) (lo hi : Expr) : Bool :=
  match u with
  | .list _ | .str => true
  | .tuple _ => (literalBound lo).isSome && (literalBound hi).isSome
  | _ => false

def sliceOk (t : Ty) (lo hi : Expr) : Bool := sliceShapeOk (stripNullable t) lo hi

/-- the declared return type of a function member of a user class, as `on_func_call` answers it (no templates to resolve) -/
def userCallTy (ct : ClassTable) (tr : Ty) (m : Str) (ts : List Ty) : Option Ty :=
  match tr with
  | .cls c .nil =>
    (match memberOf ct c m with
     | some mem =>
       if (mem.kind = .method || mem.kind = .classMethod) && (findIn Dunder.methods c m).isNone then
         (match userMethod ct c m with
          | some row => if returnsOf row tr (Tys.ofList ts) = mem.ty then some mem.ty else none
          | none => none)
       else none
     | none => none)
  | _ => none

def callOk (ct : ClassTable) (tr : Ty) (m : Str) (ts : List Ty) : Bool :=
  stripNullable tr = tr &&
  match findMethod ct tr.className m with
  | some row =>
    decide (pyMethodTy tr (methodOf m) ts = some (returnsOf row tr (Tys.ofList ts))) ||
    decide (userCallTy ct tr m ts = some (returnsOf row tr (Tys.ofList ts)))
  | none => false

def fcallOk (ct : ClassTable) (f : Str) (ts : List Ty) : Bool :=
  match findFunc ct f with
  | some row =>
    decide (pyFuncTy (funcOf f) ts = some (returnsOfFunc row (Tys.ofList ts))) ||
    (funcOf f = .other && (findClass ct f).isSome && decide (returnsOfFunc row (Tys.ofList ts) = .cls f .nil))
  | none => false

/-- `r.a` on an instance of a user class: instance variable, class variable or property -/
def attrOk (ct : ClassTable) (tr : Ty) (a : Str) : Bool :=
  match stripNullable tr with
  | .cls c .nil =>
    (match memberOf ct c a with
     | some mem => mem.name = a && (mem.kind = .field || mem.kind = .classVar || mem.kind = .property)
     | none => false)
  | _ => false

/-- the item type CPython's iteration yields for a source of the given type -/
def pyIterTy (ct : ClassTable) : Ty → Option Ty
  | .list t => some t
  | .dict k _ => some k
  | .cls n (.cons t .nil) => if n = s_Iterator then some t else none
  | .cls n (.cons k (.cons v .nil)) => if n = s_ItemsView then some (tPair k v) else none
  | .cls c .nil =>
    -- a user class: `iter(obj)` is `obj.__iter__()`; the items are what `__next__` of THAT object returns (classic protocol:
    -- `__iter__` is declared to return the class itself), or the items of the builtin iterator it is declared to return
    (match memberOf ct c s_iter with
     | some mi =>
       if mi.kind ≠ .method then none
       else (match mi.ty with
         | .cls n (.cons t .nil) => if n = s_Iterator then some t else none
         | .cls c' .nil =>
           (match memberOf ct c' s_next with
            | some mn => if mn.kind = .method then some mn.ty else none
            | none => none)
         | _ => none)
     | none => none)
  | _ => none

def varsOk (vars : List Str) (elem : Ty) : Bool :=
  match vars with
  | [_] => true
  | [_, _] => (match elem with
    | .tuple (.cons _ (.cons _ .nil)) => true
    | .cls n (.cons _ (.cons _ .nil)) => n = s_Pair
    | _ => false)
  | _ => false

/-- the environment extension of a `for` clause, when source and targets are inside the subset -/
def compEnv (ct : ClassTable) (vars : List Str) (tsrc : Ty) : Option Env :=
  match iterates ct tsrc with
  | .ok elem => if pyIterTy ct tsrc = some elem && varsOk vars elem then some (bindVars vars elem) else none
  | .error _ => none

mutual
def wt (ct : ClassTable) (Γ : Env) : Expr → Bool
  | .int _ | .float _ | .str _ | .true_ | .false_ | .none_ | .empty_ => true
  | .var x => (match lookup x Γ with | some t => t ≠ noSuchAttr | none => false)
  | .factor op e => wt ct Γ e && tyOk (inferT ct Γ e) (factorOk op)
  | .not_ e => wt ct Γ e
  | .bin e rest =>
    wt ct Γ e && wtChain ct Γ rest &&
    (match inferT ct Γ e, inferChainT ct Γ rest with
     | .ok l, .ok ops => stepsOk ct l ops
     | _, _ => false)
  | .cmp e rest => wt ct Γ e && wtChain ct Γ rest
  | .and_ es => wtList ct Γ es && (match inferListT ct Γ es with | .ok ts => ts.all (· = .bool) | .error _ => false)
  | .or_ es => wtList ct Γ es && (match inferListT ct Γ es with | .ok ts => ts.all (· = .bool) | .error _ => false)
  | .tern a c b => wt ct Γ a && wt ct Γ c && wt ct Γ b
  | .list es =>
    wtList ct Γ es &&
    (match inferListT ct Γ es with
     | .ok (t :: ts) => ts.all (· = t) && t.className ≠ s_Unknown
     | _ => false)
  | .dict kvs =>
    wtPairs ct Γ kvs &&
    (match inferPairsT ct Γ kvs with
     | .ok (kv :: rest) => rest.all (· = kv) && kv.2.className ≠ s_Unknown
     | _ => false)
  | .tuple es => wtList ct Γ es
  | .index r k => wt ct Γ r && wt ct Γ k && tyOk (inferT ct Γ r) (fun t => indexOk t k)
  | .slice r lo hi => wt ct Γ r && wt ct Γ lo && wt ct Γ hi && tyOk (inferT ct Γ r) (fun t => sliceOk t lo hi)
  | .group e => wt ct Γ e
  | .attr r a => wt ct Γ r && tyOk (inferT ct Γ r) (fun t => attrOk ct t a)
  | .call r m args =>
    wt ct Γ r && wtList ct Γ args &&
    (match inferT ct Γ r, inferListT ct Γ args with
     | .ok tr, .ok ts => callOk ct tr m ts
     | _, _ => false)
  | .fcall f args =>
    (lookup f Γ).isNone && wtList ct Γ args &&
    (match inferListT ct Γ args with
     | .ok ts => fcallOk ct f ts
     | .error _ => false)
  | .listComp proj vars src cond =>
    wt ct Γ src &&
    (match inferT ct Γ src with
     | .ok tsrc =>
       (match compEnv ct vars tsrc with
        | some bs => wt ct (bs ++ Γ) proj && wt ct (bs ++ Γ) cond
        | none => false)
     | .error _ => false)
  | .dictComp k v vars src cond =>
    wt ct Γ src &&
    (match inferT ct Γ src with
     | .ok tsrc =>
       (match compEnv ct vars tsrc with
        | some bs => wt ct (bs ++ Γ) k && wt ct (bs ++ Γ) v && wt ct (bs ++ Γ) cond
        | none => false)
     | .error _ => false)
def wtList (ct : ClassTable) (Γ : Env) : Exprs → Bool
  | .nil => true
  | .cons e es => wt ct Γ e && wtList ct Γ es
def wtChain (ct : ClassTable) (Γ : Env) : Chain → Bool
  | .nil => true
  | .cons _ e rest => wt ct Γ e && wtChain ct Γ rest
def wtPairs (ct : ClassTable) (Γ : Env) : Pairs → Bool
  | .nil => true
  | .cons k v rest => wt ct Γ k && wt ct Γ v && wtPairs ct Γ rest
end

/-- the property's subset -/
abbrev Core (ct : ClassTable) (Γ : Env) (e : Expr) : Prop := wt ct Γ e = true
/-- (historical name of the agreement subset; it coincides with `Core` since the repairs) -/
abbrev WellTyped (ct : ClassTable) (Γ : Env) (e : Expr) : Prop := Core ct Γ e

/-- a value whose run-time type is determined: no empty container, no mixed container inside -/
def DetV (v : Val) : Prop := (typeOf v).plain = true

end Tranp.Infer
