/-
  Tranp.Model.InferSpec — the statement-level vocabulary of property C03:

  * `Conf v T`       the run-time value `v` is denoted by the inferred type `T` (a `Union` denotes each of its members,
                     `T | None` therefore is an optional; an iterator type denotes the list of the items it yields);
  * `pyBinTy`, `pyMethodTy`, `pyFuncTy`   CPython's result types (reference typing of operators and of the stub
                     methods/functions that have a pure counterpart in `Tranp.Model.PyEval`);
  * `wt Γ e` (`Core Γ e`)  the subset of the expression core on which the theorems are stated — what the property's sentence
        covers: Python-typable operator applications accepted by the stub table with CPython's result type, unary operators on
        int/float/bool, boolean operands of and/or, non-empty list/dict literals whose element types survive `on_list`'s
        per-class selection (homogeneous literals; one type per class), subscripts of list/dict/str/tuple (tuple: literal index
        in range), slices of list/str and — with literal or omitted bounds — of tuples, whitelisted pure stub calls whose inferred
        result equals CPython's, comprehensions over list/dict/iterator sources.
        Since the repairs 9370d50, 4f4a122, c5f6dc1 there is no separate "agreement subset": `WellTyped = Core`.
-/
import Tranp.Model.PyEval

namespace Tranp.Infer
open Tranp Tranp.Generated

def s_ItemsView : Str := ['I', 't', 'e', 'm', 's', 'V', 'i', 'e', 'w']
def s_Pair : Str := ['P', 'a', 'i', 'r']

def tIter (t : Ty) : Ty := .cls s_Iterator (.cons t .nil)
def tItems (k v : Ty) : Ty := .cls s_ItemsView (.cons k (.cons v .nil))
def tPair (k v : Ty) : Ty := .cls s_Pair (.cons k (.cons v .nil))

mutual
/-- the inferred type `T` denotes the value `v` -/
inductive Conf : Val → Ty → Prop
  | int (n : Int) : Conf (.int n) .int
  | float (x : Float) : Conf (.float x) .float
  | bool (b : Bool) : Conf (.bool b) .bool
  | str (s : Str) : Conf (.str s) .str
  | none : Conf .none .none
  | list {vs : List Val} {t : Ty} : ConfAll vs t → Conf (.list vs) (.list t)
  | dict {ks vs : List Val} {k v : Ty} : ConfAll ks k → ConfAll vs v → Conf (.dict ks vs) (.dict k v)
  | tuple {vs : List Val} {ts : Tys} : ConfZip vs ts → Conf (.tuple vs) (.tuple ts)
  | union {v : Val} {t : Ty} {ts : Tys} : Tys.mem t ts = true → Conf v t → Conf v (.union ts)
  | iter {vs : List Val} {t : Ty} : ConfAll vs t → Conf (.list vs) (tIter t)
  | items {vs : List Val} {k v : Ty} : ConfAll vs (tPair k v) → Conf (.list vs) (tItems k v)
  | pair {a b : Val} {k v : Ty} : Conf a k → Conf b v → Conf (.tuple [a, b]) (tPair k v)
inductive ConfAll : List Val → Ty → Prop
  | nil {t : Ty} : ConfAll [] t
  | cons {v : Val} {vs : List Val} {t : Ty} : Conf v t → ConfAll vs t → ConfAll (v :: vs) t
inductive ConfZip : List Val → Tys → Prop
  | nil : ConfZip [] .nil
  | cons {v : Val} {vs : List Val} {t : Ty} {ts : Tys} : Conf v t → ConfZip vs ts → ConfZip (v :: vs) (.cons t ts)
end

/-- pointwise conformance of argument values to argument types -/
inductive ConfList : List Val → List Ty → Prop
  | nil : ConfList [] []
  | cons {v : Val} {vs : List Val} {t : Ty} {ts : List Ty} : Conf v t → ConfList vs ts → ConfList (v :: vs) (t :: ts)

/-- `ρ ⊨ Γ` -/
def EnvConf (ρ : VEnv) (Γ : Env) : Prop :=
  ∀ x T, lookup x Γ = some T → ∃ v, lookup x ρ = some v ∧ Conf v T

def EnvNoUnknown (Γ : Env) : Prop := ∀ x T, lookup x Γ = some T → T.noUnknown = true

/-! ## CPython's result types -/

def isIntLike : Ty → Bool
  | .int | .bool => true
  | _ => false

def isNum : Ty → Bool
  | .int | .bool | .float => true
  | _ => false

def numResult (l r : Ty) : Ty := if isIntLike l && isIntLike r then .int else .float

/-- result type of a binary arithmetic/bitwise operator of CPython on operands of the given run-time types -/
def pyBinTy (op : BOp) (l r : Ty) : Option Ty :=
  match op with
  | .add =>
    if isNum l && isNum r then some (numResult l r)
    else (match l, r with
      | .str, .str => some .str
      | .list a, .list b => if a = b then some (.list a) else none
      | _, _ => none)
  | .sub | .mod => if isNum l && isNum r then some (numResult l r) else none
  | .div => if isNum l && isNum r then some .float else none
  | .mul =>
    if isNum l && isNum r then some (numResult l r)
    else (match l, r with
      | .str, x => if isIntLike x then some .str else none
      | .list a, x => if isIntLike x then some (.list a) else none
      | x, .str => if isIntLike x then some .str else none
      | x, .list a => if isIntLike x then some (.list a) else none
      | _, _ => none)
  | .band | .bor | .bxor =>
    if l = .bool && r = .bool then some .bool
    else if isIntLike l && isIntLike r then some .int else none
  | .shl | .shr => if isIntLike l && isIntLike r then some .int else none
  | _ => none

/-- result type of a unary operator of CPython -/
def pyFactorTy (op : UOp) (t : Ty) : Option Ty :=
  match op, t with
  | .inv, .float => none
  | _, .float => some .float
  | _, .int => some .int
  | _, .bool => some .int
  | _, _ => none

/-- result types of the pure stub methods as CPython computes them -/
def pyMethodTy (recv : Ty) (m : MName) (args : List Ty) : Option Ty :=
  match recv, m, args with
  | .str, .split_, [.str] => some (.list .str)
  | .str, .join_, [.list .str] => some .str
  | .str, .upper_, [] => some .str
  | .str, .lower_, [] => some .str
  | .str, .find_, [.str] => some .int
  | .str, .count_, [.str] => some .int
  | .str, .startswith_, [.str] => some .bool
  | .str, .endswith_, [.str] => some .bool
  | .str, .strip_, [.str] => some .str
  | .str, .lstrip_, [.str] => some .str
  | .str, .rstrip_, [.str] => some .str
  | .str, .replace_, [.str, .str] => some .str
  | .list t, .copy_, [] => some (.list t)
  | .list _, .index_, [_] => some .int
  | .dict k v, .copy_, [] => some (.dict k v)
  | .dict k _, .keys_, [] => some (tIter k)
  | .dict _ v, .values_, [] => some (tIter v)
  | .dict k v, .items_, [] => some (tItems k v)
  | .dict _ v, .get_, [_, d] => if d = v then some v else none
  | _, _, _ => none

/-- result types of the pure stub functions / constructors as CPython computes them -/
def pyFuncTy (f : FName) (args : List Ty) : Option Ty :=
  match f with
  | .len_ => (match args with
    | [.str] => some .int
    | [.list _] => some .int
    | [.dict _ _] => some .int
    | [.tuple _] => some .int
    | _ => none)
  | .abs_ => (match args with
    | [.int] => some .int
    | [.bool] => some .int
    | [.float] => some .float
    | _ => none)
  | .min_ | .max_ => (match args with
    | [a, b] => if a = b && (a = .int || a = .float || a = .str) then some a else none
    | _ => none)
  | .int_ => (match args with | [t] => if isNum t then some .int else none | _ => none)
  | .float_ => (match args with | [t] => if isNum t then some .float else none | _ => none)
  | .bool_ => (match args with | [_] => some .bool | _ => none)
  | .str_ => (match args with
    | [.str] => some .str
    | [.int] => some .str
    | [.bool] => some .str
    | [.none] => some .str
    | _ => none)
  | .list_ => (match args with
    | [.list t] => some (.list t)
    | [.dict k _] => some (.list k)
    | [.cls n (.cons t .nil)] => if n = s_Iterator then some (.list t) else none
    | _ => none)
  | .range_ => (match args with | [t] => if isIntLike t then some (tIter .int) else none | _ => none)
  | .reversed_ => (match args with | [.list t] => some (tIter t) | _ => none)
  | .enumerate_ => (match args with
    | [.list t] => some (tIter (.tuple (.cons .int (.cons t .nil))))
    | [.cls n (.cons t .nil)] => if n = s_Iterator then some (tIter (.tuple (.cons .int (.cons t .nil)))) else none
    | _ => none)
  | .other => none

/-! ## the scalar rows of the generated stub table -/

def scalarTys : List Ty := [.int, .float, .bool, .str]
def binOps : List BOp := [.add, .sub, .mul, .div, .mod, .bor, .bxor, .band, .shl, .shr]

def scalarOfName (c : Str) : Option Ty := scalarTys.find? (fun t => t.className = c)

/-- `(receiver type, operator, argument type, declared return type)` for every binary-operator method of a scalar stub
    class and every alternative of its (union) parameter annotation, `Self` resolved to the class -/
def dunderRows : List (Ty × BOp × Ty × Ty) :=
  Dunder.methods.flatMap fun m =>
    match scalarOfName m.cls with
    | none => []
    | some l =>
      binOps.flatMap fun op =>
        if lookup op.token Dunder.operators = some m.name then
          match paramAt0 m l l with
          | some (.union ps) => ps.toList.map fun p => (l, op, p, returnsOf m l (.cons p .nil))
          | some p => [(l, op, p, returnsOf m l (.cons p .nil))]
          | none => []
        else []

def s_neg : Str := ['_', '_', 'n', 'e', 'g', '_', '_']
def s_pos : Str := ['_', '_', 'p', 'o', 's', '_', '_']

/-- `(receiver type, unary operator, declared return type)` of the `__neg__` / `__pos__` rows -/
def unaryRows : List (Ty × UOp × Ty) :=
  Dunder.methods.flatMap fun m =>
    match scalarOfName m.cls with
    | none => []
    | some l =>
      (if m.name = s_neg then [(l, UOp.neg, returnsOf m l .nil)] else []) ++
      (if m.name = s_pos then [(l, UOp.pos, returnsOf m l .nil)] else [])

/-! ## the subsets -/

/-- inference from the fresh session state (the subsets below never touch the state) -/
def inferT (Γ : Env) (e : Expr) : Except Err Ty := (infer Γ e false).1
def inferListT (Γ : Env) (es : Exprs) : Except Err (List Ty) := (inferList Γ es false).1
def inferChainT (Γ : Env) (c : Chain) : Except Err (List (BOp × Ty)) := (inferChain Γ c false).1
def inferPairsT (Γ : Env) (ps : Pairs) : Except Err (List (Ty × Ty)) := (inferPairs Γ ps false).1

def tyOk (r : Except Err Ty) (p : Ty → Bool) : Bool :=
  match r with
  | .ok t => p t
  | .error _ => false

def factorOk (op : UOp) (t : Ty) : Bool := (pyFactorTy op t).isSome

/-- every step of `each_binary_operator` is accepted by the stub table with CPython's result type -/
def stepsOk : Ty → List (BOp × Ty) → Bool
  | _, [] => true
  | l, (op, r) :: rest =>
    match tryStep l op r with
    | some t => decide (pyBinTy op l r = some t) && stepsOk t rest
    | none => false

def indexShapeOk (u : Ty) (k : Expr) : Bool :=
  match u with
  | .list _ | .dict _ _ | .str => true
  | .tuple ts => (match k with | .int n => n < ts.length | _ => false)
  | _ => false

def indexOk (t : Ty) (k : Expr) : Bool := indexShapeOk (stripNullable t) k

def sliceShapeOk (u : Ty) (lo hi : Expr) : Bool :=
  match u with
  | .list _ | .str => true
  | .tuple _ => (literalBound lo).isSome && (literalBound hi).isSome
  | _ => false

def sliceOk (t : Ty) (lo hi : Expr) : Bool := sliceShapeOk (stripNullable t) lo hi

def callOk (tr : Ty) (m : Str) (ts : List Ty) : Bool :=
  stripNullable tr = tr &&
  match findMethod tr.className m with
  | some row => pyMethodTy tr (methodOf m) ts = some (returnsOf row tr (Tys.ofList ts))
  | none => false

def fcallOk (f : Str) (ts : List Ty) : Bool :=
  match findFunc f with
  | some row => pyFuncTy (funcOf f) ts = some (returnsOfFunc row (Tys.ofList ts))
  | none => false

/-- the item type CPython's iteration yields for a source of the given type -/
def pyIterTy : Ty → Option Ty
  | .list t => some t
  | .dict k _ => some k
  | .cls n (.cons t .nil) => if n = s_Iterator then some t else none
  | .cls n (.cons k (.cons v .nil)) => if n = s_ItemsView then some (tPair k v) else none
  | _ => none

def varsOk (vars : List Str) (elem : Ty) : Bool :=
  match vars with
  | [_] => true
  | [_, _] => (match elem with
    | .tuple (.cons _ (.cons _ .nil)) => true
    | .cls n (.cons _ (.cons _ .nil)) => n = s_Pair
    | _ => false)
  | _ => false

/-- the environment extension of a `for` clause, when source and targets are inside the subset -/
def compEnv (vars : List Str) (tsrc : Ty) : Option Env :=
  match iterates tsrc with
  | .ok elem => if pyIterTy tsrc = some elem && varsOk vars elem then some (bindVars vars elem) else none
  | .error _ => none

mutual
def wt (Γ : Env) : Expr → Bool
  | .int _ | .float _ | .str _ | .true_ | .false_ | .none_ | .empty_ => true
  | .var x => (match lookup x Γ with | some t => t ≠ noSuchAttr | none => false)
  | .factor op e => wt Γ e && tyOk (inferT Γ e) (factorOk op)
  | .not_ e => wt Γ e
  | .bin e rest =>
    wt Γ e && wtChain Γ rest &&
    (match inferT Γ e, inferChainT Γ rest with
     | .ok l, .ok ops => stepsOk l ops
     | _, _ => false)
  | .cmp e rest => wt Γ e && wtChain Γ rest
  | .and_ es => wtList Γ es && (match inferListT Γ es with | .ok ts => ts.all (· = .bool) | .error _ => false)
  | .or_ es => wtList Γ es && (match inferListT Γ es with | .ok ts => ts.all (· = .bool) | .error _ => false)
  | .tern a c b => wt Γ a && wt Γ c && wt Γ b
  | .list es =>
    wtList Γ es &&
    (match inferListT Γ es with
     | .ok (t :: ts) => ts.all (· = t) && t.className ≠ s_Unknown
     | _ => false)
  | .dict kvs =>
    wtPairs Γ kvs &&
    (match inferPairsT Γ kvs with
     | .ok (kv :: rest) => rest.all (· = kv) && kv.2.className ≠ s_Unknown
     | _ => false)
  | .tuple es => wtList Γ es
  | .index r k => wt Γ r && wt Γ k && tyOk (inferT Γ r) (fun t => indexOk t k)
  | .slice r lo hi => wt Γ r && wt Γ lo && wt Γ hi && tyOk (inferT Γ r) (fun t => sliceOk t lo hi)
  | .group e => wt Γ e
  | .call r m args =>
    wt Γ r && wtList Γ args &&
    (match inferT Γ r, inferListT Γ args with
     | .ok tr, .ok ts => callOk tr m ts
     | _, _ => false)
  | .fcall f args =>
    (lookup f Γ).isNone && wtList Γ args &&
    (match inferListT Γ args with
     | .ok ts => fcallOk f ts
     | .error _ => false)
  | .listComp proj vars src cond =>
    wt Γ src &&
    (match inferT Γ src with
     | .ok tsrc =>
       (match compEnv vars tsrc with
        | some bs => wt (bs ++ Γ) proj && wt (bs ++ Γ) cond
        | none => false)
     | .error _ => false)
  | .dictComp k v vars src cond =>
    wt Γ src &&
    (match inferT Γ src with
     | .ok tsrc =>
       (match compEnv vars tsrc with
        | some bs => wt (bs ++ Γ) k && wt (bs ++ Γ) v && wt (bs ++ Γ) cond
        | none => false)
     | .error _ => false)
def wtList (Γ : Env) : Exprs → Bool
  | .nil => true
  | .cons e es => wt Γ e && wtList Γ es
def wtChain (Γ : Env) : Chain → Bool
  | .nil => true
  | .cons _ e rest => wt Γ e && wtChain Γ rest
def wtPairs (Γ : Env) : Pairs → Bool
  | .nil => true
  | .cons k v rest => wt Γ k && wt Γ v && wtPairs Γ rest
end

/-- the property's subset -/
abbrev Core (Γ : Env) (e : Expr) : Prop := wt Γ e = true
/-- (historical name of the agreement subset; it coincides with `Core` since the repairs) -/
abbrev WellTyped (Γ : Env) (e : Expr) : Prop := Core Γ e

/-- a value whose run-time type is determined: no empty container, no mixed container inside -/
def DetV (v : Val) : Prop := (typeOf v).plain = true

end Tranp.Infer
