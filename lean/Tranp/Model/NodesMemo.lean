/-
  Tranp.Model.NodesMemo — the query memo of `Nodes` (property C10).

  Modelled code:
    rogw/tranp/cache/memo2.py            Memoize.get / Memo.get
    rogw/tranp/syntax/node/query.py      `return self.__memo.get(f'<key>', factory)` of parent / ancestor / children / expand / values
                                         (the keys themselves are GENERATED: Tranp/Generated/NodesMemo.lean, `memoKey`)

  `Memoize.get(key, factory)`: `if key not in self._memos: self._memos[key] = Memo(factory)`, then `Memo.get()` runs the
  STORED factory unless a result is there (`if self._result is None`). So the factory of the first call under a key is the
  one every later call under that key runs, and an exception leaves the slot without a result.
-/
import Tranp.Generated.NodesMemo

namespace Tranp.AstPath
open Tranp

/-- `Memo`: the stored factory (as the query it closes over) and its result, if any -/
abbrev MemoSlot := Query × Option Out

/-- the mutable state behind one `Nodes` instance: `NodeResolver.__insts` and `Memoize._memos` -/
structure NState where
  insts : List (Str × Str) := []
  memo : List (Str × MemoSlot) := []
deriving Inhabited

/-- one public query on a `Nodes` instance -/
def runQuery (w : World) (s : NState) (q : Query) : NState × Except Err Out :=
  match memoKey q with
  | none =>
    let r := evalQuery w s.insts q
    ({ s with insts := r.2 }, r.1)
  | some k =>
    -- `if key not in self._memos: self._memos[key] = Memo(factory)`
    let memo := if (dictGet? s.memo k).isSome then s.memo else s.memo ++ [(k, (q, none))]
    match dictGet? memo k with
    | none => (s, .error .keyError)   -- unreachable: the key was just inserted
    | some (_, some out) => ({ s with memo := memo }, .ok out)
    | some (q0, none) =>
      -- `self._result = self._factory()`: the stored factory
      let r := evalQuery w s.insts q0
      match r.1 with
      | .ok out => ({ insts := r.2, memo := dictInsert memo k (q0, some out) }, .ok out)
      | .error er => ({ insts := r.2, memo := memo }, .error er)

/-- a history of queries on one `Nodes` instance -/
def runQueriesM (w : World) : NState → List Query → NState
  | s, [] => s
  | s, q :: qs => runQueriesM w (runQuery w s q).1 qs

/-- side condition of memo transparency: the `ancestor` key `ancestor.{via}#{tag}` is unambiguous only when `via` is free
    of `#` (true of every lark rule / terminal name) -/
def Query.keySafe : Query → Prop
  | .ancestor via _ => '#' ∉ via
  | _ => True

instance (q : Query) : Decidable q.keySafe := by
  cases q <;> simp only [Query.keySafe] <;> exact inferInstance

end Tranp.AstPath
