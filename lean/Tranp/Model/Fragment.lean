/-
  Tranp.Model.Fragment — executable model of the regex post-processing of rendered C++ fragments that looks at identifiers
  (property C08).  String layer only: these functions exist on text.

  Modelled code (rog-works/tranp, rogw/tranp/implements/cpp/transpiler/py2cpp.py, class PatternParser):
    RelayPattern         r'(.+)(->|::|\.)\w+$'          break_relay          (fullmatch, groups 1 2)
    DictIteratorPattern  r'(.+)(->|\.)(\w+)\(\)$'       break_dict_iterator  (fullmatch, groups 1 2 3)
    DeclClassVarNamePattern r'\s+([\w\d_]+)\s+='        pluck_class_var_name (search, group 1, '' when absent)
    CVarRelaySubPattern  r'(->|::|\.)on\(\)$'           sub_cvar_relay       (sub with '')
    CVarToSubPattern     r'(->|::|\.)(raw|ref|addr|weak|shared|const)\(\)$'   sub_cvar_to   (sub with '')
  The other PatternParser functions (`pluck_func_call_arguments`, `break_indexer`, `pluck_cvar_new`) are `BlockParser`
  calls (property C18); `break_list_sort_key` is covered by the search only.

  Regex facts used: `.` does not match `\n`; `\w` is modelled for ASCII (`[A-Za-z0-9_]`; the streams generate ASCII only);
  `\s` is modelled as blank, tab, newline, CR, VT, FF; `$` (no MULTILINE) matches at the end and before a final `\n`.
  All suffix-anchored patterns are evaluated on the reversed string.
-/
import Tranp.Str

namespace Tranp.Fragment
open Tranp

def isWord (c : Char) : Bool := c.isAlphanum || c = '_'

def isSpace (c : Char) : Bool := c = ' ' || c = '\t' || c = '\n' || c = '\r' || c = '\x0b' || c = '\x0c'

/-- the relay operators of `RelayPattern`, reversed spelling first (`->` is `>` `-` on the reversed string) -/
inductive Op where
  | arrow | scope | dot
deriving DecidableEq, Repr

def Op.text : Op → Str
  | .arrow => ['-', '>']
  | .scope => [':', ':']
  | .dot => ['.']

/-- strip one operator from the front of a REVERSED string -/
def stripOpRev (allowScope : Bool) : Str → Option (Op × Str)
  | '>' :: '-' :: p => some (.arrow, p)
  | ':' :: ':' :: p => if allowScope then some (.scope, p) else none
  | '.' :: p => some (.dot, p)
  | _ => none

/-- `RelayPattern.fullmatch(relay).group(1, 2)`; `none` = no match (the Python then fails on `None.group`). -/
def breakRelay (s : Str) : Option (Str × Str) :=
  let r := s.reverse
  let w := r.takeWhile isWord
  let rest := r.dropWhile isWord
  if w.isEmpty then none
  else match stripOpRev true rest with
    | none => none
    | some (op, p) => if p.isEmpty || p.contains '\n' then none else some (p.reverse, op.text)

/-- `DictIteratorPattern.fullmatch(func_call).group(1, 2, 3)`. -/
def breakDictIterator (s : Str) : Option (Str × Str × Str) :=
  match s.reverse with
  | ')' :: '(' :: r =>
    let w := r.takeWhile isWord
    let rest := r.dropWhile isWord
    if w.isEmpty then none
    else match stripOpRev false rest with
      | none => none
      | some (op, p) => if p.isEmpty || p.contains '\n' then none else some (p.reverse, op.text, w.reverse)
  | _ => none

/-- remove `<op><word>()` at the end (or before a final newline) when `<word>` is one of `words`; the regex alternation tries
    the words in order but they are compared as whole tokens because an operator must precede -/
def subCallSuffixAt (words : List Str) (rev : Str) : Option Str :=
  match rev with
  | ')' :: '(' :: r =>
    let w := (r.takeWhile isWord).reverse
    let rest := r.dropWhile isWord
    -- the pattern's word must be a SUFFIX of the maximal word run `w` … and the operator must come right before it:
    -- since operators are not word characters, that forces the word to be the whole run
    if words.contains w then (stripOpRev true rest).map (fun x => x.2) else none
  | _ => none

/-- `re.sub(rf'(->|::|\.)({words})\(\)$', '', s)` -/
def subCallSuffix (words : List Str) (s : Str) : Str :=
  let r := s.reverse
  -- `$` first matches before a final newline (leftmost match), then at the very end
  match r with
  | '\n' :: r' =>
    match subCallSuffixAt words r' with
    | some p => (('\n' :: p)).reverse
    | none => (match subCallSuffixAt words r with | some p => p.reverse | none => s)
  | _ => match subCallSuffixAt words r with
    | some p => p.reverse
    | none => s

def onWord : List Str := [['o','n']]
def castWords : List Str := [['r','a','w'], ['r','e','f'], ['a','d','d','r'], ['w','e','a','k'], ['s','h','a','r','e','d'], ['c','o','n','s','t']]

/-- `PatternParser.sub_cvar_relay` -/
def subCvarRelay (s : Str) : Str := subCallSuffix onWord s
/-- `PatternParser.sub_cvar_to` -/
def subCvarTo (s : Str) : Str := subCallSuffix castWords s

/-- one attempt of `\s+([\w\d_]+)\s+=` at a position where the string starts with white space -/
def classVarAt (s : Str) : Option Str :=
  let a := s.dropWhile isSpace
  let w := a.takeWhile isWord
  let b := a.dropWhile isWord
  let c := b.dropWhile isSpace
  if w.isEmpty then none
  else if b.length = c.length then none        -- `\s+` needs at least one white space after the word
  else match c with
    | '=' :: _ => some w
    | _ => none

/-- `DeclClassVarNamePattern.search(decl)`: leftmost position at which the pattern matches; `''` when none. -/
def pluckClassVarName : Str → Str
  | [] => []
  | c :: cs =>
    if isSpace c then
      match classVarAt (c :: cs) with
      | some w => w
      | none => pluckClassVarName cs
    else pluckClassVarName cs

/-! ### `Py2Cpp.is_initializer_call` (py2cpp.py:692-697, added by dbbf835) -/

/-- the scan of `BlockParser.break_last_block(text, '()')` (view/helper/block.py:315-343): position of the `(` that opens the
    LAST top-level block, `none` when there is no complete top-level block (`ranges[-1]` raises IndexError). -/
def lastBlockOpen : Str → Nat → Nat → Nat → Option Nat → Option Nat
  | [], _, _, _, last => last
  | c :: cs, index, begin, stack, last =>
    if c = '(' ∧ stack = 0 then lastBlockOpen cs (index + 1) index 1 last
    else if c = '(' then lastBlockOpen cs (index + 1) begin (stack + 1) last
    else if c = ')' ∧ stack = 1 then lastBlockOpen cs (index + 1) begin 0 (some begin)
    else if c = ')' ∧ stack > 1 then lastBlockOpen cs (index + 1) begin (stack - 1) last
    else lastBlockOpen cs (index + 1) begin stack last

/-- `BlockParser.break_last_block(value, '()')[0]`: the text before the last top-level `(...)` block -/
def lastBlockPrefix (value : Str) : Option Str := (lastBlockOpen value 0 0 0 none).map (fun i => value.take i)

/-- `is_initializer_call(value, var_type)`; `none` = IndexError of `break_last_block`. -/
def isInitializerCall (value varType : Str) : Option Bool :=
  if !Str.startsWith value (varType ++ ['(']) || !Str.endsWith value [')'] then some false
  else (lastBlockPrefix value).map (fun p => decide (p = varType))

/-- REGRESSION (seeded mutation): the prefix test without its `(` and "no other call before the trailing argument block". -/
def isInitializerCallBroken (value varType : Str) : Option Bool :=
  if !Str.startsWith value varType || !Str.endsWith value [')'] then some false
  else (lastBlockPrefix value).map (fun p => !p.contains '(')

/-- a non-empty run of word characters (an identifier token as far as these patterns are concerned) -/
def Word (w : Str) : Prop := w ≠ [] ∧ ∀ c ∈ w, isWord c = true

instance (w : Str) : Decidable (Word w) := by unfold Word; infer_instance

end Tranp.Fragment
