/-
  Tranp.Model.CacheShape — table-driven readings of the code shapes that `translate/gen_lark_cache.py` extracts from the source
  on every run (Generated/LarkCache.lean). Each interpreter below takes the *generated* table (attribute names, record keys,
  tuple orders, guard disjuncts, shift offsets) and evaluates it the way Python evaluates the corresponding statements;
  Props/C15.lean and Props/C16.lean prove that, instantiated with the generated tables, they coincide with the hand-written
  model functions (`sourceMap`, `smTuple`, the record of `dumps`, `restoredMeta`, the guard and shift of `buildQuotation`) for
  every input. An edit of the source that changes a shape changes the table and these theorems stop checking.
-/
import Tranp.Str
import Tranp.Model.LarkEntry
import Tranp.Model.Quotation
import Tranp.Generated.LarkCache

namespace Tranp.Shape
open Tranp Tranp.Lark Tranp.Quote

def sLine : Str := ['l', 'i', 'n', 'e']
def sColumn : Str := ['c', 'o', 'l', 'u', 'm', 'n']
def sEndLine : Str := ['e', 'n', 'd', '_', 'l', 'i', 'n', 'e']
def sEndColumn : Str := ['e', 'n', 'd', '_', 'c', 'o', 'l', 'u', 'm', 'n']

/-- `getattr(meta, name)` for the position attributes (`AttributeError` when never assigned or unknown to the model) -/
def metaAttr (m : Meta) (name : Str) : Except Err Pos :=
  if name = sLine then m.line.get
  else if name = sColumn then m.column.get
  else if name = sEndLine then m.endLine.get
  else if name = sEndColumn then m.endColumn.get
  else .error .attributeError

/-- `getattr(token, name)` for the position attributes -/
def tokAttr (p : TokPos) (name : Str) : Except Err Pos :=
  if name = sLine then .ok p.line
  else if name = sColumn then .ok p.column
  else if name = sEndLine then .ok p.endLine
  else if name = sEndColumn then .ok p.endColumn
  else .error .attributeError

/-- `{'begin': (t[a], t[b]), 'end': (t[c], t[d])}` -/
def foldSpan (t : List Pos) (fold : List Nat) : Except Err SM :=
  match fold with
  | [a, b, c, d] =>
    match t[a]?, t[b]?, t[c]?, t[d]? with
    | some w, some x, some y, some z => .ok ⟨w, x, y, z⟩
    | _, _, _, _ => .error .indexError
  | _ => .error .outsideModel

/-- `a and b and …` over attribute truth tests -/
def allTruthy (p : TokPos) : List Str → Except Err Bool
  | [] => .ok true
  | n :: ns => do
    let v ← tokAttr p n
    if truthy v then allTruthy p ns else pure false

/-- `EntryOfLark.source_map` read from the tables: which attributes, in which order, folded how -/
def sourceMapBy (treeFields tokenFields tokenTruthy : List Str) (treeFold tokenFold : List Nat) : LarkEntry → Except Err SM
  | .tree _ _ (some m) =>
    if !m.empty then do
      let t ← treeFields.mapM (metaAttr m)
      foldSpan t treeFold
    else pure SM.zero
  | .tree _ _ Option.none => pure SM.zero
  | .token _ _ p => do
    let ok ← allTruthy p tokenTruthy
    if ok then do
      let t ← tokenFields.mapM (tokAttr p)
      foldSpan t tokenFold
    else pure SM.zero
  | .empty => pure SM.zero

/-- `proxy.source_map['begin'|'end'][i]` -/
def spanField (sm : SM) (isBegin : Bool) (i : Nat) : Except Err Pos :=
  match isBegin, i with
  | true, 0 => .ok sm.bl
  | true, 1 => .ok sm.bc
  | false, 0 => .ok sm.el
  | false, 1 => .ok sm.ec
  | _, _ => .error .indexError

/-- the stored span tuple of `__dumps`, read from the table -/
def smTupleBy (order : List (Bool × Nat)) (sm : SM) : Except Err PyVal := do
  let ps ← order.mapM fun o => spanField sm o.1 o.2
  pure (.tuple (ps.map posVal))

def eName : Str := ['p', 'r', 'o', 'x', 'y', '.', 'n', 'a', 'm', 'e']
def eValue : Str := ['p', 'r', 'o', 'x', 'y', '.', 'v', 'a', 'l', 'u', 'e']
def eChildren : Str := ['c', 'h', 'i', 'l', 'd', 'r', 'e', 'n']
def eSourceMap : Str := ['s', 'o', 'u', 'r', 'c', 'e', '_', 'm', 'a', 'p']

/-- a record literal `{'k': <expr>, …}` of `__dumps`, read from the table; the expressions are the four the model knows -/
def recordBy (rec : List (Str × Str)) (name value : Str) (children : List PyVal) (smt : PyVal) : Except Err PyVal := do
  let kvs ← rec.mapM fun kv =>
    if kv.2 = eName then pure (kv.1, PyVal.str name)
    else if kv.2 = eValue then pure (kv.1, PyVal.str value)
    else if kv.2 = eChildren then pure (kv.1, PyVal.list children)
    else if kv.2 = eSourceMap then pure (kv.1, smt)
    else Except.error Err.outsideModel
  pure (.dict kvs)

/-- one assignment `obj.<attr> = stored[i]` on a Meta -/
def setMeta (m : Meta) (attr : Str) (v : Pos) : Except Err Meta :=
  if attr = sLine then .ok { m with line := .val v }
  else if attr = sColumn then .ok { m with column := .val v }
  else if attr = sEndLine then .ok { m with endLine := .val v }
  else if attr = sEndColumn then .ok { m with endColumn := .val v }
  else .error .outsideModel

/-- `meta = lark.tree.Meta()` followed by the assignments of `__loads`, read from the tables -/
def restoredMetaBy (assign : List (Str × Nat)) (consts : List (Str × Str)) (stored : List Pos) : Except Err Meta := do
  let m0 : Meta := ⟨true, .absent, .absent, .absent, .absent⟩
  let m1 ← assign.foldlM (fun m a => match stored[a.2]? with
    | some v => setMeta m a.1 v
    | Option.none => .error .indexError) m0
  consts.foldlM (fun m c =>
    if c.1 = ['e', 'm', 'p', 't', 'y'] then
      if c.2 = ['F', 'a', 'l', 's', 'e'] then pure { m with empty := false }
      else if c.2 = ['T', 'r', 'u', 'e'] then pure { m with empty := true }
      else .error .outsideModel
    else .error .outsideModel) m1

def setTok (p : TokPos) (attr : Str) (v : Pos) : Except Err TokPos :=
  if attr = sLine then .ok { p with line := v }
  else if attr = sColumn then .ok { p with column := v }
  else if attr = sEndLine then .ok { p with endLine := v }
  else if attr = sEndColumn then .ok { p with endColumn := v }
  else .error .outsideModel

/-- `token = lark.Token(name, value)` followed by the assignments of `__loads` -/
def restoredTokBy (assign : List (Str × Nat)) (stored : List Pos) : Except Err TokPos :=
  assign.foldlM (fun p a => match stored[a.2]? with
    | some v => setTok p a.1 v
    | Option.none => .error .indexError) ⟨Option.none, Option.none, Option.none, Option.none⟩

/-! ## ErrorRender.__build_quotation -/

/-- `x <op> n` on a position (`None <op> n` raises TypeError) -/
def cmpPos (op : Str) (x : Pos) (n : Int) : Except Err Bool :=
  match x with
  | Option.none => .error .typeError
  | some v =>
    if op = ['<'] then .ok (decide (v < n))
    else if op = ['<', '='] then .ok (decide (v ≤ n))
    else if op = ['>'] then .ok (decide (v > n))
    else if op = ['>', '='] then .ok (decide (v ≥ n))
    else if op = ['=', '='] then .ok (decide (v = n))
    else if op = ['!', '='] then .ok (decide (v ≠ n))
    else .error .outsideModel

/-- `d1 or d2 or …` with Python's short circuit, each disjunct `node.source_map[begin|end][i] <op> n` -/
def noPositionBy (sm : SM) : List (Bool × Nat × Str × Int) → Except Err Bool
  | [] => .ok false
  | (isBegin, i, op, n) :: rest => do
    let x ← spanField sm isBegin i
    let b ← cmpPos op x n
    if b then pure true else noPositionBy sm rest

/-- the tuple handed to `Quotation`: element k = `node.source_map[begin|end][i] + d` (`None + d` raises TypeError) -/
def shiftBy (fields : List (Bool × Nat × Int)) (sm : SM) : Except Err Span := do
  let vs ← fields.mapM fun f => do
    let x ← spanField sm f.1 f.2.1
    match x with
    | some v => pure (v + f.2.2)
    | Option.none => Except.error Err.typeError
  match vs with
  | [a, b, c, d] => pure ⟨a, b, c, d⟩
  | _ => .error .outsideModel

/-- `__build_quotation` read from the tables: the three steps in the order found in the source -/
def buildQuotationBy (order : List Str) (guard : List (Bool × Nat × Str × Int)) (fields : List (Bool × Nat × Int))
    (fileExists : Bool) (filepath content : Str) (sm : Except Err SM) : Except Err (List Str) :=
  if order = [['e', 'x', 'i', 's', 't', 's'], ['g', 'u', 'a', 'r', 'd'], ['s', 'h', 'i', 'f', 't']] then
    if !fileExists then .ok []
    else do
      let m ← sm
      let np ← noPositionBy m guard
      if np then pure []
      else do
        let s ← shiftBy fields m
        quotationBuild filepath content s
  else .error .outsideModel

/-! ## cache identity -/

/-- `repr(s)` of a str free of quotes, backslashes and control characters -/
def pyReprPlain (s : Str) : Str := '\'' :: (s ++ ['\''])

/-- `str(d)` of a `dict[str, str]` whose keys and values are plain (cache.py:41 `Cached.identifier` hashes this text) -/
def pyStrDict : List (Str × Str) → Str
  | [] => ['{', '}']
  | kv :: rest => '{' :: (pyReprPlain kv.1 ++ ':' :: ' ' :: pyReprPlain kv.2 ++ go rest)
where
  go : List (Str × Str) → Str
    | [] => ['}']
    | kv :: rest => ',' :: ' ' :: (pyReprPlain kv.1 ++ ':' :: ' ' :: pyReprPlain kv.2 ++ go rest)

/-- the identity of a module's tree cache: the generated keys paired with the values of the expressions that fill them -/
def treeIdentityOf (values : List Str) : List (Str × Str) :=
  (Generated.LarkCache.treeIdentity.map (·.1)).zip values

/-- a string whose `repr` is the string between single quotes: printable ASCII without quote and backslash (mtime strings,
    grammar paths such as `data/grammar.lark`, rule and algorithm names) -/
def Plain (s : Str) : Prop := ∀ c ∈ s, c ≠ '\'' ∧ c ≠ '\\' ∧ 0x20 ≤ c.toNat ∧ c.toNat ≤ 0x7e

/-- `CachedProxy.gen_cache_path` (cache.py:108-121): `f'{cache_key}-{identifier(identity)}{extention}'` with
    `identifier(identity) = md5(str(identity)).hexdigest()` (cache.py:41); `md5` is a parameter — it is not modelled -/
def cacheFileName (md5 : Str → Str) (key ext : Str) (identity : List (Str × Str)) : Str :=
  key ++ '-' :: (md5 (pyStrDict identity) ++ ext)

/-- the only property of md5 the file-name statements need: no two *identity texts* of the tree cache (plain
    components under the generated keys) have the same digest -/
def Md5CollisionFreeOnIdentities (md5 : Str → Str) : Prop :=
  ∀ vs ws : List Str, vs.length = Generated.LarkCache.treeIdentity.length → ws.length = Generated.LarkCache.treeIdentity.length →
    (∀ v ∈ vs, Plain v) → (∀ w ∈ ws, Plain w) →
    md5 (pyStrDict (treeIdentityOf vs)) = md5 (pyStrDict (treeIdentityOf ws)) →
    pyStrDict (treeIdentityOf vs) = pyStrDict (treeIdentityOf ws)

end Tranp.Shape
