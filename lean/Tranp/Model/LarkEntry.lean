/-
  Tranp.Model.LarkEntry — executable model of the lark side of the syntax tree and of its cache encoding
  (property C15; the span selection is shared with C16).

  Modelled code (rog-works/tranp):
    rogw/tranp/implements/syntax/lark/entry.py:9-108     EntryOfLark (name, has_child, children, is_terminal, value,
                                                         is_empty, source_map with its three-way choice)
    rogw/tranp/implements/syntax/lark/entry.py:117-151   Serialization.dumps / __dumps
    rogw/tranp/implements/syntax/lark/entry.py:153-195   Serialization.loads / __loads
    rogw/tranp/implements/syntax/lark/parser.py:141-179  EntryStored.save / load  (json.dumps → bytes → json.load)

  Python values are modelled by `PyVal` (None, bool, int, str, list, tuple, dict with str keys in insertion order);
  `Json` is the value type of JSON text; `toJson` is what `json.dumps` can express (tuples become arrays), `ofJson`
  is what `json.load` gives back (arrays become lists). Text-level JSON (escaping, parsing) is the standard library's
  and is not modelled: the correspondence stream runs the real `json.dumps → bytes → json.loads` on every case.

  Positions are `None | int` (`Pos`). A `lark.tree.Meta` attribute may also be *absent* (`Attr.absent`): `Meta()` starts
  without `line`/`column`/… and reading them raises `AttributeError` — modelled, not totalised.
-/
import Tranp.Str

namespace Tranp.Lark
open Tranp

/-- Exceptions the modelled code can raise (same enum as `harness.common.exc_enum`). `outsideModel` marks JSON shapes
    the model does not cover (non-`str` names/values, positions that are neither `None` nor `int`, `str` used as
    `source_map`); the harness never generates them. -/
inductive Err where
  | attributeError | keyError | indexError | typeError | nodeNotFound | outsideModel
deriving DecidableEq, Repr

def Err.toString : Err → String
  | .attributeError => "AttributeError"
  | .keyError => "KeyError"
  | .indexError => "IndexError"
  | .typeError => "TypeError"
  | .nodeNotFound => "Errors.NodeNotFound"
  | .outsideModel => "outside-model"

/-- a line/column value: Python `None` or `int` -/
abbrev Pos := Option Int

/-- Python truthiness of a position (`None` and `0` are falsy). -/
def truthy : Pos → Bool
  | some n => n != 0
  | none => false

/-- an attribute of `lark.tree.Meta`: absent (never assigned) or holding a value -/
inductive Attr where
  | absent
  | val (p : Pos)
deriving DecidableEq, Repr

/-- `lark.tree.Meta`: the `empty` flag and the four position attributes tranp reads. -/
structure Meta where
  empty : Bool
  line : Attr
  column : Attr
  endLine : Attr
  endColumn : Attr
deriving DecidableEq, Repr

/-- the four position attributes of a `lark.Token` (always present, default `None`) -/
structure TokPos where
  line : Pos
  column : Pos
  endLine : Pos
  endColumn : Pos
deriving DecidableEq, Repr

/-- `{'begin': (line, column), 'end': (end_line, end_column)}` -/
structure SM where
  bl : Pos
  bc : Pos
  el : Pos
  ec : Pos
deriving DecidableEq, Repr

def SM.zero : SM := ⟨some 0, some 0, some 0, some 0⟩

/-- what `EntryOfLark` wraps: `lark.Tree | lark.Token | None`. `meta = none` is a tree built without a meta
    (`Tree.meta` then creates an empty `Meta()` on first access, lark/tree.py). -/
inductive LarkEntry where
  | tree (name : Str) (children : List LarkEntry) (tmeta : Option Meta)
  | token (type : Str) (value : Str) (pos : TokPos)
  | empty
deriving Repr, Inhabited

def emptyName : Str := "__empty__".toList

def Attr.get : Attr → Except Err Pos
  | .absent => .error .attributeError
  | .val p => .ok p

/-- `EntryOfLark.source_map` (entry.py:78-108): non-empty tree meta / token with all four positions truthy / zeros. -/
def sourceMap : LarkEntry → Except Err SM
  | .tree _ _ (some m) =>
    if !m.empty then do
      let l ← m.line.get
      let c ← m.column.get
      let el ← m.endLine.get
      let ec ← m.endColumn.get
      pure ⟨l, c, el, ec⟩
    else pure SM.zero
  | .tree _ _ Option.none => pure SM.zero
  | .token _ _ p =>
    if truthy p.line && truthy p.column && truthy p.endLine && truthy p.endColumn then
      pure ⟨p.line, p.column, p.endLine, p.endColumn⟩
    else pure SM.zero
  | .empty => pure SM.zero

namespace LarkEntry
/-- entry.py:27-35 -/
def name : LarkEntry → Str
  | tree n _ _ => n
  | token t _ _ => t
  | empty => emptyName
/-- entry.py:39-41 -/
def hasChild : LarkEntry → Bool
  | tree _ _ _ => true
  | _ => false
/-- entry.py:45-47 -/
def children : LarkEntry → List LarkEntry
  | tree _ cs _ => cs
  | _ => []
/-- entry.py:51-53 -/
def isTerminal : LarkEntry → Bool
  | token _ _ _ => true
  | _ => false
/-- entry.py:57-59 -/
def value : LarkEntry → Str
  | token _ v _ => v
  | _ => []
/-- entry.py:63-74 -/
def isEmpty : LarkEntry → Bool
  | empty => true
  | _ => false
end LarkEntry

/-- Everything observable through the `Entry` interface, recursively (children are views again). -/
inductive View where
  | mk (name : Str) (hasChild : Bool) (children : List View) (isTerminal : Bool) (value : Str) (isEmpty : Bool)
       (sourceMap : Except Err SM)

mutual
def view : LarkEntry → View
  | .tree n cs m => .mk n true (viewList cs) false [] false (sourceMap (.tree n cs m))
  | .token t v p => .mk t false [] true v false (sourceMap (.token t v p))
  | .empty => .mk emptyName false [] false [] true (sourceMap .empty)
def viewList : List LarkEntry → List View
  | [] => []
  | c :: cs => view c :: viewList cs
end

/-! ## Python / JSON values -/

inductive PyVal where
  | none
  | bool (b : Bool)
  | int (i : Int)
  | str (s : Str)
  | list (xs : List PyVal)
  | tuple (xs : List PyVal)
  | dict (kvs : List (Str × PyVal))
deriving Repr, Inhabited

inductive Json where
  | null
  | bool (b : Bool)
  | num (i : Int)
  | str (s : Str)
  | arr (xs : List Json)
  | obj (kvs : List (Str × Json))
deriving Repr, Inhabited

mutual
/-- what `json.dumps` writes for a Python value (tuples and lists both become arrays, `None` becomes `null`) -/
def toJson : PyVal → Json
  | .none => .null
  | .bool b => .bool b
  | .int i => .num i
  | .str s => .str s
  | .list xs => .arr (toJsonList xs)
  | .tuple xs => .arr (toJsonList xs)
  | .dict kvs => .obj (toJsonKvs kvs)
def toJsonList : List PyVal → List Json
  | [] => []
  | x :: xs => toJson x :: toJsonList xs
def toJsonKvs : List (Str × PyVal) → List (Str × Json)
  | [] => []
  | (k, v) :: rest => (k, toJson v) :: toJsonKvs rest
end

mutual
/-- what `json.load` builds for a JSON value (arrays become lists, `null` becomes `None`) -/
def ofJson : Json → PyVal
  | .null => .none
  | .bool b => .bool b
  | .num i => .int i
  | .str s => .str s
  | .arr xs => .list (ofJsonList xs)
  | .obj kvs => .dict (ofJsonKvs kvs)
def ofJsonList : List Json → List PyVal
  | [] => []
  | x :: xs => ofJson x :: ofJsonList xs
def ofJsonKvs : List (Str × Json) → List (Str × PyVal)
  | [] => []
  | (k, v) :: rest => (k, ofJson v) :: ofJsonKvs rest
end

def posVal : Pos → PyVal
  | some n => .int n
  | none => .none

def smTuple (sm : SM) : PyVal := .tuple [posVal sm.bl, posVal sm.bc, posVal sm.el, posVal sm.ec]

def kName : Str := ['n', 'a', 'm', 'e']
def kChildren : Str := ['c', 'h', 'i', 'l', 'd', 'r', 'e', 'n']
def kValue : Str := ['v', 'a', 'l', 'u', 'e']
def kSourceMap : Str := ['s', 'o', 'u', 'r', 'c', 'e', '_', 'm', 'a', 'p']

mutual
/-- `Serialization.__dumps` (entry.py:129-151). The source map is read first (so an `AttributeError` of a broken meta
    surfaces before the children are visited), `None` entries stay `None`. -/
def dumps : LarkEntry → Except Err PyVal
  | .tree n cs m => do
    let sm ← sourceMap (.tree n cs m)
    let ds ← dumpsList cs
    pure (.dict [(kName, .str n), (kChildren, .list ds), (kSourceMap, smTuple sm)])
  | .token t v p => do
    let sm ← sourceMap (.token t v p)
    pure (.dict [(kName, .str t), (kValue, .str v), (kSourceMap, smTuple sm)])
  | .empty => pure .none
def dumpsList : List LarkEntry → Except Err (List PyVal)
  | [] => pure []
  | c :: cs => do
    let d ← dumps c
    let ds ← dumpsList cs
    pure (d :: ds)
end

/-- `d[k]` on a dict with str keys -/
def dictGet? : List (Str × PyVal) → Str → Option PyVal
  | [], _ => Option.none
  | (k, v) :: rest, key => if k = key then some v else dictGet? rest key

/-- `v[i]` for `i ∈ {0,1,2,3}` as used on `entry['source_map']` (list/tuple index, dict key lookup with an int key that
    a JSON object can never hold, `None`/`bool`/`int` are not subscriptable). -/
def subscript (v : PyVal) (i : Nat) : Except Err PyVal :=
  match v with
  | .list xs => match xs[i]? with
    | some x => .ok x
    | Option.none => .error .indexError
  | .tuple xs => match xs[i]? with
    | some x => .ok x
    | Option.none => .error .indexError
  | .dict _ => .error .keyError
  | .str _ => .error .outsideModel
  | _ => .error .typeError

def asPos : PyVal → Except Err Pos
  | .none => .ok Option.none
  | .int i => .ok (some i)
  | _ => .error .outsideModel

def asStr : PyVal → Except Err Str
  | .str s => .ok s
  | _ => .error .outsideModel

/-- `entry['source_map'][i]` for i = 0..3, in evaluation order -/
def loadSM (kvs : List (Str × PyVal)) : Except Err SM := do
  let get (i : Nat) : Except Err Pos :=
    match dictGet? kvs kSourceMap with
    | Option.none => .error .keyError
    | some v => (subscript v i).bind asPos
  let a ← get 0
  let b ← get 1
  let c ← get 2
  let d ← get 3
  pure ⟨a, b, c, d⟩

/-- the `Meta` that `__loads` builds (entry.py:176-181): all four attributes assigned, `empty = False` -/
def restoredMeta (sm : SM) : Meta := ⟨false, .val sm.bl, .val sm.bc, .val sm.el, .val sm.ec⟩

mutual
/-- `Serialization.__loads` (entry.py:163-195): a dict with `children` is a tree, a dict with `value` a token, anything
    else (None, numbers, strings, lists, dicts without either key) is `None`. -/
def loads : PyVal → Except Err LarkEntry
  | .dict kvs =>
    match loadsChildrenOf kvs with
    | some r => do
      let cs ← r                                   -- the loop over entry['children'] runs first
      let sm ← loadSM kvs                          -- meta.line = entry['source_map'][0] …
      let n ← match dictGet? kvs kName with        -- lark.Tree(entry['name'], children, meta)
        | some v => asStr v
        | Option.none => .error .keyError
      pure (.tree n cs (some (restoredMeta sm)))
    | Option.none =>
      match dictGet? kvs kValue with
      | some v => do
        let t ← match dictGet? kvs kName with      -- lark.Token(entry['name'], entry['value'])
          | some n => asStr n
          | Option.none => .error .keyError
        let s ← asStr v
        let sm ← loadSM kvs
        pure (.token t s ⟨sm.bl, sm.bc, sm.el, sm.ec⟩)
      | Option.none => pure .empty
  | _ => pure .empty
/-- finds the `children` key and loads what iterating its value yields -/
def loadsChildrenOf : List (Str × PyVal) → Option (Except Err (List LarkEntry))
  | [] => Option.none
  | (k, v) :: rest => if k = kChildren then some (loadsIter v) else loadsChildrenOf rest
/-- `for child in entry['children']`: lists/tuples yield their items, a str its characters and a dict its keys
    (each of which `__loads` maps to `None`), other values are not iterable. -/
def loadsIter : PyVal → Except Err (List LarkEntry)
  | .list xs => loadsList xs
  | .tuple xs => loadsList xs
  | .str s => pure (List.replicate s.length .empty)
  | .dict kvs => pure (List.replicate kvs.length .empty)
  | _ => .error .typeError
def loadsList : List PyVal → Except Err (List LarkEntry)
  | [] => pure []
  | x :: xs => do
    let a ← loads x
    let as ← loadsList xs
    pure (a :: as)
end

mutual
/-- every span of the view can be read (no `AttributeError`) -/
def viewOk : View → Bool
  | .mk _ _ cs _ _ _ sm => (match sm with | .ok _ => true | .error _ => false) && viewOkList cs
def viewOkList : List View → Bool
  | [] => true
  | c :: cs => viewOk c && viewOkList cs
end

/-- a `Meta` as lark leaves it: empty, or carrying all four position attributes -/
def Meta.complete (m : Meta) : Bool :=
  m.empty || (m.line != .absent && m.column != .absent && m.endLine != .absent && m.endColumn != .absent)

mutual
/-- every tree's meta is absent, empty or complete (true of everything lark builds and of everything `loads` builds) -/
def wellFormed : LarkEntry → Bool
  | .tree _ cs m => (match m with | some m => m.complete | Option.none => true) && wellFormedList cs
  | _ => true
def wellFormedList : List LarkEntry → Bool
  | [] => true
  | c :: cs => wellFormed c && wellFormedList cs
end

/-- the whole cache path: `EntryStored.save` then `EntryStored.load` (parser.py:154-179) -/
def storeLoad (t : LarkEntry) : Except Err LarkEntry := do
  let d ← dumps t
  loads (ofJson (toJson d))

/-- `ofJson ∘ toJson`: the image of a Python value under a JSON round trip -/
def jsonImage (v : PyVal) : PyVal := ofJson (toJson v)

end Tranp.Lark
