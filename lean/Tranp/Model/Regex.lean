/-
  Tranp.Model.Regex — a small backtracking matcher for the regular expressions tranp applies to rendered C++ text
  (property C08). The patterns themselves are GENERATED (Generated/C08Regex.lean, translate/gen_c08_regex.py parses the compiled
  `re.Pattern` objects of `PatternParser` and `CppViewHelper` with CPython's own `re._parser`); this file gives them meaning.

  Supported (the opcodes the shipped patterns use; the translator fails on anything else): literals, `[^c]`, `.`, character
  sets with literals / ranges / `\w \d \s` / negation, greedy repetition `* + ? {m,n}`, capturing groups, alternation,
  `^` and `$` (no flags: `.` excludes newline, `$` matches at the end and before a final newline).
  Character categories are modelled for ASCII (`\w` = `[A-Za-z0-9_]`, `\d` = `[0-9]`, `\s` = blank \t \n \r \v \f and
  \x1c–\x1f); the streams generate ASCII only.
-/
import Tranp.Str

namespace Tranp.Regex
open Tranp

/-- the ASCII word characters: the alphabet identifiers are written in -/
def wordChars : List Char :=
  ['a','b','c','d','e','f','g','h','i','j','k','l','m','n','o','p','q','r','s','t','u','v','w','x','y','z',
   'A','B','C','D','E','F','G','H','I','J','K','L','M','N','O','P','Q','R','S','T','U','V','W','X','Y','Z',
   '0','1','2','3','4','5','6','7','8','9','_']

def isWordChar (c : Char) : Bool := wordChars.contains c
def isDigitChar (c : Char) : Bool := ['0','1','2','3','4','5','6','7','8','9'].contains c
def isSpaceChar (c : Char) : Bool :=
  c = ' ' || c = '\t' || c = '\n' || c = '\r' || c = '\x0b' || c = '\x0c' || c = '\x1c' || c = '\x1d' || c = '\x1e' || c = '\x1f'

inductive SetItem where
  | lit (c : Char)
  | range (lo hi : Char)
  | word | digit | space
deriving DecidableEq, Repr

def SetItem.matches (c : Char) : SetItem → Bool
  | .lit x => c = x
  | .range lo hi => lo.toNat ≤ c.toNat && c.toNat ≤ hi.toNat
  | .word => isWordChar c
  | .digit => isDigitChar c
  | .space => isSpaceChar c

/-- `[...]` / `[^...]` -/
structure CharSet where
  negated : Bool
  items : List SetItem
deriving DecidableEq, Repr

def CharSet.matches (k : CharSet) (c : Char) : Bool := (k.items.any (·.matches c)) != k.negated

inductive Re where
  | empty
  | lit (c : Char)
  | notLit (c : Char)
  | any
  | set (k : CharSet)
  | seq (a b : Re)
  | alt (a b : Re)
  /-- greedy repetition, `max = none` is unbounded -/
  | rep (min : Nat) (max : Option Nat) (r : Re)
  | group (idx : Nat) (r : Re)
  | bol
  | eol
deriving DecidableEq, Repr

def Re.size : Re → Nat
  | .seq a b => a.size + b.size + 1
  | .alt a b => a.size + b.size + 1
  | .rep _ _ r => r.size + 1
  | .group _ r => r.size + 1
  | _ => 1

def Re.groups : Re → Nat
  | .seq a b => max a.groups b.groups
  | .alt a b => max a.groups b.groups
  | .rep _ _ r => r.groups
  | .group i r => max i r.groups
  | _ => 0

/-- capture table: group index ↦ (start, end) -/
abbrev Caps := List (Nat × (Nat × Nat))

def Caps.set (c : Caps) (i : Nat) (v : Nat × Nat) : Caps := (i, v) :: c.filter (fun kv => kv.1 != i)
def Caps.get? (c : Caps) (i : Nat) : Option (Nat × Nat) := (c.find? (fun kv => kv.1 == i)).map (·.2)

/-- backtracking matcher in continuation-passing style; `inp` is the rest of the text, `pos` its offset. -/
def mAux {R : Type} : Nat → Re → Str → Nat → Caps → (Str → Nat → Caps → Option R) → Option R
  | 0, _, _, _, _, _ => none
  | _ + 1, .empty, inp, pos, caps, k => k inp pos caps
  | _ + 1, .lit c, inp, pos, caps, k =>
    match inp with
    | x :: xs => if x = c then k xs (pos + 1) caps else none
    | [] => none
  | _ + 1, .notLit c, inp, pos, caps, k =>
    match inp with
    | x :: xs => if x ≠ c then k xs (pos + 1) caps else none
    | [] => none
  | _ + 1, .any, inp, pos, caps, k =>
    match inp with
    | x :: xs => if x ≠ '\n' then k xs (pos + 1) caps else none
    | [] => none
  | _ + 1, .set s, inp, pos, caps, k =>
    match inp with
    | x :: xs => if s.matches x then k xs (pos + 1) caps else none
    | [] => none
  | f + 1, .seq a b, inp, pos, caps, k => mAux f a inp pos caps (fun i p c => mAux f b i p c k)
  | f + 1, .alt a b, inp, pos, caps, k =>
    match mAux f a inp pos caps k with
    | some r => some r
    | none => mAux f b inp pos caps k
  | f + 1, .group idx r, inp, pos, caps, k => mAux f r inp pos caps (fun i p c => k i p (c.set idx (pos, p)))
  | f + 1, .rep mn mx r, inp, pos, caps, k =>
    let more : Option R :=
      if mx = some 0 then none
      else mAux f r inp pos caps (fun i p c =>
        if p = pos then none   -- an iteration has to consume something (CPython's guard against empty loops)
        else mAux f (.rep (mn - 1) (mx.map (· - 1)) r) i p c k)
    match more with
    | some res => some res
    | none => if mn = 0 then k inp pos caps else none
  | _ + 1, .bol, inp, pos, caps, k => if pos = 0 then k inp pos caps else none
  | _ + 1, .eol, inp, pos, caps, k => if inp = [] ∨ inp = ['\n'] then k inp pos caps else none

def fuelFor (r : Re) (s : Str) : Nat := (r.size + 2) * (s.length + 2) + 8

/-- result of a match: end offset and captures -/
abbrev Match := Nat × Caps

/-- match at offset `start` (prefix match: anything may follow) -/
def matchAt (r : Re) (s : Str) (start : Nat) : Option Match :=
  mAux (fuelFor r s) r (s.drop start) start [] (fun _ p c => some (p, c))

/-- `pattern.fullmatch(s)` -/
def fullmatch (r : Re) (s : Str) : Option Match :=
  mAux (fuelFor r s) r s 0 [] (fun i p c => if i = [] then some (p, c) else none)

/-- `pattern.search(s)`: leftmost start; returns (start, end, captures) -/
def searchFrom (r : Re) (s : Str) : Nat → Nat → Option (Nat × Match)
  | 0, _ => none
  | f + 1, start =>
    if start > s.length then none
    else match matchAt r s start with
      | some m => some (start, m)
      | none => searchFrom r s f (start + 1)

def search (r : Re) (s : Str) : Option (Nat × Match) := searchFrom r s (s.length + 2) 0

/-- text of a group (`none` = the group did not participate) -/
def groupText (s : Str) (caps : Caps) (i : Nat) : Option Str :=
  (caps.get? i).map (fun se => (s.drop se.1).take (se.2 - se.1))

/-- `pattern.sub('', s)`: delete all non-overlapping matches, left to right -/
def subEmptyFrom (r : Re) (s : Str) : Nat → Nat → Str
  | 0, pos => s.drop pos
  | f + 1, pos =>
    if pos > s.length then []
    else match searchFrom r s (s.length + 2) pos with
      | none => s.drop pos
      | some (st, (en, _)) =>
        let before := (s.drop pos).take (st - pos)
        if en = st then
          -- empty match: keep the next character and go on behind it
          before ++ (s.drop st).take 1 ++ subEmptyFrom r s f (st + 1)
        else before ++ subEmptyFrom r s f en

def subEmpty (r : Re) (s : Str) : Str := subEmptyFrom r s (s.length + 2) 0

/-! ### identifier-closed patterns -/

/-- a set treats all identifier characters alike: it contains all of them or none -/
def CharSet.identClosed (k : CharSet) : Bool :=
  wordChars.all (fun c => k.matches c) || wordChars.all (fun c => !k.matches c)

/-- every character TEST of the pattern that is not a fixed literal treats all identifier characters alike
    (`[^c]` with an identifier character `c` would not) -/
def Re.identClosed : Re → Bool
  | .set k => k.identClosed
  | .notLit c => !isWordChar c
  | .seq a b => a.identClosed && b.identClosed
  | .alt a b => a.identClosed && b.identClosed
  | .rep _ _ r => r.identClosed
  | .group _ r => r.identClosed
  | _ => true

/-- the identifier characters the pattern spells out literally (fixed words such as `__init__`, `this`, `return`, `on`) -/
def Re.literalWordChars : Re → List Char
  | .lit c => if isWordChar c then [c] else []
  | .seq a b => a.literalWordChars ++ b.literalWordChars
  | .alt a b => a.literalWordChars ++ b.literalWordChars
  | .rep _ _ r => r.literalWordChars
  | .group _ r => r.literalWordChars
  | _ => []

end Tranp.Regex
