/-
  Tranp.Model.Infer — executable model of tranp's expression type inference (property C03).
  (CPython's dynamic semantics of the same expression core, `eval` / `typeOf`, is Tranp/Model/PyEval.lean; the statement
  vocabulary `Conf` / `wt` / `pyBinTy` is Tranp/Model/InferSpec.lean.)

  `infer` follows `ProceduralResolver` (rogw/tranp/semantics/reflections.py:301-709) handler by handler; operator typing
  follows `OperationTrait.try_operation` (semantics/reflection/traits.py:178-225) over the stub table generated from
  compatible/libralies/classes.py (`Tranp.Generated.Dunder`); template substitution is the positional path matching of
  `TemplateManipulator` (semantics/reflection/helper/template.py:226-385), ported step by step (flatten, normalise, find path, apply).
-/
import Tranp.Generated.Dunder

namespace Tranp.Infer
open Tranp Tranp.Generated

/-- exceptions, as the strings of the line protocol (`Err.toString`) -/
inductive Err where
  | unresolved      -- Errors.UnresolvedSymbol
  | opNotAllowed    -- Errors.OperationNotAllowed
  | never           -- Errors.Never
  | fatal           -- Errors.Fatal (any non-tranp exception inside a handler, semantics/procedure.py:173-174)
  | zeroDiv | indexErr | keyErr | typeErr | valueErr   -- CPython
  | unsupported     -- outside the modelled core (never produced on generated inputs)
deriving DecidableEq, Repr

deriving instance DecidableEq for Except

def Err.toString : Err → String
  | .unresolved => "Errors.UnresolvedSymbol"
  | .opNotAllowed => "Errors.OperationNotAllowed"
  | .never => "Errors.Never"
  | .fatal => "Errors.Fatal"
  | .zeroDiv => "ZeroDivisionError"
  | .indexErr => "IndexError"
  | .keyErr => "KeyError"
  | .typeErr => "TypeError"
  | .valueErr => "ValueError"
  | .unsupported => "unsupported"

inductive UOp where
  | pos | neg | inv
deriving DecidableEq, Repr

inductive BOp where
  | add | sub | mul | div | mod
  | bor | bxor | band | shl | shr
  | eq | ne | lt | gt | le | ge | in_ | notIn | is_ | isNot
deriving DecidableEq, Repr

/-- operator token, the key of `PythonClassOperations.__operators` -/
def BOp.token : BOp → Str
  | .add => ['+'] | .sub => ['-'] | .mul => ['*'] | .div => ['/'] | .mod => ['%']
  | .bor => ['|'] | .bxor => ['^'] | .band => ['&'] | .shl => ['<', '<'] | .shr => ['>', '>']
  | .eq => ['=', '='] | .ne => ['!', '='] | .lt => ['<'] | .gt => ['>'] | .le => ['<', '='] | .ge => ['>', '=']
  | .in_ => ['i', 'n'] | .notIn => ['n', 'o', 't', '.', 'i', 'n'] | .is_ => ['i', 's'] | .isNot => ['i', 's', '.', 'n', 'o', 't']

/-- `Operations.arthmetical` (syntax/node/definition/accessible.py:47-55) -/
def BOp.arith : BOp → Bool
  | .add | .sub | .mul | .div | .mod => true
  | _ => false

/-- the operators whose method is selected by the argument type: arithmetic ones and `| ^ &` (traits.py:205-208) -/
def BOp.selects : BOp → Bool
  | .bor | .bxor | .band => true
  | op => op.arith

mutual
/-- expression core; one constructor per node class of syntax/node/definition/{literal,operator,primary,expression}.py -/
inductive Expr where
  | int (n : Nat)                   -- Integer
  | float (f : Float)               -- Float
  | str (s : Str)                   -- String
  | true_ | false_ | none_          -- Truthy / Falsy / Null
  | empty_                          -- Empty: an omitted slice bound (an omitted comprehension condition is sent as `true_`)
  | var (x : Str)                   -- Var
  | factor (op : UOp) (e : Expr)    -- Factor
  | not_ (e : Expr)                 -- NotCompare
  | bin (e : Expr) (rest : Chain)   -- Sum / Term / ShiftBitwise / AndBitwise / XorBitwise / OrBitwise: e0 op e1 op e2 …
  | cmp (e : Expr) (rest : Chain)   -- Comparison
  | and_ (es : Exprs)               -- AndCompare
  | or_ (es : Exprs)                -- OrCompare
  | tern (a c b : Expr)             -- TernaryOperator: a if c else b
  | list (es : Exprs)               -- List
  | dict (kvs : Pairs)              -- Dict of Pair
  | tuple (es : Exprs)              -- Tuple
  | index (r k : Expr)              -- Indexer, one key
  | slice (r lo hi : Expr)          -- Indexer, sliced
  | group (e : Expr)                -- Group
  | attr (r : Expr) (a : Str)                   -- Relay that is not called: r.a (instance variable, class variable, property)
  | call (r : Expr) (m : Str) (args : Exprs)    -- FuncCall of Relay: r.m(args)
  | fcall (f : Str) (args : Exprs)              -- FuncCall of Var: f(args) (stub function or stub class)
  | listComp (proj : Expr) (vars : List Str) (src cond : Expr)       -- ListComp, one `for`
  | dictComp (k v : Expr) (vars : List Str) (src cond : Expr)        -- DictComp, one `for`
inductive Exprs where
  | nil
  | cons (e : Expr) (es : Exprs)
inductive Chain where
  | nil
  | cons (op : BOp) (e : Expr) (rest : Chain)
inductive Pairs where
  | nil
  | cons (k v : Expr) (rest : Pairs)
end

instance : Inhabited Expr := ⟨.none_⟩

abbrev Env := List (Str × Ty)

def lookup {α : Type} (x : Str) : List (Str × α) → Option α
  | [] => none
  | (y, v) :: rest => if x = y then some v else lookup x rest

/-! ## stub table access -/

def s_object : Str := ['o', 'b', 'j', 'e', 'c', 't']
def s_None : Str := ['N', 'o', 'n', 'e']
def s_Unknown : Str := ['U', 'n', 'k', 'n', 'o', 'w', 'n']
def s_Iterator : Str := ['I', 't', 'e', 'r', 'a', 't', 'o', 'r']

def findIn (ms : List Method) (c m : Str) : Option Method :=
  ms.find? (fun r => r.cls = c && r.name = m)

def findClass (ct : ClassTable) (c : Str) : Option ClassDecl := ct.find? (fun d => d.name = c)

/-- `c`, then the whole ancestry of its first base, then of its second base, …: the depth-first left-to-right walk of
    `Reflections.__resolve_raw_recursive` (reflections.py:260-277). For TREE-shaped hierarchies (every class reaches each ancestor on one
    path: no diamonds) this is CPython's MRO. (The fuel bounds a cyclic table.) -/
def chainFrom (ct : ClassTable) : Nat → Str → List Str
  | 0, _ => []
  | fuel + 1, c =>
    match findClass ct c with
    | none => []
    | some d => c :: d.bases.flatMap (fun b => chainFrom ct fuel b)

def chainOf (ct : ClassTable) (c : Str) : List Str := chainFrom ct (ct.length + 1) c

/-- `Reflections.__resolve_raw` / `__resolve_raw_recursive` for a member of a user class: the class's own scope, then the
    bases depth-first, left to right (reflections.py:245-277) -/
def memberOf (ct : ClassTable) (c a : Str) : Option Member :=
  (chainOf ct c).findSome? fun e => (findClass ct e).bind fun d => d.members.find? (fun m => m.name = a)

def Member.callable (m : Member) : Bool :=
  match m.kind with
  | .method | .property | .classMethod => true
  | _ => false

/-- a function member of a user class as a stub row: no parameters are recorded (arguments are never checked) -/
def userMethod (ct : ClassTable) (c m : Str) : Option Method :=
  match memberOf ct c m with
  | some mem => if mem.callable then some ⟨c, m, .cls c .nil, .nil, mem.ty⟩ else none
  | none => none

/-- `Reflections.resolve(types, name)`: a stub class, a user class (with its bases), then `object` (reflections.py:213-293) -/
def findMethod (ct : ClassTable) (c m : Str) : Option Method :=
  match findIn Dunder.methods c m with
  | some r => some r
  | none =>
    match userMethod ct c m with
    | some r => some r
    | none => findIn Dunder.methods s_object m

/-- a stub function / stub class constructor, or the constructor of a user class (`resolve_constructor`: `__init__` is always
    found, at the latest on `object`; a constructor returns its class, traits.py:463) -/
def findFunc (ct : ClassTable) (f : Str) : Option Func :=
  match Dunder.funcs.find? (fun r => r.name = f) with
  | some r => some r
  | none => if (findClass ct f).isSome then some ⟨f, true, .nil, .cls f .nil⟩ else none

/-! ## template substitution (helper/template.py:226-385, `TemplateManipulator`)

  A schema (`klass`, `parameters`, `returns`, `parameter`) and the actual types are flattened to path → symbol maps
  (`seqs.expand`, lang/sequence.py:32-61); a template of the target is bound to the actual symbol found by
  `_find_actual_path`, which compares *normalised* paths. Paths are `List Nat`: the first element is the root
  (0 `klass`, 1 `parameters`, 2 `returns`, 3 `parameter`), the rest attribute indices. (`str.startswith` on dotted
  paths is list-prefix for fewer than ten attributes per symbol — true of every stub.) -/

abbrev Path := List Nat
abbrev Props := List (Path × Ty)

def s_Union : Str := ['U', 'n', 'i', 'o', 'n']

mutual
/-- `seqs.expand(…, iter_key='attrs')` of one symbol: pre-order -/
def expandTy (p : Path) : Ty → Props
  | .list t => (p, .list t) :: expandTy (p ++ [0]) t
  | .dict k v => (p, .dict k v) :: (expandTy (p ++ [0]) k ++ expandTy (p ++ [1]) v)
  | .tuple ts => (p, .tuple ts) :: expandTys p 0 ts
  | .union ts => (p, .union ts) :: expandTys p 0 ts
  | .cls n ts => (p, .cls n ts) :: expandTys p 0 ts
  | t => [(p, t)]
def expandTys (p : Path) (i : Nat) : Tys → Props
  | .nil => []
  | .cons t ts => expandTy (p ++ [i]) t ++ expandTys p (i + 1) ts
end

def propAt (props : Props) (p : Path) : Option Ty := (props.find? (fun e => e.1 = p)).map (·.2)

/-- templates of a flattened symbol map, in map order (`unpack_templates`, template.py:240-252) -/
def templatesOf (props : Props) : List (Path × Str) :=
  props.filterMap fun e => match e.2 with | .tvar n => some (e.1, n) | _ => none

/-- the loop of `_normalize_props` over one key (template.py:313-321): `pre` = the path walked so far (the parent of the next
    index); an index directly below a `Union` symbol is left out on the schema side (`skipUnion`), every other index is kept -/
def normFrom (props : Props) (skipUnion : Bool) (pre : Path) : List Nat → List Nat
  | [] => []
  | i :: rest =>
    let keep : Bool := match propAt props pre with
      | some t => !(skipUnion && t.className = s_Union)
      | none => true
    (if keep then [i] else []) ++ normFrom props skipUnion (pre ++ [i]) rest

/-- the normalised elements of `key`: its attribute indices from the second path element on (68f934e: the position inside a
    Union is dropped, not the position of the Union) -/
def normIdx (props : Props) (skipUnion : Bool) (key : Path) : List Nat :=
  match key with
  | [] => []
  | r :: rest => normFrom props skipUnion [r] rest

/-- one entry of `_normalize_props`: only leaf paths below the first level are kept (template.py:296-308) -/
def normEntry (props : Props) (skipUnion : Bool) (e : Path × Ty) : Option (Path × List Nat) :=
  if e.1.length > 1 && e.2.attrs = .nil then some (e.1, normIdx props skipUnion e.1) else none

/-- `_normalize_props` (template.py:284-323); `skipUnion` = the schema side -/
def normalizeProps (props : Props) (skipUnion : Bool) : List (Path × List Nat) :=
  props.filterMap (normEntry props skipUnion)

/-- the candidate test of `_find_actual_path` for one normalised actual entry (template.py:345-360): the actual elements have
    to START WITH the schema's elements (68f934e; before: only as many or more of them) -/
def hitOf (begin : Path) (schemaElems : List Nat) (e : Path × List Nat) : Option Path :=
  let n := schemaElems.length
  if begin.isPrefixOf e.1 then
    if e.2.length < n then none
    else if e.2.take n ≠ schemaElems then none
    else if e.2.length = n then some e.1
    else some (e.1.take (e.1.length - (e.2.length - n)))
  else none

/-- `_find_actual_path` (template.py:325-368) -/
def findActualPath (schemaPath : Path) (normSchema normActual : List (Path × List Nat)) (actual : Props) : Option Path :=
  if schemaPath.length = 1 then some schemaPath
  else
    match (normSchema.find? (fun e => e.1 = schemaPath)).map (·.2) with
    | none => none          -- KeyError in the real code; a template symbol is always a leaf
    | some schemaElems =>
      match normActual.findSome? (hitOf (schemaPath.take 2) schemaElems) with
      | some p => some p
      | none =>
        let first := schemaPath.take 1
        if (propAt actual first).isSome then some first else none

def putUpdate (acc : List (Path × Path)) (k v : Path) : List (Path × Path) :=
  match acc with
  | [] => [(k, v)]
  | (k', v') :: rest => if k' = k then (k, v) :: rest else (k', v') :: putUpdate rest k v

/-- the symbol at `p` is of class `c` (`type_is`) -/
def classAt (props : Props) (p : Path) (c : Str) : Bool :=
  match propAt props p with | some t => decide (t.className = c) | none => false

/-- `None` given where the schema has a type variable directly below a `Union` (`T | None`): the `None` matched the Union's own
    `None`, nothing is bound (template.py:276-279, 68f934e) -/
def noneForOptional (schema actual : Props) (sp found : Path) : Bool :=
  classAt schema sp.dropLast s_Union && classAt actual found s_None

/-- inner loop of `make_updates` (template.py:267-287) for one target template -/
def updatesFor (tp : Path) (tn : Str) (schemaTemps : List (Path × Str)) (schema : Props) (normS normA : List (Path × List Nat)) (actual : Props)
    (acc : List (Path × Path)) : List (Path × Path) :=
  match schemaTemps with
  | [] => acc
  | (sp, sn) :: rest =>
    if sn ≠ tn then updatesFor tp tn rest schema normS normA actual acc
    else
      match findActualPath sp normS normA actual with
      | none => updatesFor tp tn rest schema normS normA actual acc
      | some found =>
        if noneForOptional schema actual sp found then updatesFor tp tn rest schema normS normA actual acc
        else
          let acc := putUpdate acc tp found
          match propAt actual found with
          | some (.tvar _) => updatesFor tp tn rest schema normS normA actual acc
          | _ => acc

/-- `make_updates` (template.py:251-289) -/
def makeUpdates (targets schemaTemps : List (Path × Str)) (schema actual : Props) : List (Path × Path) :=
  let normS := normalizeProps schema true
  -- the actual types keep their Union levels (template.py:265-266): a Union actual type is one type
  let normA := normalizeProps actual false
  targets.foldl (fun acc t => updatesFor t.1 t.2 schemaTemps schema normS normA actual acc) []

mutual
/-- `seqs.update(attrs, path, value, iter_key='attrs')` -/
def setAt : Ty → List Nat → Ty → Ty
  | _, [], v => v
  | .list t, i :: r, v => if i = 0 then .list (setAt t r v) else .list t
  | .dict k x, i :: r, v => if i = 0 then .dict (setAt k r v) x else if i = 1 then .dict k (setAt x r v) else .dict k x
  | .tuple ts, i :: r, v => .tuple (setAtL ts i r v)
  | .union ts, i :: r, v => .union (setAtL ts i r v)
  | .cls n ts, i :: r, v => .cls n (setAtL ts i r v)
  | t, _ :: _, _ => t
def setAtL : Tys → Nat → List Nat → Ty → Tys
  | .nil, _, _, _ => .nil
  | .cons t ts, 0, r, v => .cons (setAt t r v) ts
  | .cons t ts, i + 1, r, v => .cons t (setAtL ts i r v)
end

/-- `TemplateManipulator.apply` (template.py:373-393) -/
def applyUpdates (primary : Ty) (actual : Props) (updates : List (Path × Path)) : Ty :=
  match updates.find? (fun u => u.1.length = 1) with
  | some u => (propAt actual u.2).getD primary
  | none => updates.foldl (fun t u => match propAt actual u.2 with | some v => setAt t (u.1.drop 1) v | none => t) primary

/-- resolve the templates of `target` (flattened under root `troot`) against schema and actual maps -/
def resolveTemplates (troot : Nat) (target : Ty) (schema actual : Props) : Ty :=
  let targets := templatesOf (expandTy [troot] target)
  if targets.isEmpty then target
  else applyUpdates target actual (makeUpdates targets (templatesOf schema) schema actual)

/-- `templates.Method.returns(receiver, *arguments)` (template.py:165-185) -/
def returnsOf (m : Method) (recv : Ty) (args : Tys) : Ty :=
  resolveTemplates 2 m.ret (expandTy [0] m.self ++ expandTys [1] 0 m.params) (expandTy [0] recv ++ expandTys [1] 0 args)

/-- `templates.Function.returns(*arguments)` (template.py:108-125); for a constructor `klass` and `returns` are the class
    itself (traits.py:463), whose own templates resolve to themselves -/
def returnsOfFunc (f : Func) (args : Tys) : Ty :=
  if f.ctor then
    resolveTemplates 2 f.ret (expandTy [0] f.ret ++ expandTys [1] 0 f.params) (expandTy [0] f.ret ++ expandTys [1] 0 args)
  else resolveTemplates 2 f.ret (expandTys [1] 0 f.params) (expandTys [1] 0 args)

/-- `templates.Method.parameter(0, receiver, argument)` (template.py:141-163) -/
def paramAt0 (m : Method) (recv arg : Ty) : Option Ty :=
  match m.params with
  | .nil => none
  | .cons p _ => some (resolveTemplates 3 p (expandTy [0] m.self ++ expandTy [3] p) (expandTy [0] recv ++ expandTy [3] arg))

/-! ## the handlers -/

/-- `_actualize_nullable` (traits.py:103-119): `T | None` → `T` -/
def stripNullable : Ty → Ty
  | .union (.cons a (.cons b .nil)) =>
    let n0 := a.className = s_None
    let n1 := b.className = s_None
    if n0 ≠ n1 then (if n0 then b else a) else .union (.cons a (.cons b .nil))
  | t => t

/-- `OperationTrait.try_operation` (traits.py:178-225). The `inherits` loop (218-223) cannot match for a stub operand. -/
def tryOp (ct : ClassTable) (l : Ty) (op : BOp) (r : Ty) : Option Ty :=
  match lookup op.token Dunder.operators with
  | none => none
  | some d =>
    match findMethod ct l.className d with
    | none => none
    | some m =>
      if !op.selects then some (returnsOf m l (.cons r .nil))
      else
        match paramAt0 m l r with
        | none => none
        | some p =>
          let alts := match p with | .union ts => ts | t => .cons t .nil
          if alts.mem r then some (returnsOf m l (.cons r .nil)) else none

/-- one step of `each_binary_operator` (reflections.py:620-640) -/
def tryStep (ct : ClassTable) (l : Ty) (op : BOp) (r : Ty) : Option Ty :=
  match tryOp ct l op r with
  | some t => some t
  | none => tryOp ct r op l

def foldBin (ct : ClassTable) : Ty → List (BOp × Ty) → Except Err Ty
  | l, [] => .ok l
  | l, (op, r) :: rest =>
    match tryStep ct l op r with
    | some t => foldBin ct t rest
    | none => .error .opNotAllowed

/-- `{value.types: value for value in values if …}` of `on_list` (reflections.py:667-669):
    one entry per class in first-occurrence order, holding the LAST value of that class -/
def dedupPut (acc : List (Str × Ty)) (t : Ty) : List (Str × Ty) :=
  match acc with
  | [] => [(t.className, t)]
  | (k, v) :: rest => if k = t.className then (k, t) :: rest else (k, v) :: dedupPut rest t

def knownTypes (ts : List Ty) : List Ty :=
  ((ts.filter (fun t => t.className ≠ s_Unknown)).foldl dedupPut []).map (·.2)

/-- `on_list` (reflections.py:679-688). The `Union` of a heterogeneous literal is a fresh stacked symbol
    (`from_standard(Union).stack().extends(…)`), so the handler neither reads nor writes the session state `s`. -/
def onList (ts : List Ty) (s : Bool) : Except Err Ty × Bool :=
  match knownTypes ts with
  | [] => (.ok (.list .unknown), s)
  | [t] => (.ok (.list t), s)
  | k => (.ok (.list (.union (Tys.ofList k))), s)

/-- `on_dict` (reflections.py:676-685) over the `(key, value)` types of the items -/
def onDict (items : List (Ty × Ty)) : Ty :=
  match items with
  | [] => .dict .unknown .unknown
  | first :: _ =>
    match items.find? (fun kv => kv.2.className ≠ s_Unknown) with
    | some kv => .dict kv.1 kv.2
    | none => .dict first.1 first.2

/-- `on_indexer`, not sliced (reflections.py:458-486); `r` is the actualized receiver, `k` the key node -/
def onIndex (r : Ty) (k : Expr) : Except Err Ty :=
  match r with
  | .str => .ok .str
  | .list t => .ok t
  | .dict _ v => .ok v
  | .tuple ts =>
    (match k with
     | .int n => (match ts.get? n with | some t => .ok t | none => .error .fatal)
     | _ => .ok (.union ts))
  | t => .ok t

def Tys.drop : Tys → Nat → Tys
  | ts, 0 => ts
  | .nil, _ + 1 => .nil
  | .cons _ ts, n + 1 => Tys.drop ts n

def Tys.take : Tys → Nat → Tys
  | _, 0 => .nil
  | .nil, _ + 1 => .nil
  | .cons t ts, n + 1 => .cons t (Tys.take ts n)

/-- `PySlice_AdjustIndices` for step 1: a negative bound counts from the end, both are clamped to the length -/
def clampIdx (n : Nat) (i : Int) : Nat :=
  if i < 0 then n - i.natAbs else min i.toNat n

/-- Python's `attrs[begin:end]` (the handler slices the list of element types with Python's own slicing) -/
def Tys.slice (ts : Tys) (lo hi : Option Int) : Tys :=
  let n := ts.length
  let l := match lo with | some i => clampIdx n i | none => 0
  let h := match hi with | some i => clampIdx n i | none => n
  (ts.drop l).take (h - l)

/-- a slice bound the handler can read (`literal_bound`, reflections.py:476-486; da8b916): omitted, an `Integer` literal, or a
    `+` / `-` `Factor` directly over an `Integer` literal -/
def literalBound : Expr → Option (Option Int)
  | .int n => some (some n)
  | .empty_ => some none
  | .factor .neg (.int n) => some (some (-(n : Int)))
  | .factor .pos (.int n) => some (some n)
  | _ => none

/-- `on_indexer`, sliced (reflections.py:472-482): a tuple with literal (or omitted) bounds gives the tuple of the selected
    elements, everything else the receiver -/
def onSlice (r : Ty) (lo hi : Expr) : Ty :=
  match r with
  | .tuple ts =>
    (match literalBound lo, literalBound hi with
     | some l, some h => .tuple (ts.slice l h)
     | _, _ => .tuple ts)
  | t => t

/-- `IteratorTrait.iterates` (traits.py:318-343) behind `on_for_in` (reflections.py:558-578) -/
def iterates (ct : ClassTable) (t : Ty) : Except Err Ty :=
  let t := stripNullable t
  let m := match findMethod ct t.className Dunder.iteratorName with
    | some m => some m
    | none => findMethod ct t.className Dunder.iterableName
  match m with
  | none => .error .unresolved
  | some m =>
    match returnsOf m t .nil with
    | .cls n (.cons a rest) => if n = s_Iterator then .ok a else .ok (.cls n (.cons a rest))
    | r => .ok r

/-- marker bound to a `for` target whose position does not exist in the item type: `attrs[index]` raises a raw
    `IndexError` when (and only when) the target is referenced (processors/resolve_unknown.py:112) -/
def noSuchAttr : Ty := .tvar ['!']

def bindVarsFrom (attrs : Tys) : List Str → Nat → Env
  | [], _ => []
  | x :: rest, i => (x, (attrs.get? i).getD noSuchAttr) :: bindVarsFrom attrs rest (i + 1)

/-- `ResolveUnknown.resolve_right_to_left` (processors/resolve_unknown.py:96-113) for the symbols of a `comp_for`:
    one target takes the item type, several targets take `attrs[index]` (lazily, when referenced) -/
def bindVars (vars : List Str) (elem : Ty) : Env :=
  match vars with
  | [x] => [(x, elem)]
  | _ => bindVarsFrom elem.attrs vars 0

/-- `on_relay` (reflections.py:407-433) for an instance receiver: an instance variable, class variable or property of a user
    class (a property read is typed by its getter's return type); a function symbol is not a value -/
def onAttr (ct : ClassTable) (tr : Ty) (a : Str) : Except Err Ty :=
  match stripNullable tr with
  | .cls c .nil =>
    (match memberOf ct c a with
     | some mem =>
       (match mem.kind with
        | .field | .classVar | .property => .ok mem.ty
        | _ => .error .unsupported)
     | none => if (findIn Dunder.methods s_object a).isSome then .error .unsupported else .error .unresolved)
  | t => if (findMethod ct t.className a).isSome then .error .unsupported else .error .unresolved

abbrev R (α : Type) := Except Err α × Bool

@[inline] def R.bind {α β : Type} (r : R α) (k : α → Bool → R β) : R β :=
  match r with
  | (.ok a, s) => k a s
  | (.error e, s) => (.error e, s)

@[inline] def R.lift {α : Type} (r : Except Err α) (s : Bool) : R α := (r, s)

mutual
/-- `Reflections.type_of(node)` on an expression node: post-order, children left to right (semantics/procedure.py),
    then the node's own handler. `s` = the session state ("the library's Union symbol carries attributes"): since 401dc97 no
    handler reads or writes it (`C03.session_independent`). -/
def infer (ct : ClassTable) (Γ : Env) : Expr → Bool → R Ty
  | .int _, s => (.ok .int, s)                              -- on_integer
  | .float _, s => (.ok .float, s)                          -- on_float
  | .str _, s => (.ok .str, s)                              -- on_string
  | .true_, s => (.ok .bool, s)                             -- on_truthy
  | .false_, s => (.ok .bool, s)                            -- on_falsy
  | .none_, s => (.ok .none, s)                             -- on_null
  | .empty_, s => (.ok .none, s)                            -- on_empty
  | .var x, s =>                                            -- on_var → Reflections.resolve
    (match lookup x Γ with
     | some t => if t = noSuchAttr then (.error .indexErr, s) else (.ok t, s)
     | none => (.error .unresolved, s))
  | .factor _ e, s =>                                       -- on_factor: bool is promoted to int, else the operand's type
    (infer ct Γ e s).bind fun t s => if t = .bool then (.ok .int, s) else (.ok t, s)
  | .not_ e, s => (infer ct Γ e s).bind fun _ s => (.ok .bool, s)          -- on_not_compare
  | .bin e rest, s =>                                       -- on_sum … on_or_bitwise → each_binary_operator
    (infer ct Γ e s).bind fun l s =>
    (inferChain ct Γ rest s).bind fun ops s => R.lift (foldBin ct l ops) s
  | .cmp e rest, s =>                                       -- on_comparison
    (infer ct Γ e s).bind fun _ s =>
    (inferChain ct Γ rest s).bind fun _ s => (.ok .bool, s)
  | .and_ es, s => (inferList ct Γ es s).bind fun _ s => (.ok .bool, s)    -- on_and_compare
  | .or_ es, s => (inferList ct Γ es s).bind fun _ s => (.ok .bool, s)     -- on_or_compare
  | .tern a c b, s =>                                       -- on_ternary_operator
    (infer ct Γ a s).bind fun ta s =>
    (infer ct Γ c s).bind fun _ s =>
    (infer ct Γ b s).bind fun tb s =>
    if ta = tb then (.ok ta, s) else (.ok (.union (.cons ta (.cons tb .nil))), s)
  | .list es, s => (inferList ct Γ es s).bind fun ts s => onList ts s      -- on_list
  | .dict kvs, s => (inferPairs ct Γ kvs s).bind fun items s => (.ok (onDict items), s)   -- on_pair, on_dict
  | .tuple es, s => (inferList ct Γ es s).bind fun ts s => (.ok (.tuple (Tys.ofList ts)), s)   -- on_tuple
  | .index r k, s =>                                        -- on_indexer
    (infer ct Γ r s).bind fun tr s =>
    (infer ct Γ k s).bind fun _ s => R.lift (onIndex (stripNullable tr) k) s
  | .slice r lo hi, s =>                                    -- on_indexer, `node.sliced`
    (infer ct Γ r s).bind fun tr s =>
    (infer ct Γ lo s).bind fun _ s =>
    (infer ct Γ hi s).bind fun _ s => (.ok (onSlice (stripNullable tr) lo hi), s)
  | .group e, s => infer ct Γ e s                              -- on_group
  | .attr r a, s =>                                         -- on_relay
    (infer ct Γ r s).bind fun tr s => R.lift (onAttr ct tr a) s
  | .call r m args, s =>                                    -- on_relay (prop_of) then on_func_call
    (infer ct Γ r s).bind fun tr s =>
    let recv := stripNullable tr
    match findMethod ct recv.className m with
    | none => (.error .unresolved, s)
    | some row => (inferList ct Γ args s).bind fun ts s => (.ok (returnsOf row recv (Tys.ofList ts)), s)
  | .fcall f args, s =>                                     -- on_var then on_func_call (class → constructor)
    (match lookup f Γ with
     | some _ => (.error .unsupported, s)
     | none =>
       match findFunc ct f with
       | none => (.error .unresolved, s)
       | some row => (inferList ct Γ args s).bind fun ts s => (.ok (returnsOfFunc row (Tys.ofList ts)), s))
  | .listComp proj vars src cond, s =>                      -- on_for_in, on_comp_for, on_list_comp
    (infer ct Γ src s).bind fun tsrc s =>
    match iterates ct tsrc with
    | .error e => (.error e, s)
    | .ok elem =>
      let Γ' := bindVars vars elem ++ Γ
      (infer ct Γ' proj s).bind fun tp s =>
      (infer ct Γ' cond s).bind fun _ s => (.ok (.list tp), s)
  | .dictComp k v vars src cond, s =>                       -- on_dict_comp
    (infer ct Γ src s).bind fun tsrc s =>
    match iterates ct tsrc with
    | .error e => (.error e, s)
    | .ok elem =>
      let Γ' := bindVars vars elem ++ Γ
      (infer ct Γ' k s).bind fun tk s =>
      (infer ct Γ' v s).bind fun tv s =>
      (infer ct Γ' cond s).bind fun _ s => (.ok (.dict tk tv), s)
def inferList (ct : ClassTable) (Γ : Env) : Exprs → Bool → R (List Ty)
  | .nil, s => (.ok [], s)
  | .cons e es, s =>
    (infer ct Γ e s).bind fun t s =>
    (inferList ct Γ es s).bind fun ts s => (.ok (t :: ts), s)
def inferChain (ct : ClassTable) (Γ : Env) : Chain → Bool → R (List (BOp × Ty))
  | .nil, s => (.ok [], s)
  | .cons op e rest, s =>
    (infer ct Γ e s).bind fun t s =>
    (inferChain ct Γ rest s).bind fun ts s => (.ok ((op, t) :: ts), s)
def inferPairs (ct : ClassTable) (Γ : Env) : Pairs → Bool → R (List (Ty × Ty))
  | .nil, s => (.ok [], s)
  | .cons k v rest, s =>
    (infer ct Γ k s).bind fun tk s =>
    (infer ct Γ v s).bind fun tv s =>
    (inferPairs ct Γ rest s).bind fun ts s => (.ok ((tk, tv) :: ts), s)
end

end Tranp.Infer
