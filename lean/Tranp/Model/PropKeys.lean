/-
  Tranp.Model.PropKeys — executable model of `Node.prop_keys` and its class-attribute cache (property C09, anchors
  "expandable properties registered by decorator in definition order per class in MRO order").

  Modelled code (rog-works/tranp):
    rogw/tranp/syntax/node/node.py     Node.prop_keys (178-198), Node.__embed_classes (222-234)
    rogw/tranp/syntax/node/embed.py    MetaData.class_path / method_path / set_for_method / get_from_method (26-110),
                                       Meta.dig_for_method (170-186)

  The class table is data (exported by the harness from the real classes): per class its `__name__`, its metadata path
  `module.name`, and its MRO restricted to `Node` and the subclasses of `Node` (what `issubclass(ctor, Node)` keeps,
  node.py:233); per metadata path the names of the methods embedded with `expandable`, in decoration order.
-/
import Tranp.Str

namespace Tranp.PropKeys
open Tranp

abbrev Key := Str

/-- one class: `mro` lists class ids, the class itself first (Python's `cls.__mro__` without the non-Node mixins) -/
structure Cls where
  name : Str
  path : Str
  mro : List Nat
deriving Repr, Inhabited

structure Table where
  classes : List Cls
  /-- id of `Node` itself (excluded from `__embed_classes`, node.py:233) -/
  nodeId : Nat
  /-- `MetaData.__methods` restricted to the `expandable` key: class path → method names, decoration order -/
  metas : List (Str × List Key)
deriving Repr, Inhabited

def Table.cls (t : Table) (i : Nat) : Cls := t.classes.getD i ⟨[], [], []⟩

/-- `Meta.dig_for_method(Node, ctor, EmbedKeys.Expandable, …)` (embed.py:170-186, 99-110): by class path -/
def Table.metaOf (t : Table) (path : Str) : List Key :=
  match t.metas.find? (fun kv => kv.1 == path) with
  | some kv => kv.2
  | none => []

/-- `Node.__embed_classes` (node.py:233-234): the MRO without `Node`, base classes first -/
def Table.embedClasses (t : Table) (c : Nat) : List Nat :=
  ((t.cls c).mro.filter (fun i => i != t.nodeId)).reverse

/-- the cache-free computation (node.py:192-195) -/
def Table.pure (t : Table) (c : Nat) : List Key :=
  (t.embedClasses c).flatMap (fun i => t.metaOf (t.cls i).path)

/-- the cache attribute name `f'__{cls.__name__}_{cls.prop_keys.__name__}__'` (node.py:188) -/
def attrName (name : Str) : Str := ['_', '_'] ++ name ++ "_prop_keys__".toList

/-- class attributes set by `setattr(cls, key, prop_keys)` (node.py:197): (class id, attribute name, value) -/
abbrev Cache := List (Nat × Str × List Key)

/-- `hasattr(cls, key)` / `getattr(cls, key)` (node.py:189-190): the first class of the MRO that owns the attribute -/
def lookup (cache : Cache) (attr : Str) : List Nat → Option (List Key)
  | [] => none
  | i :: rest =>
    match cache.find? (fun e => e.1 == i && e.2.1 == attr) with
    | some e => some e.2.2
    | none => lookup cache attr rest

/-- one call of `cls.prop_keys()` with an arbitrary attribute-naming scheme -/
def queryWith (attrOf : Str → Str) (t : Table) (cache : Cache) (c : Nat) : Cache × List Key :=
  let attr := attrOf (t.cls c).name
  match lookup cache attr (t.cls c).mro with
  | some v => (cache, v)
  | none => let v := t.pure c; ((c, attr, v) :: cache, v)

/-- `Node.prop_keys` as it is -/
def query (t : Table) (cache : Cache) (c : Nat) : Cache × List Key := queryWith attrName t cache c

/-- the seeded variant: the attribute name no longer carries the class name -/
def queryFixedKey (t : Table) (cache : Cache) (c : Nat) : Cache × List Key :=
  queryWith (fun _ => "__prop_keys__".toList) t cache c

/-- a history of calls: the answers in order -/
def runWith (attrOf : Str → Str) (t : Table) : Cache → List Nat → Cache × List (List Key)
  | cache, [] => (cache, [])
  | cache, c :: cs =>
    let (cache1, v) := queryWith attrOf t cache c
    let (cache2, vs) := runWith attrOf t cache1 cs
    (cache2, v :: vs)

def run (t : Table) : Cache → List Nat → Cache × List (List Key) := runWith attrName t

/-- no class shares its `__name__` with another class of its own MRO (true of tranp's node definitions; checked) -/
def NamesDistinctOnMro (t : Table) : Prop :=
  ∀ c, ∀ i ∈ (t.cls c).mro, (t.cls i).name = (t.cls c).name → i = c

end Tranp.PropKeys
