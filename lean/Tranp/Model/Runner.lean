/-
  Tranp.Model.Runner — executable model of the command-line runner's "what has to be regenerated" logic (property C06).

  Modelled code (file:line of /repo):
    rogw/tranp/data/meta/header.py:13-91        MetaHeader (Tag, try_from_content, from_json, __init__, identity, __eq__, to_json, to_header_str)
    rogw/tranp/bin/transpile.py:146             Config.force = args.force or config.get('force', False)
    rogw/tranp/bin/transpile.py:303-310         Runner._run_impl (targets selected up front, then transpile + Writer per target)
    rogw/tranp/bin/transpile.py:312-325         Runner.can_transpile
    rogw/tranp/bin/transpile.py:337-349         Runner.try_load_meta_header
    rogw/tranp/bin/transpile.py:351-387         Runner.output_filepath / fetch_output_path
    rogw/tranp/lang/module.py:83-92             module_path_to_filepath
    rogw/tranp/providers/module.py:98-113       module_meta_factory (exact lookup in module_paths, hash of that module's own source, module path)
    rogw/tranp/data/version.py                  Versions.app / Versions.py2cpp (state of the world: a new release changes them)
    rogw/tranp/implements/cpp/transpiler/py2cpp.py:134-137, 465-467   transpiler meta, header rendered into the entrypoint block
    data/cpp/template/block/entrypoint.j2:1     `// {{ meta_header }}` + line break + body
    rogw/tranp/file/writer.py:26-47             Writer.flush (makedirs + open(..., 'wb'))
    posixpath.join / posixpath.normpath / posixpath.abspath, str.find / str.rfind / slicing (CPython semantics, incl. negative bounds)

  Not modelled (parameters of the model, DESIGN.md §8): the JSON *parser* (`Env.loads`), md5 (`Env.hash`, `Env.md5`), the
  transpiler body (`Env.out`, may depend on every source), the source texts themselves (type parameter `σ`).
  `json.dumps(..., separators=(',', ':'))` (with the default `ensure_ascii=True`) IS modelled (`dumps`), for values without floats.
-/
import Tranp.Str

namespace Tranp.Runner
open Tranp

/-- exceptions that can escape the modelled code (same enum as `harness.common.exc_enum`) -/
inductive Err
  | valueError      -- json.JSONDecodeError (a ValueError), `a, b = x.split(':')`
  | keyError        -- raw['module'] on a dict without the key
  | typeError       -- raw['module'] on a non-dict
  | indexError      -- output_dirs[-1] on an empty list
  | never           -- Errors.Never (MetaHeader.__eq__ with a non-MetaHeader)
  | unsupported     -- guard of the model: construct outside the modelled subset (regex metacharacter in a glob condition, …)
  | other (tag : Str)  -- an exception of the transpiler body (parameter `Env.out`)
deriving DecidableEq, Repr, Inhabited

def Err.toString : Err → String
  | .valueError => "ValueError"
  | .keyError => "KeyError"
  | .typeError => "TypeError"
  | .indexError => "IndexError"
  | .never => "Errors.Never"
  | .unsupported => "out-of-model"
  | .other t => "Other:" ++ String.ofList t

/-! ## Python `str` primitives with CPython's index adjustment -/

/-- `start` of `find/rfind/slice`: negative counts from the end, then clamps at 0 (not clamped above) -/
def adjStart (len : Nat) (i : Int) : Nat := if i < 0 then (i + len).toNat else i.toNat

/-- `end` of `find/rfind/slice`: negative counts from the end, clamps into `[0, len]` -/
def adjEnd (len : Nat) (i : Int) : Nat := if i < 0 then (i + len).toNat else min i.toNat len

/-- `s.find(sub, start)`; `-1` = not found -/
def pyFind (s sub : Str) (start : Int) : Int :=
  let st := adjStart s.length start
  if s.length < st then -1 else
  match Str.find (s.drop st) sub with
  | some i => ((st + i : Nat) : Int)
  | none => -1

/-- index of the last occurrence of `c` -/
def lastIdx (c : Char) : Str → Option Nat
  | [] => none
  | x :: xs => match lastIdx c xs with
    | some i => some (i + 1)
    | none => if x = c then some 0 else none

/-- `s.rfind(c, start, stop)` for a one-character pattern -/
def pyRfindChar (s : Str) (c : Char) (start stop : Int) : Int :=
  let st := adjStart s.length start
  let en := adjEnd s.length stop
  match lastIdx c ((s.take en).drop st) with
  | some i => ((st + i : Nat) : Int)
  | none => -1

/-- `s[a:b]` -/
def pySlice (s : Str) (a b : Int) : Str := (s.take (adjEnd s.length b)).drop (adjStart s.length a)

/-! ## JSON values and `json.dumps(v, separators=(',', ':'))` -/

inductive Json
  | null
  | bool (b : Bool)
  | num (i : Int)
  | str (s : Str)
  | arr (xs : List Json)
  /-- a `dict` with `str` keys in insertion order (keys pairwise distinct when it comes from `Env.loads`) -/
  | obj (kvs : List (Str × Json))

/-- lower-case hex digit -/
def hexDigit (n : Nat) : Char := if n < 10 then Char.ofNat (48 + n) else Char.ofNat (87 + n)

/-- `'\\u{0:04x}'.format(n)` -/
def u4 (n : Nat) : Str := ['\\', 'u', hexDigit (n / 4096 % 16), hexDigit (n / 256 % 16), hexDigit (n / 16 % 16), hexDigit (n % 16)]

/-- json.encoder.py_encode_basestring_ascii: everything outside `' '..'~'` plus quote and backslash is escaped -/
def escChar (c : Char) : Str :=
  if c = '"' then ['\\', '"']
  else if c = '\\' then ['\\', '\\']
  else if c = '\n' then ['\\', 'n']
  else if c = '\r' then ['\\', 'r']
  else if c = '\t' then ['\\', 't']
  else if c.toNat = 8 then ['\\', 'b']
  else if c.toNat = 12 then ['\\', 'f']
  else if 32 ≤ c.toNat ∧ c.toNat ≤ 126 then [c]
  else if c.toNat < 65536 then u4 c.toNat
  else u4 (55296 + (c.toNat - 65536) / 1024) ++ u4 (56320 + (c.toNat - 65536) % 1024)

def dumpStr (s : Str) : Str := '"' :: (s.flatMap escChar ++ ['"'])

mutual
  def dumps : Json → Str
    | .null => ['n', 'u', 'l', 'l']
    | .bool true => ['t', 'r', 'u', 'e']
    | .bool false => ['f', 'a', 'l', 's', 'e']
    | .num i => Str.intToDec i
    | .str s => dumpStr s
    | .arr [] => ['[', ']']
    | .arr (x :: xs) => '[' :: (dumps x ++ (dumpsTail xs ++ [']']))
    | .obj [] => ['{', '}']
    | .obj ((k, v) :: kvs) => '{' :: (dumpStr k ++ ':' :: (dumps v ++ (dumpsKvTail kvs ++ ['}'])))
  def dumpsTail : List Json → Str
    | [] => []
    | x :: xs => ',' :: (dumps x ++ dumpsTail xs)
  def dumpsKvTail : List (Str × Json) → Str
    | [] => []
    | (k, v) :: kvs => ',' :: (dumpStr k ++ ':' :: (dumps v ++ dumpsKvTail kvs))
end

/-- Python truthiness of a decoded JSON value (`not v`) -/
def falsy : Json → Bool
  | .null => true
  | .bool b => !b
  | .num i => i == 0
  | .str s => s.isEmpty
  | .arr xs => xs.isEmpty
  | .obj kvs => kvs.isEmpty

/-- `raw[key]` -/
def getItem (raw : Json) (key : Str) : Except Err Json :=
  match raw with
  | .obj kvs => match kvs.lookup key with
    | some v => .ok v
    | none => .error .keyError
  | _ => .error .typeError

/-- `j[k1][k2]…` on nested dicts -/
def Json.getPath : Json → List Str → Option Json
  | j, [] => some j
  | .obj kvs, k :: ks => match kvs.lookup k with
    | some v => v.getPath ks
    | none => none
  | _, _ :: _ => none

mutual
  /-- the key paths of all non-dict values below a JSON value (what a comparison of the serialised text compares) -/
  def Json.leafPaths : Json → List (List Str)
    | .obj kvs => leafPathsKvs kvs
    | _ => [[]]
  def leafPathsKvs : List (Str × Json) → List (List Str)
    | [] => []
    | (k, v) :: rest => (v.leafPaths.map (k :: ·)) ++ leafPathsKvs rest
end

/-! ## MetaHeader (data/meta/header.py) -/

/-- `MetaHeader.Tag` (header.py:13) -/
def Tag : Str := ['@', 't', 'r', 'a', 'n', 'p', '.', 'm', 'e', 't', 'a']

structure Header where
  version : Json
  module : Json
  transpiler : Json

/-- `MetaHeader.__init__` (header.py:45-55): `self.app_version = app_version or Versions.app` -/
def Header.make (appVersion : Str) (moduleMeta transpilerMeta : Json) (version : Option Json) : Header :=
  { version := match version with
      | some v => if falsy v then .str appVersion else v
      | none => .str appVersion
    module := moduleMeta
    transpiler := transpilerMeta }

def kVersion : Str := ['v', 'e', 'r', 's', 'i', 'o', 'n']
def kModule : Str := ['m', 'o', 'd', 'u', 'l', 'e']
def kTranspiler : Str := ['t', 'r', 'a', 'n', 's', 'p', 'i', 'l', 'e', 'r']
def kHash : Str := ['h', 'a', 's', 'h']
def kPath : Str := ['p', 'a', 't', 'h']

/-- the dict of `to_json` (header.py:83) -/
def Header.toJsonVal (h : Header) : Json :=
  .obj [(kVersion, h.version), (kModule, h.module), (kTranspiler, h.transpiler)]

/-- `MetaHeader.to_json` (header.py:77-83) -/
def Header.toJson (h : Header) : Str := dumps h.toJsonVal

/-- `MetaHeader.to_header_str` (header.py:85-91): `f'{Tag}: {to_json()}'` -/
def Header.toHeaderStr (h : Header) : Str := Tag ++ (':' :: ' ' :: h.toJson)

/-- the text handed to `from_json` by `try_from_content` (header.py:24-31); `none` = no tag (→ `None`) -/
def headerSlice (content : Str) : Option Str :=
  let headerBegin := pyFind content Tag 0
  if headerBegin = -1 then none else
  let jsonBegin := headerBegin + (Tag.length : Int) + 1
  let lineBreak := pyFind content ['\n'] jsonBegin
  let jsonEnd := pyRfindChar content '}' jsonBegin lineBreak + 1
  some (pySlice content jsonBegin jsonEnd)

/-- `MetaHeader.from_json` (header.py:33-43) over an abstract `json.loads` -/
def fromJson (loads : Str → Except Err Json) (appVersion : Str) (text : Str) : Except Err Header := do
  let raw ← loads text
  let m ← getItem raw kModule
  let t ← getItem raw kTranspiler
  let v ← getItem raw kVersion
  pure (Header.make appVersion m t (some v))

/-- `MetaHeader.try_from_content` (header.py:15-31) -/
def tryFromContent (loads : Str → Except Err Json) (appVersion : Str) (content : Str) : Except Err (Option Header) :=
  match headerSlice content with
  | none => .ok none
  | some text => (fromJson loads appVersion text).map some

/-- `MetaHeader.identity` (header.py:57-60) over an abstract md5 -/
def Header.identity (md5 : Str → Str) (h : Header) : Str := md5 h.toJson

/-- the right operand of `==` -/
inductive PyVal
  | header (h : Header)
  | notHeader

/-- `MetaHeader.__eq__` (header.py:62-75) -/
def Header.pyEq (md5 : Str → Str) (h : Header) : PyVal → Except Err Bool
  | .header o => .ok (h.identity md5 == o.identity md5)
  | .notHeader => .error .never

/-! ## output paths (bin/transpile.py:351-387) -/

/-- `os.path.join(a, b)` (posixpath) -/
def osJoin (a b : Str) : Str :=
  if Str.startsWith b ['/'] then b
  else if a = [] ∨ Str.endsWith a ['/'] then a ++ b
  else a ++ '/' :: b

/-- one step of the component loop of `posixpath.normpath`; the stack is kept in path order -/
def normStep (isAbs : Bool) (stack : List Str) (comp : Str) : List Str :=
  if comp = [] ∨ comp = ['.'] then stack
  else if comp ≠ ['.', '.'] ∨ (isAbs = false ∧ stack = []) ∨ (stack ≠ [] ∧ stack.getLast? = some ['.', '.']) then stack ++ [comp]
  else stack.dropLast

def normComps (isAbs : Bool) (comps : List Str) : List Str := comps.foldl (normStep isAbs) []

/-- number of leading slashes `normpath` keeps: POSIX allows exactly two to be significant -/
def initialSlashes (p : Str) : Nat :=
  if Str.startsWith p ['/'] then
    (if Str.startsWith p ['/', '/'] && !Str.startsWith p ['/', '/', '/'] then 2 else 1)
  else 0

/-- `os.path.normpath(p)` (posixpath) -/
def normpath (p : Str) : Str :=
  if p = [] then ['.'] else
  let n := initialSlashes p
  let r := List.replicate n '/' ++ Str.join ['/'] (normComps (n != 0) (Str.splitOn '/' p))
  if r = [] then ['.'] else r

/-- `os.path.abspath(p)` with the working directory as parameter -/
def abspath (cwd p : Str) : Str := normpath (if Str.startsWith p ['/'] then p else osJoin cwd p)

/-- `module_path_to_filepath(path, ext)` (lang/module.py:83-92) -/
def moduleToFilepath (modulePath ext : Str) : Str := modulePath.map (fun c => if c = '.' then '/' else c) ++ ext

/-- `extension_map[1] if len(extension_map) == 2 else extension_map[0]` (transpile.py:359-360) -/
def extension (lang : Str) : Str :=
  match Str.splitOn ':' lang with
  | [_, b] => b
  | a :: _ => a
  | [] => []

/-- regular-expression atoms that `condition.replace('*', '.+')` can contain in the modelled subset -/
inductive Atom
  | lit (c : Char)
  | any      -- `.`  (the condition is not escaped: a dot of the directory name is a wildcard)
  | plus     -- `.+` (from `*`)
deriving DecidableEq, Repr

def litChar (c : Char) : Bool := c.isAlphanum || c == '_' || c == '/' || c == '-'

def atomOf (c : Char) : Except Err Atom :=
  if c = '*' then .ok .plus
  else if c = '.' then .ok .any
  else if litChar c then .ok (.lit c)
  else .error .unsupported

def atomsOf : Str → Except Err (List Atom)
  | [] => .ok []
  | c :: cs => match atomOf c with
    | .error e => .error e
    | .ok a => match atomsOf cs with
      | .error e => .error e
      | .ok r => .ok (a :: r)

/-- `.+` followed by the rest `k`: one or more non-newline characters, then `k` -/
def plusGo (k : Str → Bool) : Str → Bool
  | [] => false
  | x :: s => x != '\n' && (k s || plusGo k s)

/-- `re.fullmatch(pattern, s) is not None` -/
def matchAtoms : List Atom → Str → Bool
  | [], s => s.isEmpty
  | .lit c :: r, s => match s with
    | [] => false
    | x :: s' => x == c && matchAtoms r s'
  | .any :: r, s => match s with
    | [] => false
    | x :: s' => x != '\n' && matchAtoms r s'
  | .plus :: r, s => plusGo (matchAtoms r) s

/-- the loop of `fetch_output_path` (transpile.py:375-387) over `output_dirs[:-1]` -/
def fetchLoop (fallback filepath : Str) : List Str → Except Err Str
  | [] => .ok (osJoin fallback filepath)
  | entry :: rest =>
    match Str.splitOn ':' entry with
    | [condition, outputDir] =>
      let tryPrefix : Except Err Str :=
        if Str.startsWith filepath condition then .ok (osJoin outputDir (filepath.drop condition.length))
        else fetchLoop fallback filepath rest
      if Str.endsWith condition ['*'] then
        match atomsOf condition with
        | .error e => .error e
        | .ok atoms => if matchAtoms atoms filepath then .ok (osJoin outputDir filepath) else tryPrefix
      else tryPrefix
    | _ => .error .valueError

/-- `Runner.fetch_output_path` (transpile.py:365-387); `output_dirs[-1]` of an empty list raises IndexError -/
def fetchOutputPath (dirs : List Str) (filepath : Str) : Except Err Str :=
  match dirs.getLast? with
  | none => .error .indexError
  | some fallback => fetchLoop fallback filepath dirs.dropLast

structure Cfg where
  /-- `output_dirs` -/
  dirs : List Str
  /-- `output_language` -/
  lang : Str
  /-- `config.get('force')`: `none` = the key is absent from the config file -/
  forceCfg : Option Bool
  /-- working directory of the process (absolute) -/
  cwd : Str

/-- `Runner.output_filepath` (transpile.py:351-363) -/
def outputFilepath (cfg : Cfg) (modulePath : Str) : Except Err Str :=
  match fetchOutputPath cfg.dirs (moduleToFilepath modulePath ('.' :: extension cfg.lang)) with
  | .error e => .error e
  | .ok p => .ok (abspath cfg.cwd p)

/-- `Config.force = args.force or config.get('force', False)` (transpile.py:146, after fix 4888761: the flag wins) -/
def effForce (cfg : Cfg) (argForce : Bool) : Bool :=
  argForce || (match cfg.forceCfg with
    | some b => b
    | none => false)

/-- `r == Ok p` -/
def isOkEq (r : Except Err Str) (p : Str) : Bool :=
  match r with
  | .ok q => q == p
  | .error _ => false

/-- decidable check: every listed module has an output path and the paths are pairwise distinct -/
def noOverlapFrom (cfg : Cfg) : List Str → Bool
  | [] => true
  | m :: ms =>
    (match outputFilepath cfg m with
      | .error _ => false
      | .ok p => ms.all (fun m' => !isOkEq (outputFilepath cfg m') p)) && noOverlapFrom cfg ms

def NoOverlap (cfg : Cfg) (mods : List Str) : Prop := noOverlapFrom cfg mods = true

instance (cfg : Cfg) (mods : List Str) : Decidable (NoOverlap cfg mods) := by unfold NoOverlap; infer_instance

/-! ## the runner -/

abbrev Text := Str

structure File where
  content : Text
  /-- value of the (virtual, strictly increasing) clock at the write -/
  mtime : Nat
deriving DecidableEq, Repr

/-- `Versions.app`, `Versions.py2cpp` (data/version.py): the versions compiled into the running program -/
structure Vers where
  app : Str
  py2cpp : Str
deriving DecidableEq, Repr

/-- everything the runner treats as opaque; `σ` = the type of source texts -/
structure Env (σ : Type) where
  /-- `sources.hash(filepath)`: md5 of the module's own source file (providers/module.py:111) -/
  hash : σ → Str
  /-- md5 of a JSON text (`MetaHeader.identity`) -/
  md5 : Str → Str
  /-- `json.loads` -/
  loads : Str → Except Err Json
  /-- the transpiled text below the header line; may depend on every source (imports) -/
  out : (Str → σ) → Str → Except Err Text
  /-- `to_fullyname(Py2Cpp)` -/
  tModule : Str

structure World (σ : Type) where
  /-- `module_paths`, in the order of the input globs -/
  mods : List Str
  /-- current source of each module -/
  src : Str → σ
  /-- output tree, keyed by absolute path -/
  files : Str → Option File
  cfg : Cfg
  clock : Nat
  /-- versions of the program that performs the next run (a new release changes them) -/
  ver : Vers
  /-- GHOST state (never read by the runner, used only to state theorems about histories): the sources as they were when the
      file at a path was last written by a run -/
  prov : Str → Option (Str → σ)

variable {σ : Type}

/-! ### `module_meta_factory` (providers/module.py:98-113): lookup of the module in `module_paths` -/

/-- `ModulePath(path, language)` -/
structure ModPath where
  path : Str
  language : Str
deriving DecidableEq, Repr

/-- `module_paths[[p.path for p in module_paths].index(module_path)]`: the FIRST entry with exactly that path; `list.index`
    raises ValueError when there is none -/
def metaLookup : List ModPath → Str → Except Err ModPath
  | [], _ => .error .valueError
  | mp :: rest, m => if mp.path = m then .ok mp else metaLookup rest m

/-- the file whose md5 the factory records: `module_path_to_filepath(target.path, '.' + target.language)` -/
def metaFile (mps : List ModPath) (m : Str) : Except Err Str :=
  match metaLookup mps m with
  | .error e => .error e
  | .ok mp => .ok (moduleToFilepath mp.path ('.' :: mp.language))

/-- `module_meta_factory(module_paths, sources)(module_path)` over an abstract `sources.hash` on file paths -/
def factoryMeta (hashFile : Str → Str) (mps : List ModPath) (m : Str) : Except Err Json :=
  match metaFile mps m with
  | .error e => .error e
  | .ok f => .ok (.obj [(kHash, .str (hashFile f)), (kPath, .str m)])

/-- `sub in s` -/
def isInfix (sub : Str) : Str → Bool
  | [] => sub.isEmpty
  | c :: cs => Str.startsWith (c :: cs) sub || isInfix sub cs

/-- NOT THE CODE — the seeded variant `next(c for c in module_paths if module_path in c.path)` (substring containment, first hit),
    kept as a regression example: `C06.meta_lookup_substring_counterexample` shows it records a sibling's hash -/
def metaLookupSubstr : List ModPath → Str → Except Err ModPath
  | [], _ => .error (.other ['S', 't', 'o', 'p', 'I', 't', 'e', 'r', 'a', 't', 'i', 'o', 'n'])
  | mp :: rest, m => if isInfix m mp.path then .ok mp else metaLookupSubstr rest m

/-! ### the runner proper -/

/-- `module_meta_factory(path)` as JSON value, for a listed module whose own source is `s` (see `C06.meta_lookup_exact`) -/
def moduleMeta (E : Env σ) (s : σ) (m : Str) : Json := .obj [(kHash, .str (E.hash s)), (kPath, .str m)]

/-- `Py2Cpp.meta` (py2cpp.py:134-137) -/
def transpilerMeta (E : Env σ) (v : Vers) : Json := .obj [(kVersion, .str v.py2cpp), (kModule, .str E.tModule)]

/-- `MetaHeader(module_meta_factory(path), transpiler.meta)` for module `m` with source `s`, built by a program of versions `v` -/
def curHeader (E : Env σ) (v : Vers) (s : σ) (m : Str) : Header := Header.make v.app (moduleMeta E s m) (transpilerMeta E v) none

/-- the text of an output file (entrypoint.j2: `// {{ meta_header }}` line, then the body) -/
def renderText (E : Env σ) (v : Vers) (s : σ) (m : Str) (body : Text) : Text :=
  ['/', '/', ' '] ++ ((curHeader E v s m).toHeaderStr ++ '\n' :: body)

/-- what `transpiler.transpile(entrypoint)` returns for module `m` -/
def render (E : Env σ) (v : Vers) (src : Str → σ) (m : Str) : Except Err Text :=
  match E.out src m with
  | .error e => .error e
  | .ok body => .ok (renderText E v (src m) m body)

/-- `Runner.try_load_meta_header` (transpile.py:337-349) -/
def tryLoadMetaHeader (E : Env σ) (w : World σ) (m : Str) : Except Err (Option Header) :=
  match outputFilepath w.cfg m with
  | .error e => .error e
  | .ok p => match w.files p with
    | none => .ok none
    | some f => tryFromContent E.loads w.ver.app f.content

/-- `Runner.can_transpile` (transpile.py:312-325) -/
def canTranspile (E : Env σ) (w : World σ) (m : Str) : Except Err Bool :=
  match tryLoadMetaHeader E w m with
  | .error e => .error e
  | .ok none => .ok true
  | .ok (some old) => .ok ((curHeader E w.ver (w.src m) m).identity E.md5 != old.identity E.md5)

/-- `[module_path for module_path in self.module_paths if self.can_transpile(module_path)]` -/
def selectFrom (E : Env σ) (w : World σ) : List Str → Except Err (List Str)
  | [] => .ok []
  | m :: ms => match canTranspile E w m with
    | .error e => .error e
    | .ok b => match selectFrom E w ms with
      | .error e => .error e
      | .ok ts => .ok (if b then m :: ts else ts)

/-- `target_paths` (transpile.py:305) — computed before any file is written -/
def targets (E : Env σ) (w : World σ) (argForce : Bool) : Except Err (List Str) :=
  if effForce w.cfg argForce then .ok w.mods else selectFrom E w w.mods

/-- `Writer(path).put(content).flush()` (file/writer.py); the ghost field remembers the sources of the moment -/
def World.write (w : World σ) (p : Str) (c : Text) : World σ :=
  { w with files := fun q => if q = p then some ⟨c, w.clock⟩ else w.files q, clock := w.clock + 1,
           prov := fun q => if q = p then some w.src else w.prov q }

structure RunResult (σ : Type) where
  world : World σ
  /-- the paths the Writer was invoked with, in order -/
  written : List Str
  /-- the exception that ended the run, if any -/
  status : Option Err

/-- the loop of `_run_impl` (transpile.py:306-310) -/
def writeAll (E : Env σ) (w : World σ) : List Str → RunResult σ
  | [] => ⟨w, [], none⟩
  | m :: ms => match render E w.ver w.src m with
    | .error e => ⟨w, [], some e⟩
    | .ok c => match outputFilepath w.cfg m with
      | .error e => ⟨w, [], some e⟩
      | .ok p =>
        let r := writeAll E (w.write p c) ms
        ⟨r.world, p :: r.written, r.status⟩

/-- `Runner._run_impl` (transpile.py:303-310) -/
def runStep (E : Env σ) (w : World σ) (argForce : Bool) : RunResult σ :=
  match targets E w argForce with
  | .error e => ⟨w, [], some e⟩
  | .ok ts => writeAll E w ts

/-- what a genuinely forced run does: every module is transpiled and written -/
def forcedRun (E : Env σ) (w : World σ) : RunResult σ := writeAll E w w.mods

inductive Op (σ : Type)
  | edit (m : Str) (s : σ)
  | run (argForce : Bool)
  | rmOutput (m : Str)
  | setDirs (dirs : List Str)
  /-- rewrite the `force:` key of the config file (`none` = remove it) -/
  | setForce (f : Option Bool)
  /-- later runs are performed by a release with these versions (`Versions.app`, `Versions.py2cpp`) -/
  | setVer (v : Vers)

def step (E : Env σ) (w : World σ) : Op σ → World σ
  | .edit m s => { w with src := fun q => if q = m then s else w.src q }
  | .run f => (runStep E w f).world
  | .rmOutput m => match outputFilepath w.cfg m with
    | .error _ => w
    | .ok p => { w with files := fun q => if q = p then none else w.files q, prov := fun q => if q = p then none else w.prov q }
  | .setDirs ds => { w with cfg := { w.cfg with dirs := ds } }
  | .setForce f => { w with cfg := { w.cfg with forceCfg := f } }
  | .setVer v => { w with ver := v }

def exec (E : Env σ) (w : World σ) (ops : List (Op σ)) : World σ := ops.foldl (step E) w

/-- the file trees agree in which paths exist and in every file's bytes (modification times are not compared) -/
def SameContents (a b : Str → Option File) : Prop := ∀ p, (a p).map (·.content) = (b p).map (·.content)

end Tranp.Runner
