/-
  Tranp.Model.PyEval — CPython 3.12's dynamic semantics for the expression core of `Tranp.Model.Infer`:
  `eval : VEnv → Expr → Except Err Val` and `typeOf : Val → Ty` (= `describe(type(v))` of harness/c03.py).

  Domain notes (the generators of harness/c03.py stay inside; outside the model answers `unsupported`):
  * `float` is Lean's `Float` (IEEE binary64 like CPython's); `%` on floats is computed by an exact `fmod`;
  * iterators (`range`, `dict.keys()`, `enumerate`, …) are represented by the list of the items they yield — they are
    only generated where they are consumed (`list(…)`, the `in` clause of a comprehension);
  * identity (`is`) is modelled for comparisons with `None` only; ordering and equality of dicts are not modelled;
  * mutating methods (`pop`, `append`, …) are not evaluated (the expression semantics here is pure).
-/
import Tranp.Model.Infer

namespace Tranp.Infer
open Tranp

inductive Val where
  | int (n : Int)
  | float (f : Float)
  | bool (b : Bool)
  | str (s : Str)
  | none
  | list (vs : List Val)
  | dict (ks vs : List Val)     -- insertion-ordered keys and their values (same length)
  | tuple (vs : List Val)
  | obj (c : Str) (fields : List Str) (vals : List Val)   -- an instance of the user class `c`: its instance dict (names, values)

instance : Inhabited Val := ⟨.none⟩

abbrev VEnv := List (Str × Val)

/-! ## run-time types -/

def dedupTys : List Ty → List Ty
  | [] => []
  | t :: ts => t :: (dedupTys ts).filter (· ≠ t)

/-- the element type of a container as `describe` reports it: `Unknown` when empty, a `Union` when mixed -/
def elemTy (ts : List Ty) : Ty :=
  match dedupTys ts with
  | [] => .unknown
  | [t] => t
  | l => .union (Tys.ofList l)

mutual
/-- `describe(type(v))`, recursively for containers -/
def typeOf : Val → Ty
  | .int _ => .int
  | .float _ => .float
  | .bool _ => .bool
  | .str _ => .str
  | .none => .none
  | .list vs => .list (elemTy (typeOfL vs))
  | .dict ks vs => .dict (elemTy (typeOfL ks)) (elemTy (typeOfL vs))
  | .tuple vs => .tuple (Tys.ofList (typeOfL vs))
  | .obj c _ _ => .cls c .nil
def typeOfL : List Val → List Ty
  | [] => []
  | v :: vs => typeOf v :: typeOfL vs
end

mutual
/-- canonical spelling of a value for the line protocol (floats only as `f`: their digits are not compared) -/
def Val.render : Val → String
  | .int n => toString n
  | .float _ => "f"
  | .bool b => if b then "true" else "false"
  | .str s => Str.hex s
  | .none => "none"
  | .list vs => "[" ++ Val.renderL vs ++ "]"
  | .tuple vs => "(" ++ Val.renderL vs ++ ")"
  | .dict ks vs => "{" ++ Val.renderL ks ++ "|" ++ Val.renderL vs ++ "}"
  | .obj c _ _ => "<" ++ String.ofList c ++ ">"
def Val.renderL : List Val → String
  | [] => ""
  | v :: vs => Val.render v ++ " " ++ Val.renderL vs
end

/-! ## int and float primitives -/

/-- Python `&` on ints (two's complement, arbitrary precision) -/
def intAnd : Int → Int → Int
  | .ofNat a, .ofNat b => .ofNat (a &&& b)
  | .ofNat a, .negSucc b => .ofNat (a - (a &&& b))
  | .negSucc a, .ofNat b => .ofNat (b - (b &&& a))
  | .negSucc a, .negSucc b => .negSucc (a ||| b)

def intOr : Int → Int → Int
  | .ofNat a, .ofNat b => .ofNat (a ||| b)
  | .ofNat a, .negSucc b => .negSucc (b - (b &&& a))
  | .negSucc a, .ofNat b => .negSucc (a - (a &&& b))
  | .negSucc a, .negSucc b => .negSucc (a &&& b)

def intXor : Int → Int → Int
  | .ofNat a, .ofNat b => .ofNat (a ^^^ b)
  | .ofNat a, .negSucc b => .negSucc (a ^^^ b)
  | .negSucc a, .ofNat b => .negSucc (a ^^^ b)
  | .negSucc a, .negSucc b => .ofNat (a ^^^ b)

def fmodLoop : Nat → Float → Float → Float
  | 0, a, _ => a
  | fuel + 1, a, b =>
    if a < b then a
    else
      let t := Float.scaleB b ((Float.frExp a).2 - (Float.frExp b).2)
      let t := if t > a then Float.scaleB t (-1) else t
      fmodLoop fuel (a - t) b

/-- `float.__mod__` (Objects/floatobject.c `float_rem`): C `fmod`, then the sign of the divisor -/
def pyFloatMod (x y : Float) : Float :=
  let r := fmodLoop 2200 x.abs y.abs
  let r := if x < 0 then -r else r
  if r != 0 then (if (y < 0) != (r < 0) then r + y else r)
  else if y < 0 then -0.0 else 0.0

inductive Num where
  | i (n : Int)
  | f (x : Float)

def Num.toFloat : Num → Float
  | .i n => Float.ofInt n
  | .f x => x

def b2i (b : Bool) : Int := if b then 1 else 0

/-- `int` and its subclass `bool` -/
def asInt? : Val → Option Int
  | .int n => some n
  | .bool b => some (b2i b)
  | _ => Option.none

def asNum? : Val → Option Num
  | .int n => some (.i n)
  | .bool b => some (.i (b2i b))
  | .float x => some (.f x)
  | _ => Option.none

def numEq : Num → Num → Bool
  | .i a, .i b => a = b
  | a, b => a.toFloat == b.toFloat

def numLt : Num → Num → Bool
  | .i a, .i b => a < b
  | a, b => a.toFloat < b.toFloat

def truthy : Val → Bool
  | .int n => n ≠ 0
  | .float x => x != 0
  | .bool b => b
  | .str s => !s.isEmpty
  | .none => false
  | .list vs => !vs.isEmpty
  | .dict ks _ => !ks.isEmpty
  | .tuple vs => !vs.isEmpty
  | .obj _ _ _ => true      -- (no `__bool__` / `__len__` in the modelled classes)

mutual
/-- Python `==` (numbers compare across int/bool/float; containers element-wise; dicts are outside the model) -/
def pyEq : Val → Val → Bool
  | .str a, .str b => a = b
  | .none, .none => true
  | .list a, .list b => pyEqL a b
  | .tuple a, .tuple b => pyEqL a b
  | .int a, y => (match asNum? y with | some b => numEq (.i a) b | Option.none => false)
  | .bool a, y => (match asNum? y with | some b => numEq (.i (b2i a)) b | Option.none => false)
  | .float a, y => (match asNum? y with | some b => numEq (.f a) b | Option.none => false)
  | _, _ => false
def pyEqL : List Val → List Val → Bool
  | [], [] => true
  | x :: xs, y :: ys => pyEq x y && pyEqL xs ys
  | _, _ => false
end

mutual
def hasDict : Val → Bool
  | .dict _ _ => true
  | .list vs => hasDictL vs
  | .tuple vs => hasDictL vs
  | _ => false
def hasDictL : List Val → Bool
  | [] => false
  | v :: vs => hasDict v || hasDictL vs
end

mutual
def hashable : Val → Bool
  | .list _ => false
  | .dict _ _ => false
  | .tuple vs => hashableL vs
  | _ => true
def hashableL : List Val → Bool
  | [] => true
  | v :: vs => hashable v && hashableL vs
end

/-! ## str primitives -/

def strLt : Str → Str → Bool
  | [], [] => false
  | [], _ :: _ => true
  | _ :: _, [] => false
  | a :: as, b :: bs => if a.toNat < b.toNat then true else if a.toNat > b.toNat then false else strLt as bs

def repeatList {α : Type} (xs : List α) : Nat → List α
  | 0 => []
  | n + 1 => xs ++ repeatList xs n

/-- `s.split(sep)`, `sep` non-empty -/
def splitStr (sep : Str) : Str → Nat → Str → List Str
  | [], _, acc => [acc.reverse]
  | _ :: cs, skip + 1, acc => splitStr sep cs skip acc
  | c :: cs, 0, acc =>
    if Str.startsWith (c :: cs) sep then acc.reverse :: splitStr sep cs (sep.length - 1) []
    else splitStr sep cs 0 (c :: acc)

/-- `s.count(sub)`, non-overlapping, `sub` non-empty -/
def countStr (sub : Str) : Str → Nat → Nat
  | [], _ => 0
  | _ :: cs, skip + 1 => countStr sub cs skip
  | c :: cs, 0 => if Str.startsWith (c :: cs) sub then 1 + countStr sub cs (sub.length - 1) else countStr sub cs 0

/-- `s.replace(a, b)`, `a` non-empty -/
def replaceStr (a b : Str) : Str → Nat → Str
  | [], _ => []
  | _ :: cs, skip + 1 => replaceStr a b cs skip
  | c :: cs, 0 => if Str.startsWith (c :: cs) a then b ++ replaceStr a b cs (a.length - 1) else c :: replaceStr a b cs 0

def substrOf (sub s : Str) : Bool := (Str.find s sub).isSome

/-! ## sequences -/

/-- Python index normalisation: negative indices count from the end -/
def normIndex (n : Nat) (i : Int) : Option Nat :=
  if i < 0 then (if i.natAbs ≤ n then some (n - i.natAbs) else Option.none)
  else (if i.toNat < n then some i.toNat else Option.none)

/-- `PySlice_AdjustIndices` for step 1 -/
def clampIndex (n : Nat) (i : Int) : Nat :=
  if i < 0 then n - i.natAbs else min i.toNat n

def sliceList {α : Type} (xs : List α) (lo hi : Option Int) : List α :=
  let n := xs.length
  let l := match lo with | some i => clampIndex n i | Option.none => 0
  let h := match hi with | some i => clampIndex n i | Option.none => n
  (xs.drop l).take (h - l)

def sliceBound : Val → Except Err (Option Int)
  | .none => .ok Option.none
  | v => match asInt? v with | some i => .ok (some i) | Option.none => .error .typeErr

def dictGet (ks vs : List Val) (k : Val) : Option Val :=
  match ks, vs with
  | k' :: ks', v :: vs' => if pyEq k' k then some v else dictGet ks' vs' k
  | _, _ => Option.none

/-- `d[k] = v` on an insertion-ordered dict: an equal key keeps its position and its first spelling -/
def dictPut (ks vs : List Val) (k v : Val) : List Val × List Val :=
  match ks, vs with
  | k' :: ks', v' :: vs' =>
    if pyEq k' k then (k' :: ks', v :: vs')
    else let (a, b) := dictPut ks' vs' k v; (k' :: a, v' :: b)
  | _, _ => ([k], [v])

def dictOfPairs : List (Val × Val) → List Val × List Val → List Val × List Val
  | [], acc => acc
  | (k, v) :: rest, (ks, vs) => dictOfPairs rest (dictPut ks vs k v)

def zipTuples : List Val → List Val → List Val
  | k :: ks, v :: vs => .tuple [k, v] :: zipTuples ks vs
  | _, _ => []

def enumFrom : Nat → List Val → List Val
  | _, [] => []
  | i, v :: vs => .tuple [.int i, v] :: enumFrom (i + 1) vs

def rangeList : Nat → Nat → List Val
  | 0, _ => []
  | n + 1, i => .int i :: rangeList n (i + 1)

/-- the items an iterable yields -/
def iterItems : Val → Except Err (List Val)
  | .list vs => .ok vs
  | .tuple vs => .ok vs
  | .dict ks _ => .ok ks
  | .str s => .ok (s.map fun c => .str [c])
  | _ => .error .typeErr

/-! ## operators -/

def arithNum (op : BOp) (a b : Num) : Except Err Val :=
  match a, b with
  | .i x, .i y =>
    (match op with
     | .add => .ok (.int (x + y))
     | .sub => .ok (.int (x - y))
     | .mul => .ok (.int (x * y))
     | .div => if y = 0 then .error .zeroDiv else .ok (.float (Float.ofInt x / Float.ofInt y))
     | .mod => if y = 0 then .error .zeroDiv else .ok (.int (Int.fmod x y))
     | _ => .error .unsupported)
  | a, b =>
    let x := a.toFloat
    let y := b.toFloat
    (match op with
     | .add => .ok (.float (x + y))
     | .sub => .ok (.float (x - y))
     | .mul => .ok (.float (x * y))
     | .div => if y == 0 then .error .zeroDiv else .ok (.float (x / y))
     | .mod => if y == 0 then .error .zeroDiv else .ok (.float (pyFloatMod x y))
     | _ => .error .unsupported)

def seqRepeat (x : Val) (n : Int) : Except Err Val :=
  match x with
  | .str s => .ok (.str (repeatList s n.toNat))
  | .list vs => .ok (.list (repeatList vs n.toNat))
  | .tuple vs => .ok (.tuple (repeatList vs n.toNat))
  | _ => .error .typeErr

def isSeq : Val → Bool
  | .str _ | .list _ | .tuple _ => true
  | _ => false

/-- binary arithmetic / bitwise operators of CPython on the core's values -/
def evalBin (op : BOp) (x y : Val) : Except Err Val :=
  match op with
  | .add =>
    (match x, y with
     | .str a, .str b => .ok (.str (a ++ b))
     | .list a, .list b => .ok (.list (a ++ b))
     | .tuple a, .tuple b => .ok (.tuple (a ++ b))
     | _, _ => match asNum? x, asNum? y with
       | some a, some b => arithNum .add a b
       | _, _ => .error .typeErr)
  | .mul =>
    (match asNum? x, asNum? y with
     | some a, some b => arithNum .mul a b
     | _, _ =>
       if isSeq x then (match asInt? y with | some n => seqRepeat x n | Option.none => .error .typeErr)
       else if isSeq y then (match asInt? x with | some n => seqRepeat y n | Option.none => .error .typeErr)
       else .error .typeErr)
  | .sub | .div =>
    (match asNum? x, asNum? y with
     | some a, some b => arithNum op a b
     | _, _ => .error .typeErr)
  | .mod =>
    (match x with
     | .str _ => .error .unsupported      -- printf-style formatting
     | _ => match asNum? x, asNum? y with
       | some a, some b => arithNum .mod a b
       | _, _ => .error .typeErr)
  | .band | .bor | .bxor =>
    (match x, y with
     | .bool a, .bool b =>
       .ok (.bool (match op with | .band => a && b | .bor => a || b | _ => a != b))
     | .dict _ _, .dict _ _ => .error .unsupported
     | _, _ => match asInt? x, asInt? y with
       | some a, some b => .ok (.int (match op with | .band => intAnd a b | .bor => intOr a b | _ => intXor a b))
       | _, _ => .error .typeErr)
  | .shl | .shr =>
    (match asInt? x, asInt? y with
     | some a, some b =>
       if b < 0 then .error .valueErr
       else .ok (.int (match op with | .shl => a * 2 ^ b.toNat | _ => Int.shiftRight a b.toNat))
     | _, _ => .error .typeErr)
  | _ => .error .unsupported

def evalOrder (lt : Bool) (strict : Bool) (x y : Val) : Except Err Bool :=
  -- x < y (lt, strict), x <= y (lt, ¬strict), x > y, x >= y
  let go (a b : Val) : Except Err Bool :=   -- a < b
    match a, b with
    | .str s, .str t => .ok (strLt s t)
    | .list _, .list _ => .error .unsupported
    | .tuple _, .tuple _ => .error .unsupported
    | _, _ => match asNum? a, asNum? b with
      | some m, some n => .ok (numLt m n)
      | _, _ => .error .typeErr
  -- NaN never occurs on the generated domain, so  x <= y  ⇔  ¬ (y < x)
  match lt, strict with
  | true, true => go x y
  | false, true => go y x
  | true, false => (go y x).map (!·)
  | false, false => (go x y).map (!·)

/-- comparison operators of CPython on the core's values -/
def evalCmp (op : BOp) (x y : Val) : Except Err Bool :=
  match op with
  | .eq => if hasDict x || hasDict y then .error .unsupported else .ok (pyEq x y)
  | .ne => if hasDict x || hasDict y then .error .unsupported else .ok (!pyEq x y)
  | .lt => evalOrder true true x y
  | .le => evalOrder true false x y
  | .gt => evalOrder false true x y
  | .ge => evalOrder false false x y
  | .in_ | .notIn =>
    let neg := match op with | .notIn => true | _ => false
    (match y with
     | .str t => (match x with | .str s => .ok (neg != substrOf s t) | _ => .error .typeErr)
     | .list vs | .tuple vs => if hasDict x || hasDictL vs then .error .unsupported else .ok (neg != vs.any (pyEq · x))
     | .dict ks _ => if !hashable x then .error .typeErr else .ok (neg != ks.any (pyEq · x))
     | _ => .error .typeErr)
  | .is_ | .isNot =>
    let neg := match op with | .isNot => true | _ => false
    (match x, y with
     | .none, .none => .ok (neg != true)
     | .none, _ => .ok (neg != false)
     | _, .none => .ok (neg != false)
     | _, _ => .error .unsupported)
  | _ => .error .unsupported

def evalFactor (op : UOp) (v : Val) : Except Err Val :=
  match op, v with
  | .inv, .float _ => .error .typeErr
  | _, .float x => .ok (.float (match op with | .neg => -x | _ => x))
  | _, _ =>
    match asInt? v with
    | some n => .ok (.int (match op with | .pos => n | .neg => -n | .inv => -n - 1))
    | Option.none => .error .typeErr

def evalIndex (r k : Val) : Except Err Val :=
  match r with
  | .list vs =>
    (match asInt? k with
     | some i => (match normIndex vs.length i with | some j => .ok (vs.getD j .none) | Option.none => .error .indexErr)
     | Option.none => .error .typeErr)
  | .tuple vs =>
    (match asInt? k with
     | some i => (match normIndex vs.length i with | some j => .ok (vs.getD j .none) | Option.none => .error .indexErr)
     | Option.none => .error .typeErr)
  | .str s =>
    (match asInt? k with
     | some i => (match normIndex s.length i with | some j => .ok (.str [s.getD j ' ']) | Option.none => .error .indexErr)
     | Option.none => .error .typeErr)
  | .dict ks vs =>
    if !hashable k then .error .typeErr
    else if hasDict k then .error .unsupported
    else (match dictGet ks vs k with | some v => .ok v | Option.none => .error .keyErr)
  | _ => .error .typeErr

def evalSlice (r lo hi : Val) : Except Err Val :=
  match r with
  | .list vs => do pure (.list (sliceList vs (← sliceBound lo) (← sliceBound hi)))
  | .tuple vs => do pure (.tuple (sliceList vs (← sliceBound lo) (← sliceBound hi)))
  | .str s => do pure (.str (sliceList s (← sliceBound lo) (← sliceBound hi)))
  | _ => .error .typeErr

/-! ## stub methods and functions with a pure CPython counterpart -/

def strOf : Val → Option Str
  | .str s => some s
  | _ => Option.none

def allStrs : List Val → Option (List Str)
  | [] => some []
  | .str s :: rest => (allStrs rest).map (s :: ·)
  | _ :: _ => Option.none

/-- the stub methods that have a pure CPython counterpart in this model -/
inductive MName where
  | split_ | join_ | upper_ | lower_ | find_ | count_ | startswith_ | endswith_ | strip_ | lstrip_ | rstrip_ | replace_ | copy_ | index_ | keys_ | values_ | items_ | get_ | other
deriving DecidableEq, Repr

def methodOf (m : Str) : MName :=
  if m = ['s', 'p', 'l', 'i', 't'] then .split_ else
  if m = ['j', 'o', 'i', 'n'] then .join_ else
  if m = ['u', 'p', 'p', 'e', 'r'] then .upper_ else
  if m = ['l', 'o', 'w', 'e', 'r'] then .lower_ else
  if m = ['f', 'i', 'n', 'd'] then .find_ else
  if m = ['c', 'o', 'u', 'n', 't'] then .count_ else
  if m = ['s', 't', 'a', 'r', 't', 's', 'w', 'i', 't', 'h'] then .startswith_ else
  if m = ['e', 'n', 'd', 's', 'w', 'i', 't', 'h'] then .endswith_ else
  if m = ['s', 't', 'r', 'i', 'p'] then .strip_ else
  if m = ['l', 's', 't', 'r', 'i', 'p'] then .lstrip_ else
  if m = ['r', 's', 't', 'r', 'i', 'p'] then .rstrip_ else
  if m = ['r', 'e', 'p', 'l', 'a', 'c', 'e'] then .replace_ else
  if m = ['c', 'o', 'p', 'y'] then .copy_ else
  if m = ['i', 'n', 'd', 'e', 'x'] then .index_ else
  if m = ['k', 'e', 'y', 's'] then .keys_ else
  if m = ['v', 'a', 'l', 'u', 'e', 's'] then .values_ else
  if m = ['i', 't', 'e', 'm', 's'] then .items_ else
  if m = ['g', 'e', 't'] then .get_ else
  .other

/-- the stub functions / constructors that have a pure CPython counterpart in this model -/
inductive FName where
  | len_ | abs_ | min_ | max_ | int_ | float_ | bool_ | str_ | list_ | range_ | reversed_ | enumerate_ | other
deriving DecidableEq, Repr

def funcOf (f : Str) : FName :=
  if f = ['l', 'e', 'n'] then .len_ else
  if f = ['a', 'b', 's'] then .abs_ else
  if f = ['m', 'i', 'n'] then .min_ else
  if f = ['m', 'a', 'x'] then .max_ else
  if f = ['i', 'n', 't'] then .int_ else
  if f = ['f', 'l', 'o', 'a', 't'] then .float_ else
  if f = ['b', 'o', 'o', 'l'] then .bool_ else
  if f = ['s', 't', 'r'] then .str_ else
  if f = ['l', 'i', 's', 't'] then .list_ else
  if f = ['r', 'a', 'n', 'g', 'e'] then .range_ else
  if f = ['r', 'e', 'v', 'e', 'r', 's', 'e', 'd'] then .reversed_ else
  if f = ['e', 'n', 'u', 'm', 'e', 'r', 'a', 't', 'e'] then .enumerate_ else
  .other

def evalMethod (recv : Val) (m : MName) (args : List Val) : Except Err Val :=
  match recv, m, args with
  | .str s, .split_, [.str sep] => if sep.isEmpty then .error .valueErr else .ok (.list ((splitStr sep s 0 []).map .str))
  | .str s, .join_, [.list vs] => (match allStrs vs with | some l => .ok (.str (Str.join s l)) | Option.none => .error .typeErr)
  | .str s, .join_, [.tuple vs] => (match allStrs vs with | some l => .ok (.str (Str.join s l)) | Option.none => .error .typeErr)
  | .str s, .upper_, [] => .ok (.str (s.map Char.toUpper))
  | .str s, .lower_, [] => .ok (.str (s.map Char.toLower))
  | .str s, .find_, [.str sub] => .ok (.int (match Str.find s sub with | some i => i | Option.none => -1))
  | .str s, .count_, [.str sub] => if sub.isEmpty then .ok (.int (s.length + 1)) else .ok (.int (countStr sub s 0))
  | .str s, .startswith_, [.str p] => .ok (.bool (Str.startsWith s p))
  | .str s, .endswith_, [.str p] => .ok (.bool (Str.endsWith s p))
  | .str s, .strip_, [.str cs] => .ok (.str (Str.stripBy (cs.contains ·) s))
  | .str s, .lstrip_, [.str cs] => .ok (.str (Str.lstripBy (cs.contains ·) s))
  | .str s, .rstrip_, [.str cs] => .ok (.str (Str.rstripBy (cs.contains ·) s))
  | .str s, .replace_, [.str a, .str b] => if a.isEmpty then .error .unsupported else .ok (.str (replaceStr a b s 0))
  | .list vs, .copy_, [] => .ok (.list vs)
  | .list vs, .index_, [x] =>
    if hasDict x || hasDictL vs then .error .unsupported
    else (match vs.findIdx? (pyEq · x) with | some i => .ok (.int i) | Option.none => .error .valueErr)
  | .dict ks vs, .copy_, [] => .ok (.dict ks vs)
  | .dict ks _, .keys_, [] => .ok (.list ks)
  | .dict _ vs, .values_, [] => .ok (.list vs)
  | .dict ks vs, .items_, [] => .ok (.list (zipTuples ks vs))
  | .dict ks vs, .get_, [k] =>
    if !hashable k then .error .typeErr else if hasDict k then .error .unsupported
    else .ok (match dictGet ks vs k with | some v => v | Option.none => .none)
  | .dict ks vs, .get_, [k, dflt] =>
    if !hashable k then .error .typeErr else if hasDict k then .error .unsupported
    else .ok (match dictGet ks vs k with | some v => v | Option.none => dflt)
  | _, _, _ => .error .unsupported

def evalFunc (f : FName) (args : List Val) : Except Err Val :=
  match f, args with
  | .len_, [.str s] => .ok (.int s.length)
  | .len_, [.list vs] => .ok (.int vs.length)
  | .len_, [.tuple vs] => .ok (.int vs.length)
  | .len_, [.dict ks _] => .ok (.int ks.length)
  | .len_, [_] => .error .typeErr
  | .abs_, [.float x] => .ok (.float x.abs)
  | .abs_, [v] => (match asInt? v with | some n => .ok (.int n.natAbs) | Option.none => .error .typeErr)
  | .min_, [x, y] => (evalCmp .lt y x).map fun c => if c then y else x
  | .max_, [x, y] => (evalCmp .gt y x).map fun c => if c then y else x
  | .int_, [] => .ok (.int 0)
  | .int_, [.float x] => .ok (.int x.toInt64.toInt)
  | .int_, [.str _] => .error .unsupported
  | .int_, [v] => (match asInt? v with | some n => .ok (.int n) | Option.none => .error .typeErr)
  | .float_, [] => .ok (.float 0)
  | .float_, [.str _] => .error .unsupported
  | .float_, [v] => (match asNum? v with | some n => .ok (.float n.toFloat) | Option.none => .error .typeErr)
  | .bool_, [] => .ok (.bool false)
  | .bool_, [v] => .ok (.bool (truthy v))
  | .str_, [] => .ok (.str [])
  | .str_, [.str s] => .ok (.str s)
  | .str_, [.int n] => .ok (.str (Str.intToDec n))
  | .str_, [.bool b] => .ok (.str (if b then ['T', 'r', 'u', 'e'] else ['F', 'a', 'l', 's', 'e']))
  | .str_, [.none] => .ok (.str ['N', 'o', 'n', 'e'])
  | .list_, [] => .ok (.list [])
  | .list_, [v] => (iterItems v).map .list
  | .range_, [v] => (match v with
    | .float _ => .error .typeErr
    | _ => match asInt? v with | some n => .ok (.list (rangeList n.toNat 0)) | Option.none => .error .typeErr)
  | .reversed_, [.list vs] => .ok (.list vs.reverse)
  | .reversed_, [.tuple vs] => .ok (.list vs.reverse)
  | .enumerate_, [v] => (iterItems v).map fun items => .list (enumFrom 0 items)
  | _, _ => .error .unsupported

/-! ## user classes: a small class-based heap semantics

  An instance is its class plus its instance dict (`Val.obj`). What a program's method bodies compute is not modelled:
  constructor, method / property / class-variable reads and `__next__` sequences are given by a `World` — the theorems
  assume of it only that every such result conforms to the DECLARED type (`WorldConf`, Tranp/Model/InferSpec.lean), which
  is each method's own typing obligation. -/

structure World where
  /-- `C(args)` -/
  new : Str → List Val → Except Err Val
  /-- `obj.m(args)` for a method or classmethod of the object's class (MRO = the linear base chain) -/
  call : Val → Str → List Val → Except Err Val
  /-- `obj.a` when `a` is not in the instance dict: class variable or property -/
  classAttr : Val → Str → Except Err Val
  /-- the values `it.__next__()` returns until it raises `StopIteration` -/
  nexts : Val → Except Err (List Val)

/-- a world without user classes (streams that contain none) -/
def World.none : World :=
  ⟨fun _ _ => .error .unsupported, fun _ _ _ => .error .unsupported, fun _ _ => .error .unsupported, fun _ => .error .unsupported⟩

def fieldGet (names : List Str) (vals : List Val) (a : Str) : Option Val :=
  match names, vals with
  | n :: ns, v :: vs => if n = a then some v else fieldGet ns vs a
  | _, _ => Option.none

def s_iter : Str := ['_', '_', 'i', 't', 'e', 'r', '_', '_']

/-- `for x in v`: CPython calls `iter(v)` and then `__next__` until `StopIteration`. For an instance that is `v.__iter__()`:
    a builtin iterator (represented by the list of its items) or an object whose `__next__` results are the items. -/
def iterItemsW (W : World) (v : Val) : Except Err (List Val) :=
  match v with
  | .obj _ _ _ =>
    (match W.call v s_iter [] with
     | .ok (.list vs) => .ok vs
     | .ok (.obj c ns vs) => W.nexts (.obj c ns vs)
     | .ok _ => .error .typeErr
     | .error e => .error e)
  | _ => iterItems v

/-! ## expressions -/

/-- bind the target names of a `for` clause to one item (tuple unpacking for several names) -/
def bindItem (vars : List Str) (item : Val) : Except Err VEnv :=
  match vars with
  | [x] => .ok [(x, item)]
  | _ =>
    match item with
    | .tuple vs => if vs.length = vars.length then .ok (vars.zip vs) else .error .valueErr
    | .list vs => if vs.length = vars.length then .ok (vars.zip vs) else .error .valueErr
    | _ => .error .unsupported

/-- the loop of a comprehension: `f item` = `none` when the condition filters the item out -/
def compLoop {α : Type} (f : Val → Except Err (Option α)) : List Val → Except Err (List α)
  | [] => .ok []
  | v :: vs => do
    let r ← f v
    let rest ← compLoop f vs
    pure (match r with | some a => a :: rest | Option.none => rest)

mutual
/-- CPython's evaluation of an expression of the core in the environment `ρ` -/
def eval (W : World) (ρ : VEnv) : Expr → Except Err Val
  | .int n => .ok (.int n)
  | .float x => .ok (.float x)
  | .str s => .ok (.str s)
  | .true_ => .ok (.bool true)
  | .false_ => .ok (.bool false)
  | .none_ => .ok .none
  | .empty_ => .ok .none
  | .var x => (match lookup x ρ with | some v => .ok v | Option.none => .error .unsupported)
  | .factor op e => do evalFactor op (← eval W ρ e)
  | .not_ e => do pure (.bool (!truthy (← eval W ρ e)))
  | .bin e rest => do evalChain W ρ (← eval W ρ e) rest
  | .cmp e rest => do evalCmpChain W ρ (← eval W ρ e) rest
  | .and_ es => evalAnd W ρ es
  | .or_ es => evalOr W ρ es
  | .tern a c b => do if truthy (← eval W ρ c) then eval W ρ a else eval W ρ b
  | .list es => do pure (.list (← evalList W ρ es))
  | .tuple es => do pure (.tuple (← evalList W ρ es))
  | .dict kvs => do
    let ps ← evalPairs W ρ kvs
    if ps.any (fun kv => !hashable kv.1) then .error .typeErr
    else if ps.any (fun kv => hasDict kv.1) then .error .unsupported
    else let (ks, vs) := dictOfPairs ps ([], []); pure (.dict ks vs)
  | .index r k => do evalIndex (← eval W ρ r) (← eval W ρ k)
  | .slice r lo hi => do evalSlice (← eval W ρ r) (← eval W ρ lo) (← eval W ρ hi)
  | .group e => eval W ρ e
  | .attr r a => do
    match (← eval W ρ r) with
    | .obj c ns vs => (match fieldGet ns vs a with | some x => .ok x | Option.none => W.classAttr (.obj c ns vs) a)
    | _ => .error .unsupported
  | .call r m args => do
    let recv ← eval W ρ r
    let vs ← evalList W ρ args
    match recv with
    | .obj c ns fs => W.call (.obj c ns fs) m vs
    | _ => evalMethod recv (methodOf m) vs
  | .fcall f args => do
    let vs ← evalList W ρ args
    match funcOf f with
    | .other => W.new f vs
    | fn => evalFunc fn vs
  | .listComp proj vars src cond => do
    let items ← iterItemsW W (← eval W ρ src)
    let out ← compLoop (fun item => do
      let ρ' := (← bindItem vars item) ++ ρ
      if truthy (← eval W ρ' cond) then pure (some (← eval W ρ' proj)) else pure Option.none) items
    pure (.list out)
  | .dictComp k v vars src cond => do
    let items ← iterItemsW W (← eval W ρ src)
    let out ← compLoop (fun item => do
      let ρ' := (← bindItem vars item) ++ ρ
      if truthy (← eval W ρ' cond) then
        let kv ← eval W ρ' k
        let vv ← eval W ρ' v
        if !hashable kv then .error .typeErr else if hasDict kv then .error .unsupported else pure (some (kv, vv))
      else pure Option.none) items
    let (ks, vs) := dictOfPairs out ([], [])
    pure (.dict ks vs)
def evalList (W : World) (ρ : VEnv) : Exprs → Except Err (List Val)
  | .nil => .ok []
  | .cons e es => do
    let v ← eval W ρ e
    let vs ← evalList W ρ es
    pure (v :: vs)
def evalPairs (W : World) (ρ : VEnv) : Pairs → Except Err (List (Val × Val))
  | .nil => .ok []
  | .cons k v rest => do
    let kv ← eval W ρ k
    let vv ← eval W ρ v
    let r ← evalPairs W ρ rest
    pure ((kv, vv) :: r)
/-- `l op e1 op e2 …`, left-associative, operands evaluated left to right -/
def evalChain (W : World) (ρ : VEnv) (l : Val) : Chain → Except Err Val
  | .nil => .ok l
  | .cons op e rest => do
    let r ← eval W ρ e
    let v ← evalBin op l r
    evalChain W ρ v rest
/-- `l op e1 op e2 …` as a chained comparison: `(l op e1) and (e1 op e2) and …`, lazily -/
def evalCmpChain (W : World) (ρ : VEnv) (l : Val) : Chain → Except Err Val
  | .nil => .ok (.bool true)
  | .cons op e rest => do
    let r ← eval W ρ e
    let c ← evalCmp op l r
    if !c then pure (.bool false)
    else match rest with
      | .nil => pure (.bool true)
      | rest' => evalCmpChain W ρ r rest'
/-- `e1 and e2 and …`: the first falsy operand, else the last -/
def evalAnd (W : World) (ρ : VEnv) : Exprs → Except Err Val
  | .nil => .ok (.bool true)
  | .cons e .nil => eval W ρ e
  | .cons e es => do
    let v ← eval W ρ e
    if truthy v then evalAnd W ρ es else pure v
/-- `e1 or e2 or …`: the first truthy operand, else the last -/
def evalOr (W : World) (ρ : VEnv) : Exprs → Except Err Val
  | .nil => .ok (.bool false)
  | .cons e .nil => eval W ρ e
  | .cons e es => do
    let v ← eval W ρ e
    if truthy v then pure v else evalOr W ρ es
end

end Tranp.Infer
