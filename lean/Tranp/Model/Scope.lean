/-
  Tranp.Model.Scope — executable model of name resolution (property C08), ABSTRACT layer.

  Modelled code (rog-works/tranp):
    rogw/tranp/semantics/finder.py                       SymbolFinder.find_by_symbolic / __make_scopes / __allow_scope /
                                                         __find_raw / __find_raw_for_type / __each_find_raw /
                                                         __find_imported_raw / __find_library_raw / __find_raw_recursive
    rogw/tranp/syntax/node/node.py:113-160               Node.fullyname / scope / namespace
    rogw/tranp/syntax/node/definition/primary.py:113     DeclThisVar.fullyname
    rogw/tranp/syntax/node/definition/statement_compound.py:743-836   VarsCollector._collect_impl / _merged_by / _merged

  Names are an abstract type `N` (user identifiers and the fixed words tranp puts into scopes, e.g. `if@115`), module ids an
  abstract type `M`.  A scope / symbol-table key is a module id plus a list of names (`module#e1.e2…` in the real code).
  Nothing in this file looks inside a name: every function is a function of the binding structure only, which is what
  `C08.equivariant_*` (Props/C08.lean) states.  The layer that works on the joined strings is Model/ScopeStr.lean.

  Entry paths (`Node.full_path`, e.g. `file_input.class_def[1].class_def_raw.block.function_def`) contain grammar tags and
  indices only — no user names — and are therefore plain strings in both layers.
-/
import Tranp.Str

namespace Tranp.Scope
open Tranp

/-- Exceptions the modelled code can raise (same enum as `harness.common.exc_enum`). -/
inductive Err where
  | indexError
deriving DecidableEq, Repr

def Err.toString : Err → String
  | .indexError => "IndexError"

/-! ### plain-string helpers (entry paths) -/

/-- `s.replace(p, '')`, all non-overlapping occurrences left to right (fuel = length; every match consumes ≥ 1 character). -/
def removeAllAux (p : Str) : Nat → Str → Str
  | 0, s => s
  | _ + 1, [] => []
  | f + 1, c :: cs =>
    if Str.startsWith (c :: cs) p then removeAllAux p f ((c :: cs).drop p.length)
    else c :: removeAllAux p f cs

/-- `s.replace(p, '')`; for `p = ''` Python returns `s` unchanged as well. -/
def removeAll (p s : Str) : Str := if p = [] then s else removeAllAux p s.length s

/-- `p in s` -/
def isInfix (p : Str) (s : Str) : Bool := (Str.find s p).isSome

/-! ### declaration merging, generic in the declaration type `V` (statement_compound.py:743-836)

  `key v` is `v.fullyname`, `rel d a` is the test `d.domain_name == a.domain_name and a.scope.startswith(d.scope)`.
  Both layers instantiate these definitions, so one proof covers the loop structure. -/

section
variable {V K : Type} [DecidableEq K] (key : V → K) (rel : V → V → Bool)

/-- one iteration of the loop of `_merged` (statement_compound.py:818-834); `merged` and `decl_vars` are the same dict
    object, so every test sees the entries added by earlier iterations. -/
def mergeOneG (acc : List V) (a : V) : List V :=
  if acc.any (fun d => key d = key a) then acc
  else if acc.any (fun d => rel d a) then acc
  else acc ++ [a]

/-- `VarsCollector._merged(decl_vars, add_vars)` on the value lists (dict order). -/
def mergedG (decl add : List V) : List V := add.foldl (mergeOneG key rel) decl

/-- one `d[k] = v` of a dict comprehension: first position, last value -/
def dictPutG (d : List V) (v : V) : List V :=
  if d.any (fun x => key x = key v) then d.map (fun x => if key x = key v then v else x) else d ++ [v]

/-- dict comprehension `{symbol.fullyname: symbol for symbol in …}` (statement_compound.py:799). -/
def dictOfG (vs : List V) : List V := vs.foldl (dictPutG key) []

end

/-- A statement as `_collect_impl` sees it: the symbol lists of its own declarations (assign / for / each catch / each with
    entry, already filtered by `allow`), then its nested blocks (`having_blocks` of if/try, the block of while/for/with). -/
inductive Stmt (V : Type) where
  | mk (own : List (List V)) (blocks : List (List (Stmt V)))

section
variable {V K : Type} [DecidableEq K] (key : V → K) (rel : V → V → Bool)

mutual
/-- the body of the statement loop of `VarsCollector._collect_impl` (statement_compound.py:758-786) -/
def collectStmtG (acc : List V) : Stmt V → List V
  | .mk own blocks =>
    collectBlocksG (own.foldl (fun a syms => mergedG key rel a (dictOfG key syms)) acc) blocks
/-- `decl_vars = cls._merged(decl_vars, cls._collect_impl(in_block, allow))` for each nested block -/
def collectBlocksG (acc : List V) : List (List (Stmt V)) → List V
  | [] => acc
  | b :: bs => collectBlocksG (mergedG key rel acc (collectBlockG [] b)) bs
/-- `_collect_impl(block, allow)` continued from the accumulator `acc` -/
def collectBlockG (acc : List V) : List (Stmt V) → List V
  | [] => acc
  | s :: ss => collectBlockG (collectStmtG acc s) ss
end

end

/-! ### keys, symbols, table -/

/-- `ModuleDSN`: module path + local elements (`module#e1.e2`). -/
structure Key (M N : Type) where
  mod : M
  path : List N
deriving DecidableEq, Repr

namespace Key
variable {M N : Type}
/-- `ModuleDSN.join(*locals)` / `ModuleDSN.full_joined(dsn, *elems)` on element lists. -/
def join (k : Key M N) (elems : List N) : Key M N := ⟨k.mod, k.path ++ elems⟩
end Key

/-- What the finder reads from one `IReflection` stored in the symbol table. -/
structure Sym (M N : Type) where
  /-- `raw.types.is_a(defs.Class)` (finder.py:152, :289) -/
  isClass : Bool
  /-- `raw.decl.is_a(*defs.ClassOrTypeTs)` (finder.py:190) -/
  isClassOrType : Bool
  /-- `raw.types.full_path` (entry path, no user names; finder.py:156) -/
  typesPath : Str
  /-- `raw.types.module_path` (finder.py:240) -/
  typesMod : M
  /-- `some d` iff `raw.node` is an `ImportAsName` whose `domain_name` is `d` (finder.py:237-240) -/
  importName : Option N
  /-- `[inherit.type_name.tokens for inherit in raw.types.inherits]`, each split at '.' (finder.py:292-293) -/
  inherits : List (List N)
deriving DecidableEq, Repr

/-- association-list lookup (first match wins; a Python dict has unique keys) -/
def lookup {K V : Type} [DecidableEq K] (db : List (K × V)) (k : K) : Option V :=
  match db with
  | [] => none
  | kv :: rest => if kv.1 = k then some kv.2 else lookup rest k

/-- `SymbolDB`: finite map, as an association list. -/
abbrev Tbl (M N : Type) := List (Key M N × Sym M N)

section
variable {M N : Type} [DecidableEq M] [DecidableEq N]

def Tbl.get? (db : Tbl M N) (k : Key M N) : Option (Sym M N) := lookup db k

def Tbl.has (db : Tbl M N) (k : Key M N) : Bool := (db.get? k).isSome

/-- A lookup result: the key under which the symbol was found, and what is stored there. -/
abbrev Hit (M N : Type) := Key M N × Sym M N

/-- What `__make_scopes` / `__allow_scope` read from the symbolic node. -/
structure NodeInfo (M N : Type) where
  /-- `node.scope` -/
  scope : Key M N
  /-- `node.is_a(defs.Var)` -/
  isVar : Bool
  /-- `isinstance(node, defs.Type)` -/
  isType : Bool
  /-- `node.full_path` -/
  fullPath : Str
deriving Repr

/-- `".class_def_raw.block."` (explicit characters: `String.toList` does not reduce in the kernel) -/
def classBlockInfix : Str := ['.','c','l','a','s','s','_','d','e','f','_','r','a','w','.','b','l','o','c','k','.']
/-- `"function_def_raw.block"` -/
def funcBlock : Str := ['f','u','n','c','t','i','o','n','_','d','e','f','_','r','a','w','.','b','l','o','c','k']
/-- `"class_def_raw.block"` -/
def classBlock : Str := ['c','l','a','s','s','_','d','e','f','_','r','a','w','.','b','l','o','c','k']

/-- the entry-path test of `__allow_scope` (finder.py:156-158): no user name is involved. -/
def inAltClass (nodePath typesPath : Str) : Bool :=
  let rel := removeAll (typesPath ++ classBlockInfix) nodePath
  isInfix funcBlock rel || isInfix classBlock rel

/-- `SymbolFinder.__allow_scope` (finder.py:128-158). The first test compares *string lengths* in the real code; for the
    prefixes `__make_scopes` passes in, that is the comparison of the numbers of elements (ScopeStr / `allowScope_refines`). -/
def allowScope (db : Tbl M N) (node : NodeInfo M N) (scope : Key M N) : Bool :=
  if node.scope.path.length ≤ scope.path.length then true
  else if !node.isVar then true
  else match db.get? scope with
    | none => true
    | some s =>
      if !s.isClass then true
      else !inAltClass node.fullPath s.typesPath

/-- `[module_dsn.join(*elems[:i]) for i in range(len(elems) + 1)]` reversed: inner to outer. -/
def prefixes (k : Key M N) : List (Key M N) :=
  ((List.range (k.path.length + 1)).map (fun i => (⟨k.mod, k.path.take i⟩ : Key M N))).reverse

/-- `SymbolFinder.__make_scopes` (finder.py:115-126). -/
def makeScopes (db : Tbl M N) (node : NodeInfo M N) : List (Key M N) :=
  (prefixes node.scope).filter (allowScope db node)

/-- `SymbolFinder.__find_raw_recursive` (finder.py:268-298); recursion on the remaining elements. -/
def findRawRecursive (db : Tbl M N) : List N → Key M N → Option (Hit M N)
  | [], scope => (db.get? scope).map (fun raw => (scope, raw))
  | e :: rest, scope =>
    match db.get? scope with
    | none => none
    | some raw =>
      let newScope := scope.join [e]
      if db.has newScope then findRawRecursive db rest newScope
      else if !raw.isClass then none
      else
        -- `[*scope.elements[:-1], inherit.type_name.tokens, elems[0]]`
        let cand := fun (inh : List N) => (⟨scope.mod, scope.path.dropLast ++ inh ++ [e]⟩ : Key M N)
        match raw.inherits.find? (fun inh => db.has (cand inh)) with
        | none => none
        | some inh => findRawRecursive db rest (cand inh)

/-- `SymbolFinder.__find_imported_raw` (finder.py:224-241). `elems[0]` on an empty name is an IndexError. -/
def findImportedRaw (db : Tbl M N) (onMod : M) (name : List N) : Except Err (Option (Hit M N)) :=
  match name with
  | [] => .error .indexError
  | e0 :: rest =>
    match db.get? ⟨onMod, [e0]⟩ with
    | none => .ok none
    | some imp =>
      match imp.importName with
      | none => .ok none
      | some d => .ok (findRawRecursive db rest ⟨imp.typesMod, [d]⟩)

/-- `SymbolFinder.__find_library_raw` (finder.py:243-258); `elems[0]` is evaluated inside the loop. -/
def findLibraryRaw (db : Tbl M N) (libs : List M) (name : List N) : Except Err (Option (Hit M N)) :=
  match name with
  | [] => if libs.isEmpty then .ok none else .error .indexError
  | e0 :: rest => .ok (libs.findSome? (fun m => findRawRecursive db rest ⟨m, [e0]⟩))

/-- the candidates of `__each_find_raw` found by walking the scopes (finder.py:205-208) -/
def scopeHits (db : Tbl M N) (scopes : List (Key M N)) (name : List N) : List (Hit M N) :=
  scopes.filterMap (fun s => (db.get? (s.join name)).map (fun raw => (s.join name, raw)))

/-- First candidate of the lazy generator `__each_find_raw` (finder.py:196-218) that satisfies `p`:
    scopes inner to outer, then the import of the module of `scopes[0]`, then the libraries. -/
def findFirst (db : Tbl M N) (libs : List M) (p : Hit M N → Bool) (scopes : List (Key M N)) (name : List N) :
    Except Err (Option (Hit M N)) :=
  match (scopeHits db scopes name).find? p with
  | some x => .ok (some x)
  | none =>
    match scopes with
    | [] => .error .indexError   -- `scopes[0]`
    | s0 :: _ =>
      match findImportedRaw db s0.mod name with
      | .error e => .error e
      | .ok imp =>
        match imp.filter p with
        | some x => .ok (some x)
        | none =>
          match findLibraryRaw db libs name with
          | .error e => .error e
          | .ok lib => .ok (lib.filter p)

/-- `SymbolFinder.__find_raw` (finder.py:160-173). -/
def findRaw (db : Tbl M N) (libs : List M) (scopes : List (Key M N)) (name : List N) : Except Err (Option (Hit M N)) :=
  findFirst db libs (fun _ => true) scopes name

/-- `SymbolFinder.__find_raw_for_type` (finder.py:175-194): only classes / types count. -/
def findRawForType (db : Tbl M N) (libs : List M) (scopes : List (Key M N)) (name : List N) : Except Err (Option (Hit M N)) :=
  findFirst db libs (fun h => h.2.isClassOrType) scopes name

/-- `SymbolFinder.find_by_symbolic` (finder.py:97-113); `name` = elements of `local_joined(node.domain_name, prop_name)`. -/
def findBySymbolic (db : Tbl M N) (libs : List M) (node : NodeInfo M N) (name : List N) : Except Err (Option (Hit M N)) :=
  if !node.isType then findRaw db libs (makeScopes db node) name
  else findRawForType db libs (makeScopes db node) name

/-- `SymbolFinder.by_standard` / `get_object` (finder.py:24-79): the scopes are the library modules, the name is a fixed word. -/
def findStandard (db : Tbl M N) (libs : List M) (word : N) : Except Err (Option (Hit M N)) :=
  findRaw db libs (libs.map (fun m => (⟨m, []⟩ : Key M N))) [word]

/-! ### Node.scope / namespace / fullyname (node.py:113-160) -/

/-- One proper ancestor of a node below the entrypoint, nearest first. -/
structure Anc (N : Type) where
  /-- `isinstance(parent, IScope)` -/
  isScope : Bool
  /-- `isinstance(parent, INamespace)` -/
  isNamespace : Bool
  /-- `parent.domain_name` as elements (`''` = `[]`; a class or function: its name; a flow statement: `if@115`) -/
  domainName : List N
  /-- `parent.classification` (derived from the node class, never from the source) -/
  classification : N
deriving Repr

/-- `parent.domain_name or parent.classification` -/
def Anc.scopeName (a : Anc N) : List N := if a.domainName.isEmpty then [a.classification] else a.domainName

/-- `Node.scope` (node.py:134-144); the chain ends below the `Entrypoint`, whose scope is the module path. -/
def scopeOf (mod : M) : List (Anc N) → Key M N
  | [] => ⟨mod, []⟩
  | p :: up => if p.isScope then (scopeOf mod up).join p.scopeName else scopeOf mod up

/-- `Node.namespace` (node.py:146-156). -/
def namespaceOf (mod : M) : List (Anc N) → Key M N
  | [] => ⟨mod, []⟩
  | p :: up => if p.isNamespace then (namespaceOf mod up).join p.domainName else namespaceOf mod up

/-- `Node.fullyname` (node.py:113-132): `scope.domain_name` for an `IDomain`, else `scope.classification@id`
    (the `@id` suffix is kept apart: it is not a name). -/
def fullynameOf (mod : M) (chain : List (Anc N)) (isDomain : Bool) (domainName : List N) (classification : N) (id : Int) :
    Key M N × Option Int :=
  if isDomain then ((scopeOf mod chain).join domainName, none)
  else ((scopeOf mod chain).join [classification], some id)

/-- `DeclThisVar.fullyname` (primary.py:113-115): placed directly below the class. -/
def fullynameThisVar (classFullyname : Key M N) (domainName : List N) : Key M N := classFullyname.join domainName

/-! ### declaration merging by scope prefix (statement_compound.py:743-836) -/

/-- element-wise prefix test on scope paths -/
def pathPrefix (p l : List N) : Bool := p.isPrefixOf l

/-- what `_merged` reads from a declaration node -/
structure DVar (M N : Type) where
  fullyname : Key M N
  domainName : List N
  scope : Key M N
deriving DecidableEq, Repr

/-- `decl_var.domain_name == add_var.domain_name and add_var.scope.startswith(decl_var.scope)`, element-wise:
    the declared variable lives in the same or an enclosing scope. -/
def related (d a : DVar M N) : Bool :=
  d.domainName = a.domainName && (d.scope.mod = a.scope.mod && pathPrefix d.scope.path a.scope.path)

/-- `VarsCollector._merged(decl_vars, add_vars)` (values in dict order). -/
def merged (decl add : List (DVar M N)) : List (DVar M N) := mergedG DVar.fullyname related decl add

/-- `VarsCollector._collect_impl(block, allow)` as the list of values of the returned dict. -/
def collect (block : List (Stmt (DVar M N))) : List (DVar M N) := collectBlockG DVar.fullyname related [] block

end

/-! ### the action of a renaming -/

section
variable {M N N' : Type}

def Key.map (r : N → N') (k : Key M N) : Key M N' := ⟨k.mod, k.path.map r⟩

def Sym.map (r : N → N') (s : Sym M N) : Sym M N' :=
  { isClass := s.isClass, isClassOrType := s.isClassOrType, typesPath := s.typesPath, typesMod := s.typesMod,
    importName := s.importName.map r, inherits := s.inherits.map (List.map r) }

def Tbl.map (r : N → N') (db : Tbl M N) : Tbl M N' := List.map (fun kv => (kv.1.map r, kv.2.map r)) db

def Hit.map (r : N → N') (h : Hit M N) : Hit M N' := (h.1.map r, h.2.map r)

def NodeInfo.map (r : N → N') (n : NodeInfo M N) : NodeInfo M N' :=
  { scope := n.scope.map r, isVar := n.isVar, isType := n.isType, fullPath := n.fullPath }

def Anc.map (r : N → N') (a : Anc N) : Anc N' :=
  { isScope := a.isScope, isNamespace := a.isNamespace, domainName := a.domainName.map r, classification := r a.classification }

def DVar.map (r : N → N') (v : DVar M N) : DVar M N' :=
  { fullyname := v.fullyname.map r, domainName := v.domainName.map r, scope := v.scope.map r }

mutual
def Stmt.map {V V' : Type} (f : V → V') : Stmt V → Stmt V'
  | .mk own blocks => .mk (own.map (List.map f)) (Stmt.mapBlocks f blocks)
def Stmt.mapBlocks {V V' : Type} (f : V → V') : List (List (Stmt V)) → List (List (Stmt V'))
  | [] => []
  | b :: bs => Stmt.mapBlock f b :: Stmt.mapBlocks f bs
def Stmt.mapBlock {V V' : Type} (f : V → V') : List (Stmt V) → List (Stmt V')
  | [] => []
  | s :: ss => Stmt.map f s :: Stmt.mapBlock f ss
end

end

end Tranp.Scope
