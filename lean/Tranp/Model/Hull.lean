/-
  Tranp.Model.Hull — the only thing assumed about lark's `propagate_positions` (property C16):

    the span recorded for a tree = (begin of the first, end of the last) of the tokens the rule consumed,
    *including* tokens that are filtered out of the tree (punctuation, keywords, _NEWLINE).

  lark/parse_tree_builder.py `PropagatePositions` is third-party code and is NOT modelled beyond this; the
  correspondence stream `span-hull` checks the assumption against lark's actual metas on every run.
  The synthetic _INDENT/_DEDENT tokens of `PythonIndenter` borrow the span of the preceding _NEWLINE token, so they never
  change a hull; they are left out of the token sequences considered here. _DEDENT tokens emitted at end of input carry
  no position at all — trees that end with one are outside this model; since fix 46d0462 (the parser completes the last
  line) they no longer occur, and the search reports any span with a `None` position as a failure.
-/
import Tranp.Str

namespace Tranp.Hull

/-- a source position (line, column), ordered lexicographically -/
structure P where
  line : Int
  col : Int
deriving DecidableEq, Repr

def P.le (a b : P) : Prop := a.line < b.line ∨ (a.line = b.line ∧ a.col ≤ b.col)

instance : LE P := ⟨P.le⟩

instance (a b : P) : Decidable (a ≤ b) := by
  show Decidable (a.line < b.line ∨ (a.line = b.line ∧ a.col ≤ b.col)); exact inferInstance

/-- span of one token -/
structure TSpan where
  b : P
  e : P
deriving DecidableEq, Repr

/-- derivation tree: every consumed token is a leaf (kept or filtered), every rule application a node -/
inductive HTree where
  | tok (s : TSpan)
  | node (children : List HTree)
deriving Repr, Inhabited

mutual
/-- the consumed tokens in source order -/
def tokens : HTree → List TSpan
  | .tok s => [s]
  | .node cs => tokensList cs
def tokensList : List HTree → List TSpan
  | [] => []
  | c :: cs => tokens c ++ tokensList cs
end

/-- hull of a token sequence: begin of the first, end of the last -/
def hullOf (ts : List TSpan) : Option TSpan :=
  match ts.head?, ts.getLast? with
  | some f, some l => some ⟨f.b, l.e⟩
  | _, _ => none

/-- the span lark records for a derivation (none = `meta.empty`) -/
def hull (t : HTree) : Option TSpan := hullOf (tokens t)

/-- lexer output is ordered and non-overlapping: every token ends after it begins and before the next one begins -/
def Chain : List TSpan → Prop
  | [] => True
  | [a] => a.b ≤ a.e
  | a :: b :: rest => a.b ≤ a.e ∧ a.e ≤ b.b ∧ Chain (b :: rest)

instance decChain : (ts : List TSpan) → Decidable (Chain ts)
  | [] => isTrue trivial
  | [a] => by unfold Chain; exact inferInstance
  | a :: b :: rest => by
    unfold Chain
    have := decChain (b :: rest)
    exact inferInstance

end Tranp.Hull

/-! ## Derivation from the text: positions by own line/column arithmetic, trees as token intervals

  What is assumed about lark is now only the *interface* of an LALR parse with `propagate_positions`:

  * the lexer hands out tokens left to right: offsets `start ≤ end ≤ next start` (`OffChain`);
    (the synthetic _INDENT/_DEDENT tokens, which borrow the offsets of the preceding _NEWLINE, are left out);
  * a tree consumes a contiguous interval `[lo, hi)` of that token sequence and its children (kept tokens and
    sub-trees) consume sub-intervals, in order, without overlap (`ITree.WF`);
  * the span recorded for a tree is (begin of its first, end of its last consumed token), a position being the
    (line, column) of an offset of the parsed text (`ITree.span`, `posOf`).

  All three are checked against lark's actual token stream and metas by the `span-hull` stream; nesting and sibling order
  are *proved* from them (Props/C16.lean `span_nest`, `span_siblings`), including `posOf` being monotone.
-/

namespace Tranp.Hull
open Tranp

/-- lark's `LineCounter.feed`, one character at a time: a line feed starts a new line at column 1 -/
def advance (p : P) (c : Char) : P :=
  if c = '\n' then ⟨p.line + 1, 1⟩ else ⟨p.line, p.col + 1⟩

/-- position after reading `n` characters of `s` starting at position `p` -/
def posFrom (p : P) : Str → Nat → P
  | _, 0 => p
  | [], _ + 1 => p
  | c :: cs, n + 1 => posFrom (advance p c) cs n

/-- (line, column), both 1-based, of the character offset `off` of `src` -/
def posOf (src : Str) (off : Nat) : P := posFrom ⟨1, 1⟩ src off

/-- the positions of all offsets `0 … len` in one pass (what the driver tabulates; `posScan_get` ties it to `posFrom`) -/
def posScan (p : P) : Str → List P
  | [] => [p]
  | c :: cs => p :: posScan (advance p c) cs

/-- a lexer token by its character offsets (`start_pos`, `end_pos`) -/
structure OTok where
  s : Nat
  e : Nat
deriving DecidableEq, Repr

def tokSpan (src : Str) (t : OTok) : TSpan := ⟨posOf src t.s, posOf src t.e⟩

/-- tokens come left to right and do not overlap -/
def OffChain : List OTok → Prop
  | [] => True
  | [a] => a.s ≤ a.e
  | a :: b :: rest => a.s ≤ a.e ∧ a.e ≤ b.s ∧ OffChain (b :: rest)

instance decOffChain : (ts : List OTok) → Decidable (OffChain ts)
  | [] => isTrue trivial
  | [a] => by unfold OffChain; exact inferInstance
  | a :: b :: rest => by
    unfold OffChain
    have := decOffChain (b :: rest)
    exact inferInstance

/-- a parse tree as the interval of tokens it consumed, with the intervals of its children (kept tokens and sub-trees that
    consumed at least one token) -/
inductive ITree where
  | node (lo hi : Nat) (children : List ITree)
deriving Repr, Inhabited

def ITree.lo : ITree → Nat
  | .node lo _ _ => lo
def ITree.hi : ITree → Nat
  | .node _ hi _ => hi
def ITree.children : ITree → List ITree
  | .node _ _ cs => cs

/-- children lie inside `[lo, hi)`, in order, without overlap, each non-empty -/
def childrenOrdered (lo hi : Nat) : List ITree → Bool
  | [] => lo ≤ hi
  | c :: cs => lo ≤ c.lo && c.lo < c.hi && childrenOrdered c.hi hi cs

mutual
/-- the interface hypothesis, at every depth -/
def ITree.wf : ITree → Bool
  | .node lo hi cs => lo < hi && childrenOrdered lo hi cs && ITree.wfList cs
def ITree.wfList : List ITree → Bool
  | [] => true
  | c :: cs => c.wf && ITree.wfList cs
end

/-- the span lark records for a tree that consumed the tokens `[lo, hi)` of `spans` -/
def spanOf (spans : List TSpan) (lo hi : Nat) : Option TSpan :=
  match spans[lo]?, spans[hi - 1]? with
  | some f, some l => if lo < hi then some ⟨f.b, l.e⟩ else none
  | _, _ => none

def ITree.span (spans : List TSpan) (t : ITree) : Option TSpan := spanOf spans t.lo t.hi

/-! ## The region a span delimits (the sentence "the recorded begin/end delimit a region of the source whose tokens are
    exactly the node's tokens")

  The region is defined on the text alone: the characters whose own (line, column) lies in `[begin, end)`. That this region
  is the stretch from the first consumed token's first character to the last consumed token's last character, and that the
  lexer tokens lying inside it are exactly the tokens the tree consumed, is *proved* from the interface hypothesis
  (Props/C16.lean `span_region`, `span_holds_exactly_own_tokens`); one more fact about the lexer is needed and streamed:
  every token is non-empty and lies inside the text (`tokensInText`; lark refuses zero-width terminals). -/

/-- strict order of positions -/
def P.lt (a b : P) : Prop := a.line < b.line ∨ (a.line = b.line ∧ a.col < b.col)

instance : LT P := ⟨P.lt⟩

instance (a b : P) : Decidable (a < b) := by
  show Decidable (a.line < b.line ∨ (a.line = b.line ∧ a.col < b.col)); exact inferInstance

/-- every lexer token is non-empty and lies inside the text -/
def tokensInText (src : Str) (toks : List OTok) : Bool :=
  toks.all fun t => decide (t.s < t.e) && decide (t.e ≤ src.length)

/-- the character at offset `k` lies in the region the span delimits: begin ≤ its (line, column) < end -/
def inRegion (src : Str) (sp : TSpan) (k : Nat) : Prop := sp.b ≤ posOf src k ∧ posOf src k < sp.e

instance (src : Str) (sp : TSpan) (k : Nat) : Decidable (inRegion src sp k) := by
  unfold inRegion; exact inferInstance

/-- token `t` lies inside the span (by positions, as an observer of the recorded spans sees it) -/
def tokInSpan (sp t : TSpan) : Prop := sp.b ≤ t.b ∧ t.e ≤ sp.e

instance (sp t : TSpan) : Decidable (tokInSpan sp t) := by
  unfold tokInSpan; exact inferInstance

/-- first element, count, and "is a run of consecutive numbers" of an index list -/
def runOf (ks : List Nat) : Nat × Nat × Bool :=
  match ks with
  | [] => (0, 0, true)
  | f :: _ => (f, ks.length, ks == List.range' f ks.length)

/-- driver: the offsets of a position table that lie in `[b, e)` as (first, count, consecutive?) — `tab[k]` is the position of
    offset `k` (`posScan`); the last entry (end of text) is not a character -/
def regionOfTable (tab : List P) (sp : TSpan) : Nat × Nat × Bool :=
  runOf (tab.dropLast.zipIdx.filterMap fun (p, k) => if sp.b ≤ p ∧ p < sp.e then some k else none)

/-- driver: the indices of the token spans that lie inside `sp` as (first, count, consecutive?) -/
def tokensInSpan (spans : List TSpan) (sp : TSpan) : Nat × Nat × Bool :=
  runOf (spans.zipIdx.filterMap fun (t, k) => if tokInSpan sp t then some k else none)

end Tranp.Hull
