/-
  Tranp.Model.Hull — the only thing assumed about lark's `propagate_positions` (property C16):

    the span recorded for a tree = (begin of the first, end of the last) of the tokens the rule consumed,
    *including* tokens that are filtered out of the tree (punctuation, keywords, _NEWLINE).

  lark/parse_tree_builder.py `PropagatePositions` is third-party code and is NOT modelled beyond this; the
  correspondence stream `span-hull` checks the assumption against lark's actual metas on every run.
  The synthetic _INDENT/_DEDENT tokens of `PythonIndenter` borrow the span of the preceding _NEWLINE token, so they never
  change a hull; they are left out of the token sequences considered here. _DEDENT tokens emitted at end of input carry
  no position at all — trees that end with one are outside this model; since fix 46d0462 (the parser completes the last
  line) they no longer occur, and the search reports any span with a `None` position as a failure.
-/
import Tranp.Str

namespace Tranp.Hull

/-- a source position (line, column), ordered lexicographically -/
structure P where
  line : Int
  col : Int
deriving DecidableEq, Repr

def P.le (a b : P) : Prop := a.line < b.line ∨ (a.line = b.line ∧ a.col ≤ b.col)

instance : LE P := ⟨P.le⟩

instance (a b : P) : Decidable (a ≤ b) := by
  show Decidable (a.line < b.line ∨ (a.line = b.line ∧ a.col ≤ b.col)); exact inferInstance

/-- span of one token -/
structure TSpan where
  b : P
  e : P
deriving DecidableEq, Repr

/-- derivation tree: every consumed token is a leaf (kept or filtered), every rule application a node -/
inductive HTree where
  | tok (s : TSpan)
  | node (children : List HTree)
deriving Repr, Inhabited

mutual
/-- the consumed tokens in source order -/
def tokens : HTree → List TSpan
  | .tok s => [s]
  | .node cs => tokensList cs
def tokensList : List HTree → List TSpan
  | [] => []
  | c :: cs => tokens c ++ tokensList cs
end

/-- hull of a token sequence: begin of the first, end of the last -/
def hullOf (ts : List TSpan) : Option TSpan :=
  match ts.head?, ts.getLast? with
  | some f, some l => some ⟨f.b, l.e⟩
  | _, _ => none

/-- the span lark records for a derivation (none = `meta.empty`) -/
def hull (t : HTree) : Option TSpan := hullOf (tokens t)

/-- lexer output is ordered and non-overlapping: every token ends after it begins and before the next one begins -/
def Chain : List TSpan → Prop
  | [] => True
  | [a] => a.b ≤ a.e
  | a :: b :: rest => a.b ≤ a.e ∧ a.e ≤ b.b ∧ Chain (b :: rest)

instance decChain : (ts : List TSpan) → Decidable (Chain ts)
  | [] => isTrue trivial
  | [a] => by unfold Chain; exact inferInstance
  | a :: b :: rest => by
    unfold Chain
    have := decChain (b :: rest)
    exact inferInstance

end Tranp.Hull
