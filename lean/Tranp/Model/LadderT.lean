/-
  Tranp.Model.LadderT — `expression` of data/grammar.lark in full: the operator ladder (as in Model/Ladder.lean) closed under
  the conditional expression and lambda of the top rule (property C02)

      ?expression: or_test | or_test "if" or_test "else" expression -> ternary_test | lambdadef
      lambdadef:   "lambda" [lambdaparams] ":" expression          lambdaparams: name ("," name)*
      group_expr:  "(" expression ")"

  `TExpr` are the terms, `printT` prints exactly the parentheses present, `normalizeT L` adds the ones `L` needs (also around a
  conditional / lambda that stands as an operand, as the body or as the test of a conditional), `parseT L` is the reference
  parser: precedence climbing for the operators (same three functions as `Prec.parse`) plus `parseTest` for the top rule; a
  parenthesis re-enters `parseTest`. Tokens are `Prec.Tok`; `if else lambda : ,` are the `op` codes `kwIf … kwComma`, which
  are operators of no table. `toLarkT` / `astOfT` extend `toLark` / `astOf` (`ternary_test[body, test, orelse]`,
  `lambdadef[lambdaparams[name…] | _, body]`; CPython: `IfExp(test, body, orelse)`, `Lambda(args, body)`).
  Theorems: Lemmas/LadderT.lean, Props/C02.lean (`group_test`).
-/
import Tranp.Model.Ladder

namespace Tranp.Ladder
open Tranp Tranp.Prec

inductive TExpr where
  | atom (n : Nat)
  | bin (o : Nat) (l r : TExpr)
  | pre (o : Nat) (e : TExpr)
  | paren (t : TExpr)
  | ifExp (body test orelse : TExpr)
  | lam (params : List Nat) (body : TExpr)
deriving DecidableEq, Repr, Inhabited

def printParams : List Nat → List Tok
  | [] => []
  | [p] => [.atom p]
  | p :: q :: ps => .atom p :: .op kwComma :: printParams (q :: ps)

/-- prints exactly the parentheses that are present as `paren` nodes -/
def printT : TExpr → List Tok
  | .atom n => [.atom n]
  | .bin o l r => printT l ++ .op o :: printT r
  | .pre o e => .op o :: printT e
  | .paren t => .lp :: (printT t ++ [.rp])
  | .ifExp b c e => printT b ++ .op kwIf :: (printT c ++ .op kwElse :: printT e)
  | .lam ps body => .op kwLambda :: (printParams ps ++ .op kwColon :: printT body)

/-- operator head of a term; `none` for a conditional / lambda (they stand only where a whole `expression` may stand) -/
def headT : TExpr → Option Head
  | .atom _ => some .leaf
  | .paren _ => some .leaf
  | .bin o _ _ => some (.bin o)
  | .pre o _ => some (.pre o)
  | .ifExp _ _ _ => none
  | .lam _ _ => none

/-- may the child stand bare at side `s` of a parent with head `p`? -/
def slotOkT (L : Ops) (p : Head) (s : Side) (c : TExpr) : Bool :=
  match headT c with
  | some h => slotOk L p s h
  | none => false

/-- the term is an `or_test` that may stand bare as body / test of a conditional -/
def isOrTest (L : Ops) (t : TExpr) : Bool :=
  match headT t with
  | some h => okAt L 0 h
  | none => false

/-- normal form: parentheses wherever `L` (or the shape of `expression`) needs them -/
def nfT (L : Ops) : TExpr → Bool
  | .atom _ => true
  | .paren t => nfT L t
  | .bin o l r => slotOkT L (.bin o) .left l && slotOkT L (.bin o) .right r && nfT L l && nfT L r
  | .pre o e => slotOkT L (.pre o) .operand e && nfT L e
  | .ifExp b c e => isOrTest L b && isOrTest L c && nfT L b && nfT L c && nfT L e
  | .lam _ body => nfT L body

def headsT : TExpr → List Head
  | .atom _ => []
  | .paren t => headsT t
  | .bin o l r => .bin o :: (headsT l ++ headsT r)
  | .pre o e => .pre o :: headsT e
  | .ifExp b c e => headsT b ++ headsT c ++ headsT e
  | .lam _ body => headsT body

def knownT (L : Ops) : TExpr → Bool
  | .atom _ => true
  | .paren t => knownT L t
  | .bin o l r => (L.bin o).isSome && knownT L l && knownT L r
  | .pre o e => (L.pre o).isSome && knownT L e
  | .ifExp b c e => knownT L b && knownT L c && knownT L e
  | .lam _ body => knownT L body

def wrapT (ok : Bool) (t : TExpr) : TExpr := if ok then t else .paren t

/-- add a `paren` at exactly the positions that need one (existing ones are kept) -/
def normalizeT (L : Ops) : TExpr → TExpr
  | .atom n => .atom n
  | .paren t => .paren (normalizeT L t)
  | .bin o l r =>
    .bin o (wrapT (slotOkT L (.bin o) .left l) (normalizeT L l)) (wrapT (slotOkT L (.bin o) .right r) (normalizeT L r))
  | .pre o e => .pre o (wrapT (slotOkT L (.pre o) .operand e) (normalizeT L e))
  | .ifExp b c e => .ifExp (wrapT (isOrTest L b) (normalizeT L b)) (wrapT (isOrTest L c) (normalizeT L c)) (normalizeT L e)
  | .lam ps body => .lam ps (normalizeT L body)

def printMinT (L : Ops) (t : TExpr) : List Tok := printT (normalizeT L t)

/-! ## the reference parser -/

/-- `[name ("," name)*]` up to (not including) the next token that is not part of the list -/
def parseParams : List Tok → List Nat × List Tok
  | .atom p :: .op c :: .atom q :: rest =>
    if c = kwComma then
      let r := parseParams (.atom q :: rest)
      (p :: r.1, r.2)
    else ([p], .op c :: .atom q :: rest)
  | .atom p :: rest => ([p], rest)
  | ts => ([], ts)

mutual
/-- `expression`: a lambda, or an `or_test` optionally continued by `if or_test else expression` -/
def parseTest (L : Ops) (fuel : Nat) (ts : List Tok) : Option (TExpr × List Tok) :=
  match fuel with
  | 0 => none
  | fuel + 1 =>
    if ts.head? = some (.op kwLambda) then
      match parseParams ts.tail with
      | (ps, .op c :: rest) =>
        if c = kwColon then
          match parseTest L fuel rest with
          | some (body, rest') => some (.lam ps body, rest')
          | none => none
        else none
      | _ => none
    else
      match parseExprT L fuel 0 ts with
      | some (b, .op o :: rest) =>
        if o = kwIf then
          match parseExprT L fuel 0 rest with
          | some (c, .op o2 :: rest2) =>
            if o2 = kwElse then
              match parseTest L fuel rest2 with
              | some (e, rest3) => some (.ifExp b c e, rest3)
              | none => none
            else none
          | _ => none
        else some (b, .op o :: rest)
      | some (b, rest) => some (b, rest)
      | none => none
def parsePrimaryT (L : Ops) (fuel : Nat) (m : Nat) (ts : List Tok) : Option (TExpr × List Tok) :=
  match fuel with
  | 0 => none
  | fuel + 1 =>
    match ts with
    | .atom n :: rest => some (.atom n, rest)
    | .lp :: rest =>
      match parseTest L fuel rest with
      | some (t, .rp :: rest') => some (.paren t, rest')
      | _ => none
    | .op o :: rest =>
      match L.pre o with
      | some k =>
        if m ≤ k then
          match parseExprT L fuel k rest with
          | some (e, rest') => some (.pre o e, rest')
          | none => none
        else none
      | none => none
    | _ => none
def parseExprT (L : Ops) (fuel : Nat) (m : Nat) (ts : List Tok) : Option (TExpr × List Tok) :=
  match fuel with
  | 0 => none
  | fuel + 1 =>
    match parsePrimaryT L fuel m ts with
    | some (l, rest) => parseLoopT L fuel m l rest
    | none => none
def parseLoopT (L : Ops) (fuel : Nat) (m : Nat) (acc : TExpr) (ts : List Tok) : Option (TExpr × List Tok) :=
  match fuel with
  | 0 => none
  | fuel + 1 =>
    match ts with
    | .op o :: rest =>
      match L.bin o with
      | some k =>
        if m ≤ k then
          match parseExprT L fuel (k + 1) rest with
          | some (r, rest') => parseLoopT L fuel m (.bin o acc r) rest'
          | none => none
        else some (acc, ts)
      | none => some (acc, ts)
    | _ => some (acc, ts)
end

/-- parse a whole token list (fuel 2·length + 2 always suffices: `parseT_printT`) -/
def parseT (L : Ops) (ts : List Tok) : Option TExpr :=
  match parseTest L (2 * ts.length + 2) ts with
  | some (t, []) => some t
  | _ => none

/-! ## lark's shape and CPython's reading -/

structure InfoT where
  ladder : List Rule
  compOps : List CompOp
  atomTree : Nat → LarkTree
  /-- the `name` subtree of a lambda parameter -/
  paramTree : Nat → LarkTree

def InfoT.toInfo (I : InfoT) : Info := ⟨I.ladder, I.compOps, I.atomTree⟩

def lambdaParamsTree (I : InfoT) (ps : List Nat) : LarkTree :=
  if ps.isEmpty then .empty else .tree ['l','a','m','b','d','a','p','a','r','a','m','s'] (ps.map I.paramTree)

mutual
def toLarkT (I : InfoT) : TExpr → LarkTree
  | .atom n => I.atomTree n
  | .paren t => .tree ['g','r','o','u','p','_','e','x','p','r'] [toLarkT I t]
  | .pre o e => .tree (I.toInfo.preName o) [I.toInfo.preOpTree o, toLarkT I e]
  | .bin o l r => .tree (I.toInfo.binName o) (chainT I (I.toInfo.binName o) l ++ [I.toInfo.binOpTree o, toLarkT I r])
  | .ifExp b c e => .tree ['t','e','r','n','a','r','y','_','t','e','s','t'] [toLarkT I b, toLarkT I c, toLarkT I e]
  | .lam ps body => .tree ['l','a','m','b','d','a','d','e','f'] [lambdaParamsTree I ps, toLarkT I body]
def chainT (I : InfoT) (name : Str) : TExpr → List LarkTree
  | .bin o l r =>
    if I.toInfo.binName o = name then chainT I name l ++ [I.toInfo.binOpTree o, toLarkT I r]
    else [.tree (I.toInfo.binName o) (chainT I (I.toInfo.binName o) l ++ [I.toInfo.binOpTree o, toLarkT I r])]
  | .atom n => [I.atomTree n]
  | .paren t => [.tree ['g','r','o','u','p','_','e','x','p','r'] [toLarkT I t]]
  | .pre o e => [.tree (I.toInfo.preName o) [I.toInfo.preOpTree o, toLarkT I e]]
  | .ifExp b c e => [.tree ['t','e','r','n','a','r','y','_','t','e','s','t'] [toLarkT I b, toLarkT I c, toLarkT I e]]
  | .lam ps body => [.tree ['l','a','m','b','d','a','d','e','f'] [lambdaParamsTree I ps, toLarkT I body]]
end

mutual
/-- CPython's `ast` of a term: parentheses transparent but ending a chain; `IfExp(test, body, orelse)`; `Lambda(params, body)` -/
def astOfT (I : InfoT) : TExpr → PyAst
  | .atom n => .leaf (I.atomTree n)
  | .paren t => astOfT I t
  | .pre o e => .unaryOp o (astOfT I e)
  | .ifExp b c e => .ifExp (astOfT I c) (astOfT I b) (astOfT I e)
  | .lam ps body => .lambda (ps.map I.paramTree) (astOfT I body)
  | .bin o l r =>
    match pyKind o with
    | .bool _ => .boolOp o (boolOperandsT I o l ++ [astOfT I r])
    | .compare => .compare (cmpPartsT I l).1 ((cmpPartsT I l).2.1 ++ [o]) ((cmpPartsT I l).2.2 ++ [astOfT I r])
    | _ => .binOp o (astOfT I l) (astOfT I r)
def boolOperandsT (I : InfoT) (o : Nat) : TExpr → List PyAst
  | .bin o' l r =>
    if sameLevel o' o then boolOperandsT I o l ++ [astOfT I r]
    else [match pyKind o' with
      | .bool _ => .boolOp o' (boolOperandsT I o' l ++ [astOfT I r])
      | .compare => .compare (cmpPartsT I l).1 ((cmpPartsT I l).2.1 ++ [o']) ((cmpPartsT I l).2.2 ++ [astOfT I r])
      | _ => .binOp o' (astOfT I l) (astOfT I r)]
  | .atom n => [.leaf (I.atomTree n)]
  | .paren t => [astOfT I t]
  | .pre o' e => [.unaryOp o' (astOfT I e)]
  | .ifExp b c e => [.ifExp (astOfT I c) (astOfT I b) (astOfT I e)]
  | .lam ps body => [.lambda (ps.map I.paramTree) (astOfT I body)]
def cmpPartsT (I : InfoT) : TExpr → PyAst × List Nat × List PyAst
  | .bin o' l r =>
    match pyKind o' with
    | .compare => ((cmpPartsT I l).1, (cmpPartsT I l).2.1 ++ [o'], (cmpPartsT I l).2.2 ++ [astOfT I r])
    | .bool _ => (.boolOp o' (boolOperandsT I o' l ++ [astOfT I r]), [], [])
    | _ => (.binOp o' (astOfT I l) (astOfT I r), [], [])
  | .atom n => (.leaf (I.atomTree n), [], [])
  | .paren t => (astOfT I t, [], [])
  | .pre o' e => (.unaryOp o' (astOfT I e), [], [])
  | .ifExp b c e => (.ifExp (astOfT I c) (astOfT I b) (astOfT I e), [], [])
  | .lam ps body => (.lambda (ps.map I.paramTree) (astOfT I body), [], [])
end

/-- on `Prec` tokens (the statement level of the theorems) -/
def rdParseTP (I : InfoT) (ts : List Tok) : Option LarkTree :=
  (parseT (ladderTable I.ladder).ops ts).map (toLarkT I)

/-- a lambda parameter must be a name: the `name` subtree below the `var` of the atom -/
def paramOfAtom : LarkTree → Option LarkTree
  | .tree t [c] => if t = ['v','a','r'] then some c else none
  | _ => none

def paramsAreNames (atoms : List LarkTree) : TExpr → Bool
  | .atom _ => true
  | .paren t => paramsAreNames atoms t
  | .bin _ l r => paramsAreNames atoms l && paramsAreNames atoms r
  | .pre _ e => paramsAreNames atoms e
  | .ifExp b c e => paramsAreNames atoms b && paramsAreNames atoms c && paramsAreNames atoms e
  | .lam ps body => ps.all (fun p => ((atoms[p]?).bind paramOfAtom).isSome) && paramsAreNames atoms body

/-- the reference parser for `expression` over the ladder fragment's tokens -/
def rdParseT (ladder : List Rule) (compOps : List CompOp) (soft : List (Str × Str)) (toks : List LTok) : Option LarkTree :=
  match encode soft toks 0 with
  | some (ts, atoms) =>
    let I : InfoT := ⟨ladder, compOps, fun i => (atoms[i]?).getD .empty, fun i => ((atoms[i]?).bind paramOfAtom).getD .empty⟩
    match parseT (ladderTable ladder).ops ts with
    | some t => if paramsAreNames atoms t then some (toLarkT I t) else none
    | none => none
  | none => none

/-! ## argument lists of `funccall`

  grammar.lark:   arguments: argvalue ("," argvalue)* ["," starargs] ["," kwargs] | starargs ["," kwargs] | kwargs
                  argvalue: expression | name "=" expression      starargs: "*" expression      kwargs: "**" expression
  tranp reads an argument off its lark node (`primary.py:25-41` `Argument.label / value / unpacking`): two children = label
  and value, one child = value; the tag tells `*` / `**`. CPython keeps `args` (positional and starred, in order) and
  `keywords` (named and `**`, in order). -/

inductive Arg where
  | pos (value : LarkTree)
  | kw (label : LarkTree) (value : LarkTree)
  | star (value : LarkTree)
  | dstar (value : LarkTree)
deriving DecidableEq, Repr

def argTree : Arg → LarkTree
  | .pos v => .tree ['a','r','g','v','a','l','u','e'] [v]
  | .kw l v => .tree ['a','r','g','v','a','l','u','e'] [l, v]
  | .star v => .tree ['s','t','a','r','a','r','g','s'] [v]
  | .dstar v => .tree ['k','w','a','r','g','s'] [v]

/-- the `arguments` subtree lark builds for an argument list -/
def argsTree (as : List Arg) : LarkTree := .tree ['a','r','g','u','m','e','n','t','s'] (as.map argTree)

/-- `Argument` as tranp reads it; `none` for a child that is no argument node -/
def readArg : LarkTree → Option Arg
  | .tree t cs =>
    if t = ['a','r','g','v','a','l','u','e'] then
      match cs with
      | [v] => some (.pos v)
      | [l, v] => some (.kw l v)
      | _ => none
    else if t = ['s','t','a','r','a','r','g','s'] then
      match cs with
      | [v] => some (.star v)
      | _ => none
    else if t = ['k','w','a','r','g','s'] then
      match cs with
      | [v] => some (.dstar v)
      | _ => none
    else none
  | _ => none

/-- `FuncCall.arguments`: the children of `arguments` that are argument nodes, in order -/
def readArgs (t : LarkTree) : List Arg := t.children.filterMap readArg

/-- CPython's `Call.args` / `Call.keywords` -/
def Arg.isPositional : Arg → Bool
  | .pos _ => true
  | .star _ => true
  | _ => false

def pyCallArgs (as : List Arg) : List Arg × List Arg := (as.filter Arg.isPositional, as.filter (fun a => !a.isPositional))

/-- the orders grammar.lark admits: plain / named arguments, then at most one `*`, then at most one `**` -/
def argsShapeOk : List Arg → Bool
  | [] => true
  | [.dstar _] => true
  | [.star _] => true
  | [.star _, .dstar _] => true
  | .pos _ :: rest => argsShapeOk rest
  | .kw _ _ :: rest => argsShapeOk rest
  | _ => false

end Tranp.Ladder
