/-
  Tranp.Model.TextRt — the text-level round trip of a rule set, end to end in the model (property C12):
      Rules.pretty()  →  gram_tokenizer().parse  →  SyntaxParser(gram_rules()).parse(…, 'entry')  →  Rules.from_ast
  i.e. `RulesAst.pretty`, C13's `Lexer.tokenize` with `Generated.TokenDef.gramDef`, the regexp classes of `GramClass`, the engine with
  the generated built-in rules and `RulesAst.fromAst`. Used by the driver (`rules` family, op `textrt`) and by the kernel-evaluated
  instances in Props/C12.lean.
-/
import Tranp.Model.RulesAst
import Tranp.Model.Lexer
import Tranp.Model.GramClass
import Tranp.Generated.TokenDef
import Tranp.Generated.GramRules

namespace Tranp.TextRt
open Tranp Tranp.Engine Tranp.RulesAst Tranp.Generated Tranp.Generated.TokenDef

/-- gram tokenizer + gram token classes: C13's lexer model with the gram token definition, each token classified by the
    transcribed regexp predicates -/
def lexGram (text : Str) : Except Lexer.Err (List Tok) :=
  (Lexer.tokenize gramDef text).map fun ts => ts.map fun t => ⟨t.string, GramClass.gramClass t.string, ⟨t.map.bl, t.map.bc, t.map.el, t.map.ec⟩⟩

/-- parse a grammar text with the built-in rules and rebuild the rule set; `none` = the lexer refused the text -/
def reload (text : Str) : Option (Except Err Rules) :=
  match lexGram text with
  | .ok toks => some ((parse gramEnv (100 * (toks.length + 10)) text toks nEntry).bind fun t => fromAst t.simplify)
  | .error _ => none

/-- does printing `g` and re-loading the printout give `g` back? -/
def textRt (g : Rules) : Bool := decide (reload (pretty g ++ ['\n']) = some (.ok g))

end Tranp.TextRt
