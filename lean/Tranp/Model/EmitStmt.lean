/-
  Tranp.Model.EmitStmt — a statements core around the operator core (property C01, theorem `C01.stmt_agree`).

  Modelled code (/repo):
    rogw/tranp/syntax/node/definition/statement_compound.py  VarsCollector._collect_impl / _merged (770-850): which assignment
                                                        occurrences *declare* a variable — statements in source order, a nested block is
                                                        collected where its compound statement stands, an occurrence is added unless an
                                                        already collected declaration of the same name lives in the same or an enclosing scope
    rogw/tranp/implements/cpp/transpiler/py2cpp.py      proc_move_assign_single (670-690): `declared = receiver_raw.decl.declare == node`
                                                        → assign/move_assign_declare.j2 `T v = e;`, else assign/move_assign.j2 `v = e;`;
                                                        on_return, on_if / on_else_if / on_else, on_while with flow/*.j2, statement/return.j2
    rogw/tranp/implements/cpp/transpiler/py2cpp.py      proc_for_range (495-510): range(stop) / range(begin, stop) / range(begin, stop, step) → flow/for/range.j2 with
                                                        begin = `0` / step = `1` supplied, the arguments transpiled from the syntax tree (ed1a7d7)
    data/cpp/template/{assign/move_assign*.j2, statement/return.j2, flow/if/*.j2, flow/while.j2, flow/for/range.j2}
                                                        via Tranp.Generated.CppTemplates (translator): `emitLines` interprets the generated lines
  The declared type `T` is a parameter (`typeOf`: what `Reflections.type_of(value)` / `to_accessible_name` gave — type inference is C03's subject).

  Semantics, on ints in variables and ints/bools in expressions (`denotePy` / `denoteCpp` of Model/EmitSem):
    `pyExec`  Python: ONE function-level store; an assignment (re)binds the name; reading an unbound name leaves the subset
    `cExec`   C++20: a stack of block frames; `T v = e;` adds `v` to the innermost frame, `v = e;` updates the innermost frame that has
              `v`, a name that is in no frame is ill-formed; every `{ }` pushes/pops a frame; expressions are the C++ reading
              (`Prec.parse cppOps`) of the emitted tokens, evaluated by `denoteCpp`.
  Loops carry fuel (no claim about non-termination).
-/
import Tranp.Model.EmitSem

namespace Tranp.Emit
open Tranp Tranp.Generated.CppTemplates

abbrev Var := Nat

mutual
inductive Stmt where
  /-- `name = e` (the variable is the atom `v`) -/
  | assign (v : Var) (name : Str) (e : Node)
  /-- `name op= e` -/
  | aug (v : Var) (name : Str) (op : BOp) (e : Node)
  | ret (e : Node)
  /-- `if c: … elif c: … [else: …]` -/
  | ifs (arms : Arms) (hasElse : Bool) (els : Block)
  | while_ (c : Node) (body : Block)
  /-- `for name in range(begin, stop, step): body` (the one/two-argument forms have begin = `0` / step = `1` as the emitter supplies them) -/
  | forRange (v : Var) (name : Str) (begin stop step : Node) (body : Block)
  /-- `break` / `continue` (statement/break.j2, statement/continue.j2) -/
  | brk
  | cont
inductive Block where
  | nil
  | cons (s : Stmt) (rest : Block)
inductive Arms where
  | one (c : Node) (b : Block)
  | more (c : Node) (b : Block) (rest : Arms)
end

/-! ## which occurrences declare: the collector, and the scoped reading of it -/

/-- a scope = the path of block indices from the function body -/
abbrev Scope := List Nat

def isPrefix : Scope → Scope → Bool
  | [], _ => true
  | _ :: _, [] => false
  | a :: as, b :: bs => a == b && isPrefix as bs

/-- `_merged`: is a declaration of `v` already collected in the same or an enclosing scope? -/
def related (d : List (Scope × Var)) (s : Scope) (v : Var) : Bool :=
  d.any fun (s', v') => v' == v && isPrefix s' s

mutual
/-- annotated statements: an assignment either declares (`T v = e;`) or updates (`v = e;`) -/
inductive AStmt where
  | decl (v : Var) (name : Str) (e : Node)
  | set (v : Var) (name : Str) (e : Node)
  | aug (v : Var) (name : Str) (op : BOp) (e : Node)
  | ret (e : Node)
  | ifs (arms : AArms) (hasElse : Bool) (els : ABlock)
  | while_ (c : Node) (body : ABlock)
  | forRange (v : Var) (name : Str) (begin stop step : Node) (body : ABlock)
  | brk
  | cont
inductive ABlock where
  | nil
  | cons (s : AStmt) (rest : ABlock)
inductive AArms where
  | one (c : Node) (b : ABlock)
  | more (c : Node) (b : ABlock) (rest : AArms)
end

mutual
/-- `VarsCollector._collect_impl` in one pass: `d` = declarations collected so far, `k` = next fresh block index.
    Returns the annotated block, the extended `d` and counter. -/
def annotD (d : List (Scope × Var)) (k : Nat) (s : Scope) : Block → ABlock × List (Scope × Var) × Nat
  | .nil => (.nil, d, k)
  | .cons (.assign v name e) rest =>
    if related d s v then
      let (r, d', k') := annotD d k s rest
      (.cons (.set v name e) r, d', k')
    else
      let (r, d', k') := annotD (d ++ [(s, v)]) k s rest
      (.cons (.decl v name e) r, d', k')
  | .cons (.ret e) rest =>
    let (r, d', k') := annotD d k s rest
    (.cons (.ret e) r, d', k')
  | .cons (.aug v name op e) rest =>
    -- an augmented assignment never declares (AugAssign is no declaration for VarsCollector)
    let (r, d', k') := annotD d k s rest
    (.cons (.aug v name op e) r, d', k')
  | .cons (.ifs arms he els) rest =>
    let (a, d1, k1) := annotDArms d k s arms
    let (e, d2, k2) := annotD d1 (k1 + 1) (s ++ [k1]) els
    let (r, d3, k3) := annotD d2 k2 s rest
    (.cons (.ifs a he e) r, d3, k3)
  | .cons (.while_ c body) rest =>
    let (b, d1, k1) := annotD d (k + 1) (s ++ [k]) body
    let (r, d2, k2) := annotD d1 k1 s rest
    (.cons (.while_ c b) r, d2, k2)
  | .cons (.forRange v name b0 s0 t0 body) rest =>
    -- the loop variable is declared by the `for` itself (`auto i`, always) in the scope of the loop, the body is that scope
    let (b, d1, k1) := annotD (d ++ [(s ++ [k], v)]) (k + 1) (s ++ [k]) body
    let (r, d2, k2) := annotD d1 k1 s rest
    (.cons (.forRange v name b0 s0 t0 b) r, d2, k2)
  | .cons .brk rest =>
    let (r, d', k') := annotD d k s rest
    (.cons .brk r, d', k')
  | .cons .cont rest =>
    let (r, d', k') := annotD d k s rest
    (.cons .cont r, d', k')
def annotDArms (d : List (Scope × Var)) (k : Nat) (s : Scope) : Arms → AArms × List (Scope × Var) × Nat
  | .one c b =>
    let (b', d', k') := annotD d (k + 1) (s ++ [k]) b
    (.one c b', d', k')
  | .more c b rest =>
    let (b', d1, k1) := annotD d (k + 1) (s ++ [k]) b
    let (r, d2, k2) := annotDArms d1 k1 s rest
    (.more c b' r, d2, k2)
end

/-- the emitter's annotation of a function body -/
def annotate (params : List Var) (b : Block) : ABlock := (annotD (params.map fun p => ([], p)) 0 [] b).1

/-- visible variables: one list per open block, innermost first -/
abbrev VStack := List (List Var)

def visible : VStack → Var → Bool
  | [], _ => false
  | f :: rest, v => f.contains v || visible rest v

def declTop (vs : VStack) (v : Var) : VStack :=
  match vs with
  | [] => [[v]]
  | f :: rest => (v :: f) :: rest

mutual
/-- the same annotation read off the block structure: an assignment declares iff its name is not visible at that point -/
def annotV (vs : VStack) : Block → ABlock
  | .nil => .nil
  | .cons (.assign v name e) rest =>
    if visible vs v then .cons (.set v name e) (annotV vs rest)
    else .cons (.decl v name e) (annotV (declTop vs v) rest)
  | .cons (.ret e) rest => .cons (.ret e) (annotV vs rest)
  | .cons (.aug v name op e) rest => .cons (.aug v name op e) (annotV vs rest)
  | .cons (.ifs arms he els) rest => .cons (.ifs (annotVArms vs arms) he (annotV ([] :: vs) els)) (annotV vs rest)
  | .cons (.while_ c body) rest => .cons (.while_ c (annotV ([] :: vs) body)) (annotV vs rest)
  | .cons (.forRange v name b0 s0 t0 body) rest => .cons (.forRange v name b0 s0 t0 (annotV ([] :: [v] :: vs) body)) (annotV vs rest)
  | .cons .brk rest => .cons .brk (annotV vs rest)
  | .cons .cont rest => .cons .cont (annotV vs rest)
def annotVArms (vs : VStack) : Arms → AArms
  | .one c b => .one c (annotV ([] :: vs) b)
  | .more c b rest => .more c (annotV ([] :: vs) b) (annotVArms vs rest)
end

/-! ## emitted text (lines, indentation dropped)

  The lines are instances of the statement templates as translated into `Tranp.Generated.CppTemplates` (assign/move_assign*.j2,
  statement/return.j2, flow/if/*.j2, flow/while.j2, flow/for/range.j2): `emitLines` interprets the generated pieces, it does not
  restate them. The statements of a block are rendered one per line in order (the `{% for statement in statements %}` block the
  translator checks in every flow template). -/

def sReceiver : Str := ['r', 'e', 'c', 'e', 'i', 'v', 'e', 'r']
def sVarType : Str := ['v', 'a', 'r', '_', 't', 'y', 'p', 'e']
def sReturnValue : Str := ['r', 'e', 't', 'u', 'r', 'n', '_', 'v', 'a', 'l', 'u', 'e']
def sSymbol : Str := ['s', 'y', 'm', 'b', 'o', 'l']
def sBegin : Str := ['b', 'e', 'g', 'i', 'n']
def sSize : Str := ['s', 'i', 'z', 'e']
def sStep : Str := ['s', 't', 'e', 'p']

def exprText (e : Node) : Str := text (emitRaw e)

/-- one rendered template line -/
def line (shape : List Piece) (args : List (Str × List RTok)) : Str := text (instantiate args shape)

def word (s : Str) : List RTok := [.t (.sym s)]

mutual
def emitLines (typeOf : Node → Str) : ABlock → List Str
  | .nil => []
  | .cons (.decl _ name e) rest =>
    line stmtDeclare [(sVarType, word (typeOf e)), (sReceiver, word name), (sValue, emitRaw e)] :: emitLines typeOf rest
  | .cons (.set _ name e) rest => line stmtAssign [(sReceiver, word name), (sValue, emitRaw e)] :: emitLines typeOf rest
  | .cons (.ret e) rest => line stmtReturn [(sReturnValue, emitRaw e)] :: emitLines typeOf rest
  | .cons (.aug _ name op e) rest =>
    line stmtAug [(sReceiver, word name), (sOperator, word (op.tok ++ ['='])), (sValue, emitRaw e)] :: emitLines typeOf rest
  | .cons (.ifs arms he els) rest =>
    emitArms typeOf true arms ++ (if he then line stmtElseHead [] :: emitLines typeOf els else []) ++ [stmtIfTail] ++ emitLines typeOf rest
  | .cons (.while_ c body) rest =>
    line stmtWhileHead [(sCondition, emitRaw c)] :: (emitLines typeOf body ++ [stmtWhileTail] ++ emitLines typeOf rest)
  | .cons (.forRange _ name b0 s0 t0 body) rest =>
    line stmtForRangeHead [(sSymbol, word name), (sBegin, emitRaw b0), (sSize, emitRaw s0), (sStep, emitRaw t0)]
      :: (emitLines typeOf body ++ [stmtForRangeTail] ++ emitLines typeOf rest)
  | .cons .brk rest => line stmtBreak [] :: emitLines typeOf rest
  | .cons .cont rest => line stmtContinue [] :: emitLines typeOf rest
def emitArms (typeOf : Node → Str) (first : Bool) : AArms → List Str
  | .one c b => line (if first then stmtIfHead else stmtElifHead) [(sCondition, emitRaw c)] :: emitLines typeOf b
  | .more c b rest =>
    line (if first then stmtIfHead else stmtElifHead) [(sCondition, emitRaw c)] :: (emitLines typeOf b ++ emitArms typeOf false rest)
end

/-! ## the C++ statement forms of the translated templates

  `cExec` below gives every annotated statement the meaning of ONE C++ statement form (`decl` = a declaration with initialiser,
  `while_` = a while statement whose body is a compound statement, …). `readForm` is the reader that justifies the choice: it
  recognises those forms of the C++ grammar (stmt.dcl, stmt.expr, stmt.return, stmt.if, stmt.while, stmt.for, stmt.break,
  stmt.cont; one layout each — a reader of fewer texts is still a sound reader) in a template line and says which template variable
  stands in which position. `C01.stmt_forms` evaluates it on every translated statement template. -/

inductive CForm where
  /-- `T v = e;` -/
  | declare (ty recv val : Str)
  /-- `v = e;` -/
  | assign (recv val : Str)
  /-- `v op e;` with the compound-assignment operator a template variable -/
  | compound (recv op val : Str)
  /-- `return e;` -/
  | ret (val : Str)
  /-- `if (c) {` -/
  | ifHead (cond : Str)
  /-- `} else if (c) {` : closes the previous branch block, opens the next one -/
  | elifHead (cond : Str)
  /-- `} else {` -/
  | elseHead
  /-- `while (c) {` -/
  | whileHead (cond : Str)
  /-- `for (auto v = b; l < r; w += s) {` -/
  | forHead (sym begin testL testR incr step : Str)
  | brk
  | cont
deriving DecidableEq

def readForm : List Piece → Option CForm
  | [.var t, .sp, .var r, .sp, .tok ['='], .sp, .var v, .tok [';']] => some (.declare t r v)
  | [.var r, .sp, .tok ['='], .sp, .var v, .tok [';']] => some (.assign r v)
  | [.var r, .sp, .var o, .sp, .var v, .tok [';']] => some (.compound r o v)
  | [.tok ['r', 'e', 't', 'u', 'r', 'n'], .sp, .var v, .tok [';']] => some (.ret v)
  | [.tok ['i', 'f'], .sp, .tok ['('], .var c, .tok [')'], .sp, .tok ['{']] => some (.ifHead c)
  | [.tok ['}'], .sp, .tok ['e', 'l', 's', 'e'], .sp, .tok ['i', 'f'], .sp, .tok ['('], .var c, .tok [')'], .sp, .tok ['{']] => some (.elifHead c)
  | [.tok ['}'], .sp, .tok ['e', 'l', 's', 'e'], .sp, .tok ['{']] => some .elseHead
  | [.tok ['w', 'h', 'i', 'l', 'e'], .sp, .tok ['('], .var c, .tok [')'], .sp, .tok ['{']] => some (.whileHead c)
  | [.tok ['f', 'o', 'r'], .sp, .tok ['('], .tok ['a', 'u', 't', 'o'], .sp, .var v, .sp, .tok ['='], .sp, .var b, .tok [';'], .sp,
      .var l, .sp, .tok ['<'], .sp, .var r, .tok [';'], .sp, .var w, .sp, .tok ['+', '='], .sp, .var st, .tok [')'], .sp, .tok ['{']] =>
    some (.forHead v b l r w st)
  | [.tok ['b', 'r', 'e', 'a', 'k'], .tok [';']] => some .brk
  | [.tok ['c', 'o', 'n', 't', 'i', 'n', 'u', 'e'], .tok [';']] => some .cont
  | _ => none

/-! ## the loop test of `for (…; v < stop; …)` -/

/-- the sections of the for-range head between its `;` (taken from the translated flow/for/range.j2) -/
def splitSemi : List Piece → List (List Piece)
  | [] => [[]]
  | .tok [';'] :: ps => [] :: splitSemi ps
  | p :: ps => match splitSemi ps with
    | [] => [[p]]
    | sec :: rest => (p :: sec) :: rest

/-- the pieces of the loop test: the second section of the head, leading blanks dropped -/
def condPieces : List Piece := ((splitSemi stmtForRangeHead).getD 1 []).dropWhile (· == .sp)

/-- the loop test as the template pastes it — `{{ symbol }} < {{ size }}`: NO parentheses are added around the stop text -/
def pastedCond (v : Var) (name : Str) (s0 : Node) : List RTok :=
  instantiate [(sSymbol, [.t (.atom v name)]), (sSize, emitRaw s0)] condPieces

/-- the same comparison as the operator node Python's grammar would build for `v < stop` (`proc_binary_operation_expression`
    WOULD guard its right operand; `C01.for_test_reparses`: the two texts coincide iff no guard is due) -/
def condNode (v : Var) (name : Str) (s0 : Node) : Node := .chain cmpLevel .int (.atom v name) (.cons .lt false .int s0 .nil)

/-! ## semantics -/

/-- atoms that are literals have a fixed value -/
abbrev Lits := Nat → Option Val

abbrev Store := List (Var × Int)

def Store.get (σ : Store) (v : Var) : Option Int :=
  match σ with
  | [] => none
  | (w, i) :: rest => if w = v then some i else Store.get rest v

def Store.put (σ : Store) (v : Var) (i : Int) : Store := (v, i) :: σ.filter fun p => p.1 != v

inductive Outcome (S : Type) where
  | normal (s : S)
  | returned (v : Int)
  /-- a `break` / `continue` on its way to the innermost enclosing loop -/
  | broke (s : S)
  | continued (s : S)
deriving DecidableEq

mutual
/-- variables (non-literal atoms) read by an expression -/
def readsOf (lits : Lits) : Node → List Var
  | .atom id _ => if (lits id).isSome then [] else [id]
  | .group e => readsOf lits e
  | .factor _ e => readsOf lits e
  | .notCompare e => readsOf lits e
  | .chain _ _ first rest => readsOf lits first ++ readsOfRest lits rest
  | .ternary p c s => readsOf lits p ++ readsOf lits c ++ readsOf lits s
def readsOfRest (lits : Lits) : Rest → List Var
  | .nil => []
  | .cons _ _ _ e rest => readsOf lits e ++ readsOfRest lits rest
end

/-- Python: literals by their value, variables from the function-level store -/
def pyEnv (lits : Lits) (σ : Store) : Env := fun id =>
  match lits id with
  | some v => v
  | none => .int ((σ.get id).getD 0)

/-- Python evaluation of an expression: every variable read must be bound (else NameError/UnboundLocalError: outside the subset) -/
def pyExpr' (lits : Lits) (σ : Store) (e : Node) : Except Err Val :=
  if (readsOf lits e).all fun v => (σ.get v).isSome then denotePy (pyEnv lits σ) e else .error .outOfSubset

mutual
/-- every call consumes one unit of fuel (structural recursion on the fuel); out of fuel = no claim -/
def pyExec (lits : Lits) : Nat → Store → Block → Except Err (Outcome Store)
  | 0, _, _ => .error .outOfSubset
  | _ + 1, σ, .nil => .ok (.normal σ)
  | fuel + 1, σ, .cons s rest =>
    match pyStmt lits fuel σ s with
    | .ok (.normal σ') => pyExec lits fuel σ' rest
    | .ok (.returned v) => .ok (.returned v)
    | .ok (.broke σ') => .ok (.broke σ')           -- the rest of the block is skipped
    | .ok (.continued σ') => .ok (.continued σ')
    | .error er => .error er
def pyStmt (lits : Lits) : Nat → Store → Stmt → Except Err (Outcome Store)
  | 0, _, _ => .error .outOfSubset
  | _ + 1, σ, .assign v _ e =>
    match pyExpr' lits σ e with
    | .ok (.int i) => .ok (.normal (σ.put v i))
    | .ok (.bool _) => .error .outOfSubset     -- variables hold ints in this core
    | .error er => .error er
  | _ + 1, σ, .ret e =>
    match pyExpr' lits σ e with
    | .ok v => .ok (.returned v.repr)
    | .error er => .error er
  | _ + 1, σ, .aug v _ op e =>
    -- `v op= e` on ints: `v = v op e`; an unbound `v` raises (outside the subset)
    match σ.get v, pyExpr' lits σ e with
    | some x, .ok (.int y) => match pyBin op (.int x) (.int y) with
      | .ok (.int z) => .ok (.normal (σ.put v z))
      | _ => .error .outOfSubset
    | _, _ => .error .outOfSubset
  | fuel + 1, σ, .ifs arms _ els => pyArms lits fuel σ arms els
  | fuel + 1, σ, .while_ c body =>
    match pyExpr' lits σ c with
    | .ok (.bool true) =>
      match pyExec lits fuel σ body with
      | .ok (.normal σ') => pyStmt lits fuel σ' (.while_ c body)
      | .ok (.continued σ') => pyStmt lits fuel σ' (.while_ c body)   -- `continue`: back to the test
      | .ok (.broke σ') => .ok (.normal σ')                           -- `break`: the loop is left (no `else` clause in the core)
      | .ok (.returned v) => .ok (.returned v)
      | .error er => .error er
    | .ok (.bool false) => .ok (.normal σ)
    | .ok _ => .error .outOfSubset
    | .error er => .error er
  | fuel + 1, σ, .forRange v _ b0 s0 t0 body =>
    -- `range(begin, stop, step)` is evaluated ONCE, before the first iteration; a positive step (the emitted `i < stop` test)
    match pyExpr' lits σ b0, pyExpr' lits σ s0, pyExpr' lits σ t0 with
    | .ok (.int b), .ok (.int s), .ok (.int t) => if 1 ≤ t ∧ inI32 b = true then pyFor lits fuel σ v b s t body else .error .outOfSubset
    | _, _, _ => .error .outOfSubset
  | _ + 1, σ, .brk => .ok (.broke σ)
  | _ + 1, σ, .cont => .ok (.continued σ)
/-- the iterations of `for v in range(cur, stop, step)`: `v` is (re)bound to the next value of the range whatever the body did to it -/
def pyFor (lits : Lits) : Nat → Store → Var → Int → Int → Int → Block → Except Err (Outcome Store)
  | 0, _, _, _, _, _, _ => .error .outOfSubset
  | fuel + 1, σ, v, cur, stop, step, body =>
    if cur < stop then
      if inI32 (cur + step) then
        match pyExec lits fuel (σ.put v cur) body with
        | .ok (.normal σ') => pyFor lits fuel σ' v (cur + step) stop step body
        | .ok (.continued σ') => pyFor lits fuel σ' v (cur + step) stop step body   -- `continue`: the next value of the range
        | .ok (.broke σ') => .ok (.normal σ')
        | .ok (.returned r) => .ok (.returned r)
        | .error er => .error er
      else .error .outOfSubset     -- the C++ increment after this iteration would overflow
    else .ok (.normal σ)
def pyArms (lits : Lits) : Nat → Store → Arms → Block → Except Err (Outcome Store)
  | 0, _, _, _ => .error .outOfSubset
  | fuel + 1, σ, .one c b, els =>
    match pyExpr' lits σ c with
    | .ok (.bool true) => pyExec lits fuel σ b
    | .ok (.bool false) => pyExec lits fuel σ els
    | .ok _ => .error .outOfSubset
    | .error er => .error er
  | fuel + 1, σ, .more c b rest, els =>
    match pyExpr' lits σ c with
    | .ok (.bool true) => pyExec lits fuel σ b
    | .ok (.bool false) => pyArms lits fuel σ rest els
    | .ok _ => .error .outOfSubset
    | .error er => .error er
end

/-- C++ block frames, innermost first -/
abbrev Frames := List Store

def Frames.get : Frames → Var → Option Int
  | [], _ => none
  | f :: rest, v => match f.get v with
    | some i => some i
    | none => Frames.get rest v

/-- `v = i;` on the innermost frame that has `v` -/
def Frames.set : Frames → Var → Int → Option Frames
  | [], _, _ => none
  | f :: rest, v, i =>
    if (f.get v).isSome then some (f.put v i :: rest)
    else (Frames.set rest v i).map (f :: ·)

def Frames.decl (fs : Frames) (v : Var) (i : Int) : Frames :=
  match fs with
  | [] => [[(v, i)]]
  | f :: rest => ((v, i) :: f) :: rest

def cEnv (lits : Lits) (fs : Frames) : Env := fun id =>
  match lits id with
  | some v => v
  | none => .int ((fs.get id).getD 0)

/-- C++ evaluation of an emitted expression: every identifier must be declared in an open block; the emitted tokens are read by
    `Prec.parse cppOps` and evaluated by `denoteCpp` -/
def cExpr (lits : Lits) (fs : Frames) (e : Node) : Except Err Int :=
  if (readsOf lits e).all fun v => (fs.get v).isSome then
    match Prec.parse cppOps (toks e) with
    | some t => denoteCpp (cEnv lits fs) t
    | none => .error .ub
  else .error .ub

/-- the closing brace of a block: drop the innermost frame -/
def popOut : Except Err (Outcome Frames) → Except Err (Outcome Frames)
  | .ok (.normal fs) => .ok (.normal fs.tail)
  | .ok (.broke fs) => .ok (.broke fs.tail)           -- leaving a block through `break` / `continue` ends the lifetime of its names too
  | .ok (.continued fs) => .ok (.continued fs.tail)
  | r => r

/-- C++ value of the pasted loop test: the tokens the template produced, lexed and parsed by the C++ grammar as they stand -/
def cCond (lits : Lits) (fs : Frames) (v : Var) (name : Str) (s0 : Node) : Except Err Int :=
  if (v :: readsOf lits s0).all fun x => (fs.get x).isSome then
    match Prec.parse cppOps ((cppLex (pastedCond v name s0)).map CTok.toPrec) with
    | some t => denoteCpp (cEnv lits fs) t
    | none => .error .ub
  else .error .ub

/-- the increment `v += step` of the emitted for statement: `step` is evaluated again, `v` is whatever the body left in it -/
def cForNext (lits : Lits) (fs' : Frames) (v : Var) (t0 : Node) : Except Err Frames :=
  match fs'.get v, cExpr lits fs' t0 with
  | some cur', .ok t =>
    if inI32 (cur' + t) then
      match fs'.set v (cur' + t) with
      | some fs'' => .ok fs''
      | none => .error .ub
    else .error .ub
  | _, _ => .error .ub

mutual
def cExec (lits : Lits) : Nat → Frames → ABlock → Except Err (Outcome Frames)
  | 0, _, _ => .error .ub
  | _ + 1, fs, .nil => .ok (.normal fs)
  | fuel + 1, fs, .cons s rest =>
    match cStmt lits fuel fs s with
    | .ok (.normal fs') => cExec lits fuel fs' rest
    | .ok (.returned v) => .ok (.returned v)
    | .ok (.broke fs') => .ok (.broke fs')
    | .ok (.continued fs') => .ok (.continued fs')
    | .error er => .error er
def cStmt (lits : Lits) : Nat → Frames → AStmt → Except Err (Outcome Frames)
  | 0, _, _ => .error .ub
  | _ + 1, fs, .decl v _ e =>
    match cExpr lits fs e with
    | .ok i => .ok (.normal (fs.decl v i))
    | .error er => .error er
  | _ + 1, fs, .set v _ e =>
    match cExpr lits fs e with
    | .ok i => match fs.set v i with
      | some fs' => .ok (.normal fs')
      | none => .error .ub
    | .error er => .error er
  | _ + 1, fs, .ret e =>
    match cExpr lits fs e with
    | .ok i => .ok (.returned i)
    | .error er => .error er
  | _ + 1, fs, .aug v _ op e =>
    -- `v op= e;`: the compound assignment operator binds loosest, `e` is the whole right-hand side
    match fs.get v, cExpr lits fs e with
    | some x, .ok y => match cppBin op.code x y with
      | .ok z => match fs.set v z with
        | some fs' => .ok (.normal fs')
        | none => .error .ub
      | .error _ => .error .ub
    | _, _ => .error .ub
  | fuel + 1, fs, .ifs arms _ els => cArms lits fuel fs arms els
  | fuel + 1, fs, .while_ c body =>
    match cExpr lits fs c with
    | .ok i =>
      if i ≠ 0 then
        -- `{ … }`: a fresh innermost frame, dropped at the closing brace
        match popOut (cExec lits fuel ([] :: fs) body) with
        | .ok (.normal fs') => cStmt lits fuel fs' (.while_ c body)
        | .ok (.continued fs') => cStmt lits fuel fs' (.while_ c body)
        | .ok (.broke fs') => .ok (.normal fs')
        | .ok (.returned v) => .ok (.returned v)
        | .error er => .error er
      else .ok (.normal fs)
    | .error er => .error er
  | fuel + 1, fs, .forRange v name b0 s0 t0 body =>
    -- `for (auto v = begin; …) { … }`: `v` lives in the scope of the for statement, dropped after the loop
    match cExpr lits fs b0 with
    | .ok b => popOut (cFor lits fuel ([(v, b)] :: fs) v name s0 t0 body)
    | .error er => .error er
  | _ + 1, fs, .brk => .ok (.broke fs)
  | _ + 1, fs, .cont => .ok (.continued fs)
/-- `for (…; v < stop; v += step) { body }` from the loop test on: the pasted test `v < stop` (as C++ parses that text) and `step`
    are evaluated on EVERY iteration, `v` is whatever the body left in it -/
def cFor (lits : Lits) : Nat → Frames → Var → Str → Node → Node → ABlock → Except Err (Outcome Frames)
  | 0, _, _, _, _, _, _ => .error .ub
  | fuel + 1, fs, v, name, s0, t0, body =>
    match cCond lits fs v name s0 with
    | .ok c =>
      if c ≠ 0 then
        match popOut (cExec lits fuel ([] :: fs) body) with
        | .ok (.normal fs') =>
          match cForNext lits fs' v t0 with
          | .ok fs'' => cFor lits fuel fs'' v name s0 t0 body
          | .error er => .error er
        | .ok (.continued fs') =>        -- `continue` jumps to the increment `v += step`
          match cForNext lits fs' v t0 with
          | .ok fs'' => cFor lits fuel fs'' v name s0 t0 body
          | .error er => .error er
        | .ok (.broke fs') => .ok (.normal fs')
        | .ok (.returned r) => .ok (.returned r)
        | .error er => .error er
      else .ok (.normal fs)
    | .error er => .error er
def cArms (lits : Lits) : Nat → Frames → AArms → ABlock → Except Err (Outcome Frames)
  | 0, _, _, _ => .error .ub
  | fuel + 1, fs, .one c b, els =>
    match cExpr lits fs c with
    | .ok i => if i ≠ 0 then popOut (cExec lits fuel ([] :: fs) b) else popOut (cExec lits fuel ([] :: fs) els)
    | .error er => .error er
  | fuel + 1, fs, .more c b rest, els =>
    match cExpr lits fs c with
    | .ok i => if i ≠ 0 then popOut (cExec lits fuel ([] :: fs) b) else cArms lits fuel fs rest els
    | .error er => .error er
end

/-! ## the static condition: every variable that is read is visible (declared in an enclosing block, earlier) -/

def exprOK (lits : Lits) (vs : VStack) (e : Node) : Bool :=
  core e && wf e && cmpChainFree e && (readsOf lits e).all (visible vs)

mutual
/-- names a block may assign (assignment targets and loop variables, at any depth) -/
def writes : Block → List Var
  | .nil => []
  | .cons (.assign v _ _) rest => v :: writes rest
  | .cons (.aug v _ _ _) rest => v :: writes rest
  | .cons (.ret _) rest => writes rest
  | .cons (.ifs arms _ els) rest => writesArms arms ++ writes els ++ writes rest
  | .cons (.while_ _ body) rest => writes body ++ writes rest
  | .cons (.forRange v _ _ _ _ body) rest => v :: writes body ++ writes rest
  | .cons .brk rest => writes rest
  | .cons .cont rest => writes rest
def writesArms : Arms → List Var
  | .one _ b => writes b
  | .more _ b rest => writes b ++ writesArms rest
end

/-- the operators of `v op= e` on ints -/
def augOps : List BOp := [.add, .sub, .mul, .mod, .band, .bor, .bxor, .shl, .shr]
def augOp (op : BOp) : Bool := augOps.contains op

/-- what the body must leave alone: the loop variable and everything `stop` / `step` read (they are re-evaluated by the C++ loop) -/
def loopFixed (lits : Lits) (v : Var) (s0 t0 : Node) : List Var := v :: readsOf lits s0 ++ readsOf lits t0

mutual
/-- walk the function body with the stack of visible names exactly as `annotV` does -/
def scopeOK (lits : Lits) : VStack → Block → Bool
  | _, .nil => true
  | vs, .cons (.assign v _ e) rest => exprOK lits vs e && scopeOK lits (if visible vs v then vs else declTop vs v) rest
  | vs, .cons (.ret e) rest => exprOK lits vs e && scopeOK lits vs rest
  | vs, .cons (.aug v _ op e) rest => exprOK lits vs e && visible vs v && augOp op && scopeOK lits vs rest
  | vs, .cons (.ifs arms _ els) rest => armsOK lits vs arms && scopeOK lits ([] :: vs) els && scopeOK lits vs rest
  | vs, .cons (.while_ c body) rest => exprOK lits vs c && scopeOK lits ([] :: vs) body && scopeOK lits vs rest
  | vs, .cons (.forRange v name b0 s0 t0 body) rest =>
    -- the loop variable is a fresh name (not visible: else the `auto v` of the for shadows the outer one and Python's rebinding of
    -- it is lost; not a literal), the body writes neither it nor anything stop/step read, the comparison `v < stop` is an operator node
    -- of the core in which stop needs no parentheses (else the pasted text regroups: known finding flat:range-arg)
    exprOK lits vs b0 && exprOK lits vs s0 && exprOK lits vs t0 && !visible vs v
      && ((lits v).isNone && !isRegrouped s0 BOp.lt.tok && exprOK lits ([v] :: vs) (condNode v name s0))
      && (loopFixed lits v s0 t0).all (fun x => !(writes body).contains x)
      && scopeOK lits ([] :: [v] :: vs) body && scopeOK lits vs rest
  | vs, .cons .brk rest => scopeOK lits vs rest
  | vs, .cons .cont rest => scopeOK lits vs rest
def armsOK (lits : Lits) : VStack → Arms → Bool
  | vs, .one c b => exprOK lits vs c && scopeOK lits ([] :: vs) b
  | vs, .more c b rest => exprOK lits vs c && scopeOK lits ([] :: vs) b && armsOK lits vs rest
end


end Tranp.Emit
