/-
  Tranp.Model.SymbolJsonText — the JSON TEXT form of the exported rows (property C14: "exporting a module's symbols to the JSON form").

  Modelled code:
    rogw/tranp/semantics/reflection/persistent.py:159-162   data = db.to_json(…); json.dumps(data, separators=(',', ':')).encode('utf-8')
    rogw/tranp/semantics/reflection/persistent.py:171-173   data = json.loads(content); db.import_json(self.serializer, data)
    rogw/tranp/semantics/reflection/serialization.py:6-8    DictSymbol / DictReflection (the keys of a row)
  The encoder / decoder are `Tranp.Lark.printJson` / `parseJson` (Model/JsonCodec.lean: compact separators, `ensure_ascii`), tied to
  CPython's `json` by C15's stream `entry-text` and by this property's stream `rows-text`.

  A row is read back the way `deserialize` reads it: by key (`data['class']`, `data['types']`, …), any `class` other than
  `'Symbol'` takes the Reflection branch (serializer.py:73-88); `attrs` keys are index paths (`decPath`).
  Outside the model: objects with a repeated key (`json.loads` keeps the last value, the lookup here the first; `printJson` of an
  export never writes one: `C14.export_rows`, `C14.export_text_paths_nodup`).
-/
import Tranp.Model.SymbolJson
import Tranp.Model.JsonCodec

namespace Tranp.SymbolJson
open Tranp Tranp.Lark

def kClass : Str := ['c', 'l', 'a', 's', 's']
def kTypes : Str := ['t', 'y', 'p', 'e', 's']
def kAttrs : Str := ['a', 't', 't', 'r', 's']
def kNode : Str := ['n', 'o', 'd', 'e']
def kDecl : Str := ['d', 'e', 'c', 'l']
def kOrigin : Str := ['o', 'r', 'i', 'g', 'i', 'n']
def kVia : Str := ['v', 'i', 'a']
def vSymbol : Str := ['S', 'y', 'm', 'b', 'o', 'l']
def vReflection : Str := ['R', 'e', 'f', 'l', 'e', 'c', 't', 'i', 'o', 'n']

/-- the `attrs` dict of a row: `{index path: type key}` -/
def flatToJson (fl : Flat) : Json := .obj (fl.map fun pk => (encPath pk.1, .str pk.2))

/-- a row as the JSON value `json.dumps` sees (serializer.py:47-61: key order of the two dict literals) -/
def rowToJson : Row → Json
  | .symbol ty fl => .obj [(kClass, .str vSymbol), (kTypes, .str ty), (kAttrs, flatToJson fl)]
  | .reflection nd dc o v fl =>
    .obj [(kClass, .str vReflection), (kNode, .str nd), (kDecl, .str dc), (kOrigin, .str o), (kVia, .str v), (kAttrs, flatToJson fl)]

/-- `db.to_json(…)`: `{key: row}` in export order -/
def rowsToJson (d : List (Str × Row)) : Json := .obj (d.map fun kr => (kr.1, rowToJson kr.2))

/-- persistent.py:159-162 -/
def writeText (d : List (Str × Row)) : Str := printJson (rowsToJson d)

/-- `data[key]` on a decoded object -/
def jsonGet : List (Str × Json) → Str → Option Json
  | [], _ => none
  | (k, v) :: rest, key => if k = key then some v else jsonGet rest key

def jsonStr : Option Json → Option Str
  | some (.str s) => some s
  | _ => none

/-- the `attrs` dict read back: every key an index path, every value a string -/
def jsonToFlat : Option Json → Option Flat
  | some (.obj kvs) => kvs.mapM fun kv =>
      match kv.2 with
      | .str k => (decPath kv.1).map fun p => (p, k)
      | _ => none
  | _ => none

/-- a decoded row as `deserialize` reads it (serializer.py:73-88) -/
def jsonToRow : Json → Option Row
  | .obj kvs =>
    match jsonStr (jsonGet kvs kClass) with
    | none => none
    | some c =>
      if c = vSymbol then
        match jsonStr (jsonGet kvs kTypes), jsonToFlat (jsonGet kvs kAttrs) with
        | some ty, some fl => some (.symbol ty fl)
        | _, _ => none
      else
        match jsonStr (jsonGet kvs kNode), jsonStr (jsonGet kvs kDecl), jsonStr (jsonGet kvs kOrigin), jsonStr (jsonGet kvs kVia),
            jsonToFlat (jsonGet kvs kAttrs) with
        | some nd, some dc, some o, some v, some fl => some (.reflection nd dc o v fl)
        | _, _, _, _, _ => none
  | _ => none

def jsonToRows : Json → Option (List (Str × Row))
  | .obj kvs => kvs.mapM fun kv => (jsonToRow kv.2).map fun r => (kv.1, r)
  | _ => none

/-- persistent.py:171-173: `json.loads(content)`, then the rows `import_json` walks -/
def readText (s : Str) : Option (List (Str × Row)) := (parseJson s).bind jsonToRows

/-- the index paths of a row -/
def rowFlat : Row → Flat
  | .symbol _ fl => fl
  | .reflection _ _ _ _ fl => fl

end Tranp.SymbolJson
