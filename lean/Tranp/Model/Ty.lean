/-
  Tranp.Model.Ty — the type language of tranp's inference (property C03) and the row types of the
  table generated from rogw/tranp/compatible/libralies/classes.py (`Tranp/Generated/Dunder.lean`).

  A reflection (`IReflection`) is observed only through `types` (a class) and `attrs` (type arguments); its short
  notation (`ClassShorthandNaming.domain_name_for_debug`, reflection/helper/naming.py:231-290) is `Name<attr, …>`.
  `Ty` is that view. Equality of reflections is `hash((types, tuple(attrs)))` (reflection/reflection.py:207-224),
  i.e. structural equality of `Ty`.
-/
import Tranp.Str

namespace Tranp.Infer
open Tranp

mutual
/-- `types` + `attrs` of a reflection. `tvar` is a `TemplateClass` (`T_Value`, `Self`, …), `cls` every other class. -/
inductive Ty where
  | int | float | bool | str | none | unknown
  | tvar (n : Str)
  | list (t : Ty)
  | dict (k v : Ty)
  | tuple (ts : Tys)
  | union (ts : Tys)
  | cls (n : Str) (args : Tys)
inductive Tys where
  | nil
  | cons (t : Ty) (ts : Tys)
end
deriving instance DecidableEq for Ty, Tys

instance : Inhabited Ty := ⟨.unknown⟩
instance : Inhabited Tys := ⟨.nil⟩

namespace Tys
def toList : Tys → List Ty
  | nil => []
  | cons t ts => t :: toList ts

def ofList : List Ty → Tys
  | [] => nil
  | t :: ts => cons t (ofList ts)

def length : Tys → Nat
  | nil => 0
  | cons _ ts => length ts + 1

def get? : Tys → Nat → Option Ty
  | nil, _ => Option.none
  | cons t _, 0 => some t
  | cons _ ts, n + 1 => get? ts n

def mem (x : Ty) : Tys → Bool
  | nil => false
  | cons t ts => (x = t) || mem x ts

def append : Tys → Tys → Tys
  | nil, b => b
  | cons t ts, b => cons t (append ts b)
end Tys

namespace Ty

/-- class name as printed by the short notation (`@__actual__` names of the stub classes) -/
def className : Ty → Str
  | int => ['i', 'n', 't']
  | float => ['f', 'l', 'o', 'a', 't']
  | bool => ['b', 'o', 'o', 'l']
  | str => ['s', 't', 'r']
  | none => ['N', 'o', 'n', 'e']
  | unknown => ['U', 'n', 'k', 'n', 'o', 'w', 'n']
  | tvar n => n
  | list _ => ['l', 'i', 's', 't']
  | dict _ _ => ['d', 'i', 'c', 't']
  | tuple _ => ['t', 'u', 'p', 'l', 'e']
  | union _ => ['U', 'n', 'i', 'o', 'n']
  | cls n _ => n

/-- `IReflection.attrs` -/
def attrs : Ty → Tys
  | list t => .cons t .nil
  | dict k v => .cons k (.cons v .nil)
  | tuple ts => ts
  | union ts => ts
  | cls _ a => a
  | _ => .nil

def isTvar : Ty → Bool
  | tvar _ => true
  | _ => false

mutual
/-- short notation, naming.py:244-290 (`Name<a, b>`; no brackets without attrs) -/
def render : Ty → String
  | int => "int"
  | float => "float"
  | bool => "bool"
  | str => "str"
  | none => "None"
  | unknown => "Unknown"
  | tvar n => String.ofList n
  | list t => "list<" ++ render t ++ ">"
  | dict k v => "dict<" ++ render k ++ ", " ++ render v ++ ">"
  | tuple ts => wrap "tuple" ts
  | union ts => wrap "Union" ts
  | cls n a => wrap (String.ofList n) a
def wrap (n : String) : Tys → String
  | .nil => n
  | .cons t ts => n ++ "<" ++ render t ++ renderRest ts ++ ">"
def renderRest : Tys → String
  | .nil => ""
  | .cons t ts => ", " ++ render t ++ renderRest ts
end

mutual
/-- no `Unknown` anywhere inside -/
def noUnknown : Ty → Bool
  | unknown => false
  | list t => noUnknown t
  | dict k v => noUnknown k && noUnknown v
  | tuple ts => noUnknownL ts
  | union ts => noUnknownL ts
  | cls _ a => noUnknownL a
  | _ => true
def noUnknownL : Tys → Bool
  | .nil => true
  | .cons t ts => noUnknown t && noUnknownL ts
end

mutual
/-- a plain run-time type: scalars and containers of plain types (no Union, no template, no stub-only class) -/
def plain : Ty → Bool
  | int | float | bool | str | none => true
  | list t => plain t
  | dict k v => plain k && plain v
  | tuple ts => plainL ts
  | _ => false
def plainL : Tys → Bool
  | .nil => true
  | .cons t ts => plain t && plainL ts
end

end Ty

/-- one method of a stub class: `self` is the declared receiver (`Self` template, `list<T_Value>`, `str`, …) -/
structure Method where
  cls : Str
  name : Str
  self : Ty
  params : Tys
  ret : Ty
deriving DecidableEq

/-- a module-level stub function, or the constructor of a stub class under the class's name -/
structure Func where
  name : Str
  ctor : Bool
  params : Tys
  ret : Ty
deriving DecidableEq

/-! ## user classes (single inheritance) -/

/-- what `on_relay` / `on_func_call` distinguish about a member of a user class -/
inductive MKind where
  | field        -- `self.x: T = …` declared in `__init__` (DeclThisVar) or forward-declared in the class body
  | classVar     -- `x: ClassVar[T] = …` (DeclClassVar)
  | method       -- `def m(self, …) -> T`
  | property     -- `@property def p(self) -> T`
  | classMethod  -- `@classmethod def c(cls, …) -> T`
deriving DecidableEq, Repr

/-- a member of a user class: `ty` is the declared type of a variable, the declared return type of a function -/
structure Member where
  name : Str
  kind : MKind
  ty : Ty
deriving DecidableEq

structure ClassDecl where
  name : Str
  /-- the base classes, in the order they are written (`types.inherits`) -/
  bases : List Str
  members : List Member
deriving DecidableEq

/-- the user classes of a program (what the symbol table holds about them), in declaration order -/
abbrev ClassTable := List ClassDecl

end Tranp.Infer
