/-
  Tranp.Model.Ladder — the expression ladder of data/grammar.lark as an operator table (property C02).

  * `Rule`/`Fix`/`CompOp`/… : the row types of `Generated/GrammarLadder.lean` (written by translate/gen_grammar_ladder.py).
  * `ladderTable ladder : Prec.Table` — the infix/chain/prefix levels of the generated ladder, loosest first.
  * `pyTable` — CPython's operator table (Grammar/python.gram of 3.12: disjunction … factor), a trusted constant that the
    correspondence stream `pygroup` validates against `ast.parse`.
  * `rdParse ladder compOps : List LTok → Option LarkTree` — the reference parser for the ladder: operator-precedence
    recursive descent (`Prec.parse`) over the ladder's own levels, then `toLark`, which rebuilds the tree shape lark gives:
    one flat chain per rule (`a + b - c` ↦ `sum[a, +, b, -, c]`), `?`-rules never appear with a single child, operator
    tokens are kept (`!`-rules), `comp_op` occurrences are subtrees named by their alias, prefix rules use their alias
    (`not_test`), parentheses are `group_expr`. Tied to lark's LALR result by the correspondence stream `lark-vs-rd`.
  * `toAst : LarkTree → PyAst` reads a lark-shaped tree the way CPython's `ast` groups it (left-nested `BinOp`, n-ary
    `BoolOp`, `Compare` with operator list, `UnaryOp`); `astOf : Prec.Expr → PyAst` is CPython's reading of a
    parenthesised operator term (validated by `pygroup`).
  * `lex` — a small lexer for the ladder fragment (names, numbers, simple strings, constants, operators, parentheses).

  Not modelled here: ternary, lambda, call/index/attribute trailers, displays (search-only, see harness/c02.py).
-/
import Tranp.Str
import Tranp.Prec
import Tranp.Model.AstPath

namespace Tranp.Ladder
open Tranp

/-! ## row types of the generated table -/

inductive Fix where
  | ternary | infixl | chain | prefix | pass | postfix | atom
deriving DecidableEq, Repr, Inhabited

structure Rule where
  rule : Str
  alias : Option Str
  inlined : Bool
  fix : Fix
  ops : List Str
deriving DecidableEq, Repr, Inhabited

structure CompOp where
  tokens : List Str
  tree : Str
deriving DecidableEq, Repr, Inhabited

structure TernaryShape where
  alias : Str
  body : Str
  test : Str
  orelse : Str
  kwIf : Str
  kwElse : Str
deriving DecidableEq, Repr

structure LambdaShape where
  rule : Str
  params : Str
  body : Str
deriving DecidableEq, Repr

/-! ## operator codes -/

/-- spellings of every operator of either language; the code of an operator is its index -/
def opNames : List Str := [
  ['o','r'], ['a','n','d'], ['n','o','t'],
  ['<'], ['>'], ['=','='], ['>','='], ['<','='], ['!','='], ['i','n'], ['n','o','t',' ','i','n'], ['i','s'], ['i','s',' ','n','o','t'],
  ['|'], ['^'], ['&'], ['<','<'], ['>','>'], ['+'], ['-'], ['*'], ['/'], ['%'], ['~'],
  ['/','/'], ['@'], ['*','*'], ['<','>'],
  ['i','f'], ['e','l','s','e'], ['l','a','m','b','d','a'], [':'], [',']]

/-- codes of the words and punctuation of `expression` / `lambdadef` (never operators of a table) -/
def kwIf : Nat := 28
def kwElse : Nat := 29
def kwLambda : Nat := 30
def kwColon : Nat := 31
def kwComma : Nat := 32

def opCode (s : Str) : Option Nat := opNames.findIdx? (· == s)

def opName (o : Nat) : Str := (opNames[o]?).getD ['?']

def codes (names : List Str) : List Nat := names.filterMap opCode

/-! ## tables -/

/-- the operator levels of the generated ladder as a precedence table (non-operator rules are skipped) -/
def ladderTable (ladder : List Rule) : Prec.Table :=
  ladder.filterMap fun r =>
    match r.fix with
    | .infixl => some ⟨.infixl, codes r.ops⟩
    | .chain => some ⟨.chain, codes r.ops⟩
    | .prefix => some ⟨.prefix, codes r.ops⟩
    | _ => none

/-- CPython 3.12, Grammar/python.gram: disjunction, conjunction, inversion, comparison, bitwise_or, bitwise_xor,
    bitwise_and, shift_expr, sum, term, factor (loosest first). `power` (`**`, right-associative, binds tighter than a
    unary operator on its left) and `await` are outside the table: tranp's grammar has neither. -/
def pyLevels : List (Prec.Fixity × List Str) := [
  (.infixl, [['o','r']]),
  (.infixl, [['a','n','d']]),
  (.prefix, [['n','o','t']]),
  (.chain, [['=','='], ['!','='], ['<','='], ['<'], ['>','='], ['>'], ['n','o','t',' ','i','n'], ['i','n'], ['i','s',' ','n','o','t'], ['i','s']]),
  (.infixl, [['|']]),
  (.infixl, [['^']]),
  (.infixl, [['&']]),
  (.infixl, [['<','<'], ['>','>']]),
  (.infixl, [['+'], ['-']]),
  (.infixl, [['*'], ['/'], ['/','/'], ['%'], ['@']]),
  (.prefix, [['+'], ['-'], ['~']])]

def pyTable : Prec.Table := pyLevels.map fun l => ⟨l.1, codes l.2⟩

/-- Python operators that grammar.lark is known not to have (must be absent from the ladder, not misplaced) -/
def pyUnsupported : List Str := [['/','/'], ['@'], ['*','*']]

/-- operators of grammar.lark that CPython 3 does not have -/
def nonPython : List Str := [['<','>']]

def insertSorted (x : Nat) : List Nat → List Nat
  | [] => [x]
  | y :: ys => if x ≤ y then x :: y :: ys else y :: insertSorted x ys

def sortCodes (xs : List Nat) : List Nat := xs.foldr insertSorted []

/-- keep only the operators satisfying `keep`, operators of a level in code order -/
def restrictTable (keep : Nat → Bool) (T : Prec.Table) : Prec.Table :=
  T.map fun l => ⟨l.fix, sortCodes (l.ops.filter keep)⟩

def tableCodes (T : Prec.Table) : List Nat := T.flatMap (·.ops)

/-! ## lark-shaped trees -/

abbrev LarkTree := AstPath.Entry

/-- anonymous (keyword / punctuation) terminals: lark's generated terminal names are not modelled -/
def anonTok (v : Str) : LarkTree := .token ['T'] v

structure Info where
  ladder : List Rule
  compOps : List CompOp
  atomTree : Nat → LarkTree

namespace Info

def binRule (I : Info) (o : Nat) : Option Rule :=
  I.ladder.find? fun r => (r.fix == .infixl || r.fix == .chain) && r.ops.contains (opName o)

def preRule (I : Info) (o : Nat) : Option Rule :=
  I.ladder.find? fun r => r.fix == .prefix && r.ops.contains (opName o)

/-- name of the tree an infix operator's chain gets -/
def binName (I : Info) (o : Nat) : Str := ((I.binRule o).map (·.rule)).getD ['?']

/-- name of the tree a prefix operator application gets (the alias when the rule has one) -/
def preName (I : Info) (o : Nat) : Str := ((I.preRule o).map fun r => r.alias.getD r.rule).getD ['?']

/-- the child that stands for an infix operator occurrence: a kept token, or for `comp_op` a subtree of kept tokens -/
def binOpTree (I : Info) (o : Nat) : LarkTree :=
  match I.compOps.find? (fun c => Str.join [' '] c.tokens == opName o) with
  | some c => if (I.binRule o).any (·.fix == .chain) then .tree c.tree (c.tokens.map anonTok) else anonTok (opName o)
  | none => anonTok (opName o)

def preOpTree (_ : Info) (o : Nat) : LarkTree := anonTok (opName o)

end Info

mutual
/-- lark's tree for a parsed operator term -/
def toLark (I : Info) : Prec.Expr → LarkTree
  | .atom n => I.atomTree n
  | .paren e => .tree ['g','r','o','u','p','_','e','x','p','r'] [toLark I e]
  | .pre o e => .tree (I.preName o) [I.preOpTree o, toLark I e]
  | .bin o l r => .tree (I.binName o) (chain I (I.binName o) l ++ [I.binOpTree o, toLark I r])
/-- children contributed by a left operand to a chain of rule `name`: its own chain when it is a bare application of an
    operator of the same rule, itself otherwise -/
def chain (I : Info) (name : Str) : Prec.Expr → List LarkTree
  | .bin o l r =>
    if I.binName o = name then chain I name l ++ [I.binOpTree o, toLark I r]
    else [.tree (I.binName o) (chain I (I.binName o) l ++ [I.binOpTree o, toLark I r])]
  | .atom n => [I.atomTree n]
  | .paren e => [.tree ['g','r','o','u','p','_','e','x','p','r'] [toLark I e]]
  | .pre o e => [.tree (I.preName o) [I.preOpTree o, toLark I e]]
end

/-! ## CPython's reading -/

inductive PyAst where
  | leaf (t : LarkTree)
  | unaryOp (op : Nat) (e : PyAst)
  | binOp (op : Nat) (l r : PyAst)
  | boolOp (op : Nat) (vs : List PyAst)
  | compare (l : PyAst) (ops : List Nat) (cs : List PyAst)
  | ifExp (test body orelse : PyAst)
  | lambda (params : List LarkTree) (body : PyAst)
  | bad
deriving Inhabited

inductive Kind where
  | leaf | group | unary | arith | compare | ifexp | lambda
  | bool (op : Nat)
deriving DecidableEq, Repr, Inhabited

/-- how CPython's `ast` folds the children of a lark rule (by rule name; every other name is an opaque leaf) -/
def kindOfName (name : Str) : Kind :=
  if name = ['o','r','_','t','e','s','t'] then .bool 0
  else if name = ['a','n','d','_','t','e','s','t'] then .bool 1
  else if name = ['n','o','t','_','t','e','s','t'] then .unary
  else if name = ['f','a','c','t','o','r'] then .unary
  else if name = ['c','o','m','p','a','r','i','s','o','n'] then .compare
  else if name = ['o','r','_','e','x','p','r'] then .arith
  else if name = ['x','o','r','_','e','x','p','r'] then .arith
  else if name = ['a','n','d','_','e','x','p','r'] then .arith
  else if name = ['s','h','i','f','t','_','e','x','p','r'] then .arith
  else if name = ['s','u','m'] then .arith
  else if name = ['t','e','r','m'] then .arith
  else if name = ['g','r','o','u','p','_','e','x','p','r'] then .group
  else if name = ['t','e','r','n','a','r','y','_','t','e','s','t'] then .ifexp
  else if name = ['l','a','m','b','d','a','d','e','f'] then .lambda
  else .leaf

mutual
def tokenValues : LarkTree → List Str
  | .tree _ cs => tokenValuesList cs
  | .token _ v => [v]
  | .empty => []
def tokenValuesList : List LarkTree → List Str
  | [] => []
  | c :: cs => tokenValues c ++ tokenValuesList cs
end

/-- operator code of an operator child (token, or `comp_op` subtree: its tokens joined by one blank) -/
def opOfTree (t : LarkTree) : Option Nat := opCode (Str.join [' '] (tokenValues t))

def goArith (acc : PyAst) : List PyAst → PyAst
  | [] => acc
  | .leaf t :: y :: rest =>
    match opOfTree t with
    | some o => goArith (.binOp o acc y) rest
    | none => .bad
  | _ => .bad

def goBool (acc : List PyAst) : List PyAst → Option (List PyAst)
  | [] => some acc
  | _ :: y :: rest => goBool (acc ++ [y]) rest
  | _ => none

def goCmp (ops : List Nat) (cs : List PyAst) : List PyAst → Option (List Nat × List PyAst)
  | [] => some (ops, cs)
  | .leaf t :: y :: rest =>
    match opOfTree t with
    | some o => goCmp (ops ++ [o]) (cs ++ [y]) rest
    | none => none
  | _ => none

/-- fold the converted children of a tree named `name` -/
def build (name : Str) (orig : LarkTree) (xs : List PyAst) : PyAst :=
  match kindOfName name with
  | .leaf => .leaf orig
  | .group => match xs with
    | [x] => x
    | _ => .bad
  | .unary => match xs with
    | [.leaf t, x] => match opOfTree t with
      | some o => .unaryOp o x
      | none => .bad
    | _ => .bad
  | .arith => match xs with
    | x :: rest => goArith x rest
    | [] => .bad
  | .bool o => match xs with
    | x :: rest => match goBool [x] rest with
      | some vs => .boolOp o vs
      | none => .bad
    | [] => .bad
  | .compare => match xs with
    | x :: rest => match goCmp [] [] rest with
      | some (ops, cs) => .compare x ops cs
      | none => .bad
    | [] => .bad
  | .ifexp => match xs with
    | [b, c, e] => .ifExp c b e
    | _ => .bad
  | .lambda => match xs with
    | [.leaf ps, body] => .lambda ps.children body
    | _ => .bad

mutual
def toAst : LarkTree → PyAst
  | .tree name cs => build name (.tree name cs) (toAstList cs)
  | .token t v => .leaf (.token t v)
  | .empty => .leaf .empty
def toAstList : List LarkTree → List PyAst
  | [] => []
  | c :: cs => toAst c :: toAstList cs
end

/-- which fold CPython applies to an infix operator, from its level in `pyTable` -/
def pyKind (o : Nat) : Kind :=
  match pyTable.ops.bin o with
  | some 0 => .bool o
  | some 1 => .bool o
  | some 3 => .compare
  | some _ => .arith
  | none => .leaf

def sameLevel (o o' : Nat) : Bool := pyTable.ops.bin o == pyTable.ops.bin o'

mutual
/-- CPython's `ast` for a parenthesised operator term: parentheses are transparent but end a chain -/
def astOf (atomTree : Nat → LarkTree) : Prec.Expr → PyAst
  | .atom n => .leaf (atomTree n)
  | .paren e => astOf atomTree e
  | .pre o e => .unaryOp o (astOf atomTree e)
  | .bin o l r =>
    match pyKind o with
    | .bool _ => .boolOp o (boolOperands atomTree o l ++ [astOf atomTree r])
    | .compare => .compare (cmpParts atomTree l).1 ((cmpParts atomTree l).2.1 ++ [o]) ((cmpParts atomTree l).2.2 ++ [astOf atomTree r])
    | _ => .binOp o (astOf atomTree l) (astOf atomTree r)
/-- operands a bare left child contributes to a `BoolOp` of operator `o` -/
def boolOperands (atomTree : Nat → LarkTree) (o : Nat) : Prec.Expr → List PyAst
  | .bin o' l r =>
    if sameLevel o' o then boolOperands atomTree o l ++ [astOf atomTree r]
    else [match pyKind o' with
      | .bool _ => .boolOp o' (boolOperands atomTree o' l ++ [astOf atomTree r])
      | .compare => .compare (cmpParts atomTree l).1 ((cmpParts atomTree l).2.1 ++ [o']) ((cmpParts atomTree l).2.2 ++ [astOf atomTree r])
      | _ => .binOp o' (astOf atomTree l) (astOf atomTree r)]
  | .atom n => [.leaf (atomTree n)]
  | .paren e => [astOf atomTree e]
  | .pre o' e => [.unaryOp o' (astOf atomTree e)]
/-- `(left, ops, comparators)` a bare left child contributes to a `Compare` -/
def cmpParts (atomTree : Nat → LarkTree) : Prec.Expr → PyAst × List Nat × List PyAst
  | .bin o' l r =>
    match pyKind o' with
    | .compare => ((cmpParts atomTree l).1, (cmpParts atomTree l).2.1 ++ [o'], (cmpParts atomTree l).2.2 ++ [astOf atomTree r])
    | .bool _ => (.boolOp o' (boolOperands atomTree o' l ++ [astOf atomTree r]), [], [])
    | _ => (.binOp o' (astOf atomTree l) (astOf atomTree r), [], [])
  | .atom n => (.leaf (atomTree n), [], [])
  | .paren e => (astOf atomTree e, [], [])
  | .pre o' e => (.unaryOp o' (astOf atomTree e), [], [])
end

/-! ## the reference parser -/

/-- on `Prec` tokens (the statement level of the theorems) -/
def rdParseP (I : Info) (ts : List Prec.Tok) : Option LarkTree :=
  (Prec.parse (ladderTable I.ladder).ops ts).map (toLark I)

/-- tokens of the ladder fragment -/
inductive LTok where
  | name (s : Str)
  | num (kind : Str) (s : Str)
  | str (s : Str)
  | const (s : Str)
  | op (s : Str)
  | lp
  | rp
deriving DecidableEq, Repr, Inhabited

/-- terminal name of a name token: `NAME`, or the own terminal of a soft keyword alternative of the rule `name`
    (`match`, `case`: generated `softNameWords`) -/
def nameKind (soft : List (Str × Str)) (s : Str) : Str :=
  match soft.find? (fun p => p.1 == s) with
  | some p => p.2
  | none => ['N','A','M','E']

def atomOfTok (soft : List (Str × Str)) : LTok → Option LarkTree
  | .name s => some (.tree ['v','a','r'] [.tree ['n','a','m','e'] [.token (nameKind soft s) s]])
  | .num k s => some (.tree ['n','u','m','b','e','r'] [.token k s])
  | .str s => some (.tree ['s','t','r','i','n','g'] [.token ['S','T','R','I','N','G'] s])
  | .const s =>
    if s = ['T','r','u','e'] then some (.tree ['c','o','n','s','t','_','t','r','u','e'] [])
    else if s = ['F','a','l','s','e'] then some (.tree ['c','o','n','s','t','_','f','a','l','s','e'] [])
    else if s = ['N','o','n','e'] then some (.tree ['c','o','n','s','t','_','n','o','n','e'] [])
    else none
  | _ => none

/-- `Prec` tokens and the table of atom subtrees (atom `i` = the `i`-th atom of the input) -/
def encode (soft : List (Str × Str)) : List LTok → Nat → Option (List Prec.Tok × List LarkTree)
  | [], _ => some ([], [])
  | .lp :: rest, i => (encode soft rest i).map fun (ts, as) => (.lp :: ts, as)
  | .rp :: rest, i => (encode soft rest i).map fun (ts, as) => (.rp :: ts, as)
  | .op s :: rest, i =>
    match opCode s with
    | some o => (encode soft rest i).map fun (ts, as) => (.op o :: ts, as)
    | none => none
  | t :: rest, i =>
    match atomOfTok soft t with
    | some a => (encode soft rest (i + 1)).map fun (ts, as) => (.atom i :: ts, a :: as)
    | none => none

def rdParse (ladder : List Rule) (compOps : List CompOp) (soft : List (Str × Str)) (toks : List LTok) : Option LarkTree :=
  match encode soft toks 0 with
  | some (ts, atoms) => rdParseP ⟨ladder, compOps, fun i => (atoms[i]?).getD .empty⟩ ts
  | none => none

/-! ## lexer of the ladder fragment -/

def isIdStart (c : Char) : Bool := c.isAlpha || c == '_'
def isIdChar (c : Char) : Bool := c.isAlphanum || c == '_'

def keywordOps : List Str := [['o','r'], ['a','n','d'], ['n','o','t'], ['i','n'], ['i','s'], ['i','f'], ['e','l','s','e'], ['l','a','m','b','d','a']]
def constNames : List Str := [['T','r','u','e'], ['F','a','l','s','e'], ['N','o','n','e']]
def twoCharOps : List Str := [['=','='], ['!','='], ['<','='], ['>','='], ['<','<'], ['>','>'], ['<','>'], ['/','/'], ['*','*']]
def oneCharOps : List Char := ['<', '>', '|', '^', '&', '+', '-', '*', '/', '%', '~', '@', ':', ',']

def isHexChar (c : Char) : Bool := c.isDigit || ('a' ≤ c && c ≤ 'f') || ('A' ≤ c && c ≤ 'F')

/-- raw tokens; `none` on a character outside the fragment (fuel = input length) -/
def lexRaw : Nat → Str → Option (List LTok)
  | 0, [] => some []
  | 0, _ => none
  | _, [] => some []
  | fuel + 1, c :: cs =>
    if c == ' ' || c == '\t' then lexRaw fuel cs
    else if c == '(' then (lexRaw fuel cs).map (.lp :: ·)
    else if c == ')' then (lexRaw fuel cs).map (.rp :: ·)
    else if isIdStart c then
      let word := c :: cs.takeWhile isIdChar
      let rest := cs.dropWhile isIdChar
      let tok := if keywordOps.contains word then LTok.op word else if constNames.contains word then .const word else .name word
      (lexRaw fuel rest).map (tok :: ·)
    else if c.isDigit then
      if c == '0' && (cs.head? == some 'x' || cs.head? == some 'X') then
        let digits := cs.tail.takeWhile isHexChar
        let rest := cs.tail.dropWhile isHexChar
        if digits.isEmpty then none
        else (lexRaw fuel rest).map (.num ['H','E','X','_','N','U','M','B','E','R'] (c :: (cs.head?.getD 'x') :: digits) :: ·)
      else
        let intPart := c :: cs.takeWhile Char.isDigit
        let rest := cs.dropWhile Char.isDigit
        match rest with
        | '.' :: rest' =>
          let frac := rest'.takeWhile Char.isDigit
          let rest'' := rest'.dropWhile Char.isDigit
          (lexRaw fuel rest'').map (.num ['F','L','O','A','T','_','N','U','M','B','E','R'] (intPart ++ '.' :: frac) :: ·)
        | _ => (lexRaw fuel rest).map (.num ['D','E','C','_','N','U','M','B','E','R'] intPart :: ·)
    else if c == '\'' || c == '"' then
      let body := cs.takeWhile (fun d => d != c && d != '\\' && d != '\n')
      match cs.dropWhile (fun d => d != c && d != '\\' && d != '\n') with
      | d :: rest => if d == c then (lexRaw fuel rest).map (.str (c :: body ++ [c]) :: ·) else none
      | [] => none
    else
      match cs with
      | d :: rest =>
        if twoCharOps.contains [c, d] then (lexRaw fuel rest).map (.op [c, d] :: ·)
        else if oneCharOps.contains c then (lexRaw fuel cs).map (.op [c] :: ·)
        else none
      | [] => if oneCharOps.contains c then some [.op [c]] else none

/-- after these words / signs an `or_test` (hence an inversion) may start -/
def startsTest (a : Str) : Bool :=
  a = ['o','r'] || a = ['a','n','d'] || a = ['i','f'] || a = ['e','l','s','e'] || a = [':']

/-- What lark's contextual lexer does with keyword-shaped words, and the two-word operators.
    * Where an operand is expected, `or`/`and`/`in`/`is` can only be names (the keyword terminals are not acceptable there, and
      grammar.lark does not reserve them); `not` is the prefix operator only where an inversion may start (at the beginning,
      after `(`, `or`, `and`, `not`) and a name elsewhere (e.g. after `==` or `-`).
    * Where an operator is expected, `is not` and `not in` are one operator each (`is (not x)` is impossible: an inversion is
      not an operand of a comparison).
    (states: see `contextualize`) -/
def startsExpression (a : Str) : Bool := a = ['e','l','s','e'] || a = [':']

/- `operand`: an operand is expected next; `notOk`: an inversion (`not …`) may start here; `lamOk`: a whole `expression`
    (hence a `lambda`) may start here — at the beginning, after `(`, `else` and the `:` of a lambda. `if` / `else` are names
    where an operand is expected; `lambda` is a name where no `expression` may start. -/
mutual
def contextualize : Bool → Bool → Bool → List LTok → List LTok
  | _, _, _, [] => []
  | true, notOk, lamOk, .op w :: rest =>
    if w = ['n','o','t'] then
      if notOk then .op w :: contextualize true true false rest else .name w :: contextualize false false false rest
    else if w = ['o','r'] ∨ w = ['a','n','d'] ∨ w = ['i','n'] ∨ w = ['i','s'] ∨ w = ['i','f'] ∨ w = ['e','l','s','e'] then
      .name w :: contextualize false false false rest
    else if w = ['l','a','m','b','d','a'] then
      if lamOk then .op w :: lambdaParams rest else .name w :: contextualize false false false rest
    else if w = [':'] then .op w :: contextualize true true true rest    -- `lambda:` — an expression starts
    else .op w :: contextualize true false false rest
  | true, _, _, .lp :: rest => .lp :: contextualize true true true rest
  | true, _, _, t :: rest => t :: contextualize false false false rest
  | false, _, _, .op a :: .op b :: rest =>
    if a = ['i','s'] ∧ b = ['n','o','t'] then .op ['i','s',' ','n','o','t'] :: contextualize true false false rest
    else if a = ['n','o','t'] ∧ b = ['i','n'] then .op ['n','o','t',' ','i','n'] :: contextualize true false false rest
    else .op a :: contextualize true (startsTest a) (startsExpression a) (.op b :: rest)
  | false, _, _, .op a :: rest => .op a :: contextualize true (startsTest a) (startsExpression a) rest
  | false, _, _, .lp :: rest => .lp :: contextualize true true true rest
  | false, _, _, t :: rest => t :: contextualize false false false rest
/-- between `lambda` and its `:` only NAME, `,` and `:` are acceptable: every word there is a name, the constants
    `True` / `False` / `None` and the operator words included -/
def lambdaParams : List LTok → List LTok
  | [] => []
  | .op w :: rest =>
    if w = [':'] then .op w :: contextualize true true true rest
    else if w = [','] then .op w :: lambdaParams rest
    else if w.all isIdChar && !w.isEmpty then .name w :: lambdaParams rest
    else .op w :: lambdaParams rest
  | .const w :: rest => .name w :: lambdaParams rest
  | t :: rest => t :: lambdaParams rest
end

/-- the word a raw token spells, if any -/
def LTok.word? : LTok → Option Str
  | .name w => some w
  | .op w => some w
  | .const w => some w
  | _ => none

/-- `startWords` (generated `statementStartWords`): at the start of a statement lark's parser accepts the keyword terminals
    that open a statement (`if`, `while`, `return`, …) and the contextual lexer then prefers them to NAME; a text beginning with
    one of them is a (possibly ill-formed) statement of another kind, not an expression statement. Everywhere else the
    parser state decides as `contextualize` describes. -/
def lex (startWords : List Str) (s : Str) : Option (List LTok) :=
  match lexRaw (s.length + 1) s with
  | some raw =>
    if (raw.head?.bind LTok.word?).any (fun w => startWords.contains w) then none
    else some (contextualize true true true raw)
  | none => none

end Tranp.Ladder
