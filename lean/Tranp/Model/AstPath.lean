/-
  Tranp.Model.AstPath — executable model of tree addressing (property C10).

  Modelled code (rog-works/tranp):
    rogw/tranp/dsn/dsn.py                 DSN.join / elements / elem_counts
    rogw/tranp/syntax/ast/path.py         EntryPath.join / identify / first / last / shift / de_identify / __break_tag
    rogw/tranp/syntax/ast/finder.py       ASTFinder.full_pathfy / pluck
    rogw/tranp/syntax/ast/cache.py        EntryCache.add / by / index_of / group_by (depth 1 as `groupBy1`, any depth as `groupBy`)
    rogw/tranp/syntax/node/query.py       Nodes.by / parent / ancestor / siblings / children / expand / values / id
    rogw/tranp/syntax/node/resolver.py    NodeResolver.resolve (first accepting class, instance cached by path)
    rogw/tranp/syntax/ast/resolver.py     Resolver.register / resolve / fallback

  Two layers: the *abstract* layer addresses entries by lists of `Elem` (tag + optional index), the
  *string* layer reproduces what the Python does on the joined path strings. Theorems (Props/C10.lean)
  are proved on the abstract layer and transported to the string layer by the codec lemmas.
-/
import Tranp.Str

namespace Tranp.AstPath
open Tranp

/-- Exceptions the modelled code can raise (same enum as `harness.common.exc_enum`). -/
inductive Err where
  | nodeNotFound | valueError | unresolvedNode | keyError | indexError | logic | recursionError
deriving DecidableEq, Repr

def Err.toString : Err → String
  | .nodeNotFound => "Errors.NodeNotFound"
  | .valueError => "ValueError"
  | .unresolvedNode => "Errors.UnresolvedNode"
  | .keyError => "KeyError"
  | .indexError => "IndexError"
  | .logic => "Errors.Logic"
  | .recursionError => "RecursionError"

/-- `Entry` as seen through the `Entry` interface (`EntryOfDict` / `EntryOfLark`). -/
inductive Entry where
  | tree (tag : Str) (children : List Entry)
  | token (tag : Str) (value : Str)
  | empty
deriving Repr, Inhabited

mutual
/-- decidable equality of entries, by structural recursion (kernel-reducible, unlike a derived `BEq`) -/
def Entry.decEq : (a b : Entry) → Decidable (a = b)
  | .tree t1 c1, .tree t2 c2 =>
    if h : t1 = t2 then
      match Entry.decEqList c1 c2 with
      | isTrue h2 => isTrue (by subst h h2; rfl)
      | isFalse h2 => isFalse (by intro h'; injection h' with _ h3; exact h2 h3)
    else isFalse (by intro h'; injection h' with h3 _; exact h h3)
  | .token t1 v1, .token t2 v2 =>
    if h : t1 = t2 ∧ v1 = v2 then isTrue (by rw [h.1, h.2])
    else isFalse (by intro h'; injection h' with h3 h4; exact h ⟨h3, h4⟩)
  | .empty, .empty => isTrue rfl
  | .tree _ _, .token _ _ => isFalse (by intro h; cases h)
  | .tree _ _, .empty => isFalse (by intro h; cases h)
  | .token _ _, .tree _ _ => isFalse (by intro h; cases h)
  | .token _ _, .empty => isFalse (by intro h; cases h)
  | .empty, .tree _ _ => isFalse (by intro h; cases h)
  | .empty, .token _ _ => isFalse (by intro h; cases h)
def Entry.decEqList : (a b : List Entry) → Decidable (a = b)
  | [], [] => isTrue rfl
  | [], _ :: _ => isFalse (by intro h; cases h)
  | _ :: _, [] => isFalse (by intro h; cases h)
  | x :: xs, y :: ys =>
    match Entry.decEq x y with
    | isTrue h1 =>
      match Entry.decEqList xs ys with
      | isTrue h2 => isTrue (by rw [h1, h2])
      | isFalse h2 => isFalse (by intro h'; injection h' with _ h3; exact h2 h3)
    | isFalse h1 => isFalse (by intro h'; injection h' with h3 _; exact h1 h3)
end

instance : DecidableEq Entry := Entry.decEq

def emptyName : Str := "__empty__".toList

namespace Entry
def name : Entry → Str
  | tree t _ => t
  | token t _ => t
  | empty => emptyName

def hasChild : Entry → Bool
  | tree _ _ => true
  | _ => false

def children : Entry → List Entry
  | tree _ cs => cs
  | _ => []

def value : Entry → Str
  | token _ v => v
  | _ => []
end Entry

mutual
/-- number of entries (positions) of a tree -/
def size : Entry → Nat
  | .tree _ cs => 1 + sizeList cs
  | _ => 1
def sizeList : List Entry → Nat
  | [] => 0
  | c :: cs => size c + sizeList cs
end

/-! ## abstract layer -/

structure Elem where
  tag : Str
  idx : Option Nat
deriving DecidableEq, Repr

abbrev Path := List Elem

def countTag (t : Str) (cs : List Entry) : Nat := (cs.filter (fun c => c.name == t)).length

/-- path element of child `c` at position `i` among `cs`: plain tag iff the tag is unique among the siblings
    (`finder.py:127-133`). -/
def elemFor (cs : List Entry) (i : Nat) (c : Entry) : Elem :=
  if countTag c.name cs == 1 then ⟨c.name, none⟩ else ⟨c.name, some i⟩

mutual
/-- `ASTFinder.full_pathfy` (unbounded depth) on element lists, in dict insertion order (= pre-order). -/
def pathfy (e : Entry) (p : Path) : List (Path × Entry) :=
  match e with
  | .tree t cs => (p, .tree t cs) :: pathfyList cs cs 0 p
  | e => [(p, e)]
def pathfyList (all : List Entry) (cs : List Entry) (i : Nat) (p : Path) : List (Path × Entry) :=
  match cs with
  | [] => []
  | c :: rest => pathfy c (p ++ [elemFor all i c]) ++ pathfyList all rest (i+1) p
end

/-- last child with the given tag (`in_entries.pop()`), `finder.py:65-68`. -/
def lastWithTag (t : Str) : List Entry → Option Entry
  | [] => none
  | c :: rest => match lastWithTag t rest with
    | some r => some r
    | none => if c.name == t then some c else none

def stepInto (e : Entry) (el : Elem) : Option Entry :=
  match e, el with
  | .tree _ cs, ⟨_, some i⟩ => cs[i]?
  | .tree _ cs, ⟨t, none⟩ => lastWithTag t cs
  | _, _ => none

/-- `ASTFinder.__pluck` on element lists; `none` = `Errors.NodeNotFound`. -/
def pluckRel : Path → Entry → Option Entry
  | [], e => some e
  | el :: rest, e => (stepInto e el).bind (pluckRel rest)

/-! ## string layer -/

def dot : Str := ['.']

/-- `DSN.join(*parts)`: empty parts are dropped. -/
def dsnJoin (parts : List Str) : Str := Str.join dot (parts.filter (fun p => !p.isEmpty))

/-- `DSN.elements(origin)`. -/
def dsnElements (s : Str) : List Str := (Str.splitOn '.' s).filter (fun p => !p.isEmpty)

/-- `DSN.elem_counts(origin)`. -/
def dsnElemCounts (s : Str) : Nat :=
  if s.isEmpty then 0 else Str.count '.' s + (if s.head? = some '.' then 0 else 1)

def encodeElem (el : Elem) : Str :=
  match el.idx with
  | none => el.tag
  | some i => el.tag ++ '[' :: Str.natToDec i ++ [']']

def encodePath (p : Path) : Str := dsnJoin (p.map encodeElem)

/-- `EntryPath.__break_tag`: `(tag, index)` with -1 for "no index"; `ValueError` when `split('[')` does not give
    two parts or the index is not a number. -/
def breakTag (s : Str) : Except Err (Str × Int) :=
  if s.getLast? = some ']' then
    match Str.splitOn '[' s with
    | [before, after] =>
      match Str.decToInt? after.dropLast with
      | some i => .ok (before, i)
      | none => .error .valueError
    | _ => .error .valueError
  else .ok (s, -1)

/-- `ASTFinder.__pluck(entry, path)` where `path` is given by its element strings (a shifted `EntryPath` is always
    re-joined from its non-empty, dot-free elements). -/
def pluckRaw : List Str → Entry → Except Err Entry
  | [], e => .ok e
  | el :: rest, e =>
    if e.hasChild then
      match breakTag el with
      | .error err => .error err
      | .ok (tag, index) =>
        if index != -1 then
          if index ≥ 0 then
            match e.children[index.toNat]? with
            | some c => pluckRaw rest c
            | none => .error .nodeNotFound
          else .error .nodeNotFound
        else
          match lastWithTag tag e.children with
          | some c => pluckRaw rest c
          | none => .error .nodeNotFound
    else .error .nodeNotFound

/-- `ASTFinder.pluck(root, full_path)`. -/
def pluckS (root : Entry) (fullPath : Str) : Except Err Entry :=
  if root.name = fullPath then .ok root else pluckRaw (dsnElements fullPath).tail root

mutual
/-- `ASTFinder.full_pathfy(entry, path)` on strings, as the list of `(key, value)` insertions in order. -/
def pathfyS (e : Entry) (path : Str) : List (Str × Entry) :=
  match e with
  | .tree t cs => (path, .tree t cs) :: pathfySList cs cs 0 path
  | e => [(path, e)]
def pathfySList (all : List Entry) (cs : List Entry) (i : Nat) (path : Str) : List (Str × Entry) :=
  match cs with
  | [] => []
  | c :: rest =>
    let inPath :=
      if countTag c.name all == 1 then dsnJoin [path, c.name]
      else dsnJoin [path, c.name ++ '[' :: Str.natToDec i ++ [']']]
    pathfyS c inPath ++ pathfySList all rest (i+1) path
end

/-- Python dict built by successive `d[k] = v`: first insertion fixes the position, last one the value. -/
def dictInsert {α : Type} (d : List (Str × α)) (k : Str) (v : α) : List (Str × α) :=
  if d.any (fun kv => kv.1 == k) then d.map (fun kv => if kv.1 == k then (k, v) else kv) else d ++ [(k, v)]

def dictOfList {α : Type} (kvs : List (Str × α)) : List (Str × α) :=
  kvs.foldl (fun d kv => dictInsert d kv.1 kv.2) []

def dictGet? {α : Type} (d : List (Str × α)) (k : Str) : Option α :=
  (d.find? (fun kv => kv.1 == k)).map (·.2)

/-- `full_pathfy(root)` with the default path (= the root's name). -/
def fullPathfy (root : Entry) : List (Str × Entry) := dictOfList (pathfyS root root.name)

/-! ### EntryCache -/

structure Cache where
  entries : List (Str × Entry) := []
  children : List (Str × List Str) := []
deriving Repr, Inhabited

namespace Cache

def exists_ (c : Cache) (p : Str) : Bool := c.entries.any (fun kv => kv.1 == p)

/-- `index_of`: insertion rank, -1 when absent. -/
def indexOf (c : Cache) (p : Str) : Int :=
  match c.entries.findIdx? (fun kv => kv.1 == p) with
  | some i => i
  | none => -1

def by_ (c : Cache) (p : Str) : Except Err Entry :=
  match dictGet? c.entries p with
  | some e => .ok e
  | none => .error .nodeNotFound

def childKeys (c : Cache) (p : Str) : List Str := (dictGet? c.children p).getD []

/-- `self.__children[in_path][last] = True` -/
def linkChild (ch : List (Str × List Str)) (inPath last : Str) : List (Str × List Str) :=
  let cur := (dictGet? ch inPath).getD []
  let cur' := if cur.contains last then cur else cur ++ [last]
  dictInsert ch inPath cur'

/-- the `while len(remain)` loop of `add`: `remain` (reversed here for structural recursion) and `last`. -/
def addLinks (ch : List (Str × List Str)) : List Str → Str → List (Str × List Str)
  | [], _ => ch
  | r :: remainRev, last =>
    let inPath := Str.join dot (r :: remainRev).reverse
    addLinks (linkChild ch inPath last) remainRev r

/-- `EntryCache.add(full_path, entry)` -/
def add (c : Cache) (p : Str) (e : Entry) : Cache :=
  if c.exists_ p then c else
  let elems := Str.splitOn '.' p
  -- `self.__children[full_path] = {}`: keeps the key's position, overwrites an existing link table
  let ch := dictInsert c.children p []
  { entries := c.entries ++ [(p, e)],
    children := addLinks ch elems.dropLast.reverse (elems.getLast?.getD []) }

/-- `group_by(via, depth=1)` as the resulting dict. -/
def groupBy1 (c : Cache) (via : Str) : Except Err (List (Str × Entry)) := do
  let e ← c.by_ via
  let kvs ← (c.childKeys via).mapM (fun key => do
    let path := dsnJoin [via, key]
    let ce ← c.by_ path
    pure (path, ce))
  pure (dictOfList ((via, e) :: kvs))

end Cache

/-- `entries.update(sub)`: successive `d[k] = v`. -/
def dictUpdate {α : Type} (d sub : List (Str × α)) : List (Str × α) :=
  sub.foldl (fun d kv => dictInsert d kv.1 kv.2) d

namespace Cache

/-- the `for key in self.__children[via]` loop of `group_by` (`cache.py:67-71`), `rec` = the recursive call with
    `depth - 1`: `entries[path] = self.by(path)` then `entries.update(self.group_by(path, depth - 1))`. -/
def groupLoop (c : Cache) (via : Str) (rec : Str → Except Err (List (Str × Entry))) :
    List Str → List (Str × Entry) → Except Err (List (Str × Entry))
  | [], acc => .ok acc
  | key :: keys, acc => do
    let path := dsnJoin [via, key]
    let ce ← c.by_ path
    let sub ← rec path
    groupLoop c via rec keys (dictUpdate (dictInsert acc path ce) sub)

/-- `EntryCache.group_by(via, depth)` (`cache.py:49-73`) for any depth; `depth = -1` (any negative) is unbounded, so the
    recursion carries fuel (running out = `RecursionError`; `groupBy_fuel` in the lemmas: never for a cache of `Nodes`). -/
def groupBy (c : Cache) : Nat → Str → Int → Except Err (List (Str × Entry))
  | 0, _, _ => .error .recursionError
  | fuel + 1, via, depth =>
    if !c.exists_ via then .error .nodeNotFound
    else if depth == 0 then .ok []
    else
      match c.by_ via with
      | .error er => .error er
      | .ok e => groupLoop c via (fun path => groupBy c fuel path (depth - 1)) (c.childKeys via) [(via, e)]

/-- `group_by` with fuel that always suffices: every recursion step moves to a longer existing key. -/
def groupByAll (c : Cache) (via : Str) (depth : Int) : Except Err (List (Str × Entry)) :=
  c.groupBy (c.entries.length + 1) via depth

end Cache

/-- `Nodes.__init__`: the cache filled from `full_pathfy(root)`. -/
def mkCache (root : Entry) : Cache :=
  (fullPathfy root).foldl (fun c kv => c.add kv.1 kv.2) {}

/-! ### EntryPath helpers on strings -/

def lastTag (p : Str) : Except Err Str :=
  match (dsnElements p).getLast? with
  | none => .error .indexError   -- `elements[-1]` on an empty element list
  | some el => (breakTag el).map (·.1)

def shiftLast (p : Str) : Str := dsnJoin (dsnElements p).dropLast

/-- `re.sub(r'\[\d+\]', '', origin)`: drop every `[digits]` group (fuel = length of the string). -/
def stripIndexGroupsAux : Nat → Str → Str
  | 0, s => s
  | _, [] => []
  | fuel + 1, '[' :: rest =>
    let digits := rest.takeWhile (fun c => (Str.decVal c).isSome)
    let after := rest.dropWhile (fun c => (Str.decVal c).isSome)
    match digits, after with
    | _ :: _, ']' :: tail => stripIndexGroupsAux fuel tail
    | _, _ => '[' :: stripIndexGroupsAux fuel rest
  | fuel + 1, c :: rest => c :: stripIndexGroupsAux fuel rest

def stripIndexGroups (s : Str) : Str := stripIndexGroupsAux s.length s

/-! ### Resolver / NodeResolver -/

/-- features the test node classes use in `match_feature` (all pure functions of tree and path). -/
inductive Feat where
  | always
  | never
  | childCountGe (n : Nat)
  | parentTagIs (t : Str)
  | hasIndex
  | depthGe (n : Nat)
  | firstChildTagIs (t : Str)
deriving Repr, DecidableEq

structure ClassDef where
  name : Str
  feat : Feat
deriving Repr

/-- `Resolver`: ordered `symbol ↦ [ctor…]` plus fallback. -/
structure Table where
  ctors : List (Str × List ClassDef) := []
  fallback : Option ClassDef := none
deriving Repr, Inhabited

namespace Table
def canResolve (t : Table) (sym : Str) : Bool := t.ctors.any (fun kv => kv.1 == sym)

def register (t : Table) (sym : Str) (c : ClassDef) : Table :=
  { t with ctors := dictInsert t.ctors sym ((dictGet? t.ctors sym).getD [] ++ [c]) }

def resolve (t : Table) (sym : Str) : Except Err (List ClassDef) :=
  match dictGet? t.ctors sym with
  | some cs => .ok cs
  | none => match t.fallback with
    | some c => .ok [c]
    | none => .error .unresolvedNode
end Table

structure World where
  root : Entry
  cache : Cache
  table : Table
deriving Inhabited

/-- children paths of `via` (`Nodes.children` before resolution). -/
def childrenPaths (w : World) (via : Str) : Except Err (List Str) := do
  let g ← w.cache.groupBy1 via
  let d := Str.count '.' via
  pure ((g.filter (fun kv => Str.count '.' kv.1 == d + 1)).map (·.1))

def siblingsPaths (w : World) (via : Str) : Except Err (List Str) := do
  let up := shiftLast via
  if dsnElemCounts up == 0 then .error .nodeNotFound else
  let g ← w.cache.groupBy1 up
  let d := Str.count '.' via
  pure ((g.filter (fun kv => Str.count '.' kv.1 == d)).map (·.1))

/-- `Nodes.parent(via)`: nearest proper prefix whose last tag is resolvable (fuel = number of elements). -/
def parentPath (w : World) (via : Str) : Except Err Str :=
  go (dsnElements via).length (shiftLast via)
where
  go : Nat → Str → Except Err Str
    | 0, _ => .error .nodeNotFound
    | fuel + 1, fw =>
      if dsnElemCounts fw == 0 then .error .nodeNotFound else
      match lastTag fw with
      | .error e => .error e
      | .ok t =>
        if w.table.canResolve t then (w.cache.by_ fw).map (fun _ => fw)
        else go fuel (shiftLast fw)

/-- `Nodes.ancestor(via, tag)`. `list.index` raises ValueError when the tag is absent. -/
def ancestorPath (w : World) (via tag : Str) : Except Err Str :=
  let elems := (dsnElements (stripIndexGroups via)).reverse
  match elems.findIdx? (· == tag) with
  | none => .error .valueError
  | some index =>
    let slices := elems.length - index
    let found := dsnJoin ((dsnElements via).take slices)
    (w.cache.by_ found).map (fun _ => found)

/-- evaluation of a feature on the dummy node for `path`; needs class resolution of children only for
    `firstChildTagIs` (tag of a node = last tag of its path, independent of its class). -/
def evalFeat (w : World) (path : Str) : Feat → Except Err Bool
  | .always => .ok true
  | .never => .ok false
  | .childCountGe n => (childrenPaths w path).map (fun cs => decide (cs.length ≥ n))
  | .parentTagIs t => (lastTag (shiftLast path)).map (· == t)
  | .hasIndex => match (dsnElements path).getLast? with
    | none => .error .indexError
    | some el => (breakTag el).map (fun r => r.2 != -1)
  | .depthGe n => .ok (decide ((dsnElements path).length ≥ n))
  | .firstChildTagIs t => do
    let cs ← childrenPaths w path
    match cs with
    | [] => pure false
    | c :: _ => (lastTag c).map (· == t)

/-- cache-free class choice for `(symbol, path)`: first accepting class in table order. -/
def classOf (w : World) (sym path : Str) : Except Err Str := do
  let cs ← w.table.resolve sym
  let rec go : List ClassDef → Except Err Str
    | [] => .error .unresolvedNode
    | c :: rest => do
      if (← evalFeat w path c.feat) then pure c.name else go rest
  go cs

/-- `NodeResolver.resolve` with its instance cache `__insts : path ↦ class`. -/
def resolveCached (w : World) (insts : List (Str × Str)) (sym path : Str) : Except Err (Str × List (Str × Str)) :=
  match dictGet? insts path with
  | some c => .ok (c, insts)
  | none => do
    let c ← classOf w sym path
    pure (c, insts ++ [(path, c)])

/-- `Nodes.by(full_path)` -/
def nodeBy (w : World) (insts : List (Str × Str)) (path : Str) : Except Err (Str × List (Str × Str)) := do
  let e ← w.cache.by_ path
  resolveCached w insts e.name path

/-! ### `Nodes.expand` / `Nodes.values` -/

/-- `s.split(sep)` for a non-empty multi-character separator (left to right, non-overlapping); fuel = `len(s) + 1`. -/
def splitOnStrAux (sep : Str) : Nat → Str → Str → List Str
  | 0, acc, rest => [acc.reverse ++ rest]
  | _ + 1, acc, [] => [acc.reverse]
  | fuel + 1, acc, c :: cs =>
    if Str.startsWith (c :: cs) sep then acc.reverse :: splitOnStrAux sep fuel [] ((c :: cs).drop sep.length)
    else splitOnStrAux sep fuel (c :: acc) cs

def splitOnStr (sep s : Str) : List Str := splitOnStrAux sep (s.length + 1) [] s

/-- `DSN.relativefy(origin, starts)` (`dsn.py`): `origin.split(starts)[1]` is the text between the first and the
    *second* occurrence of `starts` — modelled as written. `str.split('')` raises ValueError. -/
def dsnRelativefy (origin starts : Str) : Except Err Str :=
  if starts != origin && !(Str.startsWith origin (starts ++ dot)) then .ok origin
  else match starts with
    | [] => .error .valueError
    | _ => match (splitOnStr starts origin)[1]? with
      | none => .error .indexError
      | some piece => .ok (dsnJoin (Str.splitOn '.' piece))

/-- `EntryPath(path).relativefy(via).de_identify().elements` (`path.py` relativefy raises `Errors.Logic` unless `path`
    starts with `via + '.'`). -/
def relTags (path via : Str) : Except Err (List Str) :=
  if !(Str.startsWith path (via ++ dot)) then .error .logic
  else (dsnRelativefy path via).map (fun rel => dsnElements (stripIndexGroups rel))

/-- `tester(entry, path)` of `Nodes.expand` (`query.py`), threading `record`; entries below a recorded path are
    skipped by `path.startswith(f'{cached}.')` (repaired in 8ae8ddc: the test used to lack the delimiter). -/
def expandTest (w : World) (via : Str) (record : List Str) (path : Str) (e : Entry) : Except Err (Bool × List Str) :=
  if via == path then .ok (false, record)
  else if record.any (fun cached => Str.startsWith path (cached ++ dot)) then .ok (false, record)
  else
    match lastTag path with
    | .error er => .error er
    | .ok t =>
      if w.table.canResolve t then .ok (true, record ++ [path])
      else if e.hasChild then .ok (false, record)
      else (relTags path via).map (fun tags => (!(tags.any w.table.canResolve), record))

/-- the dict comprehension `{path: entry for path, entry in under_entries if tester(entry, path)}` (keys only). -/
def expandLoop (w : World) (via : Str) : List (Str × Entry) → List Str → Except Err (List Str)
  | [], _ => .ok []
  | (path, e) :: rest, record =>
    match expandTest w via record path e with
    | .error er => .error er
    | .ok (keep, record') =>
      match expandLoop w via rest record' with
      | .error er => .error er
      | .ok tl => .ok (if keep then path :: tl else tl)

/-- `Nodes.expand(via)` before resolution: `group_by(via, depth=3)` filtered by `tester`. -/
def expandPaths (w : World) (via : Str) : Except Err (List Str) :=
  match w.cache.groupByAll via 3 with
  | .error er => .error er
  | .ok g => expandLoop w via g []

/-- `Nodes.values(via)`: non-empty values of `group_by(via)` (unbounded depth) in dict order. -/
def valuesOf (w : World) (via : Str) : Except Err (List Str) :=
  (w.cache.groupByAll via (-1)).map (fun g => (g.map (fun kv => kv.2.value)).filter (fun v => !v.isEmpty))

/-! ### the remaining `EntryPath` algebra (`path.py`), on strings -/

namespace EP

/-- `EntryPath.valid` -/
def valid (s : Str) : Bool := dsnElemCounts s > 0

/-- `EntryPath.joined(relative)` -/
def joined (origin rel : Str) : Str := dsnJoin [origin, rel]

/-- `EntryPath.identify(origin, entry_tag, index).origin` (`f'{entry_tag}[{index}]'`, any `int`) -/
def identify (origin tag : Str) (index : Int) : Str := dsnJoin [origin, tag ++ '[' :: Str.intToDec index ++ [']']]

/-- `EntryPath.first` — `elements[0]` raises IndexError on a path without elements -/
def first (s : Str) : Except Err (Str × Int) :=
  match (dsnElements s).head? with
  | none => .error .indexError
  | some el => breakTag el

/-- `EntryPath.last` -/
def last (s : Str) : Except Err (Str × Int) :=
  match (dsnElements s).getLast? with
  | none => .error .indexError
  | some el => breakTag el

/-- `EntryPath.shift(skip).origin`: `elems[skip:]` for `skip > 0`, `elems[:skip]` for `skip < 0` (Python slice clamping) -/
def shift (s : Str) (skip : Int) : Str :=
  let elems := dsnElements s
  if skip == 0 then dsnJoin elems
  else if skip > 0 then dsnJoin (elems.drop skip.toNat)
  else dsnJoin (elems.take (elems.length - (-skip).toNat))

/-- `EntryPath.parent_tag` = `shift(-1).last[0]` -/
def parentTag (s : Str) : Except Err Str := (last (shift s (-1))).map (·.1)

/-- `EntryPath.de_identify().origin` -/
def deIdentify (s : Str) : Str := stripIndexGroups s

/-- `EntryPath.contains(entry_tag)` -/
def contains (s tag : Str) : Bool := (dsnElements (deIdentify s)).contains tag

/-- `EntryPath.consists_of_only(*entry_tags)` -/
def consistsOfOnly (s : Str) (tags : List Str) : Bool := (dsnElements (deIdentify s)).all (fun t => tags.contains t)

/-- `EntryPath.escaped_origin`: `.`, `[`, `]` get a backslash -/
def escaped (s : Str) : Str := s.flatMap (fun c => if c = '.' ∨ c = '[' ∨ c = ']' then ['\\', c] else [c])

/-- `EntryPath.relativefy(starts).origin` (`Errors.Logic` unless the path starts with `starts + '.'`) -/
def relativefy (s starts : Str) : Except Err Str :=
  if !(Str.startsWith s (starts ++ dot)) then .error .logic else dsnRelativefy s starts

end EP

/-! ### the queries of `Nodes` as data (for the memo layer, `Model/NodesMemo.lean`) -/

/-- the public queries of `Nodes` that return nodes or values (`query.py`) -/
inductive Query where
  | by_ (via : Str)
  | parent (via : Str)
  | ancestor (via tag : Str)
  | siblings (via : Str)
  | children (via : Str)
  | expand (via : Str)
  | values (via : Str)
deriving DecidableEq, Repr

/-- result of a query: resolved nodes as `(full path, class name)`, or the values of `Nodes.values` -/
inductive Out where
  | nodes (l : List (Str × Str))
  | vals (l : List Str)
deriving DecidableEq, Repr

/-- `[self.__resolve(entry, path) for path, entry in entries.items()]`: resolve in order through `Nodes.by`; the instance
    cache keeps what was resolved before an exception. -/
def resolvePaths (w : World) : List (Str × Str) → List Str → Except Err (List (Str × Str)) × List (Str × Str)
  | insts, [] => (.ok [], insts)
  | insts, p :: ps =>
    match nodeBy w insts p with
    | .error er => (.error er, insts)
    | .ok (c, insts') =>
      let r := resolvePaths w insts' ps
      (r.1.map (fun l => (p, c) :: l), r.2)

/-- the paths a node-returning query resolves (cache-free part of each `factory`) -/
def queryPaths (w : World) : Query → Except Err (List Str)
  | .by_ via => (w.cache.by_ via).map (fun _ => [via])
  | .parent via => (parentPath w via).map (fun p => [p])
  | .ancestor via tag => (ancestorPath w via tag).map (fun p => [p])
  | .siblings via => siblingsPaths w via
  | .children via => childrenPaths w via
  | .expand via => expandPaths w via
  | .values _ => .ok []

/-- one query without the `Nodes` memo, threading the resolver's instance cache -/
def evalQuery (w : World) (insts : List (Str × Str)) : Query → Except Err Out × List (Str × Str)
  | .values via => ((valuesOf w via).map Out.vals, insts)
  | q =>
    match queryPaths w q with
    | .error er => (.error er, insts)
    | .ok ps => let r := resolvePaths w insts ps; (r.1.map Out.nodes, r.2)

/-- the query as a function of the world alone -/
def evalPure (w : World) (q : Query) : Except Err Out := (evalQuery w [] q).1

/-! ### query histories (the "for all permutations of node queries" quantifier of the property) -/

/-- a history of `Nodes.by` queries threading `NodeResolver.__insts`; a query that raises leaves the instance cache
    as it was (`resolver.py:45-55` writes `__insts` only right before the successful return). -/
def runQueries (w : World) : List (Str × Str) → List Str → List (Str × Str)
  | insts, [] => insts
  | insts, q :: qs =>
    match nodeBy w insts q with
    | .ok (_, insts') => runQueries w insts' qs
    | .error _ => runQueries w insts qs

/-- every instance cache the resolver can be in: empty after construction / `clear()`, then any number of successful
    `Nodes.by` calls (the `children` / `siblings` / `parent` / `ancestor` queries resolve their result paths through
    `Nodes.by` too, so their effect on the cache is a sequence of such steps, completed or cut short by an exception). -/
inductive Reachable (w : World) : List (Str × Str) → Prop where
  | init : Reachable w []
  | step {insts insts' : List (Str × Str)} {q c : Str} :
      Reachable w insts → nodeBy w insts q = .ok (c, insts') → Reachable w insts'

/-! ### well-formed tags (side condition of the string codec) -/

/-- a tag the path codec is faithful for: non-empty and free of the three meta characters. True of every lark
    rule / terminal name and of `__empty__`. -/
def WfTag (t : Str) : Prop := t ≠ [] ∧ '.' ∉ t ∧ '[' ∉ t ∧ ']' ∉ t

instance (t : Str) : Decidable (WfTag t) := by unfold WfTag; exact inferInstance

mutual
/-- every tag of the tree (and `__empty__` for empty entries) is `WfTag`, as a Bool -/
def wfTagsB : Entry → Bool
  | .tree t cs => decide (WfTag t) && wfTagsListB cs
  | .token t _ => decide (WfTag t)
  | .empty => decide (WfTag emptyName)
def wfTagsListB : List Entry → Bool
  | [] => true
  | c :: cs => wfTagsB c && wfTagsListB cs
end

def WfTags (e : Entry) : Prop := wfTagsB e = true

instance (e : Entry) : Decidable (WfTags e) := by unfold WfTags; exact inferInstance

def WfPath (p : Path) : Prop := ∀ el ∈ p, WfTag el.tag

/-- the `index` component `__break_tag` returns for an element -/
def Elem.idxInt (el : Elem) : Int :=
  match el.idx with
  | none => -1
  | some i => (i : Int)

/-! ### specification functions for `children` / `parent` (used in theorem statements only) -/

/-- path elements of the children `cs` (positions `i…`) among the siblings `all`, in child order -/
def childElemsAux (all : List Entry) : List Entry → Nat → List Elem
  | [], _ => []
  | c :: rest, i => elemFor all i c :: childElemsAux all rest (i+1)

/-- path elements of the children of an entry, in child order -/
def childElems : Entry → List Elem
  | .tree _ cs => childElemsAux cs cs 0
  | _ => []

/-- nearest element (from the end) whose tag is resolvable, on a reversed path: the reversed prefix ending there -/
def nearestRes (canRes : Str → Bool) : List Elem → Option (List Elem)
  | [] => none
  | el :: rest => if canRes el.tag then some (el :: rest) else nearestRes canRes rest

/-! ### specification functions for `group_by` / `expand` / `values` (used in theorem statements only) -/

mutual
/-- entries of the subtree of `e` (at path `p`) down to relative level `d` (every level when `d < 0`), in pre-order -/
def under (d : Int) : Entry → Path → List (Path × Entry)
  | .tree t cs, p => (p, .tree t cs) :: (if d == 0 then [] else underList (d - 1) cs cs 0 p)
  | .token t v, p => [(p, .token t v)]
  | .empty, p => [(p, .empty)]
def underList (d : Int) (all : List Entry) : List Entry → Nat → Path → List (Path × Entry)
  | [], _, _ => []
  | c :: rest, i, p => under d c (p ++ [elemFor all i c]) ++ underList d all rest (i + 1) p
end

mutual
/-- what `Nodes.expand` should return for an entry `e` at path `pc` strictly below `via`, with `d` more levels allowed:
    the entry itself when its tag is resolvable or it is a terminal, else the same for its children -/
def expandAbs (canRes : Str → Bool) (d : Nat) : Entry → Path → List Path
  | .tree t cs, pc =>
    if canRes t then [pc] else
    match d with
    | 0 => []
    | d' + 1 => expandAbsList canRes d' cs cs 0 pc
  | .token _ _, pc => [pc]
  | .empty, pc => [pc]
def expandAbsList (canRes : Str → Bool) (d : Nat) (all : List Entry) : List Entry → Nat → Path → List Path
  | [], _, _ => []
  | c :: rest, i, p => expandAbs canRes d c (p ++ [elemFor all i c]) ++ expandAbsList canRes d all rest (i + 1) p
end

/-- `Nodes.expand(via)` on the tree, `levels` levels below `via` (the Python looks 3 levels down) -/
def expandOf (canRes : Str → Bool) (levels : Nat) (x : Entry) (q : Path) : List Path :=
  match x, levels with
  | .tree _ cs, l + 1 => expandAbsList canRes l cs cs 0 q
  | _, _ => []

mutual
/-- the same without a depth cap: nearest resolvable descendants and the terminals with no resolvable ancestor below `via` -/
def expandFull (canRes : Str → Bool) : Entry → Path → List Path
  | .tree t cs, pc => if canRes t then [pc] else expandFullList canRes cs cs 0 pc
  | .token _ _, pc => [pc]
  | .empty, pc => [pc]
def expandFullList (canRes : Str → Bool) (all : List Entry) : List Entry → Nat → Path → List Path
  | [], _, _ => []
  | c :: rest, i, p => expandFull canRes c (p ++ [elemFor all i c]) ++ expandFullList canRes all rest (i + 1) p
end

def expandFullOf (canRes : Str → Bool) (x : Entry) (q : Path) : List Path :=
  match x with
  | .tree _ cs => expandFullList canRes cs cs 0 q
  | _ => []

/-- `s in t` (substring) -/
def occursB (s : Str) : Str → Bool
  | [] => s.isEmpty
  | c :: cs => Str.startsWith (c :: cs) s || occursB s cs

mutual
/-- every entry name strictly inside the given entries avoids `name` as a substring -/
def nameFreeB (name : Str) : Entry → Bool
  | .tree t cs => !(occursB name t) && nameFreeListB name cs
  | .token t _ => !(occursB name t)
  | .empty => !(occursB name emptyName)
def nameFreeListB (name : Str) : List Entry → Bool
  | [] => true
  | c :: cs => nameFreeB name c && nameFreeListB name cs
end

mutual
/-- every entry name in the subtree is one of `tags` -/
def namesInB (tags : List Str) : Entry → Bool
  | .tree t cs => tags.contains t && namesInListB tags cs
  | .token t _ => tags.contains t
  | .empty => tags.contains emptyName
def namesInListB (tags : List Str) : List Entry → Bool
  | [] => true
  | c :: cs => namesInB tags c && namesInListB tags cs
end

/-- tag-level sufficient condition for `RelativefySafe` at every path of `t` (decidable): the root's tag has a character
    that is not a digit and is not a substring of the tag of any entry below the root -/
def RootNameFree (t : Entry) : Prop :=
  t.name.any (fun c => (Str.decVal c).isNone) = true ∧ nameFreeListB t.name t.children = true

instance (t : Entry) : Decidable (RootNameFree t) := by unfold RootNameFree; exact inferInstance

/-- side condition of `expand_spec` (decidable): for the terminals below `via`, `relativefy(via).de_identify().elements`
    is the list of tags of the path elements below `via`. Fails when the string `via` occurs again further right in the
    path (`origin.split(starts)[1]`), e.g. `via = r`, path `r.ar.t`. -/
def RelativefySafe (q : Path) (x : Entry) : Prop :=
  ∀ pe ∈ (under 3 x q).tail, pe.2.hasChild = false →
    (relTags (encodePath pe.1) (encodePath q)).toOption = some ((pe.1.drop q.length).map (·.tag))

instance (q : Path) (x : Entry) : Decidable (RelativefySafe q x) := by
  unfold RelativefySafe; exact inferInstance

/-! ### the shape the grammar gives a tree (used in theorem statements and by the driver op `conforms`)

`kids` is `Generated.GrammarChildren.kids`: tree tag ↦ names its direct children can carry. -/

/-- `b` can sit directly below a tree tagged `a` -/
def relOf (kids : List (Str × List Str)) (a b : Str) : Bool := kids.any (fun kv => kv.1 == a && kv.2.contains b)

mutual
/-- every parent/child pair of names in the tree is allowed by `rel` -/
def conformsB (rel : Str → Str → Bool) : Entry → Bool
  | .tree t cs => conformsListB rel t cs
  | .token _ _ => true
  | .empty => true
def conformsListB (rel : Str → Str → Bool) (parent : Str) : List Entry → Bool
  | [] => true
  | c :: cs => rel parent c.name && conformsB rel c && conformsListB rel parent cs
end

mutual
/-- number of directly nested unresolvable tree entries on top of a further entry, starting at `e` itself: how many levels
    `expand` has to look below `e` before every branch has met a resolvable tag or a terminal -/
def uheight (canRes : Str → Bool) : Entry → Nat
  | .tree t cs => if canRes t then 0 else if cs.isEmpty then 0 else 1 + uheightList canRes cs
  | .token _ _ => 0
  | .empty => 0
def uheightList (canRes : Str → Bool) : List Entry → Nat
  | [] => 0
  | c :: cs => max (uheight canRes c) (uheightList canRes cs)
end

/-- all names that can sit directly below a tree tagged `a` -/
def kidsOf (kids : List (Str × List Str)) (a : Str) : List Str := kids.flatMap (fun kv => if kv.1 == a then kv.2 else [])

/-- no three unresolvable tags `a > b > c` nested directly inside one another with a further entry below `c`
    (tag level, over any child relation) -/
def ChainFree (rel : Str → Str → Bool) (canRes : Str → Bool) : Prop :=
  ∀ a b c d, rel a b = true → rel b c = true → rel c d = true → canRes a = true ∨ canRes b = true ∨ canRes c = true

/-- the same as a computation over the table -/
def chainFreeB (kids : List (Str × List Str)) (canRes : Str → Bool) : Bool :=
  kids.all fun kv => canRes kv.1 || kv.2.all fun b => canRes b || (kidsOf kids b).all fun c => canRes c || (kidsOf kids c).isEmpty

/-! ### `ASTFinder.full_pathfy(entry, path, depth)`, `find`, `exists` (finder.py:10-22, 73-89, 90-134) -/

mutual
/-- `full_pathfy(entry, path, depth)` on strings as the list of `(key, value)` insertions: `depth == 0` stops at the entry
    (`finder.py:117-118`), the recursion passes `depth - 1`, so a negative depth never stops. -/
def pathfySD (d : Int) : Entry → Str → List (Str × Entry)
  | .tree t cs, path => (path, .tree t cs) :: (if d == 0 then [] else pathfySDList (d - 1) cs cs 0 path)
  | .token t v, path => [(path, .token t v)]
  | .empty, path => [(path, .empty)]
def pathfySDList (d : Int) (all : List Entry) : List Entry → Nat → Str → List (Str × Entry)
  | [], _, _ => []
  | c :: rest, i, path =>
    let inPath :=
      if countTag c.name all == 1 then dsnJoin [path, c.name]
      else dsnJoin [path, c.name ++ '[' :: Str.natToDec i ++ [']']]
    pathfySD d c inPath ++ pathfySDList d all rest (i + 1) path
end

/-- `full_pathfy(entry, path, depth)` as the resulting dict: an empty `path` stands for the entry's own name
    (`finder.py:112-114`). -/
def fullPathfyD (e : Entry) (path : Str) (depth : Int) : List (Str × Entry) :=
  dictOfList (pathfySD depth e (if path.isEmpty then e.name else path))

/-- `ASTFinder.find(root, via, tester, depth)` (`finder.py:73-89`): the entries at and below the entry plucked at `via`,
    keyed by full paths that continue `via` itself, filtered by `tester(entry, path)`. -/
def findS (root : Entry) (via : Str) (tester : Entry → Str → Bool) (depth : Int) : Except Err (List (Str × Entry)) :=
  match pluckS root via with
  | .error er => .error er
  | .ok entry => .ok ((fullPathfyD entry via depth).filter (fun kv => tester kv.2 kv.1))

/-- `ASTFinder.exists(root, full_path)` (`finder.py:10-22`): only `Errors.NodeNotFound` is turned into `False`. -/
def finderExists (root : Entry) (p : Str) : Except Err Bool :=
  match pluckS root p with
  | .ok _ => .ok true
  | .error .nodeNotFound => .ok false
  | .error er => .error er

/-! ### the remaining `DSN` functions (`dsn.py:41-110`): `left`, `right`, `shift`, `root`, `parent`, any delimiter -/

/-- Python `l[:k]` -/
def pySliceTo {α : Type} (l : List α) (k : Int) : List α :=
  if k ≥ 0 then l.take k.toNat else l.take (l.length - (-k).toNat)

/-- Python `l[k:]` -/
def pySliceFrom {α : Type} (l : List α) (k : Int) : List α :=
  if k ≥ 0 then l.drop k.toNat else l.drop (l.length - (-k).toNat)

/-- `DSN.left(origin, counts)`: `elements[0:counts]` re-joined -/
def dsnLeft (s : Str) (counts : Int) : Str := dsnJoin (pySliceTo (dsnElements s) counts)

/-- `DSN.right(origin, counts)`: `elements[-counts:]` re-joined (`counts = 0` keeps everything: `l[-0:]` is `l[0:]`) -/
def dsnRight (s : Str) (counts : Int) : Str := dsnJoin (pySliceFrom (dsnElements s) (-counts))

/-- `DSN.shift(origin, skip)` -/
def dsnShift (s : Str) (skip : Int) : Str :=
  if skip == 0 then dsnJoin (dsnElements s)
  else if skip > 0 then dsnJoin (pySliceFrom (dsnElements s) skip)
  else dsnJoin (pySliceTo (dsnElements s) skip)

/-- `DSN.root(origin)`: `elements[0]` -/
def dsnRoot (s : Str) : Except Err Str :=
  match (dsnElements s).head? with
  | some e => .ok e
  | none => .error .indexError

/-- `DSN.parent(origin)`: `elements[-2]` -/
def dsnParent (s : Str) : Except Err Str :=
  let es := dsnElements s
  if es.length ≥ 2 then
    match es[es.length - 2]? with
    | some e => .ok e
    | none => .error .indexError
  else .error .indexError

/-- `origin.split(delimiter)` filtered, for any delimiter string (`str.split('')` raises ValueError) -/
def dsnElementsBy (delim s : Str) : Except Err (List Str) :=
  if delim.isEmpty then .error .valueError else .ok ((splitOnStr delim s).filter (fun p => !p.isEmpty))

/-- `delimiter.join(non-empty parts)` -/
def dsnJoinBy (delim : Str) (parts : List Str) : Str := Str.join delim (parts.filter (fun p => !p.isEmpty))

/-- `DSN.elem_counts(origin, delimiter)` (`str.count('')` is `len + 1`) -/
def dsnElemCountsBy (delim s : Str) : Nat :=
  if s.isEmpty then 0
  else if delim.isEmpty then s.length + 1
  else (splitOnStr delim s).length - 1 + (if Str.startsWith s delim then 0 else 1)

def dsnLeftBy (delim s : Str) (counts : Int) : Except Err Str :=
  (dsnElementsBy delim s).map (fun es => dsnJoinBy delim (pySliceTo es counts))

def dsnRightBy (delim s : Str) (counts : Int) : Except Err Str :=
  (dsnElementsBy delim s).map (fun es => dsnJoinBy delim (pySliceFrom es (-counts)))

def dsnShiftBy (delim s : Str) (skip : Int) : Except Err Str :=
  (dsnElementsBy delim s).map (fun es =>
    if skip == 0 then dsnJoinBy delim es
    else if skip > 0 then dsnJoinBy delim (pySliceFrom es skip)
    else dsnJoinBy delim (pySliceTo es skip))

def dsnRootBy (delim s : Str) : Except Err Str :=
  (dsnElementsBy delim s).bind (fun es => match es.head? with | some e => .ok e | none => .error .indexError)

def dsnParentBy (delim s : Str) : Except Err Str :=
  (dsnElementsBy delim s).bind (fun es =>
    if es.length ≥ 2 then (match es[es.length - 2]? with | some e => .ok e | none => .error .indexError)
    else .error .indexError)

/-! ### `Resolver.load(mapping)` (`syntax/ast/resolver.py:27-41`), `accepts`, `unregister` -/

namespace Table

/-- the `register` calls of `Resolver.load`, in order: for every `(ctor, symbols)` of `mapping.symbols`, for every symbol -/
def registrations (symbols : List (ClassDef × List Str)) : List (Str × ClassDef) :=
  symbols.flatMap (fun cs => cs.2.map (fun sym => (sym, cs.1)))

def registerAll (t : Table) (regs : List (Str × ClassDef)) : Table := regs.foldl (fun t r => t.register r.1 r.2) t

/-- `Resolver.load(SymbolMapping(symbols, fallback))` -/
def load (symbols : List (ClassDef × List Str)) (fallback : Option ClassDef) : Table :=
  { registerAll {} (registrations symbols) with fallback := fallback }

/-- `Resolver.accepts` -/
def accepts (t : Table) : List Str := t.ctors.map (·.1)

/-- `Resolver.unregister(symbol)` -/
def unregister (t : Table) (sym : Str) : Table := { t with ctors := t.ctors.filter (fun kv => !(kv.1 == sym)) }

end Table

/-! ### the lookup rule on paths `full_pathfy` does not produce -/

/-- position of the last child carrying the tag (what an element without index addresses, `finder.py:65-68`) -/
def lastIdxWithTag (t : Str) : List Entry → Option Nat
  | [] => none
  | c :: rest => match lastIdxWithTag t rest with
    | some j => some (j + 1)
    | none => if c.name == t then some 0 else none

end Tranp.AstPath
