/-
  Tranp.Model.JsonText — the compact JSON *printer* `json.dumps(v, separators=(',', ':'))` on a JSON value type, and a
  bracket scanner (string-literal aware). Used by C05 (truncated cache files: `EntryStored.save`, parser.py:177-184;
  `SymbolDBPersistor._store`, persistent.py:160-162) and by C06 (`MetaHeader.to_json`, header.py:76-83).

  The JSON *parser* is not modelled (DESIGN.md §4/§8): that it rejects text whose brackets do not balance outside string
  literals is the stated assumption of `C05.truncate`.
-/
import Tranp.Str

namespace Tranp.JsonText
open Tranp

inductive JVal
  | null
  | bool (b : Bool)
  /-- a number, given by its text; the printer keeps only number characters -/
  | num (text : Str)
  | str (s : Str)
  | arr (xs : List JVal)
  | obj (kvs : List (Str × JVal))

def numChar (c : Char) : Bool := c.isDigit || c == '-' || c == '+' || c == '.' || c == 'e' || c == 'E'

/-- `json.dumps` escapes: quote, backslash and control characters start with a backslash; (with `ensure_ascii`, non-ASCII
    characters become `\uXXXX`, which has the same shape: a backslash followed by characters that are neither quote nor
    backslash — represented here by the two-character forms). -/
def escChar (c : Char) : Str :=
  if c = '"' then ['\\', '"']
  else if c = '\\' then ['\\', '\\']
  else if c = '\n' then ['\\', 'n']
  else if c = '\r' then ['\\', 'r']
  else if c = '\t' then ['\\', 't']
  else [c]

def printStr (s : Str) : Str := '"' :: (s.flatMap escChar ++ ['"'])

mutual
  def print : JVal → Str
    | .null => ['n', 'u', 'l', 'l']
    | .bool true => ['t', 'r', 'u', 'e']
    | .bool false => ['f', 'a', 'l', 's', 'e']
    | .num t => t.filter numChar
    | .str s => printStr s
    | .arr [] => ['[', ']']
    | .arr (x :: xs) => '[' :: (print x ++ (printTail xs ++ [']']))
    | .obj [] => ['{', '}']
    | .obj ((k, v) :: kvs) => '{' :: (printStr k ++ ':' :: (print v ++ (printKvTail kvs ++ ['}'])))
  def printTail : List JVal → Str
    | [] => []
    | x :: xs => ',' :: (print x ++ printTail xs)
  def printKvTail : List (Str × JVal) → Str
    | [] => []
    | (k, v) :: kvs => ',' :: (printStr k ++ ':' :: (print v ++ printKvTail kvs))
end

def JVal.isContainer : JVal → Bool
  | .arr _ => true
  | .obj _ => true
  | _ => false

/-! ### bracket scanner -/

inductive Mode
  | out   -- outside string literals
  | str   -- inside a string literal
  | esc   -- inside a string literal, right after a backslash
deriving DecidableEq, Repr

structure Sc where
  depth : Nat
  mode : Mode
deriving DecidableEq, Repr

def scStep (s : Sc) (c : Char) : Sc :=
  match s.mode with
  | .esc => { s with mode := .str }
  | .str => if c = '\\' then { s with mode := .esc } else if c = '"' then { s with mode := .out } else s
  | .out =>
    if c = '"' then { s with mode := .str }
    else if c = '{' ∨ c = '[' then { s with depth := s.depth + 1 }
    else if c = '}' ∨ c = ']' then { s with depth := s.depth - 1 }
    else s

def scan (s : Sc) (t : Str) : Sc := t.foldl scStep s

/-- the text is non-empty and its brackets balance outside string literals (what every JSON decoder requires of a document
    whose top level is an object or an array; necessary, not sufficient) -/
def Balanced (t : Str) : Prop := t ≠ [] ∧ scan ⟨0, .out⟩ t = ⟨0, .out⟩

instance (t : Str) : Decidable (Balanced t) := by unfold Balanced; infer_instance

end Tranp.JsonText
