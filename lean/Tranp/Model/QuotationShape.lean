/-
  Tranp.Model.QuotationShape — interpreters for the arithmetic expressions and the text templates that
  `translate/gen_quotation_shape.py` reads from `ErrorRender.Quotation` and `ErrorCollector` on every run
  (Generated/QuotationShape.lean). Props/C16.lean proves that the generated shapes, evaluated here the way Python evaluates the
  statements they were read from, are the hand-written `causeRange`, `lineMark`, `quotationBuild`, `collectorLines` for every
  input: an edit of the arithmetic (an off-by-one, another fill character, another replacement of tabs, another template)
  changes the generated term and the theorems stop checking.
-/
import Tranp.Str
import Tranp.Model.Quotation

namespace Tranp.QShape
open Tranp Tranp.Lark Tranp.Quote

/-- integer expressions over the span fields (`bl bc el ec`), locals (`begin end`) and `len(<string variable>)` -/
inductive PExpr where
  | var (name : Str)
  | int (n : Int)
  | add (a b : PExpr)
  | sub (a b : PExpr)
  | max (a b : PExpr)
  | ifEq (a b t e : PExpr)
  | len (name : Str)
deriving Repr

structure Env where
  ints : List (Str × Int)
  strs : List (Str × Str)

def lookup {α : Type} (kvs : List (Str × α)) (k : Str) : Option α :=
  match kvs with
  | [] => none
  | (a, v) :: rest => if a = k then some v else lookup rest k

def PExpr.eval (env : Env) : PExpr → Except Err Int
  | .var n => match lookup env.ints n with
    | some v => .ok v
    | none => .error .outsideModel
  | .int n => .ok n
  | .add a b => do pure ((← a.eval env) + (← b.eval env))
  | .sub a b => do pure ((← a.eval env) - (← b.eval env))
  | .max a b => do
    let x ← a.eval env
    let y ← b.eval env
    pure (if x ≥ y then x else y)    -- Python's max(x, y) returns x unless y > x
  | .ifEq a b t e => do
    let x ← a.eval env
    let y ← b.eval env
    if x = y then t.eval env else e.eval env
  | .len n => match lookup env.strs n with
    | some s => .ok (s.length : Int)
    | none => .error .outsideModel

/-- one part of an f-string -/
inductive Part where
  | lit (s : Str)
  | ph (name : Str)
deriving Repr

def renderParts (strs : List (Str × Str)) : List Part → Except Err Str
  | [] => .ok []
  | .lit s :: rest => do pure (s ++ (← renderParts strs rest))
  | .ph n :: rest =>
    match lookup strs n with
    | some v => do pure (v ++ (← renderParts strs rest))
    | none => .error .outsideModel

def renderLines (strs : List (Str × Str)) : List (List Part) → Except Err (List Str)
  | [] => .ok []
  | l :: rest => do
    let a ← renderParts strs l
    let b ← renderLines strs rest
    pure (a :: b)

/-- `indent = c1 * e1; explain = c2 * e2; return f'{indent}{explain}'` over `begin`, `end` -/
structure MarkShape where
  indentChar : Char
  indentCount : PExpr
  markChar : Char
  markCount : PExpr

def MarkShape.eval (m : MarkShape) (range : Int × Int) : Except Err Str := do
  let env : Env := ⟨[(['b', 'e', 'g', 'i', 'n'], range.1), (['e', 'n', 'd'], range.2)], []⟩
  let a ← m.indentCount.eval env
  let b ← m.markCount.eval env
  pure (pyRepeat m.indentChar a ++ pyRepeat m.markChar b)

/-- `s.replace(a, b)` for a one-character `a` and `b` of at most one character -/
def replace1 (s : Str) (a b : Str) : Except Err Str :=
  match a, b with
  | [x], [] => .ok (s.filter (fun c => c != x))
  | [x], [y] => .ok (s.map (fun c => if c = x then y else c))
  | _, _ => .error .outsideModel

def applyReplaces (s : Str) : List (Str × Str) → Except Err Str
  | [] => .ok s
  | (a, b) :: rest => do applyReplaces (← replace1 s a b) rest

def spanEnv (s : Span) (causeLine : Str) : Env :=
  ⟨[(['b', 'l'], s.bl), (['b', 'c'], s.bc), (['e', 'l'], s.el), (['e', 'c'], s.ec)], [(['c', 'a', 'u', 's', 'e', '_', 'l', 'i', 'n', 'e'], causeLine)]⟩

/-- `Quotation(filepath, span).build()` evaluated from generated shapes -/
def quotationBuildBy (replaces : List (Str × Str)) (rb re : PExpr) (mark : MarkShape) (lineNo : PExpr) (lines : List (List Part))
    (filepath content : Str) (s : Span) : Except Err (List Str) := do
  let raw ← pyIndex (readlines content) s.bl
  let causeLine ← applyReplaces raw replaces
  let env := spanEnv s causeLine
  let b ← rb.eval env
  let e ← re.eval env
  let m ← mark.eval (b, e)
  let n ← lineNo.eval env
  renderLines [(['f', 'i', 'l', 'e', 'p', 'a', 't', 'h'], filepath), (['l', 'i', 'n', 'e', '_', 'n', 'o'], Str.intToDec n),
    (['c', 'a', 'u', 's', 'e', '_', 'l', 'i', 'n', 'e'], causeLine), (['l', 'i', 'n', 'e', '_', 'm', 'a', 'r', 'k'], m)] lines

/-- `ErrorCollector._quotation_lines` evaluated from generated shapes -/
def collectorLinesBy (rb re : PExpr) (mark : MarkShape) (lineNo : PExpr) (lines : List (List Part))
    (source : Str) (tokens : List Span) (steps : Int) : Except Err (List Str) := do
  let sm ← pyIndex tokens steps
  let n ← lineNo.eval (spanEnv sm [])
  let lineNs := pyRepeat ' ' ((Str.intToDec n).length : Int)
  let causeLine ← pyIndex (Str.splitOn '\n' source) sm.bl
  let env := spanEnv sm causeLine
  let b ← rb.eval env
  let e ← re.eval env
  let m ← mark.eval (b, e)
  renderLines [(['l', 'i', 'n', 'e', '_', 'n', 'o'], Str.intToDec n), (['c', 'a', 'u', 's', 'e', '_', 'l', 'i', 'n', 'e'], causeLine),
    (['l', 'i', 'n', 'e', '_', 'n', 's'], lineNs), (['l', 'i', 'n', 'e', '_', 'm', 'a', 'r', 'k'], m)] lines

end Tranp.QShape
