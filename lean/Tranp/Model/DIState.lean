/-
  Tranp.Model.DIState — vocabulary for the state / effect table of rogw/tranp/lang/di.py (property C19).

  `Generated/DIState.lean` (translator translate/gen_di_state.py, ast of di.py) lists for every method of `DI` / `LazyDI`
  which dictionary attributes it writes and which container methods it calls. This file defines the record type of
  that table and computes, from the call graph with virtual dispatch, the set of dictionaries a call of a method can
  write on its receiver (`effSet`). `Props/C19.lean` proves that the model `Cont` writes nothing else.

  The four dictionaries are the four dictionary fields of `Tranp.DI.Cont` (Model/DI.lean):
    `__instances` (di.py:17), `__injectors` (di.py:18), `__invocations` (di.py:19), `LazyDI.__definitions` (di.py:283).
-/
import Tranp.Model.DI

namespace Tranp.DI

inductive Field where
  | instances | injectors | invocations | definitions
deriving DecidableEq, Repr

def allFields : List Field := [.instances, .injectors, .invocations, .definitions]

/-- one method of di.py as the translator reads it; `M` is the (generated) type of method names. A callee is given twice:
    the method that runs when the receiver is a `DI`, and when it is a `LazyDI` (virtual dispatch, `super()`, name
    mangling of private methods are resolved by the translator). -/
structure MRec (M : Type) where
  meth : M
  /-- defined in class LazyDI -/
  lazyOwner : Bool
  /-- dictionaries of `self` written directly: item store / delete, mutating dict method, attribute re-assignment -/
  selfWrites : List Field
  /-- dictionaries of the `other` operand written directly -/
  otherWrites : List Field
  /-- dictionary attributes assigned on a container the method has just created; `true` = the value is a dict display,
      a dict comprehension or a `.copy()`, i.e. an object nobody else holds -/
  newAssigns : List (Field × Bool)
  /-- dictionaries whose object is handed out (returned, passed as an argument, assigned as it is) -/
  escapes : List Field
  selfCalls : List (M × M)
  otherCalls : List (M × M)
  newCalls : List (M × M)

variable {M : Type} [DecidableEq M]

def recOf (recs : List (MRec M)) (m : M) : Option (MRec M) := recs.find? (fun r => r.meth == m)

def pick (lazy : Bool) (p : M × M) : M := if lazy then p.2 else p.1

/-- the methods that run on the receiver when `m` is called on a container of the given dynamic class: depth-first over
    `selfCalls`; `none` = the fuel did not suffice or a callee is not in the table -/
def reach (recs : List (MRec M)) (lazy : Bool) : Nat → List M → List M → Option (List M)
  | _, [], seen => some seen
  | 0, _ :: _, _ => none
  | fuel + 1, m :: rest, seen =>
    if seen.contains m then reach recs lazy fuel rest seen
    else match recOf recs m with
      | none => none
      | some r => reach recs lazy fuel (r.selfCalls.map (pick lazy) ++ rest) (m :: seen)

/-- the dictionaries a call of `m` can write on its receiver (in the order of `allFields`) -/
def effSet (recs : List (MRec M)) (lazy : Bool) (m : M) : Option (List Field) :=
  (reach recs lazy 1000 [m] []).map (fun ms =>
    allFields.filter (fun f => ms.any (fun m' => match recOf recs m' with
      | some r => r.selfWrites.contains f
      | none => false)))

/-- every dictionary attribute assigned on a freshly made container gets a dict object of its own, and no method hands a
    dictionary object out -/
def ownsDicts (recs : List (MRec M)) : Bool :=
  recs.all (fun r => r.newAssigns.all (fun a => a.2) && r.escapes.isEmpty)

/-- nothing is written to an `other` operand: no direct write, and every method called on it is write-free for both classes -/
def otherUntouched (recs : List (MRec M)) : Bool :=
  recs.all (fun r => r.otherWrites.isEmpty &&
    r.otherCalls.all (fun p => effSet recs false p.1 == some [] && effSet recs true p.2 == some []))

end Tranp.DI
