/-
  Tranp.Model.Lexer — executable model of tranp's own tokenizer (property C13).

  Modelled code (rog-works/tranp):
    rogw/tranp/implements/syntax/tranp/token.py       TokenDomains, TokenTypes, SpecialSymbols, Token (domain, joined,
                                                       to_new_line/to_indent/to_dedent, op_unary_minus, EOF),
                                                       Token.SourceMap.make, TokenDefinition (as data: `TokenDef`)
    rogw/tranp/implements/syntax/tranp/tokenizer.py   Lexer.parse / parse_impl / post_filter / analyze_domain / analyze_* /
                                                       parse_white_spece / parse_comment / parse_quote / parse_number /
                                                       parse_identifier / parse_symbol,
                                                       Tokenizer.parse / Context.to_nest / _rebuild / handle_white_space /
                                                       handle_symbol

  The definition tables (`TokenDef`) are *data*: `Tranp/Generated/TokenDef.lean` is dumped from the evaluated
  `TokenDefinition()` / `gram_tokenizer()` on every run. The enum values the code names (`TokenTypes.Minus`, …) are constants
  here and are tied to the dumped enums by `C13.enums_tie`.

  Python `str` offsets are `Nat` indices into `List Char`; exceptions are `Except Err`; loops whose termination depends
  on the definition (the main loop, the quote loop) carry fuel, and `C13.progress` shows the fuel is never exhausted.
-/
import Tranp.Str

namespace Tranp.Lexer
open Tranp

/-- Exceptions the modelled code can raise (same enum as `harness.common.exc_enum`); `fuel` = the real loop would not terminate. -/
inductive Err where
  | assertionError | indexError | valueError | keyError | fuel
deriving DecidableEq, Repr

def Err.toString : Err → String
  | .assertionError => "AssertionError"
  | .indexError => "IndexError"
  | .valueError => "ValueError"
  | .keyError => "KeyError"
  | .fuel => "nontermination"

/-! ### enums (token.py:5-104); tied to the dumped `__members__` by `C13.enums_tie` -/

namespace Dom
def whiteSpace : Nat := 0
def comment : Nat := 1
def quote : Nat := 2
def number : Nat := 3
def identifier : Nat := 4
def symbol : Nat := 5
def max : Nat := 5
def unknown : Nat := 99
end Dom

namespace T
def whiteSpace : Nat := 0x00
def lineBreak : Nat := 0x01
def eof : Nat := 0x02
def newLine : Nat := 0x03
def indent : Nat := 0x04
def dedent : Nat := 0x05
def comment : Nat := 0x10
def string : Nat := 0x20
def regexp : Nat := 0x21
def digit : Nat := 0x30
def decimal : Nat := 0x31
def name : Nat := 0x40
def parenL : Nat := 0x57
def parenR : Nat := 0x58
def braceL : Nat := 0x59
def braceR : Nat := 0x5A
def bracketL : Nat := 0x5B
def bracketR : Nat := 0x5C
def minus : Nat := 0x5F
def beginCombine : Nat := 0x70
end T

namespace Special
def indent : Str := ['\\', 'I', 'N', 'D', 'E', 'N', 'T']
def dedent : Str := ['\\', 'D', 'E', 'D', 'E', 'N', 'T']
def eof : Str := ['\\', 'E', 'O', 'F']
def opUnaryMinus : Str := ['\\', 'O', 'P', '_', 'U', 'N', 'A', 'R', 'Y', '_', 'M', 'I', 'N', 'U', 'S']
end Special

/-! ### tokens (token.py:106-330) -/

/-- `Token.SourceMap` (token.py:292); `Int` because `SourceMap.EOF()` is all -1. -/
structure SourceMap where
  bl : Int
  bc : Int
  el : Int
  ec : Int
deriving DecidableEq, Repr

def SourceMap.eof : SourceMap := ⟨-1, -1, -1, -1⟩
def SourceMap.empty : SourceMap := ⟨0, 0, 0, 0⟩

structure Token where
  type : Nat
  string : Str
  map : SourceMap
deriving DecidableEq, Repr

/-- `Token.domain` (token.py:152-158). -/
def Token.domain (t : Token) : Nat :=
  let d := (t.type / 16) % 16
  if d = 15 then Dom.unknown else min d Dom.max

/-- `Token.joined(other)` with one other token (token.py:164-179): the new map is built from `others` only. -/
def Token.joined (t o : Token) : Token := ⟨t.type, t.string ++ o.string, o.map⟩

/-- `to_new_line` / `to_indent` / `to_dedent` (token.py:202-248): assert the white-space domain. -/
def Token.toNewLine (t : Token) : Except Err Token :=
  if t.domain = Dom.whiteSpace then .ok ⟨T.newLine, ['\n'], t.map⟩ else .error .assertionError
def Token.toIndent (t : Token) : Except Err Token :=
  if t.domain = Dom.whiteSpace then .ok ⟨T.indent, Special.indent, t.map⟩ else .error .assertionError
def Token.toDedent (t : Token) : Except Err Token :=
  if t.domain = Dom.whiteSpace then .ok ⟨T.dedent, Special.dedent, t.map⟩ else .error .assertionError

/-- `Token.op_unary_minus` (token.py:250-262). -/
def Token.opUnaryMinus (m : SourceMap) : Token := ⟨T.minus, Special.opUnaryMinus, m⟩
/-- `Token.EOF()` (token.py:264-276). -/
def Token.mkEOF : Token := ⟨T.eof, Special.eof, SourceMap.eof⟩

/-! ### the definition as data (token.py:336-370) -/

inductive Quant where
  | one | star | opt
deriving DecidableEq, Repr

/-- one item of a post filter regex: a character class (possibly negated) with a greedy quantifier -/
structure RItem where
  chars : Str
  negated : Bool
  q : Quant
deriving DecidableEq, Repr

/-- a post filter (tokenizer.py:125-133): `'*'`, `TokenDefinition.MatchBeginOrEnd`, or a regex -/
inductive Filter where
  | all
  | beginOrEnd
  | regex (items : List RItem)
deriving DecidableEq, Repr

structure TokenDef where
  analyzeOrder : List Nat
  whiteSpace : Str
  comment : List (Str × Str)
  quote : List (Str × Str)
  number : Str
  identifier : Str
  symbol : Str
  combinedSymbols : List Str
  postFilters : List (Nat × Filter)
  /-- the values of `TokenTypes` (for `TokenTypes(n)` → ValueError) -/
  typeValues : List Nat
deriving Repr

/-! ### `str` primitives with offsets -/

/-- `s[b:e]` for `0 ≤ b`, `0 ≤ e`. -/
def slice (s : Str) (b e : Nat) : Str := (s.take e).drop b

/-- `s[i]` → IndexError. -/
def charAt (s : Str) (i : Nat) : Except Err Char :=
  match s[i]? with
  | some c => .ok c
  | none => .error .indexError

/-- `s.startswith(p, i)`. -/
def startsWithAt (s p : Str) (i : Nat) : Bool := decide (i ≤ s.length) && Str.startsWith (s.drop i) p

/-- `s.find(p)`; `none` = -1. -/
def findSub (p : Str) : Str → Option Nat
  | [] => if p = [] then some 0 else none
  | c :: cs => if Str.startsWith (c :: cs) p then some 0 else (findSub p cs).map (· + 1)

/-- `s.find(p, i)`. -/
def findFrom (s p : Str) (i : Nat) : Option Nat :=
  if i ≤ s.length then (findSub p (s.drop i)).map (· + i) else none

/-- `s.rfind(c)` for a one-character pattern. -/
def rfindChar (c : Char) : Str → Option Nat
  | [] => none
  | x :: xs =>
    match rfindChar c xs with
    | some i => some (i + 1)
    | none => if x = c then some 0 else none

/-- `p.rfind('\n') + 1`, or 0: the offset at which the last line of `p` starts. -/
def lastLineStart (p : Str) : Nat :=
  match rfindChar '\n' p with
  | some i => i + 1
  | none => 0

/-- number of non-overlapping occurrences, `s.count(p)` for non-empty `p` (first argument: characters still to skip) -/
def countSubAux (p : Str) : Nat → Str → Nat
  | _, [] => 0
  | k + 1, _ :: cs => countSubAux p k cs
  | 0, c :: cs => if Str.startsWith (c :: cs) p then 1 + countSubAux p (p.length - 1) cs else countSubAux p 0 cs

/-- `''.join(s.split(p))` for non-empty `p`. -/
def removeSubAux (p : Str) : Nat → Str → Str
  | _, [] => []
  | k + 1, _ :: cs => removeSubAux p k cs
  | 0, c :: cs => if Str.startsWith (c :: cs) p then removeSubAux p (p.length - 1) cs else c :: removeSubAux p 0 cs

/-- `seq.index(x) if x in seq else -1` (lang/sequence.py:8-17); `none` = -1. -/
def indexOf? {α : Type} [DecidableEq α] (x : α) : List α → Option Nat
  | [] => none
  | y :: ys => if y = x then some 0 else (indexOf? x ys).map (· + 1)

/-- length of the longest prefix of `s[b:]` inside the alphabet `a` (the `while end < len(source)` scans) -/
def spanLen (a : Str) (s : Str) (b : Nat) : Nat := ((s.drop b).takeWhile (fun c => a.contains c)).length

/-! ### `Token.SourceMap.make` (token.py:300-320) -/

/-- `end_line_start`: `rfind('\n', begin_line_start, end) + 1`, or `begin_line_start` (token.py:317-318) -/
def endLineStart (src : Str) (bls e : Nat) : Nat :=
  match rfindChar '\n' (slice src bls e) with
  | some i => bls + i + 1
  | none => bls

def mkMap (src : Str) (b e : Nat) : SourceMap :=
  let beginLine := Str.count '\n' (slice src 0 b)                      -- source.count('\n', 0, begin)
  let bls := lastLineStart (slice src 0 b)                             -- rfind('\n', 0, begin) + 1 | 0
  let between := Str.count '\n' (slice src b e)                        -- source.count('\n', begin, end)
  let els := endLineStart src bls e
  ⟨beginLine, (b : Int) - bls, (beginLine : Int) + between, (e : Int) - els⟩

/-! ### `Lexer.analyze_*` (tokenizer.py:163-245) -/

/-- `source[begin] in alphabet` -/
def charIn (a : Str) (src : Str) (b : Nat) : Except Err Bool := do
  let c ← charAt src b
  pure (a.contains c)

/-- `len([True for pair in pairs if source.startswith(pair['open'], begin)]) > 0` -/
def anyOpen (pairs : List (Str × Str)) (src : Str) (b : Nat) : Bool := pairs.any (fun p => startsWithAt src p.1 b)

/-- `self._analyzers[token_domain](source, begin)` -/
def analyzer (d : TokenDef) (dom : Nat) (src : Str) (b : Nat) : Except Err Bool :=
  if dom = Dom.whiteSpace then charIn d.whiteSpace src b
  else if dom = Dom.comment then .ok (anyOpen d.comment src b)
  else if dom = Dom.quote then .ok (anyOpen d.quote src b)
  else if dom = Dom.number then charIn d.number src b
  else if dom = Dom.identifier then charIn d.identifier src b
  else if dom = Dom.symbol then charIn d.symbol src b
  else .error .keyError

def analyzeGo (d : TokenDef) (src : Str) (b : Nat) : List Nat → Except Err Nat
  | [] => .error .assertionError                          -- assert False, Errors.Never(...)
  | dom :: rest => do
    if (← analyzer d dom src b) then pure dom else analyzeGo d src b rest

/-- `Lexer.analyze_domain` (tokenizer.py:163-179). -/
def analyzeDomain (d : TokenDef) (src : Str) (b : Nat) : Except Err Nat := analyzeGo d src b d.analyzeOrder

/-! ### `Lexer.parse_*` (tokenizer.py:247-394): each returns `(end, token)` -/

/-- `parse_white_spece` (tokenizer.py:247-278). -/
def parseWhiteSpace (d : TokenDef) (src : Str) (b : Nat) : Except Err (Nat × Token) :=
  let e := b + spanLen d.whiteSpace src b
  let s := slice src b e
  let s := if countSubAux ['\\', '\n'] 0 s > 0 then removeSubAux ['\\', '\n'] 0 s else s
  if Str.count '\n' s = 0 then .ok (e, ⟨T.whiteSpace, s, mkMap src b e⟩)
  else .ok (e, ⟨T.lineBreak, s, mkMap src b e⟩)

/-- `[pair for pair in pairs if source.startswith(pair['open'], begin)][0]` → IndexError -/
def firstOpen (pairs : List (Str × Str)) (src : Str) (b : Nat) : Except Err (Str × Str) :=
  match pairs.find? (fun p => startsWithAt src p.1 b) with
  | some p => .ok p
  | none => .error .indexError

/-- `parse_comment` (tokenizer.py:280-297). -/
def parseComment (d : TokenDef) (src : Str) (b : Nat) : Except Err (Nat × Token) := do
  let pair ← firstOpen d.comment src b
  match findFrom src pair.2 (b + pair.1.length) with
  | some idx =>
    let e := idx + (if pair.2 = ['\n'] then 0 else pair.2.length)
    pure (e, ⟨T.comment, slice src b e, mkMap src b e⟩)
  | none =>
    let e := src.length
    pure (e, ⟨T.comment, slice src b e, mkMap src b e⟩)

/-- `escapes` (tokenizer.py:318-320): the run of backslashes in front of `index`, not reaching back over `body`;
    `while index - escapes > body and source[index - escapes - 1] == '\\': escapes += 1` (at most `index` rounds) -/
def escapeRun (src : Str) (body index : Nat) : Nat → Nat → Nat
  | 0, esc => esc
  | f + 1, esc =>
    if index - esc > body && src[index - esc - 1]? == some '\\' then escapeRun src body index f (esc + 1) else esc

/-- the `while end < len(source)` loop of `parse_quote` (tokenizer.py:311-328, after the escape-parity repair efe3cdf):
    a found closing sequence is escaped iff the backslash run before it is odd; then the search resumes one character later -/
def quoteLoop (src close : Str) (body : Nat) : Nat → Nat → Except Err Nat
  | fuel, e =>
    if e < src.length then
      match fuel with
      | 0 => .error .fuel
      | f + 1 =>
        match findFrom src close e with
        | none => .ok e
        | some idx =>
          let escapes := escapeRun src body idx (idx + 1) 0
          if escapes % 2 = 1 then quoteLoop src close body f (idx + 1)
          else .ok (idx + close.length)
    else .ok e

/-- `parse_quote` (tokenizer.py:299-332). -/
def parseQuote (d : TokenDef) (src : Str) (b : Nat) : Except Err (Nat × Token) := do
  let pair ← firstOpen d.quote src b
  let e ← quoteLoop src pair.2 (b + pair.1.length) src.length (b + pair.1.length)
  let value := slice src b e
  match value with
  | [] => .error .indexError                                            -- value[0]
  | c :: _ =>
    let ty := if c = '/' then T.regexp else T.string
    pure (e, ⟨ty, value, mkMap src b e⟩)

/-- `parse_number` (tokenizer.py:325-343). -/
def parseNumber (d : TokenDef) (src : Str) (b : Nat) : Except Err (Nat × Token) :=
  let e := b + spanLen d.number src b
  let value := slice src b e
  let ty := if Str.count '.' value > 0 then T.decimal else T.digit
  .ok (e, ⟨ty, value, mkMap src b e⟩)

/-- `parse_identifier` (tokenizer.py:345-361). -/
def parseIdentifier (d : TokenDef) (src : Str) (b : Nat) : Except Err (Nat × Token) :=
  let e := b + spanLen d.identifier src b
  .ok (e, ⟨T.name, slice src b e, mkMap src b e⟩)

/-- `TokenTypes(n)` → ValueError -/
def typeOf (d : TokenDef) (n : Nat) : Except Err Nat :=
  if d.typeValues.contains n then .ok n else .error .valueError

/-- one round of the `for i in range(2)` loop of `parse_symbol` with `end = begin + width` (tokenizer.py:372-383);
    `none` = `continue` -/
def combined (d : TokenDef) (src : Str) (b width : Nat) : Except Err (Option (Nat × Token)) :=
  let e := b + width
  if e - 1 ≥ src.length then .ok none
  else
    let value := slice src b e
    match indexOf? value d.combinedSymbols with
    | none => .ok none
    | some off => do
      let ty ← typeOf d (T.beginCombine + off)
      pure (some (e, ⟨ty, value, mkMap src b e⟩))

/-- `parse_symbol` (tokenizer.py:371-402). -/
def parseSymbol (d : TokenDef) (src : Str) (b : Nat) : Except Err (Nat × Token) := do
  match ← combined d src b 3 with
  | some r => pure r
  | none =>
  match ← combined d src b 2 with
  | some r => pure r
  | none =>
    let value ← charAt src b
    match indexOf? value d.symbol with
    | none => .error .valueError                                        -- str.index
    | some off =>
      let ty ← typeOf d (Dom.symbol * 16 + off)
      let e := b + 1
      -- token_type == Minus and end < len(source) and not self.analyze_white_spece(source, end)   (guard added in 6dc3d89:
      -- a minus as the last character is a binary Minus token)
      if ty = T.minus then
        if e < src.length then
          let ws ← charIn d.whiteSpace src e
          if !ws then pure (e, Token.opUnaryMinus (mkMap src b e))
          else pure (e, ⟨ty, [value], mkMap src b e⟩)
        else pure (e, ⟨ty, [value], mkMap src b e⟩)
      else pure (e, ⟨ty, [value], mkMap src b e⟩)

/-- `self._parsers[domain](source, index)` -/
def parser (d : TokenDef) (dom : Nat) (src : Str) (b : Nat) : Except Err (Nat × Token) :=
  if dom = Dom.whiteSpace then parseWhiteSpace d src b
  else if dom = Dom.comment then parseComment d src b
  else if dom = Dom.quote then parseQuote d src b
  else if dom = Dom.number then parseNumber d src b
  else if dom = Dom.identifier then parseIdentifier d src b
  else if dom = Dom.symbol then parseSymbol d src b
  else .error .keyError

/-- the `while index < len(source)` loop of `parse_impl` (tokenizer.py:99-107) with fuel -/
def parseLoop (d : TokenDef) (src : Str) : Nat → Nat → Except Err (List Token)
  | fuel, i =>
    if i < src.length then
      match fuel with
      | 0 => .error .fuel
      | f + 1 => do
        let dom ← analyzeDomain d src i
        let (e, t) ← parser d dom src i
        let rest ← parseLoop d src f e
        pure (t :: rest)
    else .ok []

/-- `Lexer.parse_impl` (tokenizer.py:91-107). -/
def parseImpl (d : TokenDef) (src : Str) : Except Err (List Token) := parseLoop d src src.length 0

/-! ### `Lexer.post_filter` (tokenizer.py:109-161) -/

def RItem.matches (it : RItem) (c : Char) : Bool := it.chars.contains c != it.negated

/-- greedy `x*` followed by the continuation `k`, with backtracking -/
def starLoop (m : Char → Bool) (k : Str → Option Str) : Str → Option Str
  | [] => k []
  | c :: cs =>
    if m c then
      match starLoop m k cs with
      | some r => some r
      | none => k (c :: cs)
    else k (c :: cs)

/-- `re.match` of an item sequence at the start of `s`: the rest of `s` after the first match in backtracking order -/
def matchItems : List RItem → Str → Option Str
  | [], s => some s
  | it :: rest, s =>
    match it.q with
    | .one =>
      match s with
      | c :: cs => if it.matches c then matchItems rest cs else none
      | [] => none
    | .opt =>
      match s with
      | c :: cs =>
        if it.matches c then
          match matchItems rest cs with
          | some r => some r
          | none => matchItems rest (c :: cs)
        else matchItems rest (c :: cs)
      | [] => matchItems rest []
    | .star => starLoop it.matches (matchItems rest) s

/-- `''.join(re.split(p, s))`: `s` without the leftmost non-overlapping matches (the translator refuses patterns that can
    match the empty string, so a match always removes at least one character) -/
def removeMatches (items : List RItem) : Nat → Str → Str
  | _, [] => []
  | 0, s => s
  | f + 1, c :: cs =>
    match matchItems items (c :: cs) with
    | some r => if r.length < (c :: cs).length then removeMatches items f r else c :: removeMatches items f cs
    | none => c :: removeMatches items f cs

/-- `to_empty` (tokenizer.py:125-133); `atBegin` = `index == 0`, `atEnd` = `index == num - 1`. -/
def toEmpty (f : Filter) (t : Token) (atBegin atEnd : Bool) : Bool :=
  match f with
  | .all => true
  | .beginOrEnd => atBegin || atEnd
  | .regex items => (removeMatches items t.string.length t.string).isEmpty

/-- `line_break_at` (tokenizer.py:135-137) on the neighbour, `none` = out of range -/
def isLB : Option Token → Bool
  | some t => t.type = T.lineBreak
  | none => false

/-- One `while index < len(new_tokens)` pass (tokenizer.py:141-159) as a zipper: `left` holds `new_tokens[:index]`
    reversed, the third argument is `new_tokens[index:]`. -/
def filterPass (ty : Nat) (f : Filter) : List Token → List Token → List Token
  | left, [] => left.reverse
  | left, cur :: right =>
    if cur.type ≠ ty || !toEmpty f cur left.isEmpty right.isEmpty then
      filterPass ty f (cur :: left) right                                 -- index += 1
    else
      match left, right with
      | [], r :: rs =>
        if isLB (some r) then filterPass ty f [] rs                        -- index == 0 and next is a line break
        else filterPass ty f [] (r :: rs)                                  -- del new_tokens[index]
      | l :: ls, [] =>
        if isLB (some l) then ls.reverse                                   -- last element and previous is a line break
        else (l :: ls).reverse
      | l :: ls, r :: rs =>
        if isLB (some l) && isLB (some r) then filterPass ty f (l.joined r :: ls) rs
        else filterPass ty f (l :: ls) (r :: rs)
      | [], [] => []

/-- `Lexer.post_filter` (tokenizer.py:109-161). -/
def postFilter (d : TokenDef) (toks : List Token) : List Token :=
  d.postFilters.foldl (fun acc pf => filterPass pf.1 pf.2 [] acc) toks

/-- `Lexer.parse` (tokenizer.py:77-89). -/
def lexParse (d : TokenDef) (src : Str) : Except Err (List Token) := do
  let toks ← parseImpl d src
  pure (postFilter d toks ++ [Token.mkEOF])

/-! ### `Tokenizer._rebuild` (tokenizer.py:436-564) -/

/-- `Tokenizer.Context` (tokenizer.py:436-474); `unit = none` is `_indent_spaces == -1`. -/
structure Ctx where
  nest : Nat
  enclosure : Int
  unit : Option Nat
deriving DecidableEq, Repr

def Ctx.init : Ctx := ⟨0, 0, none⟩

/-- `Context.to_nest` (tokenizer.py:460-474); `int(spaces / unit)` is floor division for widths below 2^53. -/
def Ctx.toNest (c : Ctx) (spaces : Nat) : Ctx × Nat :=
  if spaces = 0 then (c, 0)
  else
    match c.unit with
    | none => ({ c with unit := some spaces }, spaces / spaces)
    | some u => (c, spaces / u)

/-- `len(token.string.split('\n')[-1])` -/
def lastLineLen (s : Str) : Nat := ((Str.splitOn '\n' s).getLastD []).length

/-- `handle_white_space` (tokenizer.py:501-544): `(advance, context, output)`. -/
def handleWhiteSpace (c : Ctx) (t : Token) : Except Err (Nat × Ctx × List Token) :=
  if c.enclosure > 0 then .ok (1, c, [])
  else if t.type = T.whiteSpace then .ok (1, c, [])
  else if t.type = T.eof then do
    let dd ← t.toDedent
    let nl ← t.toNewLine
    pure (t.string.length, { c with nest := 0 }, nl :: List.replicate c.nest dd)
  else if t.type ≠ T.lineBreak then .error .assertionError
  else
    let indent := lastLineLen t.string
    let (c, next) := c.toNest indent
    if c.nest < next then do
      let nl ← t.toNewLine
      let ind ← t.toIndent
      pure (1, { c with nest := next }, [nl, ind])
    else if c.nest > next then do
      let dd ← t.toDedent
      let nl ← t.toNewLine
      pure (1, { c with nest := next }, nl :: List.replicate (c.nest - next) dd)
    else do
      let nl ← t.toNewLine
      pure (1, c, [nl])

/-- `handle_symbol` (tokenizer.py:546-564): bracket depth. -/
def handleSymbol (c : Ctx) (t : Token) : Ctx :=
  if t.type = T.parenL ∨ t.type = T.braceL ∨ t.type = T.bracketL then { c with enclosure := c.enclosure + 1 }
  else if t.type = T.parenR ∨ t.type = T.braceR ∨ t.type = T.bracketR then { c with enclosure := c.enclosure - 1 }
  else c

/-- the `while index < len(tokens)` loop of `_rebuild` (tokenizer.py:484-499); the second argument counts tokens the
    handler's returned index still skips (`begin + len(token.string)` for EOF) -/
def rebuildLoop : Ctx → Nat → List Token → Except Err (List Token)
  | _, _, [] => .ok []
  | c, k + 1, _ :: ts => rebuildLoop c k ts
  | c, 0, t :: ts =>
    if t.domain = Dom.whiteSpace then do
      let (adv, c', out) ← handleWhiteSpace c t
      if adv = 0 then .error .fuel                                        -- index does not advance: endless loop
      else
        let rest ← rebuildLoop c' (adv - 1) ts
        pure (out ++ rest)
    else if t.domain = Dom.symbol then do
      let rest ← rebuildLoop (handleSymbol c t) 0 ts
      pure (t :: rest)
    else do
      let rest ← rebuildLoop c 0 ts
      pure (t :: rest)

/-- `Tokenizer._rebuild` (tokenizer.py:476-499). -/
def rebuild (toks : List Token) : Except Err (List Token) := rebuildLoop Ctx.init 0 toks

/-- `Tokenizer.parse` (tokenizer.py:414-424). -/
def tokenize (d : TokenDef) (src : Str) : Except Err (List Token) := do
  let toks ← lexParse d src
  rebuild toks

end Tranp.Lexer
