/-
  Tranp.Model.JsonCodec — the text level of the syntax-tree cache (property C15; cited by C05 for truncated files).

  Modelled code:
    rogw/tranp/implements/syntax/lark/parser.py:200   stream.write(json.dumps(data, separators=(',', ':')).encode('utf-8'))
    rogw/tranp/implements/syntax/lark/parser.py:189   data = json.load(stream)
  i.e. CPython's `json` encoder with `ensure_ascii=True` (default) and the compact separators, and its decoder:

    printJson : Json → Str      json/encoder.py: `py_encode_basestring_ascii` (ESCAPE_ASCII / ESCAPE_DCT: `\"` `\\` `\n` `\r` `\t`
                                `\b` `\f`, every other character outside ' '..'~' as `\uXXXX` with lower-case hex, characters
                                above U+FFFF as a UTF-16 surrogate pair), `int.__repr__`, `null`/`true`/`false`, `[a,b]`, `{"k":v}`
    parseJson : Str → Option Json   json/decoder.py + scanner: a total parser for the language `printJson` produces and for
                                the rest of RFC 8259 that needs no white space and no fraction/exponent (both hex cases, `\/`,
                                raw non-ASCII characters); `none` = `JSONDecodeError`.

  Outside the model (never produced by `printJson`; the harness does not generate them): insignificant white space, floats,
  `NaN`/`Infinity`, lone surrogate escapes (Python `str` can hold them, `Char` cannot) and duplicate keys (`parseJson` keeps the
  pairs as written; the stream reads the real decoder's pairs through `object_pairs_hook`).
  `.encode('utf-8')` of the printed text is the identity on bytes < 0x80 — the printed text is pure ASCII (`printJson_ascii`).
-/
import Tranp.Str
import Tranp.Model.LarkEntry

namespace Tranp.Lark
open Tranp

/-! ## printer -/

/-- `'\\u{0:04x}'.format(v)` -/
def uEsc (v : Nat) : Str :=
  ['\\', 'u', Str.hexDigit (v / 4096 % 16), Str.hexDigit (v / 256 % 16), Str.hexDigit (v / 16 % 16), Str.hexDigit (v % 16)]

/-- one character under `ensure_ascii=True` (json/encoder.py:36-62) -/
def escapeChar (c : Char) : Str :=
  if c = '"' then ['\\', '"']
  else if c = '\\' then ['\\', '\\']
  else if c = '\n' then ['\\', 'n']
  else if c = '\r' then ['\\', 'r']
  else if c = '\t' then ['\\', 't']
  else if c = '\x08' then ['\\', 'b']
  else if c = '\x0c' then ['\\', 'f']
  else if 0x20 ≤ c.toNat ∧ c.toNat ≤ 0x7e then [c]
  else if c.toNat < 0x10000 then uEsc c.toNat
  else uEsc (0xd800 + (c.toNat - 0x10000) / 1024) ++ uEsc (0xdc00 + (c.toNat - 0x10000) % 1024)

def escapeStr : Str → Str
  | [] => []
  | c :: cs => escapeChar c ++ escapeStr cs

def printStr (s : Str) : Str := '"' :: (escapeStr s ++ ['"'])

mutual
/-- `json.dumps(v, separators=(',', ':'))` -/
def printJson : Json → Str
  | .null => ['n', 'u', 'l', 'l']
  | .bool true => ['t', 'r', 'u', 'e']
  | .bool false => ['f', 'a', 'l', 's', 'e']
  | .num i => Str.intToDec i
  | .str s => printStr s
  | .arr [] => ['[', ']']
  | .arr (x :: xs) => '[' :: (printJson x ++ printItems xs)
  | .obj [] => ['{', '}']
  | .obj ((k, v) :: kvs) => '{' :: (printStr k ++ ':' :: (printJson v ++ printMembers kvs))
/-- the remaining items of an array, each behind its comma, then the closing bracket -/
def printItems : List Json → Str
  | [] => [']']
  | x :: xs => ',' :: (printJson x ++ printItems xs)
def printMembers : List (Str × Json) → Str
  | [] => ['}']
  | (k, v) :: kvs => ',' :: (printStr k ++ ':' :: (printJson v ++ printMembers kvs))
end

/-! ## parser -/

def Json.isNum : Json → Bool
  | .num _ => true
  | _ => false


def isDigit (c : Char) : Bool := (Str.decVal c).isSome

/-- longest prefix of ASCII digits and the rest -/
def spanDigits : Str → Str × Str
  | [] => ([], [])
  | c :: cs => if isDigit c then ((spanDigits cs).1.cons c, (spanDigits cs).2) else ([], c :: cs)

/-- the integer part of a JSON number `-?(0|[1-9][0-9]*)` (scanner.py NUMBER_RE without fraction/exponent) -/
def pNum (s : Str) : Option (Json × Str) :=
  let neg : Bool := s.head? == some '-'
  let body := if neg then s.tail else s
  let p := spanDigits body
  if p.1 = [] then none
  else if p.1.head? = some '0' ∧ 1 < p.1.length then none      -- no leading zeros
  else (Str.decToNat? p.1).map fun n => (Json.num (if neg then -(n : Int) else (n : Int)), p.2)

def hex4Val (a b c d : Char) : Option Nat := do
  let x ← Str.hexVal a
  let y ← Str.hexVal b
  let z ← Str.hexVal c
  let w ← Str.hexVal d
  pure (((x * 16 + y) * 16 + z) * 16 + w)

def consTo (c : Char) : Option (Str × Str) → Option (Str × Str)
  | some (s, r) => some (c :: s, r)
  | none => none

/-- outcome of decoding one unit of a string body -/
inductive StrStep where
  | done (rest : Str)              -- the closing quote
  | char (c : Char) (rest : Str)   -- one decoded character

/-- the one-character escapes `\" \\ \/ \b \f \n \r \t` (decoder.py BACKSLASH) -/
def simpleEsc (e : Char) : Option Char :=
  if e = '"' then some '"'
  else if e = '\\' then some '\\'
  else if e = '/' then some '/'
  else if e = 'b' then some '\x08'
  else if e = 'f' then some '\x0c'
  else if e = 'n' then some '\n'
  else if e = 'r' then some '\r'
  else if e = 't' then some '\t'
  else none

/-- after a high surrogate `v`: the `\uXXXX` of the low surrogate (a lone high surrogate is outside the model) -/
def lowStep (v : Nat) : Str → Option StrStep
  | '\\' :: 'u' :: a :: b :: c :: d :: r =>
    match hex4Val a b c d with
    | none => none
    | some w =>
      if 0xdc00 ≤ w ∧ w < 0xe000 then some (.char (Char.ofNat (0x10000 + (v - 0xd800) * 1024 + (w - 0xdc00))) r)
      else none
  | _ => none

/-- after `\u`: four hex digits; surrogate halves are combined (a lone low surrogate is outside the model) -/
def uStep : Str → Option StrStep
  | a :: b :: c :: d :: r =>
    match hex4Val a b c d with
    | none => none
    | some v =>
      if 0xd800 ≤ v ∧ v < 0xdc00 then lowStep v r
      else if 0xdc00 ≤ v ∧ v < 0xe000 then none
      else some (.char (Char.ofNat v) r)
  | _ => none

/-- one unit of a string body (decoder.py `py_scanstring`, strict): closing quote, escape, or a plain character -/
def strStep : Str → Option StrStep
  | [] => none
  | c :: r =>
    if c = '"' then some (.done r)
    else if c = '\\' then
      match r with
      | [] => none
      | e :: r1 => if e = 'u' then uStep r1 else (simpleEsc e).map fun ch => StrStep.char ch r1
    else if c.toNat < 0x20 then none
    else some (.char c r)

def StrStep.ext (ext : Str) : StrStep → StrStep
  | .done r => .done (r ++ ext)
  | .char c r => .char c (r ++ ext)

/-- the body of a string literal up to and including the closing quote; one unit of fuel per decoded unit -/
def pStr : Nat → Str → Option (Str × Str)
  | 0, _ => none
  | f + 1, s =>
    match strStep s with
    | none => none
    | some (.done r) => some ([], r)
    | some (.char c r) => consTo c (pStr f r)

mutual
/-- one JSON value at the head of the text; `fuel` bounds the recursion (the length of the text suffices) -/
def pValue : Nat → Str → Option (Json × Str)
  | 0, _ => none
  | _ + 1, [] => none
  | f + 1, c :: r =>
    if c = '"' then (pStr (f + 1) r).map fun p => (Json.str p.1, p.2)
    else if c = '[' then
      match r with
      | ']' :: r1 => some (.arr [], r1)
      | _ =>
        match pValue f r with
        | none => none
        | some (x, r1) => (pItems f r1).map fun p => (Json.arr (x :: p.1), p.2)
    else if c = '{' then
      match r with
      | '}' :: r1 => some (.obj [], r1)
      | _ =>
        match pMember f r with
        | none => none
        | some (kv, r1) => (pMembers f r1).map fun p => (Json.obj (kv :: p.1), p.2)
    else if c = 'n' then
      match r with
      | 'u' :: 'l' :: 'l' :: r1 => some (.null, r1)
      | _ => none
    else if c = 't' then
      match r with
      | 'r' :: 'u' :: 'e' :: r1 => some (.bool true, r1)
      | _ => none
    else if c = 'f' then
      match r with
      | 'a' :: 'l' :: 's' :: 'e' :: r1 => some (.bool false, r1)
      | _ => none
    else pNum (c :: r)
/-- `"key":value` -/
def pMember : Nat → Str → Option ((Str × Json) × Str)
  | 0, _ => none
  | f + 1, s =>
    match s with
    | '"' :: r =>
      match pStr (f + 1) r with
      | some (k, ':' :: r1) =>
        match pValue f r1 with
        | some (v, r2) => some ((k, v), r2)
        | none => none
      | _ => none
    | _ => none
/-- `,item … ]` -/
def pItems : Nat → Str → Option (List Json × Str)
  | 0, _ => none
  | f + 1, s =>
    match s with
    | ']' :: r => some ([], r)
    | ',' :: r =>
      match pValue f r with
      | none => none
      | some (x, r1) => (pItems f r1).map fun p => (x :: p.1, p.2)
    | _ => none
/-- `,"key":value … }` -/
def pMembers : Nat → Str → Option (List (Str × Json) × Str)
  | 0, _ => none
  | f + 1, s =>
    match s with
    | '}' :: r => some ([], r)
    | ',' :: r =>
      match pMember f r with
      | none => none
      | some (kv, r1) => (pMembers f r1).map fun p => (kv :: p.1, p.2)
    | _ => none
end

/-- `json.loads(text)`: one value, then the end of the text -/
def parseJson (s : Str) : Option Json :=
  match pValue (s.length + 1) s with
  | some (j, []) => some j
  | _ => none

/-- the whole cache path through the text: `EntryStored.save` then `EntryStored.load` -/
def storeLoadText (t : LarkEntry) : Except Err LarkEntry := do
  let d ← dumps t
  match parseJson (printJson (toJson d)) with
  | some j => loads (ofJson j)
  | none => .error .outsideModel

end Tranp.Lark
