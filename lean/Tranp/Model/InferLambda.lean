/-
  Model of the typing of LAMBDA PARAMETERS and lambda expressions

    rogw/tranp/semantics/processors/resolve_unknown.py:131-181   ResolveUnknown.resolve_lambda_param
    rogw/tranp/semantics/reflections.py:715-716                  ProceduralResolver.on_lambda

  A lambda parameter has no annotation: its type is read from the place the lambda stands in (`declare.parent`):

    AnnoAssign   f: Callable[[A, B], R] = lambda a, b: …     attrs of the annotation (`actualize('alt')`; 0020bae: of the annotation,
                                                             not of the whole assignment)
    Argument     func(…, lambda a, b: …)                     the callee's parameter at the argument's position, optional unwrapped
                                                             (`actualize('nullable', 'alt')`), for a function / closure from the
                                                             attrs of the function symbol, for a method / class method /
                                                             constructor from its signature (`self` first)
    Return       return lambda a, b: …                       attrs of the declared return type of the enclosing function
    otherwise    (lambda a, b: …)(x, y)                      the types of the arguments of the call

  The lambda itself is `Callable<parameter types…, type of the body>`.

  Not modelled: `actualize('alt')` (type aliases) and the template resolution of a generic constructor's parameter
  (`parameter_at`) are the identity here — user generics and aliases are outside the class model.
-/
import Tranp.Model.InferSpec

namespace Tranp.Infer
open Tranp

def s_Callable : Str := ['C', 'a', 'l', 'l', 'a', 'b', 'l', 'e']

/-- where the lambda stands, with what that place declares -/
inductive LamCtx where
  /-- `f: ann = lambda …` -/
  | annoAssign (ann : Ty)
  /-- `func(…, lambda …, …)`: `calls` = attrs of the function symbol (parameters, then the return type), `arg` = position -/
  | argFunction (calls : Tys) (arg : Nat)
  /-- `recv.m(…, lambda …)` / `Cls(…, lambda …)`: `sig` = signature of the method / constructor (`self`, parameters, return type) -/
  | argMethod (sig : Tys) (arg : Nat)
  /-- `return lambda …` inside a function declared `-> fnRet` -/
  | ret (fnRet : Ty)
  /-- `(lambda …)(args)`: the inferred types of the arguments -/
  | immediate (args : List Ty)

/-- `symbol.attrs[i]`; a missing attribute is Python's IndexError (it leaves `type_of` as it is) -/
def attrAt (t : Ty) (i : Nat) : Except Err Ty :=
  match t.attrs.get? i with
  | some a => .ok a
  | none => .error .indexErr

/-- `ResolveUnknown.resolve_lambda_param` (resolve_unknown.py:131-181): the type of the `index`-th parameter -/
def lambdaParam (ctx : LamCtx) (index : Nat) : Except Err Ty :=
  match ctx with
  | .annoAssign ann => attrAt ann index
  | .argFunction calls arg =>
    match calls.get? arg with
    | some p => attrAt (stripNullable p) index
    | none => .error .indexErr
  | .argMethod sig arg =>
    match sig.get? (arg + 1) with
    | some p => attrAt (stripNullable p) index
    | none => .error .indexErr
  | .ret r => attrAt r index
  | .immediate args =>
    match args[index]? with
    | some t => .ok t
    | none => .error .indexErr

/-- the parameters of the lambda, in order, from position `i` on -/
def lamEnvFrom (ctx : LamCtx) : List Str → Nat → Except Err Env
  | [], _ => .ok []
  | x :: rest, i =>
    match lambdaParam ctx i with
    | .error e => .error e
    | .ok t =>
      match lamEnvFrom ctx rest (i + 1) with
      | .error e => .error e
      | .ok Γ' => .ok ((x, t) :: Γ')

def lamEnv (ctx : LamCtx) (vars : List Str) : Except Err Env := lamEnvFrom ctx vars 0

/-- the body of the lambda is typed with the parameters in scope (its own scope first) -/
def lambdaBody (ct : ClassTable) (Γ : Env) (ctx : LamCtx) (vars : List Str) (body : Expr) : Except Err Ty :=
  match lamEnv ctx vars with
  | .error e => .error e
  | .ok Γ' => inferT ct (Γ' ++ Γ) body

/-- `on_lambda` (reflections.py:715-716): `Callable<parameters…, body>` -/
def lambdaType (ct : ClassTable) (Γ : Env) (ctx : LamCtx) (vars : List Str) (body : Expr) : Except Err Ty :=
  match lamEnv ctx vars with
  | .error e => .error e
  | .ok Γ' =>
    match inferT ct (Γ' ++ Γ) body with
    | .error e => .error e
    | .ok T => .ok (.cls s_Callable (Tys.ofList (Γ'.map (·.2) ++ [T])))

/-- a declared callback type -/
def callableTy (params : List Ty) (r : Ty) : Ty := .cls s_Callable (Tys.ofList (params ++ [r]))

end Tranp.Infer
