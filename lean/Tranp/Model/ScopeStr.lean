/-
  Tranp.Model.ScopeStr — executable model of name resolution (property C08), STRING layer.

  The same functions as Model/Scope.lean, written the way the Python writes them: on the joined strings
  (`module.path#local.symbol`), with `find('#')`, `split('#')`, `split('.')`, `DSN.join`, `startswith`, `len`.

  Modelled code (rog-works/tranp):
    rogw/tranp/dsn/dsn.py            DSN.join / elements
    rogw/tranp/dsn/module.py         ModuleDSN.full_joined / local_joined / expand_elements / parsed / expanded / identify /
                                     __init__ (module_path, local_path) / elements / join
    rogw/tranp/semantics/finder.py   (as in Scope.lean)
    rogw/tranp/syntax/node/node.py:113-160, definition/primary.py:113, definition/statement_compound.py:743-839

  A `ModuleDSN` object is represented by its `dsn` string; `module_path`/`local_path` are `parsed dsn`.
-/
import Tranp.Model.Scope

namespace Tranp.ScopeStr
open Tranp Tranp.Scope

def dot : Str := ['.']
def hash : Str := ['#']

/-- `DSN.join(*parts, delimiter=d)`: empty parts are dropped (dsn.py:29-39). -/
def dsnJoinWith (d : Str) (parts : List Str) : Str := Str.join d (parts.filter (fun p => !p.isEmpty))

/-- `DSN.join(*parts)` -/
def dsnJoin (parts : List Str) : Str := dsnJoinWith dot parts

/-- `DSN.elements(origin)` (dsn.py:17-27). -/
def dsnElements (s : Str) : List Str := (Str.splitOn '.' s).filter (fun p => !p.isEmpty)

/-- `s.find('#') != -1` -/
def hasHash (s : Str) : Bool := s.contains '#'

/-- `ModuleDSN.local_joined(*elems)` (module.py:52-63). -/
def localJoined (elems : List Str) : Str := dsnJoin elems

/-- `ModuleDSN.full_joined(dsn, *elems)` (module.py:31-50). -/
def fullJoined (dsn : Str) (elems : List Str) : Str :=
  if hasHash dsn then dsnJoin (dsn :: elems)
  else dsnJoinWith hash [dsn, localJoined elems]

/-- `ModuleDSN.parsed(dsn)` (module.py:87-97): `split('#')`, first two pieces. -/
def parsed (dsn : Str) : Str × Str :=
  match Str.splitOn '#' dsn with
  | a :: b :: _ => (a, b)
  | [a] => (a, [])
  | [] => ([], [])

/-- `ModuleDSN(dsn).module_path` -/
def modulePath (dsn : Str) : Str := (parsed dsn).1
/-- `ModuleDSN(dsn).local_path` -/
def localPath (dsn : Str) : Str := (parsed dsn).2

/-- `ModuleDSN.expand_elements(dsn_or_local)` (module.py:65-74). -/
def expandElements (s : Str) : List Str :=
  dsnElements (if hasHash s then (parsed s).2 else s)

/-- `ModuleDSN.expanded(dsn)` (module.py:99-109). -/
def expanded (dsn : Str) : Str × List Str := ((parsed dsn).1, dsnElements (parsed dsn).2)

/-- `ModuleDSN(dsn).elements` = `expand_elements(self.local_path)` -/
def elementsOf (dsn : Str) : List Str := expandElements (localPath dsn)

/-- `ModuleDSN.identify(dsn, id)` for an integer id (module.py:111-121); dirty nodes have id -1. -/
def identify (dsn : Str) (id : Int) : Str := dsn ++ '@' :: Str.intToDec id

/-! ### table -/

structure SymS where
  isClass : Bool
  isClassOrType : Bool
  typesPath : Str
  typesMod : Str
  importName : Option Str
  /-- `inherit.type_name.tokens` (may contain dots) -/
  inherits : List Str
deriving DecidableEq, Repr

abbrev TblS := List (Str × SymS)

def TblS.get? (db : TblS) (k : Str) : Option SymS := lookup db k
def TblS.has (db : TblS) (k : Str) : Bool := (db.get? k).isSome

abbrev HitS := Str × SymS

structure NodeS where
  scope : Str
  isVar : Bool
  isType : Bool
  fullPath : Str
deriving Repr

/-- `SymbolFinder.__allow_scope` (finder.py:128-158); `len(node.scope) <= len(scope.dsn)` compares string lengths. -/
def allowScope (db : TblS) (node : NodeS) (scope : Str) : Bool :=
  if node.scope.length ≤ scope.length then true
  else if !node.isVar then true
  else match db.get? scope with
    | none => true
    | some s =>
      if !s.isClass then true
      else !inAltClass node.fullPath s.typesPath

/-- `reversed([module_dsn.join(*elems[:i]) for i in range(len(elems) + 1)])` (finder.py:123-125). -/
def prefixes (scope : Str) : List Str :=
  let me := expanded scope
  ((List.range (me.2.length + 1)).map (fun i => fullJoined me.1 (me.2.take i))).reverse

/-- `SymbolFinder.__make_scopes` (finder.py:115-126). -/
def makeScopes (db : TblS) (node : NodeS) : List Str :=
  (prefixes node.scope).filter (allowScope db node)

/-- `SymbolFinder.__find_raw_recursive` (finder.py:268-298). -/
def findRawRecursive (db : TblS) : List Str → Str → Option HitS
  | [], scope => (db.get? scope).map (fun raw => (scope, raw))
  | e :: rest, scope =>
    match db.get? scope with
    | none => none
    | some raw =>
      let newScope := fullJoined scope [e]
      if db.has newScope then findRawRecursive db rest newScope
      else if !raw.isClass then none
      else
        let cand := fun (inh : Str) => fullJoined (modulePath scope) ((elementsOf scope).dropLast ++ [inh, e])
        match raw.inherits.find? (fun inh => db.has (cand inh)) with
        | none => none
        | some inh => findRawRecursive db rest (cand inh)

/-- `SymbolFinder.__find_imported_raw` (finder.py:224-241). -/
def findImportedRaw (db : TblS) (onMod : Str) (domainName : Str) : Except Err (Option HitS) :=
  match expandElements domainName with
  | [] => .error .indexError
  | e0 :: rest =>
    match db.get? (fullJoined onMod [e0]) with
    | none => .ok none
    | some imp =>
      match imp.importName with
      | none => .ok none
      | some d => .ok (findRawRecursive db rest (fullJoined imp.typesMod [d]))

/-- `SymbolFinder.__find_library_raw` (finder.py:243-258). -/
def findLibraryRaw (db : TblS) (libs : List Str) (domainName : Str) : Except Err (Option HitS) :=
  match expandElements domainName with
  | [] => if libs.isEmpty then .ok none else .error .indexError
  | e0 :: rest => .ok (libs.findSome? (fun m => findRawRecursive db rest (fullJoined m [e0])))

def scopeHits (db : TblS) (scopes : List Str) (domainName : Str) : List HitS :=
  scopes.filterMap (fun s => (db.get? (fullJoined s [domainName])).map (fun raw => (fullJoined s [domainName], raw)))

/-- first candidate of `__each_find_raw` satisfying `p` (finder.py:196-218) -/
def findFirst (db : TblS) (libs : List Str) (p : HitS → Bool) (scopes : List Str) (domainName : Str) :
    Except Err (Option HitS) :=
  match (scopeHits db scopes domainName).find? p with
  | some x => .ok (some x)
  | none =>
    match scopes with
    | [] => .error .indexError
    | s0 :: _ =>
      match findImportedRaw db (modulePath s0) domainName with
      | .error e => .error e
      | .ok imp =>
        match imp.filter p with
        | some x => .ok (some x)
        | none =>
          match findLibraryRaw db libs domainName with
          | .error e => .error e
          | .ok lib => .ok (lib.filter p)

def findRaw (db : TblS) (libs : List Str) (scopes : List Str) (domainName : Str) : Except Err (Option HitS) :=
  findFirst db libs (fun _ => true) scopes domainName

def findRawForType (db : TblS) (libs : List Str) (scopes : List Str) (domainName : Str) : Except Err (Option HitS) :=
  findFirst db libs (fun h => h.2.isClassOrType) scopes domainName

/-- `SymbolFinder.find_by_symbolic(db, node, prop_name)` (finder.py:97-113). -/
def findBySymbolic (db : TblS) (libs : List Str) (node : NodeS) (domainName propName : Str) : Except Err (Option HitS) :=
  let name := localJoined [domainName, propName]
  if !node.isType then findRaw db libs (makeScopes db node) name
  else findRawForType db libs (makeScopes db node) name

/-- `by_standard` / `get_object`: scopes `[ModuleDSN(module_path) for module_path in library_paths]`. -/
def findStandard (db : TblS) (libs : List Str) (word : Str) : Except Err (Option HitS) :=
  findRaw db libs libs word

/-! ### Node.scope / namespace / fullyname -/

structure AncS where
  isScope : Bool
  isNamespace : Bool
  domainName : Str
  classification : Str
deriving Repr

/-- `parent.domain_name or parent.classification` -/
def AncS.scopeName (a : AncS) : Str := if a.domainName.isEmpty then a.classification else a.domainName

def scopeOf (mod : Str) : List AncS → Str
  | [] => mod
  | p :: up => if p.isScope then fullJoined (scopeOf mod up) [p.scopeName] else scopeOf mod up

def namespaceOf (mod : Str) : List AncS → Str
  | [] => mod
  | p :: up => if p.isNamespace then fullJoined (namespaceOf mod up) [p.domainName] else namespaceOf mod up

def fullynameOf (mod : Str) (chain : List AncS) (isDomain : Bool) (domainName classification : Str) (id : Int) : Str :=
  if isDomain then fullJoined (scopeOf mod chain) [domainName]
  else identify (fullJoined (scopeOf mod chain) [classification]) id

def fullynameThisVar (classFullyname domainName : Str) : Str := fullJoined classFullyname [domainName]

/-! ### declaration merging -/

structure DVarS where
  fullyname : Str
  domainName : Str
  scope : Str
deriving DecidableEq, Repr

/-- the test of `VarsCollector._merged` (statement_compound.py:826-834, as repaired in 526fc7c):
    `decl_var.domain_name == add_var.domain_name`, and with `(dm, de) = ModuleDSN.expanded(decl_var.scope)`,
    `(am, ae) = ModuleDSN.expanded(add_var.scope)`: `dm == am and ae[:len(de)] == de`. -/
def related (d a : DVarS) : Bool :=
  d.domainName = a.domainName &&
    ((expanded d.scope).1 = (expanded a.scope).1 &&
      decide ((expanded a.scope).2.take (expanded d.scope).2.length = (expanded d.scope).2))

def merged (decl add : List DVarS) : List DVarS := mergedG DVarS.fullyname related decl add

def collect (block : List (Stmt DVarS)) : List DVarS := collectBlockG DVarS.fullyname related [] block

/-! ### the codec between the layers (names are strings) -/

/-- the string a key stands for: `module` or `module#e1.e2…` -/
def encKey (k : Key Str Str) : Str :=
  if k.path.isEmpty then k.mod else k.mod ++ '#' :: Str.join dot k.path

/-- the dotted string a list of elements stands for (`''` for no element) -/
def encName (elems : List Str) : Str := Str.join dot elems

def encSym (s : Sym Str Str) : SymS :=
  { isClass := s.isClass, isClassOrType := s.isClassOrType, typesPath := s.typesPath, typesMod := s.typesMod,
    importName := s.importName, inherits := s.inherits.map encName }

def encTbl (db : Tbl Str Str) : TblS := List.map (fun kv => (encKey kv.1, encSym kv.2)) db

def encHit (h : Hit Str Str) : HitS := (encKey h.1, encSym h.2)

def encNode (n : NodeInfo Str Str) : NodeS :=
  { scope := encKey n.scope, isVar := n.isVar, isType := n.isType, fullPath := n.fullPath }

def encAnc (a : Anc Str) : AncS :=
  { isScope := a.isScope, isNamespace := a.isNamespace, domainName := encName a.domainName, classification := a.classification }

def encDVar (v : DVar Str Str) : DVarS :=
  { fullyname := encKey v.fullyname, domainName := encName v.domainName, scope := encKey v.scope }

/-- a user identifier, or one of tranp's fixed scope words (`if@115`): non-empty, no `.`, no `#` -/
def Ident (n : Str) : Prop := n ≠ [] ∧ '.' ∉ n ∧ '#' ∉ n

/-- a module path: non-empty, no `#`, and every dot-separated piece non-empty is NOT required (only `#` matters) -/
def ModOk (m : Str) : Prop := m ≠ [] ∧ '#' ∉ m

def KeyOk (k : Key Str Str) : Prop := ModOk k.mod ∧ ∀ n ∈ k.path, Ident n

instance (n : Str) : Decidable (Ident n) := by unfold Ident; infer_instance
instance (m : Str) : Decidable (ModOk m) := by unfold ModOk; infer_instance

end Tranp.ScopeStr
