/-
  Tranp.Model.ViewHelper — executable model of the C++ view helpers that take rendered type names, base-class names and member
  names apart (property C08). String layer only: these functions exist on text.

  Modelled code (rog-works/tranp, rogw/tranp/implements/cpp/view/cpp_view_helper.py, class CppViewHelper):
    17-22    SuperInitializer.parse       re.search(r'([\w\d]+)::__init__\(([^;]*)\);$').group(1, 2); no match: as_a raises AssertionError
    27-35    Initializer.parse            fullmatch of MoveAssign, else Initializer, else Empty; (symbol, initializer or '')
    40,80-85 Param.var_type_origin        `const ` prefix or a trailing `*` / `&`: group 2 of r'^(const\s+)?([\w\d\:]+)[^\*&]*[\*&]?',
                                          else the text before the first `<`
    92-118   VarType.annotated            '' and `const …` unchanged; Embed::mutable unchanged; Embed::immutable → to_immutable;
                                          else the leading run of r'^([\w\d:_]+)' looked up in the list of immutable types
    121-130  VarType.to_immutable         `const T*` / `const T&` kept as pointer / reference, else `const T&`
  Two models of each function:
    * `Gen.*`  — the function composed over the GENERATED patterns (Generated/C08Regex.lean, rewritten from the source on every
                 run) and the modelled matcher (Model/Regex.lean);
    * hand-written scanners (`superInitParse`, `varTypeOrigin`, `annotated`) that Props/C08 proves facts about.
  The driver prints both; the stream `viewhelper` compares both with the real functions.
  Not modelled: `Param.parse` (BlockParser.break_separator: property C18), `Method.break_iterator_list_complex` (its three
  patterns are generated and matched by the `regex` stream).
-/
import Tranp.Str
import Tranp.Model.Regex
import Tranp.Model.Fragment
import Tranp.Generated.C08Regex

namespace Tranp.ViewHelper
open Tranp Tranp.Fragment

/-- what the Python raises when a pattern does not match -/
inductive Err where
  | assertion   -- `as_a(re.Match, None)`
  | typeError   -- `cast(re.Match, None)[2]`
deriving DecidableEq, Repr

def Err.text : Err → String
  | .assertion => "AssertionError"
  | .typeError => "TypeError"

/-- a character of a rendered C++ type name: `[\w\d:_]` (PatternVarType) = `[\w\d\:]` (Param.VarType) -/
def isTypeChar (c : Char) : Bool := isWord c || c = ':'

def constBlank : Str := ['c','o','n','s','t',' ']
def annoMutable : Str := ['E','m','b','e','d',':',':','m','u','t','a','b','l','e']
def annoImmutable : Str := ['E','m','b','e','d',':',':','i','m','m','u','t','a','b','l','e']

def endsWithRefOrPtr (s : Str) : Bool := Str.endsWith s ['*'] || Str.endsWith s ['&']

/-- `VarType.to_immutable` (cpp_view_helper.py:121-130) -/
def toImmutable (varType : Str) : Str :=
  if endsWithRefOrPtr varType then constBlank ++ varType else constBlank ++ varType ++ ['&']

/-- `VarType.annotated` (cpp_view_helper.py:95-118) -/
def annotated (varType : Str) (annotations immutableTypes : List Str) : Except Err Str :=
  if varType = [] then .ok varType
  else if Str.startsWith varType constBlank then .ok varType
  else if annotations.contains annoMutable then .ok varType
  else if annotations.contains annoImmutable then .ok (toImmutable varType)
  else
    let origin := varType.takeWhile isTypeChar
    if origin = [] then .error .assertion
    else if immutableTypes.contains origin then .ok (toImmutable varType) else .ok varType

/-- REGRESSION (the code before 448468e): the qualifier test without its blank -/
def annotatedBroken (varType : Str) (annotations immutableTypes : List Str) : Except Err Str :=
  if varType = [] then .ok varType
  else if Str.startsWith varType ['c','o','n','s','t'] then .ok varType
  else if annotations.contains annoMutable then .ok varType
  else if annotations.contains annoImmutable then .ok (toImmutable varType)
  else
    let origin := varType.takeWhile isTypeChar
    if origin = [] then .error .assertion
    else if immutableTypes.contains origin then .ok (toImmutable varType) else .ok varType

/-- group 2 of `^(const\s+)?([\w\d\:]+)[^\*&]*[\*&]?` searched in `s`. The optional qualifier can only match when the run of type
    characters at the start IS `const` (white space has to follow it); it is taken when white space and then a type character
    follow, otherwise the pattern falls back to the run at the very start. -/
def varTypeGroup2 (s : Str) : Option Str :=
  let plain := s.takeWhile isTypeChar
  let r := s.drop 5
  let r' := r.dropWhile Regex.isSpaceChar
  let w := r'.takeWhile isTypeChar
  if plain = ['c','o','n','s','t'] ∧ r'.length < r.length ∧ w ≠ [] then some w
  else if plain = [] then none else some plain

/-- `Param.var_type_origin` (cpp_view_helper.py:80-85) -/
def varTypeOrigin (varType : Str) : Except Err Str :=
  if Str.startsWith varType constBlank || endsWithRefOrPtr varType then
    match varTypeGroup2 varType with
    | some g => .ok g
    | none => .error .typeError
  else .ok (varType.takeWhile (· ≠ '<'))

def superCallMid : Str := [':',':','_','_','i','n','i','t','_','_','(']

/-- one attempt of `([\w\d]+)::__init__\(([^;]*)\);$` at the start of `s` -/
def superInitAt (s : Str) : Option (Str × Str) :=
  let w := s.takeWhile isWord
  let rest := s.dropWhile isWord
  if w = [] then none
  else if Str.startsWith rest superCallMid then
    let body := rest.drop superCallMid.length
    let a := body.takeWhile (· ≠ ';')
    let tail := body.dropWhile (· ≠ ';')
    -- `[^;]*` runs up to the first `;` and gives back its last character, which has to be `)`; `$` = end or before a final newline
    if Str.endsWith a [')'] ∧ (tail = [';'] ∨ tail = [';', '\n']) then some (w, a.dropLast) else none
  else none

/-- `SuperInitializer.parse` (cpp_view_helper.py:20-22): leftmost position at which the pattern matches -/
def superInitSearch : Str → Option (Str × Str)
  | [] => none
  | c :: cs =>
    match superInitAt (c :: cs) with
    | some r => some r
    | none => superInitSearch cs

def superInitParse (s : Str) : Except Err (Str × Str) :=
  match superInitSearch s with
  | some r => .ok r
  | none => .error .assertion

/-! ### the same functions composed over the generated patterns -/

namespace Gen
open Tranp.Regex Tranp.Generated.C08Regex

def grp (s : Str) (caps : Caps) (i : Nat) : Str := (groupText s caps i).getD []

def superInitParse (s : Str) : Except Err (Str × Str) :=
  match search CppViewHelper_SuperInitializer_SuperCall s with
  | some (_, (_, caps)) => .ok (grp s caps 1, grp s caps 2)
  | none => .error .assertion

/-- `Initializer.parse`: the three patterns in the order of the `or` chain; `Empty` has one group only -/
def initializerParse (s : Str) : Except Err (Str × Str) :=
  match fullmatch CppViewHelper_Initializer_MoveAssign s with
  | some (_, caps) => .ok (grp s caps 1, grp s caps 2)
  | none =>
    match fullmatch CppViewHelper_Initializer_Initializer s with
    | some (_, caps) => .ok (grp s caps 1, grp s caps 2)
    | none =>
      match fullmatch CppViewHelper_Initializer_Empty s with
      | some (_, caps) => .ok (grp s caps 1, [])
      | none => .error .assertion

def varTypeOrigin (varType : Str) : Except Err Str :=
  if Str.startsWith varType constBlank || endsWithRefOrPtr varType then
    match search CppViewHelper_Param_VarType varType with
    | some (_, (_, caps)) =>
      match groupText varType caps 2 with
      | some g => .ok g
      | none => .error .typeError
    | none => .error .typeError
  else .ok (varType.takeWhile (· ≠ '<'))

def annotated (varType : Str) (annotations immutableTypes : List Str) : Except Err Str :=
  if varType = [] then .ok varType
  else if Str.startsWith varType constBlank then .ok varType
  else if annotations.contains annoMutable then .ok varType
  else if annotations.contains annoImmutable then .ok (toImmutable varType)
  else
    match search CppViewHelper_VarType_PatternVarType varType with
    | none => .error .assertion
    | some (_, (_, caps)) =>
      if immutableTypes.contains (grp varType caps 1) then .ok (toImmutable varType) else .ok varType

end Gen

/-- a rendered type name: a non-empty run of `[\w:]` (`Box`, `Box::Item`, `std::string`) -/
def TypeName (t : Str) : Prop := t ≠ [] ∧ ∀ c ∈ t, isTypeChar c = true

instance (t : Str) : Decidable (TypeName t) := by unfold TypeName; infer_instance

/-- the text after a type name starts with something that is not a type character (`<`, `*`, `&`, blank) or is empty -/
def Stops (rest : Str) : Prop := ∀ c, rest.head? = some c → isTypeChar c = false

instance (rest : Str) : Decidable (Stops rest) := by
  unfold Stops
  cases rest with
  | nil => exact isTrue (by intro c h; simp at h)
  | cons x xs =>
    by_cases hx : isTypeChar x = false
    · exact isTrue (by intro c h; simp at h; rw [← h]; exact hx)
    · exact isFalse (by intro h; exact hx (h x (by simp)))

end Tranp.ViewHelper
