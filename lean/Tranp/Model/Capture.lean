/-
  Tranp.Model.Capture — the C++ capture list of a lambda / closure (property C08).

  Modelled code (rog-works/tranp):
    rogw/tranp/syntax/node/definition/primary.py:672-674            Lambda.ref_vars
    rogw/tranp/syntax/node/definition/statement_compound.py:584-586 Closure.ref_vars
        ignore_names = [var.symbol.domain_name for var in self.decl_vars]
        return [var for var in PluckVars.ref_vars(self) if var.domain_name not in ignore_names]
    rogw/tranp/implements/cpp/transpiler/py2cpp.py:416-425          make_lambda_binds: the names of the remaining variables as the
        keys of a dict (first occurrence kept, order of first reference); the type test in between (classes and functions are
        not captured) does not look at names and is applied by the harness before the op is sent.
    rogw/tranp/semantics/reflection/helper/template.py:124-131,187-195   Function.templates / Method.templates: the type variables
        of the parameters and the return type as the keys of a dict (first use first), a method without those of its class
        (`symbol not in ignore_templates`) — the same two steps as a capture list: `templatesOf`.
  Names are an abstract type: the code compares WHOLE names (`not in` on a list of names, dict keys).
-/
import Tranp.Str

namespace Tranp.Capture
open Tranp

section
variable {N : Type} [DecidableEq N]

/-- `ref_vars`: the referenced variables (document order, with repetitions) that are not parameters of the lambda itself -/
def refVars (params refs : List N) : List N := refs.filter (fun v => !params.contains v)

/-- keys of `{name: True for …}`: first occurrence of every name, in order -/
def dictKeys : List N → List N
  | [] => []
  | x :: xs => x :: (dictKeys xs).filter (fun y => y ≠ x)

/-- `make_lambda_binds` on names -/
def binds (params refs : List N) : List N := dictKeys (refVars params refs)

/-- `Function.templates` (`klass = []`) / `Method.templates`: type variables in order of first use, without those of the class -/
def templatesOf (klass used : List N) : List N := binds klass used

end

/-- lexicographic `<=` on names (code points), the order of `sorted(key=domain_name)` -/
def nameLe : Str → Str → Bool
  | [], _ => true
  | _ :: _, [] => false
  | a :: as, b :: bs => a.toNat < b.toNat || (a = b && nameLe as bs)

def insertByName (x : Str) : List Str → List Str
  | [] => [x]
  | y :: ys => if nameLe x y then x :: y :: ys else y :: insertByName x ys

/-- REGRESSION (seeded mutation): the type variables of a method ordered by NAME instead of first use -/
def templatesSorted (klass used : List Str) : List Str := (binds klass used).foldr insertByName []

/-- REGRESSION (seeded mutation): the parameters removed with `startswith(tuple of parameter names)` -/
def refVarsBroken (params refs : List Str) : List Str := refs.filter (fun v => !params.any (fun p => Str.startsWith v p))

end Tranp.Capture
