/-
  Tranp.Model.GrammarFirst — which token a tree's span can begin (end) with (property C16).

  The span search demands that the recorded span of a tree named `n` begins at a token whose type is in FIRST(n) and ends
  at one in LAST(n). Here this is a *consequence* of the interface hypothesis of Model/Hull.lean — a tree is the result of
  a derivation by a rule of the grammar, and its span begins at its first consumed token — plus finite data:

  * `Deriv`, `valid`, `yield`: derivations of a context-free grammar (`Rule` = lhs, rhs, tree name);
  * `Tables`: candidate NULLABLE / FIRST tables and per-tree-name FIRST sets; `Tables.ok` is a decidable closure check
    (every rule's contribution is inside the tables);
  * Lemmas/GrammarFirst.lean: for tables that pass the check, the first terminal of the yield of every valid derivation
    by a rule named `n` is in `nameFirst n` (the least fixed point is inside every closed table).

  The grammar and the tables are GENERATED from lark's loaded rule set (translate/gen_grammar_first.py →
  Generated/GrammarFirst.lean) in both directions (rules as written for FIRST, reversed for LAST), and the closure check is
  discharged by `decide +kernel` in Props/C16.lean; the harness oracle reads the same generated tables.
-/
import Tranp.Str

namespace Tranp.Gram

/-- symbols (terminals and nonterminals) and tree names are numbered by the translator -/
structure Rule where
  lhs : Nat
  rhs : List Nat
  name : Nat
deriving DecidableEq, Repr

structure Grammar where
  rules : List Rule
  terms : List Nat
deriving Repr

inductive Deriv where
  | leaf (t : Nat)
  | node (r : Rule) (children : List Deriv)
deriving Repr

def Deriv.sym : Deriv → Nat
  | .leaf t => t
  | .node r _ => r.lhs

mutual
/-- the terminals a derivation produces, in order -/
def yield : Deriv → List Nat
  | .leaf t => [t]
  | .node _ cs => yieldList cs
def yieldList : List Deriv → List Nat
  | [] => []
  | c :: cs => yield c ++ yieldList cs
end

mutual
/-- leaves are terminals; every node applies a rule of the grammar to children of the symbols of its right-hand side -/
def valid (g : Grammar) : Deriv → Bool
  | .leaf t => g.terms.contains t
  | .node r cs => g.rules.contains r && (cs.map Deriv.sym == r.rhs) && validList g cs
def validList (g : Grammar) : List Deriv → Bool
  | [] => true
  | c :: cs => valid g c && validList g cs
end

structure Tables where
  nullable : List Nat
  /-- FIRST of symbol `i` at index `i` -/
  first : List (List Nat)
  /-- FIRST of a tree name (union over the rules carrying that name) at index `name` -/
  nameFirst : List (List Nat)
deriving Repr

def Tables.firstOf (T : Tables) (s : Nat) : List Nat := T.first.getD s []
def Tables.nameFirstOf (T : Tables) (n : Nat) : List Nat := T.nameFirst.getD n []

/-- the FIRST contribution of a symbol sequence lies inside `S` (stop at the first non-nullable symbol) -/
def seqFirstOK (T : Tables) (S : List Nat) : List Nat → Bool
  | [] => true
  | s :: rest => (T.firstOf s).all (fun t => S.contains t) && (if T.nullable.contains s then seqFirstOK T S rest else true)

def ruleOK (T : Tables) (r : Rule) : Bool :=
  (if r.rhs.all (fun s => T.nullable.contains s) then T.nullable.contains r.lhs else true)
  && seqFirstOK T (T.firstOf r.lhs) r.rhs
  && seqFirstOK T (T.nameFirstOf r.name) r.rhs

/-- the closure check: terminals are not nullable and are their own FIRST, every rule's contribution is inside the tables -/
def Tables.ok (T : Tables) (g : Grammar) : Bool :=
  g.terms.all (fun t => !T.nullable.contains t && (T.firstOf t).contains t) && g.rules.all (ruleOK T)

/-! ### the mirror image: LAST of a grammar is FIRST of the grammar with reversed right-hand sides -/

def Rule.rev (r : Rule) : Rule := ⟨r.lhs, r.rhs.reverse, r.name⟩

def Grammar.rev (g : Grammar) : Grammar := ⟨g.rules.map Rule.rev, g.terms⟩

mutual
def mirror : Deriv → Deriv
  | .leaf t => .leaf t
  | .node r cs => .node r.rev (mirrorList cs).reverse
def mirrorList : List Deriv → List Deriv
  | [] => []
  | c :: cs => mirror c :: mirrorList cs
end

end Tranp.Gram
