/-
  Tranp.Model.EmitSemW — meaning of the whole operator language in the two languages, floats abstract (theorems `C01.sem_full`,
  `C01.agree_full`).

  `float` is an abstract type `F` with named operations (`FOps`): no IEEE claim is made; both languages are read over the same
  `F` (tranp maps Python `float` to C++ `float`: the statement is about the values both can represent; the search restricts
  floats to exactly representable ones). The only law used is `ModLaw`: Python's floor-`%` and C's `fmod` agree on a
  non-negative dividend and a positive divisor.

  `pyEval`  : Python's value of a node on ints, bools and floats while the evaluation stays inside the agreement subset
              (as `denotePy`, plus: int→float promotion in mixed arithmetic and comparisons, `/` only with a float operand and a
              non-zero divisor, float `%` under the `ModLaw` guard). At every `%` it also checks that the operand type tags the
              emitter used for choosing `fmod` (`primary_raw`, py2cpp.py:1486-1499: floating point once an element was, `Ty.acc`) describe the actual operand values — `Err.tagMismatch` otherwise: that is not a restriction of the
              Python subset but the exact condition under which the emitted template is the right one (see
              `C01.fmod_left_type_regression`: the repaired `fmod:left-type`).
  `cEval`   : the value ISO C++20 gives a tree of the wrapper grammar (`X`): usual arithmetic conversions int→float, `%` only on
              ints, `fmod(x, y)` call, conditional expression, short-circuit `&& ||`; call forms other than `fmod` (the `in`
              forms need containers) are `Err.unsupported`.
-/
import Tranp.Model.EmitW
import Tranp.Model.EmitSem

namespace Tranp.Emit

structure FOps (F : Type) where
  ofInt : Int → F
  add : F → F → F
  sub : F → F → F
  mul : F → F → F
  div : F → F → F
  neg : F → F
  /-- C `fmod` -/
  fmod : F → F → F
  /-- Python `float.__mod__` -/
  pyMod : F → F → F
  lt : F → F → Bool
  le : F → F → Bool
  eq : F → F → Bool
  isZero : F → Bool
  nonneg : F → Bool
  pos : F → Bool

/-- floor-`%` = `fmod` on a non-negative dividend and a positive divisor -/
def ModLaw {F : Type} (ops : FOps F) : Prop := ∀ x y, ops.nonneg x = true → ops.pos y = true → ops.pyMod x y = ops.fmod x y

inductive PVal (F : Type) where
  | int (i : Int)
  | bool (b : Bool)
  | flt (x : F)
deriving DecidableEq

inductive CVal (F : Type) where
  | i (n : Int)
  | f (x : F)
deriving DecidableEq

inductive Err2 where
  | outOfSubset
  | ub
  | unsupported
  | tagMismatch
deriving DecidableEq, Repr, Inhabited

abbrev PEnv (F : Type) := Nat → PVal F

def PVal.repr {F : Type} : PVal F → CVal F
  | .int i => .i i
  | .bool b => .i (b2i b)
  | .flt x => .f x

def PVal.isF {F : Type} : PVal F → Bool
  | .flt _ => true
  | _ => false

def pchk {F : Type} (i : Int) : Except Err2 (PVal F) := if inI32 i then .ok (.int i) else .error .outOfSubset

/-! ## Python -/

/-- a number as a float (Python's int→float promotion); bools do not take part in float arithmetic inside the subset -/
def PVal.toF {F : Type} (ops : FOps F) : PVal F → Option F
  | .int i => some (ops.ofInt i)
  | .flt x => some x
  | .bool _ => none

def fCmp {F : Type} (ops : FOps F) (op : BOp) (x y : F) : Option Bool :=
  match op with
  | .lt => some (ops.lt x y) | .gt => some (ops.lt y x) | .le => some (ops.le x y) | .ge => some (ops.le y x)
  | .eq => some (ops.eq x y) | .ne => some (!ops.eq x y)
  | _ => none

/-- float arithmetic / comparison on promoted operands -/
def pyBinF {F : Type} (ops : FOps F) (op : BOp) (x y : F) : Except Err2 (PVal F) :=
  match op with
  | .add => .ok (.flt (ops.add x y))
  | .sub => .ok (.flt (ops.sub x y))
  | .mul => .ok (.flt (ops.mul x y))
  | .div => if ops.isZero y then .error .outOfSubset else .ok (.flt (ops.div x y))
  | .mod => if ops.nonneg x && ops.pos y then .ok (.flt (ops.pyMod x y)) else .error .outOfSubset
  | op => match fCmp ops op x y with
    | some b => .ok (.bool b)
    | none => .error .outOfSubset

def liftV {F : Type} : Except Err Val → Except Err2 (PVal F)
  | .ok (.int i) => .ok (.int i)
  | .ok (.bool b) => .ok (.bool b)
  | .error _ => .error .outOfSubset

def PVal.toVal {F : Type} : PVal F → Option Val
  | .int i => some (.int i)
  | .bool b => some (.bool b)
  | .flt _ => none

/-- operators without short-circuit: the int/bool part is `pyBin` of Model/EmitSem, a float operand promotes the other one -/
def pyBin2 {F : Type} (ops : FOps F) (op : BOp) (a b : PVal F) : Except Err2 (PVal F) :=
  match a.toVal, b.toVal with
  | some x, some y => liftV (pyBin op x y)
  | _, _ => match a.toF ops, b.toF ops with
    | some x, some y => pyBinF ops op x y
    | _, _ => .error .outOfSubset

def pyUn2 {F : Type} (ops : FOps F) (op : UOp) (v : PVal F) : Except Err2 (PVal F) :=
  match op, v with
  | .neg, .flt x => .ok (.flt (ops.neg x))
  | .pos, .flt x => .ok (.flt x)
  | op, v => match v.toVal with
    | some x => liftV (pyUn op x)
    | none => .error .outOfSubset

mutual
def pyEval {F : Type} (ops : FOps F) (ρ : PEnv F) : Node → Except Err2 (PVal F)
  | .atom id _ => match ρ id with
    | .int i => pchk i
    | v => .ok v
  | .group e => pyEval ops ρ e
  | .factor op e => match pyEval ops ρ e with
    | .ok v => pyUn2 ops op v
    | .error er => .error er
  | .notCompare e => match pyEval ops ρ e with
    | .ok (.bool b) => .ok (.bool (!b))
    | .ok _ => .error .outOfSubset
    | .error er => .error er
  | .chain _ fty first rest => match pyEval ops ρ first with
    | .ok v => pyEvalRest ops ρ v fty rest
    | .error er => .error er
  | .ternary p c s => match pyEval ops ρ c with
    | .ok (.bool true) => pyEval ops ρ p
    | .ok (.bool false) => pyEval ops ρ s
    | .ok _ => .error .outOfSubset
    | .error er => .error er
/-- `acc` = value of the chain so far, `pty` = the type tag the emitter holds for it (`primary_raw`) -/
def pyEvalRest {F : Type} (ops : FOps F) (ρ : PEnv F) (acc : PVal F) (pty : Ty) : Rest → Except Err2 (PVal F)
  | .nil => .ok acc
  | .cons op _ ty e rest =>
    match op with
    | .or => match acc with
      | .bool true => pyEvalRest ops ρ (.bool true) (pty.acc ty) rest
      | .bool false => match pyEval ops ρ e with
        | .ok (.bool b) => pyEvalRest ops ρ (.bool b) (pty.acc ty) rest
        | .ok _ => .error .outOfSubset
        | .error er => .error er
      | _ => .error .outOfSubset
    | .and => match acc with
      | .bool false => pyEvalRest ops ρ (.bool false) (pty.acc ty) rest
      | .bool true => match pyEval ops ρ e with
        | .ok (.bool b) => pyEvalRest ops ρ (.bool b) (pty.acc ty) rest
        | .ok _ => .error .outOfSubset
        | .error er => .error er
      | _ => .error .outOfSubset
    | op =>
      if op.level = cmpLevel ∧ rest ≠ .nil then .error .outOfSubset
      else match pyEval ops ρ e with
        | .ok r =>
          if op = .mod ∧ (pty.isFloat || ty.isFloat) ≠ (acc.isF || r.isF) then .error .tagMismatch
          else match pyBin2 ops op acc r with
            | .ok v => pyEvalRest ops ρ v (pty.acc ty) rest
            | .error er => .error er
        | .error er => .error er
end

/-! ## C++ -/

def liftC {F : Type} : Except Err Int → Except Err2 (CVal F)
  | .ok i => .ok (.i i)
  | .error _ => .error .ub

def CVal.toF {F : Type} (ops : FOps F) : CVal F → F
  | .i n => ops.ofInt n
  | .f x => x

def CVal.truthy {F : Type} (ops : FOps F) : CVal F → Bool
  | .i n => decide (n ≠ 0)
  | .f x => !ops.isZero x

/-- usual arithmetic conversions: a float operand converts the other one -/
def cBinF {F : Type} (ops : FOps F) (o : Nat) (x y : F) : Except Err2 (CVal F) :=
  if o = symCode ['+'] then .ok (.f (ops.add x y))
  else if o = symCode ['-'] then .ok (.f (ops.sub x y))
  else if o = symCode ['*'] then .ok (.f (ops.mul x y))
  else if o = symCode ['/'] then .ok (.f (ops.div x y))
  else if o = symCode ['<'] then .ok (.i (b2i (ops.lt x y)))
  else if o = symCode ['>'] then .ok (.i (b2i (ops.lt y x)))
  else if o = symCode ['<', '='] then .ok (.i (b2i (ops.le x y)))
  else if o = symCode ['>', '='] then .ok (.i (b2i (ops.le y x)))
  else if o = symCode ['=', '='] then .ok (.i (b2i (ops.eq x y)))
  else if o = symCode ['!', '='] then .ok (.i (b2i (!ops.eq x y)))
  else .error .ub   -- `%`, shifts and bitwise operators are ill-formed on floating operands

def cBin {F : Type} (ops : FOps F) (o : Nat) (a b : CVal F) : Except Err2 (CVal F) :=
  match a, b with
  | .i x, .i y => liftC (cppBin o x y)
  | a, b => cBinF ops o (a.toF ops) (b.toF ops)

def cUn {F : Type} (ops : FOps F) (o : Nat) (a : CVal F) : Except Err2 (CVal F) :=
  match a with
  | .i x => liftC (cppUn o x)
  | .f x =>
    if o = symCode ['-'] then .ok (.f (ops.neg x))
    else if o = symCode ['+'] then .ok (.f x)
    else if o = symCode ['!'] then .ok (.i (b2i (ops.isZero x)))
    else .error .ub

mutual
def cEvalX {F : Type} (ops : FOps F) (ρ : PEnv F) : X → Except Err2 (CVal F)
  | .plain o => cEvalO ops ρ o
  | .tern c a b => match cEvalO ops ρ c with
    | .ok v => if v.truthy ops then cEvalX ops ρ a else cEvalX ops ρ b
    | .error er => .error er
def cEvalO {F : Type} (ops : FOps F) (ρ : PEnv F) : O → Except Err2 (CVal F)
  | .leaf (.atom id) .nil => .ok (ρ id).repr
  | .leaf (.paren x) .nil => cEvalX ops ρ x
  | .leaf (.name n) (.call (.cons x (.cons y .nil)) .nil) =>
    if n = nFmod then
      match cEvalX ops ρ x, cEvalX ops ρ y with
      | .ok a, .ok b => .ok (.f (ops.fmod (a.toF ops) (b.toF ops)))
      | .error er, _ => .error er
      | _, .error er => .error er
    else .error .unsupported
  | .leaf _ _ => .error .unsupported
  | .pre o e => match cEvalO ops ρ e with
    | .ok v => cUn ops o v
    | .error er => .error er
  | .bin o l r =>
    match cEvalO ops ρ l with
    | .error er => .error er
    | .ok a =>
      if o = symCode ['|', '|'] then
        if a.truthy ops then .ok (.i 1) else match cEvalO ops ρ r with
          | .ok b => .ok (.i (b2i (b.truthy ops)))
          | .error er => .error er
      else if o = symCode ['&', '&'] then
        if !a.truthy ops then .ok (.i 0) else match cEvalO ops ρ r with
          | .ok b => .ok (.i (b2i (b.truthy ops)))
          | .error er => .error er
      else match cEvalO ops ρ r with
        | .ok b => cBin ops o a b
        | .error er => .error er
end

end Tranp.Emit
