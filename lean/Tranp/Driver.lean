import Tranp.Driver.Common
import Tranp.Driver.Tree
import Tranp.Driver.Proc

open Tranp.Driver

def main (args : List String) : IO UInt32 := do
  match args with
  | ["tree"] => Tree.run; return 0
  | ["proc"] => Proc.run; return 0
  | _ => IO.eprintln s!"unknown driver family: {args}"; return 2
