import Tranp.Driver.Common
import Tranp.Driver.Tree
import Tranp.Driver.Proc
import Tranp.Driver.Eval
import Tranp.Driver.DI
import Tranp.Driver.Ladder
import Tranp.Driver.SymJson
import Tranp.Driver.Lex
import Tranp.Driver.Block
import Tranp.Driver.Session
import Tranp.Driver.Entry
import Tranp.Driver.Span
import Tranp.Driver.Errors
import Tranp.Driver.CacheFS
import Tranp.Driver.Infer
import Tranp.Driver.Emit
import Tranp.Driver.Runner
import Tranp.Driver.Scope
import Tranp.Driver.Engine
import Tranp.Driver.Rules

open Tranp.Driver

def main (args : List String) : IO UInt32 := do
  match args with
  | ["tree"] => Tree.run; return 0
  | ["proc"] => Proc.run; return 0
  | ["eval"] => Eval.run; return 0
  | ["di"] => DI.run; return 0
  | ["ladder"] => Ladder.run; return 0
  | ["symjson"] => SymJson.run; return 0
  | ["lex"] => Lex.run; return 0
  | ["block"] => Block.run; return 0
  | ["session"] => Session.run; return 0
  | ["entry"] => Entry.run; return 0
  | ["span"] => Span.run; return 0
  | ["errors"] => Errors.run; return 0
  | ["cachefs"] => CacheFS.run; return 0
  | ["infer"] => Infer.run; return 0
  | ["emit"] => EmitFam.run; return 0
  | ["runner"] => Runner.run; return 0
  | ["scope"] => Scope.run; return 0
  | ["engine"] => Engine.run; return 0
  | ["rules"] => Rules.run; return 0
  | _ => IO.eprintln s!"unknown driver family: {args}"; return 2
