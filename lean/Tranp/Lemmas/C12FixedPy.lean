/-
  C12 fixed point of the Python grammar: compiling the REAL token list of data/syntax/py_gram.lark with the built-in rules
  yields a tree that (a) `gram_check.render_rules` turns into exactly the text of data/syntax/py_rules.py and (b) equals the
  literal of py_rules.py up to the renderer's `\'` fix-up (Python reads `\'` inside the rendered literal as `'`).
  One kernel evaluation of the parse serves both comparisons.
-/
import Tranp.Lemmas.C12FixedGram
import Tranp.Generated.PyRules

namespace Tranp.C12Fixed
open Tranp Tranp.Engine Tranp.RulesAst Tranp.Generated

mutual
def mapValues (f : Str → Str) : TEntry → TEntry
  | .token n v => .token n (f v)
  | .tree n cs => .tree n (mapValuesList f cs)
def mapValuesList (f : Str → Str) : List TEntry → List TEntry
  | [] => []
  | c :: cs => mapValues f c :: mapValuesList f cs
end

/-- what Python's literal evaluation does to a token value after `render_rules`' fix-ups: `\\` stays `\`, `\'` becomes `'` -/
def pyLiteralValue : Str → Str := replaceStr ['\\', '\''] ['\'']

def pyRulesStem : Str := ['p', 'y', '_', 'r', 'u', 'l', 'e', 's']

def pyFixedBoth : Bool :=
  match compile pyGramLarkTokens with
  | .ok t => decide (renderRules pyRulesStem t = pyRulesPyText) && decide (mapValues pyLiteralValue t.simplify = pyRulesAst)
  | .error _ => false

set_option maxRecDepth 100000 in
theorem py_both : pyFixedBoth = true := by decide +kernel

set_option maxRecDepth 100000 in
theorem py_literal : fromAst pyRulesAst = .ok pyRules := by decide +kernel

end Tranp.C12Fixed
