/-
  Lemmas for property C18, part 7: the text helpers of Tranp.Model.BlockView (is_quoted_literal, Param.var_type_origin)
  and `DecoratorQuery.any_args`.
-/
import Tranp.Lemmas.BlockCallers
import Tranp.Model.BlockView
import Tranp.Lemmas.BlockVarType

namespace Tranp.Block
open Tranp Tranp.Generated.BlockPairs Tranp.Regex

/-! ### `DecoratorQuery.any_args` -/

/-- `decorator[args_begin + 1:len(decorator) - 1]` (empty without a `(`) -/
def joinArgsOf (decorator : Str) : Str :=
  match Str.find decorator ['('] with
  | none => []
  | some i => slice decorator (i + 1) (decorator.length - 1)

theorem decoParse_joinArgs (d : Str) (r : Str × List (Str × Str) × Str) (h : decoParse d = .ok r) : r.2.2 = joinArgsOf d := by
  unfold decoParse at h
  unfold joinArgsOf
  cases hf : Str.find d ['('] with
  | none => rw [hf] at h; injection h with h; rw [← h]
  | some i =>
    rw [hf] at h
    simp only [] at h ⊢
    cases hb : breakSeparator (slice d (i + 1) (d.length - 1)) [','] with
    | error e => rw [hb] at h; cases h
    | ok ps =>
      rw [hb] at h
      cases ha : decoArgs ps with
      | error e => simp only [Except.bind, ha] at h; cases h
      | ok a => simp only [Except.bind, ha] at h; injection h with h; rw [← h]

theorem decoAnyArgs_of_parse (d subject : Str) (r : Str × List (Str × Str) × Str) (h : decoParse d = .ok r) :
    decoAnyArgs d subject = .ok (Str.find (joinArgsOf d) subject).isSome := by
  simp only [decoAnyArgs, decoJoinArgs, h, Except.bind, decoParse_joinArgs d r h]

theorem queryAnyArgs_filter (ds : List Str) (subject : Str) (h : ∀ d ∈ ds, ∃ r, decoParse d = .ok r) :
    queryAnyArgs ds subject = .ok (ds.filter fun d => (Str.find (joinArgsOf d) subject).isSome) := by
  induction ds with
  | nil => rfl
  | cons d ds ih =>
    obtain ⟨r, hr⟩ := h d (by simp)
    have ih1 := ih (fun x hx => h x (by simp [hx]))
    simp only [queryAnyArgs, decoAnyArgs_of_parse d subject r hr, Except.bind, ih1, List.filter]
    cases (Str.find (joinArgsOf d) subject).isSome <;> rfl

theorem joinArgsOf_call (path args : Str) (hp : ∀ x ∈ path, x ≠ '(') :
    joinArgsOf (path ++ '(' :: (args ++ [')'])) = args := by
  simp only [joinArgsOf, find_char '(' path _ hp]
  have h := slice_middle path args [')'] '('
  have hl : (path ++ '(' :: (args ++ [')'])).length - 1 = path.length + 1 + args.length := by
    simp only [List.length_append, List.length_cons, List.length_nil]; omega
  rw [hl]; exact h

/-! ### `is_quoted_literal` -/

/-- the last character of `prev :: a` -/
def lastOr : Char → Str → Char
  | p, [] => p
  | _, x :: xs => lastOr x xs

theorem getElem?_lastOr (z : Str) : ∀ (a pre0 : Str) (prev : Char),
    (pre0 ++ prev :: (a ++ z))[pre0.length + a.length]? = some (lastOr prev a) := by
  intro a
  induction a with
  | nil => intro pre0 prev; simp [lastOr]
  | cons x a ih =>
    intro pre0 prev
    have := ih (pre0 ++ [prev]) x
    simp only [List.append_assoc, List.cons_append, List.nil_append, List.length_append, List.length_cons,
      List.length_nil] at this
    simp only [List.cons_append, List.length_cons, lastOr]
    rw [← this]
    congr 1
    omega

theorem escapedBody_not_mem (q : Char) : ∀ (a : Str) (prev : Char), (∀ x ∈ a, x ≠ q) → escapedBody q prev a = true := by
  intro a
  induction a with
  | nil => intro _ _; rfl
  | cons x a ih =>
    intro prev h
    have hx : x ≠ q := h x (by simp)
    simp [escapedBody, hx, ih x (fun y hy => h y (by simp [hy]))]

theorem escapedBody_first (q : Char) (b : Str) : ∀ (a : Str) (prev : Char), (∀ x ∈ a, x ≠ q) →
    escapedBody q prev (a ++ q :: b) = (lastOr prev a == '\\' && escapedBody q q b) := by
  intro a
  induction a with
  | nil => intro prev _; simp [escapedBody, lastOr]
  | cons x a ih =>
    intro prev h
    have hx : x ≠ q := h x (by simp)
    simp [escapedBody, hx, lastOr, ih x (fun y hy => h y (by simp [hy]))]

theorem exists_first (c : Char) : ∀ (l : Str), c ∈ l → ∃ a b, l = a ++ c :: b ∧ ∀ x ∈ a, x ≠ c := by
  intro l
  induction l with
  | nil => intro h; cases h
  | cons y l ih =>
    intro h
    by_cases hy : y = c
    · exact ⟨[], l, by simp [hy], by simp⟩
    · have hm : c ∈ l := by
        rcases List.mem_cons.mp h with h | h
        · exact absurd h.symm hy
        · exact h
      obtain ⟨a, b, hl, ha⟩ := ih hm
      refine ⟨y :: a, b, by simp [hl], ?_⟩
      intro x hx
      rcases List.mem_cons.mp hx with hx | hx
      · rw [hx]; exact hy
      · exact ha x hx

theorem find_go_none_char (c : Char) : ∀ (l : Str) (i : Nat), (∀ x ∈ l, x ≠ c) → Str.find.go [c] l i = none := by
  intro l
  induction l with
  | nil => intro i _; simp [Str.find.go]
  | cons x l ih =>
    intro i h
    have hx : x ≠ c := h x (by simp)
    simp [Str.find.go, Str.startsWith, hx, ih (i + 1) (fun y hy => h y (by simp [hy]))]

theorem find_none_char (c : Char) (l : Str) (h : ∀ x ∈ l, x ≠ c) : Str.find l [c] = none := by
  simpa [Str.find] using find_go_none_char c l 0 h

theorem slice_inner (pre mid z : Str) : slice (pre ++ (mid ++ z)) pre.length (pre.length + mid.length) = mid := by
  simp [slice, List.take_append, List.take_add]

/-- the loop invariant: started behind `pre0 ++ [prev]` with `rest` (and the closing quote) still ahead, the loop answers
    whether every quote character of `rest` stands behind a backslash — and never runs out of fuel -/
theorem iqlLoop_spec (q : Char) : ∀ (fuel : Nat) (pre0 : Str) (prev : Char) (rest : Str), rest.length + 1 ≤ fuel →
    iqlLoop (pre0 ++ prev :: (rest ++ [q])) [q] fuel (pre0.length + 1) = .ok (escapedBody q prev rest) := by
  intro fuel
  induction fuel with
  | zero => intro _ _ _ h; omega
  | succ fuel ih =>
    intro pre0 prev rest hf
    have hlen : (pre0 ++ prev :: (rest ++ [q])).length - 1 = pre0.length + 1 + rest.length := by
      simp only [List.length_append, List.length_cons, List.length_nil]; omega
    rw [iqlLoop, hlen]
    by_cases hr : rest = []
    · subst hr
      simp [escapedBody]
    · have hpos : 0 < rest.length := List.length_pos_iff.mpr hr
      rw [if_pos (by omega)]
      have hsl : slice (pre0 ++ prev :: (rest ++ [q])) (pre0.length + 1) (pre0.length + 1 + rest.length) = rest := by
        have := slice_inner (pre0 ++ [prev]) rest [q]
        simpa using this
      have hmin : ¬ (min (pre0.length + 1 + rest.length) (pre0 ++ prev :: (rest ++ [q])).length < pre0.length + 1) := by
        simp only [List.length_append, List.length_cons, List.length_nil]; omega
      simp only [findIn, if_neg hmin, hsl]
      by_cases hm : q ∈ rest
      · obtain ⟨a, b, hab, ha⟩ := exists_first q rest hm
        subst hab
        rw [find_char q a b ha]
        simp only [Option.map_some]
        have hget := getElem?_lastOr (q :: (b ++ [q])) a pre0 prev
        have hidx : a.length + (pre0.length + 1) - 1 = pre0.length + a.length := by omega
        have hs : pre0 ++ prev :: (a ++ q :: b ++ [q]) = pre0 ++ prev :: (a ++ q :: (b ++ [q])) := by simp
        rw [hidx, hs, charAt, hget]
        simp only [Except.bind]
        rw [escapedBody_first q b a prev ha]
        by_cases hl : lastOr prev a = '\\'
        · have hnext := ih (pre0 ++ prev :: a) q b (by
            simp only [List.length_append, List.length_cons] at hf; omega)
          have hs2 : pre0 ++ prev :: a ++ q :: (b ++ [q]) = pre0 ++ prev :: (a ++ q :: (b ++ [q])) := by simp
          have hl2 : (pre0 ++ prev :: a).length + 1 = a.length + (pre0.length + 1) + 1 := by
            simp only [List.length_append, List.length_cons]; omega
          rw [hs2, hl2] at hnext
          simp [hl, hnext]
        · simp [hl]
      · have hn : ∀ x ∈ rest, x ≠ q := fun x hx hxq => hm (hxq ▸ hx)
        rw [find_none_char q rest hn, escapedBody_not_mem q rest prev hn]
        rfl

theorem isQuotedLiteral_quoted (q : Char) (body : Str) :
    isQuotedLiteral (q :: (body ++ [q])) [q] = .ok (escapedBody q q body) := by
  have h1 : Str.startsWith (q :: (body ++ [q])) [q] = true := by simp [Str.startsWith]
  have h2 : Str.endsWith (q :: (body ++ [q])) [q] = true := by
    have := endsWith_snoc (q :: body) q
    simpa using this
  have h3 := iqlLoop_spec q ((q :: (body ++ [q])).length + 1) [] q body (by
    simp only [List.length_append, List.length_cons, List.length_nil]; omega)
  simp only [List.nil_append, List.length_nil, Nat.zero_add] at h3
  simp only [isQuotedLiteral, h1, h2, Bool.and_self, Bool.not_true, Bool.false_eq_true, if_false, h3]

/-- the complete specification of `is_quoted_literal(s, q)` for a one-character quote: the empty text is no literal, the quote
    character alone is one (the loop has nothing to look at), a longer text is one exactly when it starts and ends with the
    quote and every quote in between stands behind a backslash -/
def quotedSpec (q : Char) : Str → Bool
  | [] => false
  | [c] => c == q
  | c :: d :: rest => c == q && (d :: rest).getLast (by simp) == q && escapedBody q q (d :: rest).dropLast

theorem endsWith_snoc_ne (s : Str) (c q : Char) (h : c ≠ q) : Str.endsWith (s ++ [c]) [q] = false := by
  simp [Str.endsWith, Str.startsWith, h]

theorem isQuotedLiteral_spec (q : Char) (s : Str) : isQuotedLiteral s [q] = .ok (quotedSpec q s) := by
  match s with
  | [] => simp [isQuotedLiteral, Str.startsWith, quotedSpec]
  | [c] =>
    by_cases hc : c = q
    · subst hc
      simp [isQuotedLiteral, Str.startsWith, Str.endsWith, quotedSpec, iqlLoop]
    · simp [isQuotedLiteral, Str.startsWith, quotedSpec, hc]
  | c :: d :: rest =>
    have hsplit : d :: rest = (d :: rest).dropLast ++ [(d :: rest).getLast (by simp)] :=
      (List.dropLast_concat_getLast (by simp)).symm
    generalize hbody : (d :: rest).dropLast = body at hsplit
    generalize hlast : (d :: rest).getLast (by simp) = last at hsplit
    simp only [quotedSpec, hbody, hlast]
    rw [hsplit]
    by_cases hc : c = q
    · by_cases hl : last = q
      · subst hc; subst hl
        rw [isQuotedLiteral_quoted]
        simp
      · have he : Str.endsWith (c :: (body ++ [last])) [q] = false := by
          have := endsWith_snoc_ne (c :: body) last q hl
          simpa using this
        simp [isQuotedLiteral, he, hl]
    · simp [isQuotedLiteral, Str.startsWith, hc]

/-! ### `Param.var_type_origin` -/

/-- what may follow the base name: nothing, template arguments `<…>` (with anything behind), a `*` or `&` -/
def typeRest (targs ptr : Str) : Prop :=
  (targs = [] ∨ ∃ t, targs = '<' :: t) ∧ (ptr = [] ∨ ptr = ['*'] ∨ ptr = ['&'])

theorem typeRest_head (targs ptr : Str) (h : typeRest targs ptr) :
    ∀ c, (targs ++ ptr).head? = some c → c = '<' ∨ c = '*' ∨ c = '&' := by
  intro c hc
  obtain ⟨ht, hp⟩ := h
  rcases ht with ht | ⟨t, ht⟩
  · subst ht
    rcases hp with hp | hp | hp <;> subst hp <;> simp at hc <;> simp [← hc]
  · subst ht; simp at hc; simp [← hc]

theorem head_not_name (c : Char) (h : c = '<' ∨ c = '*' ∨ c = '&') : setW.matches c = false ∧ isSpaceChar c = false := by
  rcases h with h | h | h <;> subst h <;> decide

theorem name_ne_lt (c : Char) (h : setW.matches c = true) : c ≠ '<' := by
  intro e; subst e; revert h; decide

theorem takeWhile_base (base : Str) (h : ∀ c ∈ base, c ≠ '<') (rest : Str) (hr : rest = [] ∨ ∃ t, rest = '<' :: t) :
    (base ++ rest).takeWhile (· != '<') = base := by
  induction base with
  | nil =>
    rcases hr with hr | ⟨t, hr⟩ <;> subst hr <;> simp
  | cons b base ih =>
    have hb : b ≠ '<' := h b (by simp)
    simp only [List.cons_append, List.takeWhile_cons, bne_iff_ne, ne_eq, hb, not_false_eq_true, if_true]
    rw [ih (fun c hc => h c (by simp [hc]))]

/-- base name, optionally template arguments and a `*`/`&` (no `const`): the base name comes back, on both branches -/
theorem varTypeOrigin_plain (base targs ptr : Str) (hb : base ≠ []) (hW : ∀ c ∈ base, isNameChar c = true)
    (hr : typeRest targs ptr) : varTypeOrigin (base ++ (targs ++ ptr)) = .ok base := by
  have hW' : ∀ c ∈ base, setW.matches c = true := fun c hc => isNameChar_setW c (hW c hc)
  have ha := fun c hc => head_not_name c (typeRest_head targs ptr hr c hc)
  unfold varTypeOrigin
  split
  · have := varTypeGroup2_of (base ++ (targs ++ ptr)) 0 (0 + base.length) (fun f hf =>
      let ⟨p', hp⟩ := optConst_skip f base (targs ++ ptr) hb hW' ha (by omega)
      ⟨p', [], hp⟩)
    rw [this]
    simp
  · rename_i hc
    obtain ⟨ht, hp⟩ := hr
    have hne := fun c hc => name_ne_lt c (hW' c hc)
    rcases ht with ht | ⟨t, ht⟩
    · subst ht
      rcases hp with hp | hp | hp
      · subst hp
        have := takeWhile_base base hne [] (Or.inl rfl)
        simp only [List.append_nil] at this
        simp only [List.append_nil, beforeLt, this]
      · subst hp
        exfalso; apply hc
        have := endsWith_snoc base '*'
        simp only [List.nil_append, this, Bool.or_true, Bool.true_or]
      · subst hp
        exfalso; apply hc
        have := endsWith_snoc base '&'
        simp only [List.nil_append, this, Bool.or_true]
    · subst ht
      simp only [beforeLt, List.cons_append]
      rw [takeWhile_base base hne ('<' :: (t ++ ptr)) (Or.inr ⟨_, rfl⟩)]

/-- the same behind `const␠` (+ more white space) -/
theorem varTypeOrigin_const (ws base targs ptr : Str) (hS : ∀ c ∈ ws, isSpaceChar c = true) (hb : base ≠ [])
    (hW : ∀ c ∈ base, isNameChar c = true) (hr : typeRest targs ptr) :
    varTypeOrigin (constBlank ++ (ws ++ (base ++ (targs ++ ptr)))) = .ok base := by
  have hW' : ∀ c ∈ base, setW.matches c = true := fun c hc => isNameChar_setW c (hW c hc)
  have ha := fun c hc => (head_not_name c (typeRest_head targs ptr hr c hc)).1
  have hstart : Str.startsWith (constBlank ++ (ws ++ (base ++ (targs ++ ptr)))) constBlank = true := startsWith_append _ _
  have hS' : ∀ c ∈ ' ' :: ws, isSpaceChar c = true := by
    intro c hc
    rcases List.mem_cons.mp hc with hc | hc
    · subst hc; decide
    · exact hS c hc
  have hshape : constBlank ++ (ws ++ (base ++ (targs ++ ptr)))
      = 'c' :: 'o' :: 'n' :: 's' :: 't' :: ((' ' :: ws) ++ (base ++ (targs ++ ptr))) := rfl
  unfold varTypeOrigin
  rw [hstart, Bool.true_or, Bool.true_or, if_pos rfl]
  have := varTypeGroup2_of (constBlank ++ (ws ++ (base ++ (targs ++ ptr)))) (5 + (' ' :: ws).length) (5 + (' ' :: ws).length + base.length)
    (fun f hf => by
      rw [hshape]
      exact optConst_take f (' ' :: ws) base (targs ++ ptr) (by simp) hS' hb hW' ha (by
        rw [hshape] at hf; simp only [List.length_cons, List.length_append] at hf ⊢; omega))
  rw [this, hshape]
  have hd : ('c' :: 'o' :: 'n' :: 's' :: 't' :: ((' ' :: ws) ++ (base ++ (targs ++ ptr)))).drop (5 + (' ' :: ws).length)
      = base ++ (targs ++ ptr) := by
    have : 'c' :: 'o' :: 'n' :: 's' :: 't' :: ((' ' :: ws) ++ (base ++ (targs ++ ptr)))
        = (['c', 'o', 'n', 's', 't'] ++ (' ' :: ws)) ++ (base ++ (targs ++ ptr)) := by simp
    rw [this]
    have hl : 5 + (' ' :: ws).length = (['c', 'o', 'n', 's', 't'] ++ (' ' :: ws)).length := by simp; omega
    rw [hl, List.drop_left]
  rw [hd]
  simp

/-! ### `Param.var_type_origin` on EVERY text -/

/-- the longest run of name characters `[A-Za-z0-9_:]` at the start -/
def nameRun (s : Str) : Str := s.takeWhile isNameChar

/-- where the name is read: behind `const` + white space when a name follows there, else at the start -/
def nameStart (s : Str) : Nat :=
  if Str.startsWith s constWord then
    let ws := (s.drop 5).takeWhile Regex.isSpaceChar
    if ws ≠ [] ∧ nameRun ((s.drop 5).dropWhile Regex.isSpaceChar) ≠ [] then 5 + ws.length else 0
  else 0

/-- `Param.VarType.search(s)[2]` read directly -/
def varTypeGroup2Spec (s : Str) : Except VErr Str :=
  if nameRun (s.drop (nameStart s)) = [] then .error .TypeError else .ok (nameRun (s.drop (nameStart s)))

/-- `var_type_origin` read directly -/
def varTypeOriginSpec (s : Str) : Except VErr Str :=
  if Str.startsWith s constBlank || Str.endsWith s ['*'] || Str.endsWith s ['&'] then varTypeGroup2Spec s
  else .ok (beforeLt s)

theorem setW_eq (c : Char) : setW.matches c = isNameChar c := by
  have hd : ∀ x ∈ (['0','1','2','3','4','5','6','7','8','9'] : List Char), x ∈ Regex.wordChars := by decide
  simp only [setW, CharSet.matches, SetItem.matches, List.any_cons, List.any_nil, Bool.or_false, isNameChar,
    Regex.isWordChar, Regex.isDigitChar]
  by_cases hw : c ∈ Regex.wordChars
  · simp [hw]
  · have hnd : ∀ x ∈ (['0','1','2','3','4','5','6','7','8','9'] : List Char), c ≠ x := fun x hx e => hw (e ▸ hd x hx)
    simp [hw, hnd '0' (by decide), hnd '1' (by decide), hnd '2' (by decide), hnd '3' (by decide), hnd '4' (by decide),
      hnd '5' (by decide), hnd '6' (by decide), hnd '7' (by decide), hnd '8' (by decide), hnd '9' (by decide)]
    by_cases h : c = ':' <;> simp [h]

theorem startsWith_split : ∀ (s p : Str), Str.startsWith s p = true → ∃ t, s = p ++ t := by
  intro s p
  induction p generalizing s with
  | nil => intro _; exact ⟨s, rfl⟩
  | cons x p ih =>
    intro h
    cases s with
    | nil => simp [Str.startsWith] at h
    | cons c cs =>
      simp only [Str.startsWith, Bool.and_eq_true, decide_eq_true_eq] at h
      obtain ⟨t, ht⟩ := ih cs h.2
      exact ⟨t, by rw [h.1, ht]; rfl⟩

theorem dropWhile_head (p : Char → Bool) : ∀ (l : Str) (c : Char), (l.dropWhile p).head? = some c → p c = false := by
  intro l
  induction l with
  | nil => intro c h; simp at h
  | cons x xs ih =>
    intro c h
    by_cases hx : p x = true
    · simp only [List.dropWhile_cons, hx, if_true] at h; exact ih c h
    · simp only [List.dropWhile_cons, hx] at h
      simp only [Bool.false_eq_true, if_false, List.head?_cons, Option.some.injEq] at h
      rw [← h]; simpa using hx

theorem takeWhile_all (p : Char → Bool) : ∀ (l : Str), ∀ c ∈ l.takeWhile p, p c = true := by
  intro l
  induction l with
  | nil => intro c h; simp at h
  | cons x xs ih =>
    intro c h
    by_cases hx : p x = true
    · simp only [List.takeWhile_cons, hx, if_true, List.mem_cons] at h
      rcases h with h | h
      · rw [h]; exact hx
      · exact ih c h
    · simp [hx] at h

theorem takeWhile_nil_head (p : Char → Bool) (l : Str) (h : l.takeWhile p = []) : ∀ c, l.head? = some c → p c = false := by
  intro c hc
  cases l with
  | nil => simp at hc
  | cons x xs =>
    simp only [List.head?_cons, Option.some.injEq] at hc
    subst hc
    by_cases hx : p x = true
    · simp [hx] at h
    · simpa using hx

/-- behind `j ≥ 1` white-space characters of `ws ++ r` (white space, then something else that is no name character when
    there was white space) no name character follows -/
theorem drop_head_notW : ∀ (ws r : Str), (∀ c ∈ ws, Regex.isSpaceChar c = true) →
    (∀ c, r.head? = some c → Regex.isSpaceChar c = false) → (ws ≠ [] → ∀ c, r.head? = some c → setW.matches c = false) →
    ∀ (j : Nat), 1 ≤ j → j ≤ (ws ++ r).length → (∀ c ∈ (ws ++ r).take j, Regex.isSpaceChar c = true) →
    ∀ c, ((ws ++ r).drop j).head? = some c → setW.matches c = false := by
  intro ws
  induction ws with
  | nil =>
    intro r _ hr0 _ j hj1 hj hall c _
    exfalso
    cases r with
    | nil => simp at hj; omega
    | cons x xs =>
      obtain ⟨j', rfl⟩ : ∃ j', j = j' + 1 := ⟨j - 1, by omega⟩
      have := hall x (by simp)
      rw [hr0 x rfl] at this; cases this
  | cons w ws ih =>
    intro r hS hr0 hrW j hj1 hj hall c hc
    obtain ⟨j', rfl⟩ : ∃ j', j = j' + 1 := ⟨j - 1, by omega⟩
    have hrW' := hrW (by simp)
    simp only [List.cons_append, List.drop_succ_cons] at hc
    by_cases hj0 : j' = 0
    · subst hj0
      simp only [List.drop_zero] at hc
      cases ws with
      | nil => exact hrW' c hc
      | cons w2 ws2 =>
        simp only [List.cons_append, List.head?_cons, Option.some.injEq] at hc
        rw [← hc]; exact space_not_setW w2 (hS w2 (by simp))
    · exact ih r (fun x hx => hS x (by simp [hx])) hr0 (fun _ => hrW') j' (by omega)
        (by simp only [List.cons_append, List.length_cons] at hj; omega)
        (fun x hx => hall x (by simp only [List.cons_append, List.take_succ_cons, List.mem_cons]; exact Or.inr hx)) c hc

/-- when the optional `const` group cannot be taken, the name is read at the start -/
theorem varTypeGroup2_fallback (s : Str)
    (hfb : ∀ g x5, s = constWord ++ x5 → ∀ j, 1 ≤ j → j ≤ x5.length → (∀ c ∈ x5.take j, Regex.isSpaceChar c = true) →
      ∀ p c, mAux g reName (x5.drop j) p c kfin = none) :
    varTypeGroup2 s = if nameRun s = [] then .error .TypeError else .ok (nameRun s) := by
  have hsplit : s = s.takeWhile setW.matches ++ s.dropWhile setW.matches := (List.takeWhile_append_dropWhile).symm
  have hrun : nameRun s = s.takeWhile setW.matches := by
    unfold nameRun; congr 1; funext c; exact (setW_eq c).symm
  have hafter : ∀ c, (s.dropWhile setW.matches).head? = some c → setW.matches c = false := dropWhile_head _ s
  by_cases hn : nameRun s = []
  · rw [if_pos hn]
    apply varTypeGroup2_none
    intro f
    have hhead : ∀ c, s.head? = some c → setW.matches c = false := takeWhile_nil_head _ s (by rw [← hrun]; exact hn)
    cases f with
    | zero => rw [mAux_zero]
    | succ f =>
      cases f with
      | zero => rw [mAux_seq, mAux_zero]
      | succ f =>
        rw [optConst_fallback (f + 2) s (by omega) (fun x5 hx j h1 h2 h3 p c => hfb _ x5 hx j h1 h2 h3 p c)]
        exact name_fail _ s 0 [] hhead
  · rw [if_neg hn]
    have hb : s.takeWhile setW.matches ≠ [] := by rw [← hrun]; exact hn
    have := varTypeGroup2_of s 0 (0 + (s.takeWhile setW.matches).length) (fun f hf => by
      obtain ⟨p', hp⟩ := name_ok (f - 1) (s.takeWhile setW.matches) (s.dropWhile setW.matches) 0 [] hb (takeWhile_all _ s) hafter
        (by rw [← hsplit]; omega)
      rw [← hsplit] at hp
      exact ⟨p', [], by rw [optConst_fallback f s (by omega) (fun x5 hx j h1 h2 h3 p c => hfb _ x5 hx j h1 h2 h3 p c)]; exact hp⟩)
    rw [this, hrun]
    have e : List.take (s.takeWhile setW.matches).length (s.takeWhile setW.matches ++ s.dropWhile setW.matches)
        = s.takeWhile setW.matches := List.take_left
    rw [← hsplit] at e
    simp [e]

/-- `Param.VarType.search(s)[2]` on EVERY text: the generated regular expression run by the backtracking matcher reads
    exactly what the direct scanner reads -/
theorem varTypeGroup2_spec (s : Str) : varTypeGroup2 s = varTypeGroup2Spec s := by
  unfold varTypeGroup2Spec nameStart
  by_cases hc : Str.startsWith s constWord = true
  · obtain ⟨x5, rfl⟩ := startsWith_split s constWord hc
    have hd5 : (constWord ++ x5).drop 5 = x5 := rfl
    rw [if_pos hc]
    simp only [hd5]
    have hx5 : x5 = x5.takeWhile Regex.isSpaceChar ++ x5.dropWhile Regex.isSpaceChar := (List.takeWhile_append_dropWhile).symm
    have hr0 : ∀ c, (x5.dropWhile Regex.isSpaceChar).head? = some c → Regex.isSpaceChar c = false := dropWhile_head _ x5
    have hS : ∀ c ∈ x5.takeWhile Regex.isSpaceChar, Regex.isSpaceChar c = true := takeWhile_all _ x5
    by_cases hA : x5.takeWhile Regex.isSpaceChar ≠ [] ∧ nameRun (x5.dropWhile Regex.isSpaceChar) ≠ []
    · -- `const` + white space + name
      rw [if_pos hA]
      generalize hws : x5.takeWhile Regex.isSpaceChar = ws at hx5 hS hA
      generalize hr : x5.dropWhile Regex.isSpaceChar = r at hx5 hr0 hA
      have hrun : nameRun r = r.takeWhile setW.matches := by
        unfold nameRun; congr 1; funext c; exact (setW_eq c).symm
      have hrsplit : r = r.takeWhile setW.matches ++ r.dropWhile setW.matches := (List.takeWhile_append_dropWhile).symm
      have hb : r.takeWhile setW.matches ≠ [] := by rw [← hrun]; exact hA.2
      have hshape : constWord ++ x5 = 'c' :: 'o' :: 'n' :: 's' :: 't' :: (ws ++ (r.takeWhile setW.matches ++ r.dropWhile setW.matches)) := by
        rw [← hrsplit, ← hx5]; rfl
      have := varTypeGroup2_of (constWord ++ x5) (5 + ws.length) (5 + ws.length + (r.takeWhile setW.matches).length) (fun f hf => by
        rw [hshape]
        exact optConst_take f ws _ _ hA.1 hS hb (takeWhile_all _ r) (dropWhile_head _ r) (by
          rw [hshape] at hf; simp only [List.length_cons] at hf; omega))
      rw [this]
      have hdrop : (constWord ++ x5).drop (5 + ws.length) = r := by
        rw [hx5]
        have e : constWord ++ (ws ++ r) = (constWord ++ ws) ++ r := by simp
        have l : 5 + ws.length = (constWord ++ ws).length := by simp [constWord]; omega
        rw [e, l, List.drop_left]
      rw [hdrop, if_neg hA.2, hrun]
      have e : List.take (r.takeWhile setW.matches).length (r.takeWhile setW.matches ++ r.dropWhile setW.matches)
          = r.takeWhile setW.matches := List.take_left
      rw [← hrsplit] at e
      simp [e]
    · -- the group is given back: the name is read from the start (`const` itself at least)
      rw [if_neg hA]
      simp only [List.drop_zero]
      apply varTypeGroup2_fallback
      intro g y5 hy j hj1 hj hall p c
      have hy5 : y5 = x5 := List.append_cancel_left hy.symm
      rw [hy5] at hj hall ⊢
      apply name_fail
      have key := drop_head_notW (x5.takeWhile Regex.isSpaceChar) (x5.dropWhile Regex.isSpaceChar) hS hr0 (fun hne c' hc' => by
        have hnr : nameRun (x5.dropWhile Regex.isSpaceChar) = [] := by
          cases hq : nameRun (x5.dropWhile Regex.isSpaceChar) with
          | nil => rfl
          | cons a b => exact absurd ⟨hne, by rw [hq]; simp⟩ hA
        have := takeWhile_nil_head isNameChar _ hnr c' hc'
        rw [setW_eq]; exact this) j hj1 (by rw [← hx5]; exact hj) (by rw [← hx5]; exact hall)
      rw [← hx5] at key
      exact key
  · rw [if_neg hc]
    simp only [List.drop_zero]
    apply varTypeGroup2_fallback
    intro g x5 hx
    exfalso
    apply hc
    rw [hx]; exact startsWith_append _ _

/-- `var_type_origin` on EVERY text equals the direct reading -/
theorem varTypeOrigin_spec (s : Str) : varTypeOrigin s = varTypeOriginSpec s := by
  unfold varTypeOrigin varTypeOriginSpec
  rw [varTypeGroup2_spec]

/-! ### parameter text → `Param.parse` → `var_type` → `var_type_origin` -/

/-- the characters of `s` as atoms in front of `r` -/
def Frag.atoms : Str → Frag → Frag
  | [], r => r
  | c :: cs, r => .atom c (Frag.atoms cs r)

theorem render_atoms (s : Str) (r : Frag) : (Frag.atoms s r).render = s ++ r.render := by
  induction s with
  | nil => rfl
  | cons c cs ih => simp [Frag.atoms, Frag.render, ih]

theorem nameChar_plain (c : Char) (h : isNameChar c = true) : has Frag.special c = false ∧ c ≠ ' ' ∧ c ≠ '=' := by
  have key : ∀ x ∈ Regex.wordChars ++ [':'], has Frag.special x = false ∧ x ≠ ' ' ∧ x ≠ '=' := by decide
  apply key
  simp only [isNameChar, Regex.isWordChar, Bool.or_eq_true, List.contains_eq_mem, decide_eq_true_eq, beq_iff_eq] at h
  rcases h with h | h
  · exact List.mem_append_left _ h
  · exact List.mem_append_right _ (by simp [h])

theorem atoms_props (r : Frag) : ∀ (s : Str), (∀ c ∈ s, isNameChar c = true) →
    (Frag.Simple r → Frag.Simple (Frag.atoms s r)) ∧ Frag.noTop ' ' (Frag.atoms s r) = Frag.noTop ' ' r ∧
      Frag.noTop '=' (Frag.atoms s r) = Frag.noTop '=' r := by
  intro s
  induction s with
  | nil => intro _; exact ⟨id, rfl, rfl⟩
  | cons c cs ih =>
    intro h
    obtain ⟨h1, h2, h3⟩ := ih (fun x hx => h x (by simp [hx]))
    obtain ⟨p1, p2, p3⟩ := nameChar_plain c (h c (by simp))
    refine ⟨fun hr => ?_, ?_, ?_⟩
    · have := h1 hr
      simp only [Frag.Simple, Frag.atoms, Frag.wf, p1, Bool.not_false, Bool.true_and] at this ⊢
      exact this
    · simp [Frag.atoms, Frag.noTop, p2, h2]
    · simp [Frag.atoms, Frag.noTop, p3, h3]

/-- `*` / `&` / nothing behind the type -/
def ptrFrag : Option Char → Frag
  | none => .nil
  | some c => .atom c .nil

/-- a C++ type token: base name, optionally `<template arguments>`, optionally `*` or `&` -/
def tyTail : Option Frag → Option Char → Frag
  | none, ptr => ptrFrag ptr
  | some i, ptr => .group .ang i (ptrFrag ptr)

def tyTok (base : Str) (targs : Option Frag) (ptr : Option Char) : Frag := Frag.atoms base (tyTail targs ptr)

def targsText : Option Frag → Str
  | none => []
  | some i => '<' :: (i.render ++ ['>'])

def ptrText : Option Char → Str
  | none => []
  | some c => [c]

theorem render_tyTok (base : Str) (targs : Option Frag) (ptr : Option Char) :
    (tyTok base targs ptr).render = base ++ (targsText targs ++ ptrText ptr) := by
  rw [tyTok, render_atoms]
  cases targs <;> cases ptr <;> simp [tyTail, targsText, ptrText, ptrFrag, Frag.render, BK.open, BK.close]

theorem typeRest_tyTok (targs : Option Frag) (ptr : Option Char) (hp : ∀ c, ptr = some c → c = '*' ∨ c = '&') :
    typeRest (targsText targs) (ptrText ptr) := by
  refine ⟨?_, ?_⟩
  · cases targs with
    | none => exact Or.inl rfl
    | some i => exact Or.inr ⟨_, rfl⟩
  · cases ptr with
    | none => exact Or.inl rfl
    | some c =>
      rcases hp c rfl with h | h <;> subst h
      · exact Or.inr (Or.inl rfl)
      · exact Or.inr (Or.inr rfl)

theorem paramToken_tyTok (base : Str) (targs : Option Frag) (ptr : Option Char) (hb : base ≠ [])
    (hW : ∀ c ∈ base, isNameChar c = true) (hi : ∀ i, targs = some i → Frag.Simple i)
    (hp : ∀ c, ptr = some c → c = '*' ∨ c = '&') : ParamToken (tyTok base targs ptr) := by
  have hptr : Frag.Simple (ptrFrag ptr) ∧ Frag.noTop ' ' (ptrFrag ptr) = true ∧ Frag.noTop '=' (ptrFrag ptr) = true := by
    cases ptr with
    | none => exact ⟨rfl, rfl, rfl⟩
    | some c => rcases hp c rfl with h | h <;> subst h <;> decide
  obtain ⟨a1, a2, a3⟩ := atoms_props (tyTail targs ptr) base hW
  refine ⟨?_, ?_, ?_, ?_⟩
  · apply a1
    cases targs with
    | none => exact hptr.1
    | some i =>
      have := hi i rfl
      simp only [tyTail, Frag.Simple, Frag.wf, Bool.and_eq_true] at this hptr ⊢
      exact ⟨this, hptr.1⟩
  · rw [tyTok, a2]; cases targs <;> simp [tyTail, Frag.noTop, hptr.2.1]
  · rw [tyTok, a3]; cases targs <;> simp [tyTail, Frag.noTop, hptr.2.2]
  · cases base with
    | nil => exact absurd rfl hb
    | cons b bs => simp [tyTok, Frag.atoms]

def constTok : Frag := Frag.atoms ['c', 'o', 'n', 's', 't'] .nil

/-- the whole way: the text of a C++ parameter `[const ]base[<…>][*|&] name = default` is taken apart by `Param.parse`
    into type, name and default, and `var_type_origin` of that type is the base name -/
theorem param_origin (cst : Bool) (base : Str) (targs : Option Frag) (ptr : Option Char) (nm df : Frag) (hb : base ≠ [])
    (hW : ∀ c ∈ base, isNameChar c = true) (hi : ∀ i, targs = some i → Frag.Simple i)
    (hp : ∀ c, ptr = some c → c = '*' ∨ c = '&') (hn : ParamToken nm) (hd : Frag.Simple df) :
    ∃ ty, paramParse ((Frag.join ' ' ((if cst then [constTok] else []) ++ [tyTok base targs ptr] ++ [nm])).render
        ++ ' ' :: '=' :: ' ' :: df.render) = .ok (ty, nm.render, strip df.render) ∧
      varTypeOrigin ty = .ok base := by
  have hty := paramToken_tyTok base targs ptr hb hW hi hp
  have hr := typeRest_tyTok targs ptr hp
  have hc : ParamToken constTok := by decide
  refine ⟨_, paramParse_default ((if cst then [constTok] else []) ++ [tyTok base targs ptr]) nm df ?_ hd, ?_⟩
  · intro t ht
    cases cst
    · simp only [Bool.false_eq_true, if_false, List.nil_append, List.cons_append, List.mem_cons, List.not_mem_nil, or_false] at ht
      rcases ht with ht | ht <;> subst ht <;> assumption
    · simp only [if_true, List.nil_append, List.cons_append, List.mem_cons, List.not_mem_nil, or_false] at ht
      rcases ht with ht | ht | ht <;> subst ht <;> assumption
  · cases cst with
    | false =>
      simp only [Bool.false_eq_true, if_false, List.nil_append, List.map_cons, List.map_nil, Str.join, render_tyTok]
      exact varTypeOrigin_plain base _ _ hb hW hr
    | true =>
      simp only [if_true, List.cons_append, List.nil_append, List.map_cons, List.map_nil, Str.join, render_tyTok]
      have := varTypeOrigin_const [] base _ _ (by simp) hb hW hr
      simpa [constTok, Frag.atoms, Frag.render, constBlank] using this

end Tranp.Block
