/-
  Lemmas for property C18, part 7: the text helpers of Tranp.Model.BlockView (is_quoted_literal, Param.var_type_origin)
  and `DecoratorQuery.any_args`.
-/
import Tranp.Lemmas.BlockCallers
import Tranp.Model.BlockView
import Tranp.Lemmas.BlockVarType

namespace Tranp.Block
open Tranp Tranp.Generated.BlockPairs Tranp.Regex

/-! ### `DecoratorQuery.any_args` -/

/-- `decorator[args_begin + 1:len(decorator) - 1]` (empty without a `(`) -/
def joinArgsOf (decorator : Str) : Str :=
  match Str.find decorator ['('] with
  | none => []
  | some i => slice decorator (i + 1) (decorator.length - 1)

theorem decoParse_joinArgs (d : Str) (r : Str × List (Str × Str) × Str) (h : decoParse d = .ok r) : r.2.2 = joinArgsOf d := by
  unfold decoParse at h
  unfold joinArgsOf
  cases hf : Str.find d ['('] with
  | none => rw [hf] at h; injection h with h; rw [← h]
  | some i =>
    rw [hf] at h
    simp only [] at h ⊢
    cases hb : breakSeparator (slice d (i + 1) (d.length - 1)) [','] with
    | error e => rw [hb] at h; cases h
    | ok ps =>
      rw [hb] at h
      cases ha : decoArgs ps with
      | error e => simp only [Except.bind, ha] at h; cases h
      | ok a => simp only [Except.bind, ha] at h; injection h with h; rw [← h]

theorem decoAnyArgs_of_parse (d subject : Str) (r : Str × List (Str × Str) × Str) (h : decoParse d = .ok r) :
    decoAnyArgs d subject = .ok (Str.find (joinArgsOf d) subject).isSome := by
  simp only [decoAnyArgs, decoJoinArgs, h, Except.bind, decoParse_joinArgs d r h]

theorem queryAnyArgs_filter (ds : List Str) (subject : Str) (h : ∀ d ∈ ds, ∃ r, decoParse d = .ok r) :
    queryAnyArgs ds subject = .ok (ds.filter fun d => (Str.find (joinArgsOf d) subject).isSome) := by
  induction ds with
  | nil => rfl
  | cons d ds ih =>
    obtain ⟨r, hr⟩ := h d (by simp)
    have ih1 := ih (fun x hx => h x (by simp [hx]))
    simp only [queryAnyArgs, decoAnyArgs_of_parse d subject r hr, Except.bind, ih1, List.filter]
    cases (Str.find (joinArgsOf d) subject).isSome <;> rfl

theorem joinArgsOf_call (path args : Str) (hp : ∀ x ∈ path, x ≠ '(') :
    joinArgsOf (path ++ '(' :: (args ++ [')'])) = args := by
  simp only [joinArgsOf, find_char '(' path _ hp]
  have h := slice_middle path args [')'] '('
  have hl : (path ++ '(' :: (args ++ [')'])).length - 1 = path.length + 1 + args.length := by
    simp only [List.length_append, List.length_cons, List.length_nil]; omega
  rw [hl]; exact h

/-! ### `is_quoted_literal` -/

/-- the last character of `prev :: a` -/
def lastOr : Char → Str → Char
  | p, [] => p
  | _, x :: xs => lastOr x xs

theorem getElem?_lastOr (z : Str) : ∀ (a pre0 : Str) (prev : Char),
    (pre0 ++ prev :: (a ++ z))[pre0.length + a.length]? = some (lastOr prev a) := by
  intro a
  induction a with
  | nil => intro pre0 prev; simp [lastOr]
  | cons x a ih =>
    intro pre0 prev
    have := ih (pre0 ++ [prev]) x
    simp only [List.append_assoc, List.cons_append, List.nil_append, List.length_append, List.length_cons,
      List.length_nil] at this
    simp only [List.cons_append, List.length_cons, lastOr]
    rw [← this]
    congr 1
    omega

theorem escapedBody_not_mem (q : Char) : ∀ (a : Str) (prev : Char), (∀ x ∈ a, x ≠ q) → escapedBody q prev a = true := by
  intro a
  induction a with
  | nil => intro _ _; rfl
  | cons x a ih =>
    intro prev h
    have hx : x ≠ q := h x (by simp)
    simp [escapedBody, hx, ih x (fun y hy => h y (by simp [hy]))]

theorem escapedBody_first (q : Char) (b : Str) : ∀ (a : Str) (prev : Char), (∀ x ∈ a, x ≠ q) →
    escapedBody q prev (a ++ q :: b) = (lastOr prev a == '\\' && escapedBody q q b) := by
  intro a
  induction a with
  | nil => intro prev _; simp [escapedBody, lastOr]
  | cons x a ih =>
    intro prev h
    have hx : x ≠ q := h x (by simp)
    simp [escapedBody, hx, lastOr, ih x (fun y hy => h y (by simp [hy]))]

theorem exists_first (c : Char) : ∀ (l : Str), c ∈ l → ∃ a b, l = a ++ c :: b ∧ ∀ x ∈ a, x ≠ c := by
  intro l
  induction l with
  | nil => intro h; cases h
  | cons y l ih =>
    intro h
    by_cases hy : y = c
    · exact ⟨[], l, by simp [hy], by simp⟩
    · have hm : c ∈ l := by
        rcases List.mem_cons.mp h with h | h
        · exact absurd h.symm hy
        · exact h
      obtain ⟨a, b, hl, ha⟩ := ih hm
      refine ⟨y :: a, b, by simp [hl], ?_⟩
      intro x hx
      rcases List.mem_cons.mp hx with hx | hx
      · rw [hx]; exact hy
      · exact ha x hx

theorem find_go_none_char (c : Char) : ∀ (l : Str) (i : Nat), (∀ x ∈ l, x ≠ c) → Str.find.go [c] l i = none := by
  intro l
  induction l with
  | nil => intro i _; simp [Str.find.go]
  | cons x l ih =>
    intro i h
    have hx : x ≠ c := h x (by simp)
    simp [Str.find.go, Str.startsWith, hx, ih (i + 1) (fun y hy => h y (by simp [hy]))]

theorem find_none_char (c : Char) (l : Str) (h : ∀ x ∈ l, x ≠ c) : Str.find l [c] = none := by
  simpa [Str.find] using find_go_none_char c l 0 h

theorem slice_inner (pre mid z : Str) : slice (pre ++ (mid ++ z)) pre.length (pre.length + mid.length) = mid := by
  simp [slice, List.take_append, List.take_add]

/-- the loop invariant: started behind `pre0 ++ [prev]` with `rest` (and the closing quote) still ahead, the loop answers
    whether every quote character of `rest` stands behind a backslash — and never runs out of fuel -/
theorem iqlLoop_spec (q : Char) : ∀ (fuel : Nat) (pre0 : Str) (prev : Char) (rest : Str), rest.length + 1 ≤ fuel →
    iqlLoop (pre0 ++ prev :: (rest ++ [q])) [q] fuel (pre0.length + 1) = .ok (escapedBody q prev rest) := by
  intro fuel
  induction fuel with
  | zero => intro _ _ _ h; omega
  | succ fuel ih =>
    intro pre0 prev rest hf
    have hlen : (pre0 ++ prev :: (rest ++ [q])).length - 1 = pre0.length + 1 + rest.length := by
      simp only [List.length_append, List.length_cons, List.length_nil]; omega
    rw [iqlLoop, hlen]
    by_cases hr : rest = []
    · subst hr
      simp [escapedBody]
    · have hpos : 0 < rest.length := List.length_pos_iff.mpr hr
      rw [if_pos (by omega)]
      have hsl : slice (pre0 ++ prev :: (rest ++ [q])) (pre0.length + 1) (pre0.length + 1 + rest.length) = rest := by
        have := slice_inner (pre0 ++ [prev]) rest [q]
        simpa using this
      have hmin : ¬ (min (pre0.length + 1 + rest.length) (pre0 ++ prev :: (rest ++ [q])).length < pre0.length + 1) := by
        simp only [List.length_append, List.length_cons, List.length_nil]; omega
      simp only [findIn, if_neg hmin, hsl]
      by_cases hm : q ∈ rest
      · obtain ⟨a, b, hab, ha⟩ := exists_first q rest hm
        subst hab
        rw [find_char q a b ha]
        simp only [Option.map_some]
        have hget := getElem?_lastOr (q :: (b ++ [q])) a pre0 prev
        have hidx : a.length + (pre0.length + 1) - 1 = pre0.length + a.length := by omega
        have hs : pre0 ++ prev :: (a ++ q :: b ++ [q]) = pre0 ++ prev :: (a ++ q :: (b ++ [q])) := by simp
        rw [hidx, hs, charAt, hget]
        simp only [Except.bind]
        rw [escapedBody_first q b a prev ha]
        by_cases hl : lastOr prev a = '\\'
        · have hnext := ih (pre0 ++ prev :: a) q b (by
            simp only [List.length_append, List.length_cons] at hf; omega)
          have hs2 : pre0 ++ prev :: a ++ q :: (b ++ [q]) = pre0 ++ prev :: (a ++ q :: (b ++ [q])) := by simp
          have hl2 : (pre0 ++ prev :: a).length + 1 = a.length + (pre0.length + 1) + 1 := by
            simp only [List.length_append, List.length_cons]; omega
          rw [hs2, hl2] at hnext
          simp [hl, hnext]
        · simp [hl]
      · have hn : ∀ x ∈ rest, x ≠ q := fun x hx hxq => hm (hxq ▸ hx)
        rw [find_none_char q rest hn, escapedBody_not_mem q rest prev hn]
        rfl

theorem isQuotedLiteral_quoted (q : Char) (body : Str) :
    isQuotedLiteral (q :: (body ++ [q])) [q] = .ok (escapedBody q q body) := by
  have h1 : Str.startsWith (q :: (body ++ [q])) [q] = true := by simp [Str.startsWith]
  have h2 : Str.endsWith (q :: (body ++ [q])) [q] = true := by
    have := endsWith_snoc (q :: body) q
    simpa using this
  have h3 := iqlLoop_spec q ((q :: (body ++ [q])).length + 1) [] q body (by
    simp only [List.length_append, List.length_cons, List.length_nil]; omega)
  simp only [List.nil_append, List.length_nil, Nat.zero_add] at h3
  simp only [isQuotedLiteral, h1, h2, Bool.and_self, Bool.not_true, Bool.false_eq_true, if_false, h3]

/-! ### `Param.var_type_origin` -/

/-- what may follow the base name: nothing, template arguments `<…>` (with anything behind), a `*` or `&` -/
def typeRest (targs ptr : Str) : Prop :=
  (targs = [] ∨ ∃ t, targs = '<' :: t) ∧ (ptr = [] ∨ ptr = ['*'] ∨ ptr = ['&'])

theorem typeRest_head (targs ptr : Str) (h : typeRest targs ptr) :
    ∀ c, (targs ++ ptr).head? = some c → c = '<' ∨ c = '*' ∨ c = '&' := by
  intro c hc
  obtain ⟨ht, hp⟩ := h
  rcases ht with ht | ⟨t, ht⟩
  · subst ht
    rcases hp with hp | hp | hp <;> subst hp <;> simp at hc <;> simp [← hc]
  · subst ht; simp at hc; simp [← hc]

theorem head_not_name (c : Char) (h : c = '<' ∨ c = '*' ∨ c = '&') : setW.matches c = false ∧ isSpaceChar c = false := by
  rcases h with h | h | h <;> subst h <;> decide

theorem name_ne_lt (c : Char) (h : setW.matches c = true) : c ≠ '<' := by
  intro e; subst e; revert h; decide

theorem takeWhile_base (base : Str) (h : ∀ c ∈ base, c ≠ '<') (rest : Str) (hr : rest = [] ∨ ∃ t, rest = '<' :: t) :
    (base ++ rest).takeWhile (· != '<') = base := by
  induction base with
  | nil =>
    rcases hr with hr | ⟨t, hr⟩ <;> subst hr <;> simp
  | cons b base ih =>
    have hb : b ≠ '<' := h b (by simp)
    simp only [List.cons_append, List.takeWhile_cons, bne_iff_ne, ne_eq, hb, not_false_eq_true, if_true]
    rw [ih (fun c hc => h c (by simp [hc]))]

/-- base name, optionally template arguments and a `*`/`&` (no `const`): the base name comes back, on both branches -/
theorem varTypeOrigin_plain (base targs ptr : Str) (hb : base ≠ []) (hW : ∀ c ∈ base, isNameChar c = true)
    (hr : typeRest targs ptr) : varTypeOrigin (base ++ (targs ++ ptr)) = .ok base := by
  have hW' : ∀ c ∈ base, setW.matches c = true := fun c hc => isNameChar_setW c (hW c hc)
  have ha := fun c hc => head_not_name c (typeRest_head targs ptr hr c hc)
  unfold varTypeOrigin
  split
  · have := varTypeGroup2_of (base ++ (targs ++ ptr)) 0 (0 + base.length) (fun f hf =>
      let ⟨p', hp⟩ := optConst_skip f base (targs ++ ptr) hb hW' ha (by omega)
      ⟨p', [], hp⟩)
    rw [this]
    simp
  · rename_i hc
    obtain ⟨ht, hp⟩ := hr
    have hne := fun c hc => name_ne_lt c (hW' c hc)
    rcases ht with ht | ⟨t, ht⟩
    · subst ht
      rcases hp with hp | hp | hp
      · subst hp
        have := takeWhile_base base hne [] (Or.inl rfl)
        simp only [List.append_nil] at this
        simp only [List.append_nil, beforeLt, this]
      · subst hp
        exfalso; apply hc
        have := endsWith_snoc base '*'
        simp only [List.nil_append, this, Bool.or_true, Bool.true_or]
      · subst hp
        exfalso; apply hc
        have := endsWith_snoc base '&'
        simp only [List.nil_append, this, Bool.or_true]
    · subst ht
      simp only [beforeLt, List.cons_append]
      rw [takeWhile_base base hne ('<' :: (t ++ ptr)) (Or.inr ⟨_, rfl⟩)]

/-- the same behind `const␠` (+ more white space) -/
theorem varTypeOrigin_const (ws base targs ptr : Str) (hS : ∀ c ∈ ws, isSpaceChar c = true) (hb : base ≠ [])
    (hW : ∀ c ∈ base, isNameChar c = true) (hr : typeRest targs ptr) :
    varTypeOrigin (constBlank ++ (ws ++ (base ++ (targs ++ ptr)))) = .ok base := by
  have hW' : ∀ c ∈ base, setW.matches c = true := fun c hc => isNameChar_setW c (hW c hc)
  have ha := fun c hc => (head_not_name c (typeRest_head targs ptr hr c hc)).1
  have hstart : Str.startsWith (constBlank ++ (ws ++ (base ++ (targs ++ ptr)))) constBlank = true := startsWith_append _ _
  have hS' : ∀ c ∈ ' ' :: ws, isSpaceChar c = true := by
    intro c hc
    rcases List.mem_cons.mp hc with hc | hc
    · subst hc; decide
    · exact hS c hc
  have hshape : constBlank ++ (ws ++ (base ++ (targs ++ ptr)))
      = 'c' :: 'o' :: 'n' :: 's' :: 't' :: ((' ' :: ws) ++ (base ++ (targs ++ ptr))) := rfl
  unfold varTypeOrigin
  rw [hstart, Bool.true_or, Bool.true_or, if_pos rfl]
  have := varTypeGroup2_of (constBlank ++ (ws ++ (base ++ (targs ++ ptr)))) (5 + (' ' :: ws).length) (5 + (' ' :: ws).length + base.length)
    (fun f hf => by
      rw [hshape]
      exact optConst_take f (' ' :: ws) base (targs ++ ptr) (by simp) hS' hb hW' ha (by
        rw [hshape] at hf; simp only [List.length_cons, List.length_append] at hf ⊢; omega))
  rw [this, hshape]
  have hd : ('c' :: 'o' :: 'n' :: 's' :: 't' :: ((' ' :: ws) ++ (base ++ (targs ++ ptr)))).drop (5 + (' ' :: ws).length)
      = base ++ (targs ++ ptr) := by
    have : 'c' :: 'o' :: 'n' :: 's' :: 't' :: ((' ' :: ws) ++ (base ++ (targs ++ ptr)))
        = (['c', 'o', 'n', 's', 't'] ++ (' ' :: ws)) ++ (base ++ (targs ++ ptr)) := by simp
    rw [this]
    have hl : 5 + (' ' :: ws).length = (['c', 'o', 'n', 's', 't'] ++ (' ' :: ws)).length := by simp; omega
    rw [hl, List.drop_left]
  rw [hd]
  simp

end Tranp.Block
