/-
  Lemmas for property C18, part 7: the text helpers of Tranp.Model.BlockView (is_quoted_literal, Param.var_type_origin)
  and `DecoratorQuery.any_args`.
-/
import Tranp.Lemmas.BlockCallers
import Tranp.Model.BlockView
import Tranp.Lemmas.BlockVarType

namespace Tranp.Block
open Tranp Tranp.Generated.BlockPairs Tranp.Regex

/-! ### `DecoratorQuery.any_args` -/

/-- `decorator[args_begin + 1:len(decorator) - 1]` (empty without a `(`) -/
def joinArgsOf (decorator : Str) : Str :=
  match Str.find decorator ['('] with
  | none => []
  | some i => slice decorator (i + 1) (decorator.length - 1)

theorem decoParse_joinArgs (d : Str) (r : Str × List (Str × Str) × Str) (h : decoParse d = .ok r) : r.2.2 = joinArgsOf d := by
  unfold decoParse at h
  unfold joinArgsOf
  cases hf : Str.find d ['('] with
  | none => rw [hf] at h; injection h with h; rw [← h]
  | some i =>
    rw [hf] at h
    simp only [] at h ⊢
    cases hb : breakSeparator (slice d (i + 1) (d.length - 1)) [','] with
    | error e => rw [hb] at h; cases h
    | ok ps =>
      rw [hb] at h
      cases ha : decoArgs ps with
      | error e => simp only [Except.bind, ha] at h; cases h
      | ok a => simp only [Except.bind, ha] at h; injection h with h; rw [← h]

theorem decoAnyArgs_of_parse (d subject : Str) (r : Str × List (Str × Str) × Str) (h : decoParse d = .ok r) :
    decoAnyArgs d subject = .ok (Str.find (joinArgsOf d) subject).isSome := by
  simp only [decoAnyArgs, decoJoinArgs, h, Except.bind, decoParse_joinArgs d r h]

theorem queryAnyArgs_filter (ds : List Str) (subject : Str) (h : ∀ d ∈ ds, ∃ r, decoParse d = .ok r) :
    queryAnyArgs ds subject = .ok (ds.filter fun d => (Str.find (joinArgsOf d) subject).isSome) := by
  induction ds with
  | nil => rfl
  | cons d ds ih =>
    obtain ⟨r, hr⟩ := h d (by simp)
    have ih1 := ih (fun x hx => h x (by simp [hx]))
    simp only [queryAnyArgs, decoAnyArgs_of_parse d subject r hr, Except.bind, ih1, List.filter]
    cases (Str.find (joinArgsOf d) subject).isSome <;> rfl

theorem joinArgsOf_call (path args : Str) (hp : ∀ x ∈ path, x ≠ '(') :
    joinArgsOf (path ++ '(' :: (args ++ [')'])) = args := by
  simp only [joinArgsOf, find_char '(' path _ hp]
  have h := slice_middle path args [')'] '('
  have hl : (path ++ '(' :: (args ++ [')'])).length - 1 = path.length + 1 + args.length := by
    simp only [List.length_append, List.length_cons, List.length_nil]; omega
  rw [hl]; exact h

/-! ### `is_quoted_literal` -/

/-- the last character of `prev :: a` -/
def lastOr : Char → Str → Char
  | p, [] => p
  | _, x :: xs => lastOr x xs

theorem getElem?_lastOr (z : Str) : ∀ (a pre0 : Str) (prev : Char),
    (pre0 ++ prev :: (a ++ z))[pre0.length + a.length]? = some (lastOr prev a) := by
  intro a
  induction a with
  | nil => intro pre0 prev; simp [lastOr]
  | cons x a ih =>
    intro pre0 prev
    have := ih (pre0 ++ [prev]) x
    simp only [List.append_assoc, List.cons_append, List.nil_append, List.length_append, List.length_cons,
      List.length_nil] at this
    simp only [List.cons_append, List.length_cons, lastOr]
    rw [← this]
    congr 1
    omega

theorem escapedBody_not_mem (q : Char) : ∀ (a : Str) (prev : Char), (∀ x ∈ a, x ≠ q) → escapedBody q prev a = true := by
  intro a
  induction a with
  | nil => intro _ _; rfl
  | cons x a ih =>
    intro prev h
    have hx : x ≠ q := h x (by simp)
    simp [escapedBody, hx, ih x (fun y hy => h y (by simp [hy]))]

theorem escapedBody_first (q : Char) (b : Str) : ∀ (a : Str) (prev : Char), (∀ x ∈ a, x ≠ q) →
    escapedBody q prev (a ++ q :: b) = (lastOr prev a == '\\' && escapedBody q q b) := by
  intro a
  induction a with
  | nil => intro prev _; simp [escapedBody, lastOr]
  | cons x a ih =>
    intro prev h
    have hx : x ≠ q := h x (by simp)
    simp [escapedBody, hx, lastOr, ih x (fun y hy => h y (by simp [hy]))]

theorem exists_first (c : Char) : ∀ (l : Str), c ∈ l → ∃ a b, l = a ++ c :: b ∧ ∀ x ∈ a, x ≠ c := by
  intro l
  induction l with
  | nil => intro h; cases h
  | cons y l ih =>
    intro h
    by_cases hy : y = c
    · exact ⟨[], l, by simp [hy], by simp⟩
    · have hm : c ∈ l := by
        rcases List.mem_cons.mp h with h | h
        · exact absurd h.symm hy
        · exact h
      obtain ⟨a, b, hl, ha⟩ := ih hm
      refine ⟨y :: a, b, by simp [hl], ?_⟩
      intro x hx
      rcases List.mem_cons.mp hx with hx | hx
      · rw [hx]; exact hy
      · exact ha x hx

theorem find_go_none_char (c : Char) : ∀ (l : Str) (i : Nat), (∀ x ∈ l, x ≠ c) → Str.find.go [c] l i = none := by
  intro l
  induction l with
  | nil => intro i _; simp [Str.find.go]
  | cons x l ih =>
    intro i h
    have hx : x ≠ c := h x (by simp)
    simp [Str.find.go, Str.startsWith, hx, ih (i + 1) (fun y hy => h y (by simp [hy]))]

theorem find_none_char (c : Char) (l : Str) (h : ∀ x ∈ l, x ≠ c) : Str.find l [c] = none := by
  simpa [Str.find] using find_go_none_char c l 0 h

theorem slice_inner (pre mid z : Str) : slice (pre ++ (mid ++ z)) pre.length (pre.length + mid.length) = mid := by
  simp [slice, List.take_append, List.take_add]

/-- the loop invariant: started behind `pre0 ++ [prev]` with `rest` (and the closing quote) still ahead, the loop answers
    whether every quote character of `rest` stands behind a backslash — and never runs out of fuel -/
theorem iqlLoop_spec (q : Char) : ∀ (fuel : Nat) (pre0 : Str) (prev : Char) (rest : Str), rest.length + 1 ≤ fuel →
    iqlLoop (pre0 ++ prev :: (rest ++ [q])) [q] fuel (pre0.length + 1) = .ok (escapedBody q prev rest) := by
  intro fuel
  induction fuel with
  | zero => intro _ _ _ h; omega
  | succ fuel ih =>
    intro pre0 prev rest hf
    have hlen : (pre0 ++ prev :: (rest ++ [q])).length - 1 = pre0.length + 1 + rest.length := by
      simp only [List.length_append, List.length_cons, List.length_nil]; omega
    rw [iqlLoop, hlen]
    by_cases hr : rest = []
    · subst hr
      simp [escapedBody]
    · have hpos : 0 < rest.length := List.length_pos_iff.mpr hr
      rw [if_pos (by omega)]
      have hsl : slice (pre0 ++ prev :: (rest ++ [q])) (pre0.length + 1) (pre0.length + 1 + rest.length) = rest := by
        have := slice_inner (pre0 ++ [prev]) rest [q]
        simpa using this
      have hmin : ¬ (min (pre0.length + 1 + rest.length) (pre0 ++ prev :: (rest ++ [q])).length < pre0.length + 1) := by
        simp only [List.length_append, List.length_cons, List.length_nil]; omega
      simp only [findIn, if_neg hmin, hsl]
      by_cases hm : q ∈ rest
      · obtain ⟨a, b, hab, ha⟩ := exists_first q rest hm
        subst hab
        rw [find_char q a b ha]
        simp only [Option.map_some]
        have hget := getElem?_lastOr (q :: (b ++ [q])) a pre0 prev
        have hidx : a.length + (pre0.length + 1) - 1 = pre0.length + a.length := by omega
        have hs : pre0 ++ prev :: (a ++ q :: b ++ [q]) = pre0 ++ prev :: (a ++ q :: (b ++ [q])) := by simp
        rw [hidx, hs, charAt, hget]
        simp only [Except.bind]
        rw [escapedBody_first q b a prev ha]
        by_cases hl : lastOr prev a = '\\'
        · have hnext := ih (pre0 ++ prev :: a) q b (by
            simp only [List.length_append, List.length_cons] at hf; omega)
          have hs2 : pre0 ++ prev :: a ++ q :: (b ++ [q]) = pre0 ++ prev :: (a ++ q :: (b ++ [q])) := by simp
          have hl2 : (pre0 ++ prev :: a).length + 1 = a.length + (pre0.length + 1) + 1 := by
            simp only [List.length_append, List.length_cons]; omega
          rw [hs2, hl2] at hnext
          simp [hl, hnext]
        · simp [hl]
      · have hn : ∀ x ∈ rest, x ≠ q := fun x hx hxq => hm (hxq ▸ hx)
        rw [find_none_char q rest hn, escapedBody_not_mem q rest prev hn]
        rfl

theorem isQuotedLiteral_quoted (q : Char) (body : Str) :
    isQuotedLiteral (q :: (body ++ [q])) [q] = .ok (escapedBody q q body) := by
  have h1 : Str.startsWith (q :: (body ++ [q])) [q] = true := by simp [Str.startsWith]
  have h2 : Str.endsWith (q :: (body ++ [q])) [q] = true := by
    have := endsWith_snoc (q :: body) q
    simpa using this
  have h3 := iqlLoop_spec q ((q :: (body ++ [q])).length + 1) [] q body (by
    simp only [List.length_append, List.length_cons, List.length_nil]; omega)
  simp only [List.nil_append, List.length_nil, Nat.zero_add] at h3
  simp only [isQuotedLiteral, h1, h2, Bool.and_self, Bool.not_true, Bool.false_eq_true, if_false, h3]

/-- the complete specification of `is_quoted_literal(s, q)` for a one-character quote: the empty text is no literal, the quote
    character alone is one (the loop has nothing to look at), a longer text is one exactly when it starts and ends with the
    quote and every quote in between stands behind a backslash -/
def quotedSpec (q : Char) : Str → Bool
  | [] => false
  | [c] => c == q
  | c :: d :: rest => c == q && (d :: rest).getLast (by simp) == q && escapedBody q q (d :: rest).dropLast

theorem endsWith_snoc_ne (s : Str) (c q : Char) (h : c ≠ q) : Str.endsWith (s ++ [c]) [q] = false := by
  simp [Str.endsWith, Str.startsWith, h]

theorem isQuotedLiteral_spec (q : Char) (s : Str) : isQuotedLiteral s [q] = .ok (quotedSpec q s) := by
  match s with
  | [] => simp [isQuotedLiteral, Str.startsWith, quotedSpec]
  | [c] =>
    by_cases hc : c = q
    · subst hc
      simp [isQuotedLiteral, Str.startsWith, Str.endsWith, quotedSpec, iqlLoop]
    · simp [isQuotedLiteral, Str.startsWith, quotedSpec, hc]
  | c :: d :: rest =>
    have hsplit : d :: rest = (d :: rest).dropLast ++ [(d :: rest).getLast (by simp)] :=
      (List.dropLast_concat_getLast (by simp)).symm
    generalize hbody : (d :: rest).dropLast = body at hsplit
    generalize hlast : (d :: rest).getLast (by simp) = last at hsplit
    simp only [quotedSpec, hbody, hlast]
    rw [hsplit]
    by_cases hc : c = q
    · by_cases hl : last = q
      · subst hc; subst hl
        rw [isQuotedLiteral_quoted]
        simp
      · have he : Str.endsWith (c :: (body ++ [last])) [q] = false := by
          have := endsWith_snoc_ne (c :: body) last q hl
          simpa using this
        simp [isQuotedLiteral, he, hl]
    · simp [isQuotedLiteral, Str.startsWith, hc]

/-! ### `Param.var_type_origin` -/

/-- what may follow the base name: nothing, template arguments `<…>` (with anything behind), a `*` or `&` -/
def typeRest (targs ptr : Str) : Prop :=
  (targs = [] ∨ ∃ t, targs = '<' :: t) ∧ (ptr = [] ∨ ptr = ['*'] ∨ ptr = ['&'])

theorem typeRest_head (targs ptr : Str) (h : typeRest targs ptr) :
    ∀ c, (targs ++ ptr).head? = some c → c = '<' ∨ c = '*' ∨ c = '&' := by
  intro c hc
  obtain ⟨ht, hp⟩ := h
  rcases ht with ht | ⟨t, ht⟩
  · subst ht
    rcases hp with hp | hp | hp <;> subst hp <;> simp at hc <;> simp [← hc]
  · subst ht; simp at hc; simp [← hc]

theorem head_not_name (c : Char) (h : c = '<' ∨ c = '*' ∨ c = '&') : setW.matches c = false ∧ isSpaceChar c = false := by
  rcases h with h | h | h <;> subst h <;> decide

theorem name_ne_lt (c : Char) (h : setW.matches c = true) : c ≠ '<' := by
  intro e; subst e; revert h; decide

theorem takeWhile_base (base : Str) (h : ∀ c ∈ base, c ≠ '<') (rest : Str) (hr : rest = [] ∨ ∃ t, rest = '<' :: t) :
    (base ++ rest).takeWhile (· != '<') = base := by
  induction base with
  | nil =>
    rcases hr with hr | ⟨t, hr⟩ <;> subst hr <;> simp
  | cons b base ih =>
    have hb : b ≠ '<' := h b (by simp)
    simp only [List.cons_append, List.takeWhile_cons, bne_iff_ne, ne_eq, hb, not_false_eq_true, if_true]
    rw [ih (fun c hc => h c (by simp [hc]))]

/-- base name, optionally template arguments and a `*`/`&` (no `const`): the base name comes back, on both branches -/
theorem varTypeOrigin_plain (base targs ptr : Str) (hb : base ≠ []) (hW : ∀ c ∈ base, isNameChar c = true)
    (hr : typeRest targs ptr) : varTypeOrigin (base ++ (targs ++ ptr)) = .ok base := by
  have hW' : ∀ c ∈ base, setW.matches c = true := fun c hc => isNameChar_setW c (hW c hc)
  have ha := fun c hc => head_not_name c (typeRest_head targs ptr hr c hc)
  unfold varTypeOrigin
  split
  · have := varTypeGroup2_of (base ++ (targs ++ ptr)) 0 (0 + base.length) (fun f hf =>
      let ⟨p', hp⟩ := optConst_skip f base (targs ++ ptr) hb hW' ha (by omega)
      ⟨p', [], hp⟩)
    rw [this]
    simp
  · rename_i hc
    obtain ⟨ht, hp⟩ := hr
    have hne := fun c hc => name_ne_lt c (hW' c hc)
    rcases ht with ht | ⟨t, ht⟩
    · subst ht
      rcases hp with hp | hp | hp
      · subst hp
        have := takeWhile_base base hne [] (Or.inl rfl)
        simp only [List.append_nil] at this
        simp only [List.append_nil, beforeLt, this]
      · subst hp
        exfalso; apply hc
        have := endsWith_snoc base '*'
        simp only [List.nil_append, this, Bool.or_true, Bool.true_or]
      · subst hp
        exfalso; apply hc
        have := endsWith_snoc base '&'
        simp only [List.nil_append, this, Bool.or_true]
    · subst ht
      simp only [beforeLt, List.cons_append]
      rw [takeWhile_base base hne ('<' :: (t ++ ptr)) (Or.inr ⟨_, rfl⟩)]

/-- the same behind `const␠` (+ more white space) -/
theorem varTypeOrigin_const (ws base targs ptr : Str) (hS : ∀ c ∈ ws, isSpaceChar c = true) (hb : base ≠ [])
    (hW : ∀ c ∈ base, isNameChar c = true) (hr : typeRest targs ptr) :
    varTypeOrigin (constBlank ++ (ws ++ (base ++ (targs ++ ptr)))) = .ok base := by
  have hW' : ∀ c ∈ base, setW.matches c = true := fun c hc => isNameChar_setW c (hW c hc)
  have ha := fun c hc => (head_not_name c (typeRest_head targs ptr hr c hc)).1
  have hstart : Str.startsWith (constBlank ++ (ws ++ (base ++ (targs ++ ptr)))) constBlank = true := startsWith_append _ _
  have hS' : ∀ c ∈ ' ' :: ws, isSpaceChar c = true := by
    intro c hc
    rcases List.mem_cons.mp hc with hc | hc
    · subst hc; decide
    · exact hS c hc
  have hshape : constBlank ++ (ws ++ (base ++ (targs ++ ptr)))
      = 'c' :: 'o' :: 'n' :: 's' :: 't' :: ((' ' :: ws) ++ (base ++ (targs ++ ptr))) := rfl
  unfold varTypeOrigin
  rw [hstart, Bool.true_or, Bool.true_or, if_pos rfl]
  have := varTypeGroup2_of (constBlank ++ (ws ++ (base ++ (targs ++ ptr)))) (5 + (' ' :: ws).length) (5 + (' ' :: ws).length + base.length)
    (fun f hf => by
      rw [hshape]
      exact optConst_take f (' ' :: ws) base (targs ++ ptr) (by simp) hS' hb hW' ha (by
        rw [hshape] at hf; simp only [List.length_cons, List.length_append] at hf ⊢; omega))
  rw [this, hshape]
  have hd : ('c' :: 'o' :: 'n' :: 's' :: 't' :: ((' ' :: ws) ++ (base ++ (targs ++ ptr)))).drop (5 + (' ' :: ws).length)
      = base ++ (targs ++ ptr) := by
    have : 'c' :: 'o' :: 'n' :: 's' :: 't' :: ((' ' :: ws) ++ (base ++ (targs ++ ptr)))
        = (['c', 'o', 'n', 's', 't'] ++ (' ' :: ws)) ++ (base ++ (targs ++ ptr)) := by simp
    rw [this]
    have hl : 5 + (' ' :: ws).length = (['c', 'o', 'n', 's', 't'] ++ (' ' :: ws)).length := by simp; omega
    rw [hl, List.drop_left]
  rw [hd]
  simp

/-! ### parameter text → `Param.parse` → `var_type` → `var_type_origin` -/

/-- the characters of `s` as atoms in front of `r` -/
def Frag.atoms : Str → Frag → Frag
  | [], r => r
  | c :: cs, r => .atom c (Frag.atoms cs r)

theorem render_atoms (s : Str) (r : Frag) : (Frag.atoms s r).render = s ++ r.render := by
  induction s with
  | nil => rfl
  | cons c cs ih => simp [Frag.atoms, Frag.render, ih]

theorem nameChar_plain (c : Char) (h : isNameChar c = true) : has Frag.special c = false ∧ c ≠ ' ' ∧ c ≠ '=' := by
  have key : ∀ x ∈ Regex.wordChars ++ [':'], has Frag.special x = false ∧ x ≠ ' ' ∧ x ≠ '=' := by decide
  apply key
  simp only [isNameChar, Regex.isWordChar, Bool.or_eq_true, List.contains_eq_mem, decide_eq_true_eq, beq_iff_eq] at h
  rcases h with h | h
  · exact List.mem_append_left _ h
  · exact List.mem_append_right _ (by simp [h])

theorem atoms_props (r : Frag) : ∀ (s : Str), (∀ c ∈ s, isNameChar c = true) →
    (Frag.Simple r → Frag.Simple (Frag.atoms s r)) ∧ Frag.noTop ' ' (Frag.atoms s r) = Frag.noTop ' ' r ∧
      Frag.noTop '=' (Frag.atoms s r) = Frag.noTop '=' r := by
  intro s
  induction s with
  | nil => intro _; exact ⟨id, rfl, rfl⟩
  | cons c cs ih =>
    intro h
    obtain ⟨h1, h2, h3⟩ := ih (fun x hx => h x (by simp [hx]))
    obtain ⟨p1, p2, p3⟩ := nameChar_plain c (h c (by simp))
    refine ⟨fun hr => ?_, ?_, ?_⟩
    · have := h1 hr
      simp only [Frag.Simple, Frag.atoms, Frag.wf, p1, Bool.not_false, Bool.true_and] at this ⊢
      exact this
    · simp [Frag.atoms, Frag.noTop, p2, h2]
    · simp [Frag.atoms, Frag.noTop, p3, h3]

/-- `*` / `&` / nothing behind the type -/
def ptrFrag : Option Char → Frag
  | none => .nil
  | some c => .atom c .nil

/-- a C++ type token: base name, optionally `<template arguments>`, optionally `*` or `&` -/
def tyTail : Option Frag → Option Char → Frag
  | none, ptr => ptrFrag ptr
  | some i, ptr => .group .ang i (ptrFrag ptr)

def tyTok (base : Str) (targs : Option Frag) (ptr : Option Char) : Frag := Frag.atoms base (tyTail targs ptr)

def targsText : Option Frag → Str
  | none => []
  | some i => '<' :: (i.render ++ ['>'])

def ptrText : Option Char → Str
  | none => []
  | some c => [c]

theorem render_tyTok (base : Str) (targs : Option Frag) (ptr : Option Char) :
    (tyTok base targs ptr).render = base ++ (targsText targs ++ ptrText ptr) := by
  rw [tyTok, render_atoms]
  cases targs <;> cases ptr <;> simp [tyTail, targsText, ptrText, ptrFrag, Frag.render, BK.open, BK.close]

theorem typeRest_tyTok (targs : Option Frag) (ptr : Option Char) (hp : ∀ c, ptr = some c → c = '*' ∨ c = '&') :
    typeRest (targsText targs) (ptrText ptr) := by
  refine ⟨?_, ?_⟩
  · cases targs with
    | none => exact Or.inl rfl
    | some i => exact Or.inr ⟨_, rfl⟩
  · cases ptr with
    | none => exact Or.inl rfl
    | some c =>
      rcases hp c rfl with h | h <;> subst h
      · exact Or.inr (Or.inl rfl)
      · exact Or.inr (Or.inr rfl)

theorem paramToken_tyTok (base : Str) (targs : Option Frag) (ptr : Option Char) (hb : base ≠ [])
    (hW : ∀ c ∈ base, isNameChar c = true) (hi : ∀ i, targs = some i → Frag.Simple i)
    (hp : ∀ c, ptr = some c → c = '*' ∨ c = '&') : ParamToken (tyTok base targs ptr) := by
  have hptr : Frag.Simple (ptrFrag ptr) ∧ Frag.noTop ' ' (ptrFrag ptr) = true ∧ Frag.noTop '=' (ptrFrag ptr) = true := by
    cases ptr with
    | none => exact ⟨rfl, rfl, rfl⟩
    | some c => rcases hp c rfl with h | h <;> subst h <;> decide
  obtain ⟨a1, a2, a3⟩ := atoms_props (tyTail targs ptr) base hW
  refine ⟨?_, ?_, ?_, ?_⟩
  · apply a1
    cases targs with
    | none => exact hptr.1
    | some i =>
      have := hi i rfl
      simp only [tyTail, Frag.Simple, Frag.wf, Bool.and_eq_true] at this hptr ⊢
      exact ⟨this, hptr.1⟩
  · rw [tyTok, a2]; cases targs <;> simp [tyTail, Frag.noTop, hptr.2.1]
  · rw [tyTok, a3]; cases targs <;> simp [tyTail, Frag.noTop, hptr.2.2]
  · cases base with
    | nil => exact absurd rfl hb
    | cons b bs => simp [tyTok, Frag.atoms]

def constTok : Frag := Frag.atoms ['c', 'o', 'n', 's', 't'] .nil

/-- the whole way: the text of a C++ parameter `[const ]base[<…>][*|&] name = default` is taken apart by `Param.parse`
    into type, name and default, and `var_type_origin` of that type is the base name -/
theorem param_origin (cst : Bool) (base : Str) (targs : Option Frag) (ptr : Option Char) (nm df : Frag) (hb : base ≠ [])
    (hW : ∀ c ∈ base, isNameChar c = true) (hi : ∀ i, targs = some i → Frag.Simple i)
    (hp : ∀ c, ptr = some c → c = '*' ∨ c = '&') (hn : ParamToken nm) (hd : Frag.Simple df) :
    ∃ ty, paramParse ((Frag.join ' ' ((if cst then [constTok] else []) ++ [tyTok base targs ptr] ++ [nm])).render
        ++ ' ' :: '=' :: ' ' :: df.render) = .ok (ty, nm.render, strip df.render) ∧
      varTypeOrigin ty = .ok base := by
  have hty := paramToken_tyTok base targs ptr hb hW hi hp
  have hr := typeRest_tyTok targs ptr hp
  have hc : ParamToken constTok := by decide
  refine ⟨_, paramParse_default ((if cst then [constTok] else []) ++ [tyTok base targs ptr]) nm df ?_ hd, ?_⟩
  · intro t ht
    cases cst
    · simp only [Bool.false_eq_true, if_false, List.nil_append, List.cons_append, List.mem_cons, List.not_mem_nil, or_false] at ht
      rcases ht with ht | ht <;> subst ht <;> assumption
    · simp only [if_true, List.nil_append, List.cons_append, List.mem_cons, List.not_mem_nil, or_false] at ht
      rcases ht with ht | ht | ht <;> subst ht <;> assumption
  · cases cst with
    | false =>
      simp only [Bool.false_eq_true, if_false, List.nil_append, List.map_cons, List.map_nil, Str.join, render_tyTok]
      exact varTypeOrigin_plain base _ _ hb hW hr
    | true =>
      simp only [if_true, List.cons_append, List.nil_append, List.map_cons, List.map_nil, Str.join, render_tyTok]
      have := varTypeOrigin_const [] base _ _ (by simp) hb hW hr
      simpa [constTok, Frag.atoms, Frag.render, constBlank] using this

end Tranp.Block
