/-
  Helper lemmas for the JSON text level of property C15: `parseJson ∘ printJson = some`, fuel monotonicity, the
  extension lemma behind `truncated_rejected`.
-/
import Tranp.Model.JsonCodec
import Tranp.Lemmas.AstPath.StrCodec

namespace Tranp.Lark
open Tranp Tranp.Str

/-! ### hex -/

theorem hexVal_hexDigit : ∀ n, n < 16 → Str.hexVal (Str.hexDigit n) = some n := by decide

theorem hex4Val_digits (v : Nat) (h : v < 65536) :
    hex4Val (Str.hexDigit (v / 4096 % 16)) (Str.hexDigit (v / 256 % 16)) (Str.hexDigit (v / 16 % 16)) (Str.hexDigit (v % 16))
      = some v := by
  simp only [hex4Val, hexVal_hexDigit _ (Nat.mod_lt _ (by decide : 0 < 16)), bind, Option.bind, pure]
  congr 1
  omega

/-! ### strings -/

theorem char_valid_toNat (c : Char) : c.toNat < 0xd800 ∨ (0xdfff < c.toNat ∧ c.toNat < 0x110000) := c.valid

theorem strStep_plain (c : Char) (tail : Str) (h1 : c ≠ '"') (h2 : c ≠ '\\') (h : ¬ c.toNat < 32) :
    strStep ([c] ++ tail) = some (.char c tail) := by
  simp [strStep, h1, h2, h]

theorem strStep_uEsc (v : Nat) (tail : Str) (hb : v < 65536) (hlo : ¬ (55296 ≤ v ∧ v < 56320))
    (hhi : ¬ (56320 ≤ v ∧ v < 57344)) :
    strStep (uEsc v ++ tail) = some (.char (Char.ofNat v) tail) := by
  simp [uEsc, strStep, uStep, hex4Val_digits v hb, hlo, hhi]

theorem strStep_uEsc_pair (v w : Nat) (tail : Str) (hv : v < 65536) (hw : w < 65536)
    (hs1 : 55296 ≤ v ∧ v < 56320) (hs2 : 56320 ≤ w ∧ w < 57344) :
    strStep (uEsc v ++ (uEsc w ++ tail)) = some (.char (Char.ofNat (65536 + (v - 55296) * 1024 + (w - 56320))) tail) := by
  simp [uEsc, strStep, uStep, lowStep, hex4Val_digits _ hv, hex4Val_digits _ hw, hs1, hs2]

/-- decoding the escape of one character yields that character -/
theorem strStep_escapeChar (c : Char) (tail : Str) :
    strStep (escapeChar c ++ tail) = some (.char c tail) := by
  unfold escapeChar
  split
  · rename_i h; subst h; simp [strStep, simpleEsc]
  split
  · rename_i h; subst h; simp [strStep, simpleEsc]
  split
  · rename_i h; subst h; simp [strStep, simpleEsc]
  split
  · rename_i h; subst h; simp [strStep, simpleEsc]
  split
  · rename_i h; subst h; simp [strStep, simpleEsc]
  split
  · rename_i h; subst h; simp [strStep, simpleEsc]
  split
  · rename_i h; subst h; simp [strStep, simpleEsc]
  rename_i h1 h2 h3 h4 h5 h6 h7
  split
  · rename_i hp
    exact strStep_plain c tail h1 h2 (by omega)
  split
  · rename_i hp hb
    have hv := char_valid_toNat c
    rw [strStep_uEsc c.toNat tail hb (by omega) (by omega), Char.ofNat_toNat]
  · rename_i hp hb
    have hv := char_valid_toNat c
    rw [List.append_assoc, strStep_uEsc_pair _ _ tail (by omega) (by omega) (by omega) (by omega)]
    have hre : 65536 + (55296 + (c.toNat - 65536) / 1024 - 55296) * 1024 + (56320 + (c.toNat - 65536) % 1024 - 56320) = c.toNat := by omega
    rw [hre, Char.ofNat_toNat]

/-- parsing the escape of one character yields that character (one unit of fuel) -/
theorem pStr_escapeChar (c : Char) (f : Nat) (tail : Str) :
    pStr (f + 1) (escapeChar c ++ tail) = consTo c (pStr f tail) := by
  simp [pStr, strStep_escapeChar]

theorem pStr_escapeStr (s : Str) (f : Nat) (rest : Str) (hf : s.length < f) :
    pStr f (escapeStr s ++ '"' :: rest) = some (s, rest) := by
  induction s generalizing f with
  | nil =>
    cases f with
    | zero => omega
    | succ f => simp [escapeStr, pStr, strStep]
  | cons c cs ih =>
    cases f with
    | zero => omega
    | succ f =>
      simp only [escapeStr, List.append_assoc]
      rw [pStr_escapeChar, ih f (by simpa using hf)]
      rfl


/-! ### numbers -/

/-- what may follow a printed value so that a number is not extended: nothing, or a non-digit -/
def okFollow (rest : Str) : Prop := ∀ c t, rest = c :: t → isDigit c = false

theorem okFollow_nil : okFollow [] := by intro c t h; cases h

theorem okFollow_cons {c : Char} {t : Str} (h : isDigit c = false) : okFollow (c :: t) := by
  intro c' t' h'; cases h'; exact h

theorem spanDigits_append (ds rest : Str) (hd : ∀ c ∈ ds, isDigit c = true) (hr : okFollow rest) :
    spanDigits (ds ++ rest) = (ds, rest) := by
  induction ds with
  | nil =>
    cases rest with
    | nil => rfl
    | cons c t => simp [spanDigits, hr c t rfl]
  | cons d ds ih =>
    have hd' : isDigit d = true := hd d (by simp)
    simp [spanDigits, hd', ih (fun c hc => hd c (by simp [hc]))]

theorem natToDec_isDigit (n : Nat) : ∀ c ∈ natToDec n, isDigit c = true := by
  intro c hc; simpa [isDigit] using StrCodec.natToDec_digits n c hc

theorem natToDec_cons (n : Nat) : ∃ d ds, natToDec n = d :: ds ∧ isDigit d = true := by
  cases h : natToDec n with
  | nil => exact absurd h (StrCodec.natToDec_ne_nil n)
  | cons d ds => exact ⟨d, ds, rfl, natToDec_isDigit n d (by simp [h])⟩

/-- `str(n)` has no leading zero -/
theorem natToDec_leading (n : Nat) : ∀ ds, natToDec n = '0' :: ds → ds = [] := by
  induction n using Nat.strongRecOn with
  | _ n ih =>
    intro ds h
    rw [natToDec] at h
    split at h
    · simp only [List.cons.injEq] at h
      exact h.2.symm
    · rename_i hn
      obtain ⟨d, ds', hd, _⟩ := natToDec_cons (n / 10)
      rw [hd] at h
      simp only [List.cons_append, List.cons.injEq] at h
      have h0 := ih (n / 10) (by omega) ds' (by rw [hd, h.1])
      -- n / 10 printed as "0" means n / 10 = 0, contradiction with n ≥ 10
      have : decFold 0 (natToDec (n / 10)) = some (n / 10) := StrCodec.decFold_natToDec (n / 10)
      rw [hd, h.1, h0] at this
      simp [decFold, decVal] at this
      omega

theorem pNum_nat (n : Nat) (rest : Str) (hr : okFollow rest) :
    pNum (natToDec n ++ rest) = some (Json.num (n : Int), rest) := by
  obtain ⟨d, ds, hd, hdig⟩ := natToDec_cons n
  have hne : d ≠ '-' := by intro h; subst h; simp [isDigit, decVal] at hdig
  have hspan := spanDigits_append (natToDec n) rest (natToDec_isDigit n) hr
  unfold pNum
  have hneg : ((natToDec n ++ rest).head? == some '-') = false := by simp [hd, hne]
  simp only [hneg, Bool.false_eq_true, if_false, hspan]
  have h1 : ¬ natToDec n = [] := StrCodec.natToDec_ne_nil n
  have h2 : ¬ ((natToDec n).head? = some '0' ∧ 1 < (natToDec n).length) := by
    rintro ⟨ha, hb⟩
    rw [hd] at ha hb
    simp at ha
    subst ha
    have := natToDec_leading n ds hd
    subst this
    simp at hb
  simp [h1, h2, StrCodec.decToNat_natToDec]

theorem pNum_int (i : Int) (rest : Str) (hr : okFollow rest) :
    pNum (Str.intToDec i ++ rest) = some (Json.num i, rest) := by
  unfold Str.intToDec
  split
  · rename_i hneg
    have hspan := spanDigits_append (natToDec i.natAbs) rest (natToDec_isDigit _) hr
    unfold pNum
    simp only [List.cons_append, List.head?_cons, beq_self_eq_true, if_true, List.tail_cons, hspan]
    have h1 : ¬ natToDec i.natAbs = [] := StrCodec.natToDec_ne_nil _
    obtain ⟨d, ds, hd, hdig⟩ := natToDec_cons i.natAbs
    have h2 : ¬ ((natToDec i.natAbs).head? = some '0' ∧ 1 < (natToDec i.natAbs).length) := by
      rintro ⟨ha, hb⟩
      rw [hd] at ha hb
      simp at ha
      subst ha
      have := natToDec_leading _ ds hd
      subst this
      simp at hb
    simp [h1, h2, StrCodec.decToNat_natToDec]
    omega
  · rename_i hpos
    rw [pNum_nat _ _ hr]
    congr 2
    simp
    omega


/-! ### values -/

theorem pValue_num (f : Nat) (c : Char) (r : Str) (h : isDigit c = true ∨ c = '-') :
    pValue (f + 1) (c :: r) = pNum (c :: r) := by
  have h1 : c ≠ '"' := by rintro rfl; simp [isDigit, decVal] at h
  have h2 : c ≠ '[' := by rintro rfl; simp [isDigit, decVal] at h
  have h3 : c ≠ '{' := by rintro rfl; simp [isDigit, decVal] at h
  have h4 : c ≠ 'n' := by rintro rfl; simp [isDigit, decVal] at h
  have h5 : c ≠ 't' := by rintro rfl; simp [isDigit, decVal] at h
  have h6 : c ≠ 'f' := by rintro rfl; simp [isDigit, decVal] at h
  simp [pValue, h1, h2, h3, h4, h5, h6]

theorem intToDec_cons (i : Int) : ∃ c t, Str.intToDec i = c :: t ∧ (isDigit c = true ∨ c = '-') := by
  unfold Str.intToDec
  split
  · exact ⟨'-', _, rfl, Or.inr rfl⟩
  · obtain ⟨d, ds, hd, hdig⟩ := natToDec_cons i.natAbs
    exact ⟨d, ds, hd, Or.inl hdig⟩

/-- a printed value never starts with a closing bracket -/
theorem printJson_head (j : Json) : ∃ c t, printJson j = c :: t ∧ c ≠ ']' := by
  cases j with
  | null => exact ⟨_, _, rfl, by decide⟩
  | bool b => cases b <;> exact ⟨_, _, rfl, by decide⟩
  | num i =>
    obtain ⟨c, t, h, hc⟩ := intToDec_cons i
    refine ⟨c, t, by simp [printJson, h], ?_⟩
    rintro rfl; simp [isDigit, decVal] at hc
  | str s => exact ⟨'"', _, rfl, by decide⟩
  | arr xs => cases xs <;> exact ⟨'[', _, rfl, by decide⟩
  | obj kvs =>
    cases kvs with
    | nil => exact ⟨'{', _, rfl, by decide⟩
    | cons kv r => obtain ⟨k, v⟩ := kv; exact ⟨'{', _, rfl, by decide⟩

theorem printItems_pos (xs : List Json) : 0 < (printItems xs).length := by
  cases xs <;> simp [printItems]

theorem printMembers_pos (kvs : List (Str × Json)) : 0 < (printMembers kvs).length := by
  cases kvs with
  | nil => simp [printMembers]
  | cons kv r => obtain ⟨k, v⟩ := kv; simp [printMembers]

theorem okFollow_items (xs : List Json) (rest : Str) : okFollow (printItems xs ++ rest) := by
  cases xs <;> exact okFollow_cons (by decide)

theorem okFollow_members (kvs : List (Str × Json)) (rest : Str) : okFollow (printMembers kvs ++ rest) := by
  cases kvs with
  | nil => exact okFollow_cons (by decide)
  | cons kv r => obtain ⟨k, v⟩ := kv; exact okFollow_cons (by decide)

theorem length_printStr (s : Str) : (printStr s).length = (escapeStr s).length + 2 := by
  simp [printStr]

theorem length_escapeChar_pos (c : Char) : 0 < (escapeChar c).length := by
  unfold escapeChar
  repeat' split
  all_goals simp [uEsc]

theorem length_escapeStr (s : Str) : s.length ≤ (escapeStr s).length := by
  induction s with
  | nil => simp [escapeStr]
  | cons c cs ih =>
    have := length_escapeChar_pos c
    simp [escapeStr]; omega

theorem pStr_printStr_tail (s : Str) (f : Nat) (rest : Str) (hf : (escapeStr s).length < f) :
    pStr f (escapeStr s ++ '"' :: rest) = some (s, rest) :=
  pStr_escapeStr s f rest (by have := length_escapeStr s; omega)

/-- one object member, given the round trip of its value -/
theorem pMember_print (k : Str) (v : Json) (f : Nat) (rest : Str)
    (hf : (escapeStr k).length + 1 < f)
    (ih : pValue f (printJson v ++ rest) = some (v, rest)) :
    pMember (f + 1) (printStr k ++ ':' :: (printJson v ++ rest)) = some ((k, v), rest) := by
  have h1 := pStr_printStr_tail k (f + 1) (':' :: (printJson v ++ rest)) (by omega)
  simp [pMember, printStr, h1, ih]

mutual
theorem pValue_print (j : Json) (f : Nat) (rest : Str) (hf : (printJson j).length < f) (hr : okFollow rest) :
    pValue f (printJson j ++ rest) = some (j, rest) := by
  cases f with
  | zero => omega
  | succ f =>
  match j with
  | .null => simp [printJson, pValue]
  | .bool true => simp [printJson, pValue]
  | .bool false => simp [printJson, pValue]
  | .num i =>
    obtain ⟨c, t, h, hc⟩ := intToDec_cons i
    have := pNum_int i rest hr
    simp only [printJson] at hf ⊢
    rw [h] at this ⊢
    rw [List.cons_append, pValue_num f c _ hc]
    exact this
  | .str s =>
    simp only [printJson, length_printStr] at hf
    have := pStr_printStr_tail s (f + 1) rest (by omega)
    simp [printJson, printStr, pValue, this]
  | .arr [] => simp [printJson, pValue]
  | .arr (x :: xs) =>
    simp only [printJson, List.length_cons, List.length_append] at hf
    have hpos := printItems_pos xs
    obtain ⟨c, t, hx, hc⟩ := printJson_head x
    have h1 := pValue_print x f (printItems xs ++ rest) (by omega) (okFollow_items xs rest)
    have h2 := pItems_print xs f rest (by omega)
    simp only [printJson, List.cons_append, List.append_assoc, pValue]
    simp only [show ('[' = '"') = False from by decide, if_false, if_true]
    split
    · rename_i r1 heq
      rw [hx] at heq
      simp only [List.cons_append, List.cons.injEq] at heq
      exact absurd heq.1 hc
    · rw [h1]; simp [h2]
  | .obj [] => simp [printJson, pValue]
  | .obj ((k, v) :: kvs) =>
    simp only [printJson, List.length_cons, List.length_append, length_printStr] at hf
    have hpos := printMembers_pos kvs
    cases f with
    | zero => omega
    | succ f =>
    have h0 := pValue_print v f (printMembers kvs ++ rest) (by omega) (okFollow_members kvs rest)
    have h1 := pMember_print k v f (printMembers kvs ++ rest) (by omega) h0
    have h2 := pMembers_print kvs (f + 1) rest (by omega)
    simp only [printJson, List.cons_append, List.append_assoc, pValue]
    simp only [show ('{' = '"') = False from by decide, show ('{' = '[') = False from by decide, if_false, if_true]
    split
    · rename_i r1 heq
      simp [printStr] at heq
    · rw [h1]; simp [h2]
theorem pItems_print (xs : List Json) (f : Nat) (rest : Str) (hf : (printItems xs).length ≤ f) :
    pItems f (printItems xs ++ rest) = some (xs, rest) := by
  cases f with
  | zero => have := printItems_pos xs; omega
  | succ f =>
  match xs with
  | [] => simp [printItems, pItems]
  | x :: xs =>
    simp only [printItems, List.length_cons, List.length_append] at hf
    have hpos := printItems_pos xs
    have h1 := pValue_print x f (printItems xs ++ rest) (by omega) (okFollow_items xs rest)
    have h2 := pItems_print xs f rest (by omega)
    simp [printItems, pItems, h1, h2]
theorem pMembers_print (kvs : List (Str × Json)) (f : Nat) (rest : Str) (hf : (printMembers kvs).length ≤ f) :
    pMembers f (printMembers kvs ++ rest) = some (kvs, rest) := by
  cases f with
  | zero => have := printMembers_pos kvs; omega
  | succ f =>
  match kvs with
  | [] => simp [printMembers, pMembers]
  | (k, v) :: kvs =>
    simp only [printMembers, List.length_cons, List.length_append, length_printStr] at hf
    have hpos := printMembers_pos kvs
    cases f with
    | zero => omega
    | succ f =>
    have h0 := pValue_print v f (printMembers kvs ++ rest) (by omega) (okFollow_members kvs rest)
    have h1 := pMember_print k v f (printMembers kvs ++ rest) (by omega) h0
    have h2 := pMembers_print kvs (f + 1) rest (by omega)
    simp only [printMembers, List.cons_append, List.append_assoc]
    rw [pMembers]
    simp only [h1, h2, Option.map_some]
end

/-- `json.loads(json.dumps(j, separators=(',', ':'))) == j` -/
theorem parseJson_printJson (j : Json) : parseJson (printJson j) = some j := by
  have := pValue_print j ((printJson j).length + 1) [] (by omega) okFollow_nil
  simp only [List.append_nil] at this
  simp [parseJson, this]

/-! ### more fuel, more text behind -/

theorem lowStep_ext (v : Nat) (p ext : Str) (st : StrStep) (h : lowStep v p = some st) :
    lowStep v (p ++ ext) = some (st.ext ext) := by
  unfold lowStep at h
  split at h
  · rename_i a b c d r
    simp only [List.cons_append, lowStep]
    cases hw : hex4Val a b c d with
    | none => simp [hw] at h
    | some w =>
      simp only [hw] at h ⊢
      split at h
      · rename_i hs
        simp only [hs, and_self, if_true]
        cases h; rfl
      · cases h
  · cases h

theorem uStep_ext (p ext : Str) (st : StrStep) (h : uStep p = some st) :
    uStep (p ++ ext) = some (st.ext ext) := by
  unfold uStep at h
  split at h
  · rename_i a b c d r
    simp only [List.cons_append, uStep]
    cases hv : hex4Val a b c d with
    | none => simp [hv] at h
    | some v =>
      simp only [hv] at h ⊢
      split at h
      · rename_i hs
        simp only [hs, and_self, if_true]
        exact lowStep_ext v r ext st h
      · rename_i hs
        simp only [hs, if_false]
        split at h
        · cases h
        · rename_i hs2
          simp only [hs2, if_false]
          cases h; rfl
  · cases h

theorem strStep_ext (p ext : Str) (st : StrStep) (h : strStep p = some st) :
    strStep (p ++ ext) = some (st.ext ext) := by
  cases p with
  | nil => simp [strStep] at h
  | cons c r =>
    simp only [List.cons_append, strStep] at h ⊢
    split at h
    · rename_i h1; simp only [h1, if_true]; cases h; rfl
    · rename_i h1
      simp only [h1, if_false]
      split at h
      · rename_i h2
        simp only [h2, if_true]
        cases r with
        | nil => simp at h
        | cons e r1 =>
          simp only [List.cons_append] at h ⊢
          split at h
          · rename_i h3; simp only [h3, if_true]; exact uStep_ext r1 ext st h
          · rename_i h3
            simp only [h3, if_false]
            cases hs : simpleEsc e with
            | none => simp [hs] at h
            | some ch => simp [hs] at h ⊢; subst h; rfl
      · rename_i h2
        simp only [h2, if_false]
        split at h
        · cases h
        · rename_i h3; simp only [h3, if_false]; cases h; rfl

/-- more fuel and more text behind do not change what a string body parses to -/
theorem pStr_ext (f : Nat) : ∀ (p ext s r : Str) (f' : Nat), f ≤ f' → pStr f p = some (s, r) →
    pStr f' (p ++ ext) = some (s, r ++ ext) := by
  induction f with
  | zero => intro p ext s r f' _ h; simp [pStr] at h
  | succ f ih =>
    intro p ext s r f' hf h
    cases f' with
    | zero => omega
    | succ f' =>
      simp only [pStr] at h ⊢
      cases hst : strStep p with
      | none => simp [hst] at h
      | some st =>
        rw [strStep_ext p ext st hst]
        cases st with
        | done r0 =>
          simp only [hst] at h
          simp only [StrStep.ext]
          cases h; rfl
        | char c r0 =>
          simp only [hst] at h
          simp only [StrStep.ext]
          cases hrec : pStr f r0 with
          | none => simp [hrec, consTo] at h
          | some pr =>
            obtain ⟨s0, r1⟩ := pr
            simp only [hrec, consTo, Option.some.injEq, Prod.mk.injEq] at h
            rw [ih r0 ext s0 r1 f' (by omega) hrec]
            simp [consTo, h.1, h.2]
theorem spanDigits_ext (s ext ds : Str) (c : Char) (r : Str) (h : spanDigits s = (ds, c :: r)) :
    spanDigits (s ++ ext) = (ds, c :: r ++ ext) := by
  induction s generalizing ds with
  | nil => simp [spanDigits] at h
  | cons x xs ih =>
    simp only [List.cons_append, spanDigits] at h ⊢
    split at h
    · rename_i hx
      simp only [hx, if_true]
      simp only [Prod.mk.injEq] at h
      have := ih (spanDigits xs).1 (by rw [← h.2])
      rw [this]; simp [h.1]
    · rename_i hx
      simp only [hx]
      simp only [Prod.mk.injEq, List.cons.injEq] at h
      simp [h.1, h.2.1, h.2.2]

theorem pNum_ext (p ext : Str) (j : Json) (c : Char) (r : Str) (h : pNum p = some (j, c :: r)) :
    pNum (p ++ ext) = some (j, c :: r ++ ext) := by
  cases p with
  | nil => simp [pNum, spanDigits] at h
  | cons x xs =>
    unfold pNum at h ⊢
    simp only [List.cons_append, List.head?_cons, List.tail_cons] at h ⊢
    by_cases hx : (some x == some '-') = true
    · simp only [hx, if_true] at h ⊢
      cases hsp : spanDigits xs with
      | mk ds rest =>
        simp only [hsp] at h
        split at h
        · cases h
        split at h
        · cases h
        rename_i h1 h2
        cases hd : decToNat? ds with
        | none => simp [hd] at h
        | some n =>
          simp [hd] at h
          have := spanDigits_ext xs ext ds c r (by rw [hsp, h.2])
          simp only [this]
          simp [h1, h2, hd, h.1]
    · simp only [hx, Bool.false_eq_true, if_false] at h ⊢
      cases hsp : spanDigits (x :: xs) with
      | mk ds rest =>
        simp only [hsp] at h
        split at h
        · cases h
        split at h
        · cases h
        rename_i h1 h2
        cases hd : decToNat? ds with
        | none => simp [hd] at h
        | some n =>
          simp [hd] at h
          have := spanDigits_ext (x :: xs) ext ds c r (by rw [hsp, h.2])
          simp only [List.cons_append] at this
          simp only [this]
          simp [h1, h2, hd, h.1]

theorem pNum_isNum (p : Str) (j : Json) (r : Str) (h : pNum p = some (j, r)) : j.isNum = true := by
  unfold pNum at h
  simp only at h
  repeat' split at h
  all_goals first
    | cases h
    | (rw [Option.map_eq_some_iff] at h; obtain ⟨a, _, ha⟩ := h; simp only [Prod.mk.injEq] at ha; rw [← ha.1]; rfl)
theorem pItems_nil (f : Nat) : pItems f [] = none := by cases f <;> simp [pItems]
theorem pMembers_nil (f : Nat) : pMembers f [] = none := by cases f <;> simp [pMembers]

/-- `P f`: results obtained with fuel `f` persist under more fuel and more text behind -/
def ExtOK (f : Nat) : Prop :=
  (∀ (p ext : Str) (j : Json) (r : Str) (f' : Nat), f ≤ f' → pValue f p = some (j, r) → (r ≠ [] ∨ j.isNum = false) →
      pValue f' (p ++ ext) = some (j, r ++ ext)) ∧
  (∀ (p ext : Str) (kv : Str × Json) (r : Str) (f' : Nat), f ≤ f' → pMember f p = some (kv, r) → (r ≠ [] ∨ kv.2.isNum = false) →
      pMember f' (p ++ ext) = some (kv, r ++ ext)) ∧
  (∀ (p ext : Str) (xs : List Json) (r : Str) (f' : Nat), f ≤ f' → pItems f p = some (xs, r) →
      pItems f' (p ++ ext) = some (xs, r ++ ext)) ∧
  (∀ (p ext : Str) (kvs : List (Str × Json)) (r : Str) (f' : Nat), f ≤ f' → pMembers f p = some (kvs, r) →
      pMembers f' (p ++ ext) = some (kvs, r ++ ext))

theorem pValue_ext_step (f : Nat) (ih : ExtOK f) (p ext : Str) (j : Json) (r : Str) (f' : Nat) (hf : f + 1 ≤ f' + 1)
    (h : pValue (f + 1) p = some (j, r)) (hc : r ≠ [] ∨ j.isNum = false) :
    pValue (f' + 1) (p ++ ext) = some (j, r ++ ext) := by
  obtain ⟨ihV, ihM, ihI, ihMs⟩ := ih
  cases p with
  | nil => simp [pValue] at h
  | cons c t =>
    simp only [List.cons_append, pValue] at h ⊢
    split at h
    · -- string
      rename_i h1
      simp only [h1, if_true]
      cases hs : pStr (f + 1) t with
      | none => simp [hs] at h
      | some pr =>
        obtain ⟨s, r0⟩ := pr
        simp only [hs, Option.map_some, Option.some.injEq, Prod.mk.injEq] at h
        rw [pStr_ext (f + 1) t ext s r0 (f' + 1) hf hs]
        simp [h.1, h.2]
    rename_i h1
    simp only [h1, if_false]
    split at h
    · -- array
      rename_i h2
      simp only [h2, if_true]
      split at h
      · rename_i r1
        simp only [List.cons_append]
        cases h; rfl
      · rename_i hne
        cases hv : pValue f t with
        | none => simp [hv] at h
        | some pr =>
          obtain ⟨x, r1⟩ := pr
          simp only [hv] at h
          cases hi : pItems f r1 with
          | none => simp [hi] at h
          | some pi =>
            obtain ⟨xs, r2⟩ := pi
            simp only [hi, Option.map_some, Option.some.injEq, Prod.mk.injEq] at h
            have hr1 : r1 ≠ [] := by rintro rfl; simp [pItems_nil] at hi
            have e1 := ihV t ext x r1 f' (by omega) hv (Or.inl hr1)
            have e2 := ihI r1 ext xs r2 f' (by omega) hi
            -- the text still does not start with `]`
            have hne' : ∀ r1', t ++ ext = ']' :: r1' → False := by
              intro r1' heq
              cases t with
              | nil => cases f <;> simp [pValue] at hv
              | cons c0 t0 =>
                simp only [List.cons_append, List.cons.injEq] at heq
                exact hne t0 (by rw [heq.1])
            split
            · rename_i r1' heq; exact absurd heq (fun e => hne' r1' e)
            · rw [e1]; simp [e2, h.1, h.2]
    rename_i h2
    simp only [h2, if_false]
    split at h
    · -- object
      rename_i h3
      simp only [h3, if_true]
      split at h
      · rename_i r1
        simp only [List.cons_append]
        cases h; rfl
      · rename_i hne
        cases hm : pMember f t with
        | none => simp [hm] at h
        | some pr =>
          obtain ⟨kv, r1⟩ := pr
          simp only [hm] at h
          cases hi : pMembers f r1 with
          | none => simp [hi] at h
          | some pi =>
            obtain ⟨kvs, r2⟩ := pi
            simp only [hi, Option.map_some, Option.some.injEq, Prod.mk.injEq] at h
            have hr1 : r1 ≠ [] := by rintro rfl; simp [pMembers_nil] at hi
            have e1 := ihM t ext kv r1 f' (by omega) hm (Or.inl hr1)
            have e2 := ihMs r1 ext kvs r2 f' (by omega) hi
            have hne' : ∀ r1', t ++ ext = '}' :: r1' → False := by
              intro r1' heq
              cases t with
              | nil => cases f <;> simp [pMember] at hm
              | cons c0 t0 =>
                simp only [List.cons_append, List.cons.injEq] at heq
                exact hne t0 (by rw [heq.1])
            split
            · rename_i r1' heq; exact absurd heq (fun e => hne' r1' e)
            · rw [e1]; simp [e2, h.1, h.2]
    rename_i h3
    simp only [h3, if_false]
    split at h
    · -- null
      rename_i h4
      simp only [h4, if_true]
      split at h
      · rename_i r1; simp only [List.cons_append]; cases h; rfl
      · cases h
    rename_i h4
    simp only [h4, if_false]
    split at h
    · rename_i h5
      simp only [h5, if_true]
      split at h
      · rename_i r1; simp only [List.cons_append]; cases h; rfl
      · cases h
    rename_i h5
    simp only [h5, if_false]
    split at h
    · rename_i h6
      simp only [h6, if_true]
      split at h
      · rename_i r1; simp only [List.cons_append]; cases h; rfl
      · cases h
    rename_i h6
    simp only [h6, if_false]
    -- number
    have hnum := pNum_isNum _ _ _ h
    cases r with
    | nil => rcases hc with hc | hc
             · exact absurd rfl hc
             · rw [hnum] at hc; cases hc
    | cons c1 r1 =>
      have := pNum_ext (c :: t) ext j c1 r1 h
      simpa using this


theorem pMember_ext_step (f : Nat) (ih : ExtOK f) (p ext : Str) (kv : Str × Json) (r : Str) (f' : Nat) (hf : f + 1 ≤ f' + 1)
    (h : pMember (f + 1) p = some (kv, r)) (hc : r ≠ [] ∨ kv.2.isNum = false) :
    pMember (f' + 1) (p ++ ext) = some (kv, r ++ ext) := by
  obtain ⟨ihV, _, _, _⟩ := ih
  simp only [pMember] at h ⊢
  split at h
  · rename_i t
    simp only [List.cons_append]
    split at h
    · rename_i k r1 hs
      have e0 := pStr_ext (f + 1) t ext k (':' :: r1) (f' + 1) hf hs
      simp only [List.cons_append] at e0
      simp only [e0]
      cases hv : pValue f r1 with
      | none => simp [hv] at h
      | some pr =>
        obtain ⟨v, r2⟩ := pr
        simp only [hv, Option.some.injEq, Prod.mk.injEq] at h
        have hc' : r2 ≠ [] ∨ v.isNum = false := by
          rcases hc with hc | hc
          · left; rw [h.2]; exact hc
          · right; rw [← h.1] at hc; exact hc
        rw [ihV r1 ext v r2 f' (by omega) hv hc']
        simp [h.1, h.2]
    · cases h
  · cases h

theorem pItems_ext_step (f : Nat) (ih : ExtOK f) (p ext : Str) (xs : List Json) (r : Str) (f' : Nat) (hf : f + 1 ≤ f' + 1)
    (h : pItems (f + 1) p = some (xs, r)) :
    pItems (f' + 1) (p ++ ext) = some (xs, r ++ ext) := by
  obtain ⟨ihV, _, ihI, _⟩ := ih
  simp only [pItems] at h ⊢
  split at h
  · rename_i t; simp only [List.cons_append]; cases h; rfl
  · rename_i t
    simp only [List.cons_append]
    cases hv : pValue f t with
    | none => simp [hv] at h
    | some pr =>
      obtain ⟨x, r1⟩ := pr
      simp only [hv] at h
      cases hi : pItems f r1 with
      | none => simp [hi] at h
      | some pi =>
        obtain ⟨ys, r2⟩ := pi
        simp only [hi, Option.map_some, Option.some.injEq, Prod.mk.injEq] at h
        have hr1 : r1 ≠ [] := by rintro rfl; simp [pItems_nil] at hi
        rw [ihV t ext x r1 f' (by omega) hv (Or.inl hr1)]
        simp [ihI r1 ext ys r2 f' (by omega) hi, h.1, h.2]
  · cases h

theorem pMembers_ext_step (f : Nat) (ih : ExtOK f) (p ext : Str) (kvs : List (Str × Json)) (r : Str) (f' : Nat)
    (hf : f + 1 ≤ f' + 1) (h : pMembers (f + 1) p = some (kvs, r)) :
    pMembers (f' + 1) (p ++ ext) = some (kvs, r ++ ext) := by
  obtain ⟨_, ihM, _, ihMs⟩ := ih
  simp only [pMembers] at h ⊢
  split at h
  · rename_i t; simp only [List.cons_append]; cases h; rfl
  · rename_i t
    simp only [List.cons_append]
    cases hv : pMember f t with
    | none => simp [hv] at h
    | some pr =>
      obtain ⟨kv, r1⟩ := pr
      simp only [hv] at h
      cases hi : pMembers f r1 with
      | none => simp [hi] at h
      | some pi =>
        obtain ⟨ys, r2⟩ := pi
        simp only [hi, Option.map_some, Option.some.injEq, Prod.mk.injEq] at h
        have hr1 : r1 ≠ [] := by rintro rfl; simp [pMembers_nil] at hi
        rw [ihM t ext kv r1 f' (by omega) hv (Or.inl hr1)]
        simp [ihMs r1 ext ys r2 f' (by omega) hi, h.1, h.2]
  · cases h

theorem extOK (f : Nat) : ExtOK f := by
  induction f with
  | zero =>
    refine ⟨?_, ?_, ?_, ?_⟩ <;> intro p ext x r f' _ h <;> simp [pValue, pMember, pItems, pMembers] at h
  | succ f ih =>
    refine ⟨?_, ?_, ?_, ?_⟩
    · intro p ext j r f' hf h hc
      cases f' with
      | zero => omega
      | succ f' => exact pValue_ext_step f ih p ext j r f' hf h hc
    · intro p ext kv r f' hf h hc
      cases f' with
      | zero => omega
      | succ f' => exact pMember_ext_step f ih p ext kv r f' hf h hc
    · intro p ext xs r f' hf h
      cases f' with
      | zero => omega
      | succ f' => exact pItems_ext_step f ih p ext xs r f' hf h
    · intro p ext kvs r f' hf h
      cases f' with
      | zero => omega
      | succ f' => exact pMembers_ext_step f ih p ext kvs r f' hf h

/-- the value a text starting with `{` or `[` parses to is not a number -/
theorem pValue_container (f : Nat) (c : Char) (t : Str) (j : Json) (r : Str) (hc : c = '{' ∨ c = '[')
    (h : pValue f (c :: t) = some (j, r)) : j.isNum = false := by
  cases f with
  | zero => simp [pValue] at h
  | succ f =>
    rcases hc with rfl | rfl
    · simp only [pValue, show ('{' = '"') = False from by decide, show ('{' = '[') = False from by decide, if_false, if_true] at h
      split at h
      · cases h; rfl
      · cases hm : pMember f t with
        | none => simp [hm] at h
        | some pr =>
          simp only [hm] at h
          cases hi : pMembers f pr.2 with
          | none => simp [hi] at h
          | some pi => simp [hi] at h; rw [← h.1]; rfl
    · simp only [pValue, show ('[' = '"') = False from by decide, if_false, if_true] at h
      split at h
      · cases h; rfl
      · cases hm : pValue f t with
        | none => simp [hm] at h
        | some pr =>
          simp only [hm] at h
          cases hi : pItems f pr.2 with
          | none => simp [hi] at h
          | some pi => simp [hi] at h; rw [← h.1]; rfl

/-- A proper prefix of a text that parses to an object or array does not parse: a cache file cut short is rejected. -/
theorem parseJson_prefix_none (p ext : Str) (c : Char) (t : Str) (j : Json) (hp : p = c :: t) (hc : c = '{' ∨ c = '[')
    (hext : ext ≠ []) (hfull : parseJson (p ++ ext) = some j) : parseJson p = none := by
  cases hpp : parseJson p with
  | none => rfl
  | some j' =>
    exfalso
    unfold parseJson at hpp hfull
    cases hv : pValue (p.length + 1) p with
    | none => simp [hv] at hpp
    | some pr =>
      obtain ⟨j1, r1⟩ := pr
      simp only [hv] at hpp
      cases r1 with
      | cons x y => simp at hpp
      | nil =>
        have hnum : j1.isNum = false := pValue_container _ c t j1 [] hc (by rw [← hp]; exact hv)
        have e := (extOK (p.length + 1)).1 p ext j1 [] ((p ++ ext).length + 1) (by simp) hv (Or.inr hnum)
        simp only [List.nil_append] at e
        rw [e] at hfull
        cases ext with
        | nil => exact hext rfl
        | cons a b => simp at hfull


/-! ### the printed text is ASCII (so `.encode('utf-8')` maps characters to bytes one for one) -/

def IsAscii (s : Str) : Prop := ∀ c ∈ s, c.toNat < 128

theorem isAscii_append {a b : Str} (ha : IsAscii a) (hb : IsAscii b) : IsAscii (a ++ b) := by
  intro c hc; rcases List.mem_append.mp hc with h | h
  · exact ha c h
  · exact hb c h

theorem isAscii_cons {c : Char} {s : Str} (hc : c.toNat < 128) (hs : IsAscii s) : IsAscii (c :: s) := by
  intro x hx; rcases List.mem_cons.mp hx with h | h
  · subst h; exact hc
  · exact hs x h

theorem isAscii_nil : IsAscii [] := by intro c hc; cases hc

theorem hexDigit_ascii : ∀ n, n < 16 → (Str.hexDigit n).toNat < 128 := by decide

theorem uEsc_ascii (v : Nat) : IsAscii (uEsc v) := by
  intro c hc
  simp only [uEsc, List.mem_cons, List.mem_nil_iff, or_false] at hc
  rcases hc with h | h | h | h | h | h <;> subst h
  · decide
  · decide
  all_goals exact hexDigit_ascii _ (Nat.mod_lt _ (by decide))

theorem escapeChar_ascii (c : Char) : IsAscii (escapeChar c) := by
  unfold escapeChar
  repeat' split
  all_goals first
    | (intro x hx; simp at hx; rcases hx with h | h <;> subst h <;> decide)
    | (intro x hx; simp at hx; subst hx; decide)
    | exact uEsc_ascii _
    | exact isAscii_append (uEsc_ascii _) (uEsc_ascii _)
    | (rename_i hp; intro x hx; simp at hx; subst hx; omega)

theorem escapeStr_ascii (s : Str) : IsAscii (escapeStr s) := by
  induction s with
  | nil => exact isAscii_nil
  | cons c cs ih => exact isAscii_append (escapeChar_ascii c) ih

theorem printStr_ascii (s : Str) : IsAscii (printStr s) :=
  isAscii_cons (by decide) (isAscii_append (escapeStr_ascii s) (isAscii_cons (by decide) isAscii_nil))

theorem natToDec_ascii (n : Nat) : IsAscii (natToDec n) := by
  intro c hc
  have := natToDec_isDigit n c hc
  simp only [isDigit, decVal] at this
  split at this
  · rename_i h; omega
  · simp at this

theorem intToDec_ascii (i : Int) : IsAscii (Str.intToDec i) := by
  unfold Str.intToDec
  split
  · exact isAscii_cons (by decide) (natToDec_ascii _)
  · exact natToDec_ascii _

mutual
theorem printJson_ascii (j : Json) : IsAscii (printJson j) := by
  match j with
  | .null => intro c hc; simp [printJson] at hc; rcases hc with h | h | h <;> subst h <;> decide
  | .bool true => intro c hc; simp [printJson] at hc; rcases hc with h | h | h | h <;> subst h <;> decide
  | .bool false => intro c hc; simp [printJson] at hc; rcases hc with h | h | h | h | h <;> subst h <;> decide
  | .num i => exact intToDec_ascii i
  | .str s => exact printStr_ascii s
  | .arr [] => intro c hc; simp [printJson] at hc; rcases hc with h | h <;> subst h <;> decide
  | .arr (x :: xs) =>
    simp only [printJson]
    exact isAscii_cons (by decide) (isAscii_append (printJson_ascii x) (printItems_ascii xs))
  | .obj [] => intro c hc; simp [printJson] at hc; rcases hc with h | h <;> subst h <;> decide
  | .obj ((k, v) :: kvs) =>
    simp only [printJson]
    exact isAscii_cons (by decide) (isAscii_append (printStr_ascii k)
      (isAscii_cons (by decide) (isAscii_append (printJson_ascii v) (printMembers_ascii kvs))))
theorem printItems_ascii (xs : List Json) : IsAscii (printItems xs) := by
  match xs with
  | [] => exact isAscii_cons (by decide) isAscii_nil
  | x :: xs =>
    simp only [printItems]
    exact isAscii_cons (by decide) (isAscii_append (printJson_ascii x) (printItems_ascii xs))
theorem printMembers_ascii (kvs : List (Str × Json)) : IsAscii (printMembers kvs) := by
  match kvs with
  | [] => exact isAscii_cons (by decide) isAscii_nil
  | (k, v) :: kvs =>
    simp only [printMembers]
    exact isAscii_cons (by decide) (isAscii_append (printStr_ascii k)
      (isAscii_cons (by decide) (isAscii_append (printJson_ascii v) (printMembers_ascii kvs))))
end

end Tranp.Lark
