/-
  Concrete witnesses for property C06: a two-module world whose transpiled output depends on an imported module (the
  fix-point counterexample), the same world with own-source-only outputs (non-vacuity of the partial theorem), a
  colliding `output_dirs` configuration, and a table-driven `json.loads` that is sound on the finitely many headers of a witness.
-/
import Tranp.Lemmas.Runner

namespace Tranp.Runner
open Tranp

instance {α : Type} [DecidableEq α] : DecidableEq (Except Err α) := fun a b =>
  match a, b with
  | .ok x, .ok y => if h : x = y then isTrue (by rw [h]) else isFalse (by intro e; injection e with e; exact h e)
  | .error x, .error y => if h : x = y then isTrue (by rw [h]) else isFalse (by intro e; injection e with e; exact h e)
  | .ok _, .error _ => isFalse (by intro e; cases e)
  | .error _, .ok _ => isFalse (by intro e; cases e)

theorem lookup_of_mem_nodup {β : Type} (l : List (Str × β)) (k : Str) (v : β) (hn : (l.map (·.1)).Nodup) (hm : (k, v) ∈ l) :
    l.lookup k = some v := by
  induction l with
  | nil => cases hm
  | cons kv rest ih =>
    obtain ⟨k', v'⟩ := kv
    simp only [List.map_cons, List.nodup_cons] at hn
    simp only [List.mem_cons, Prod.mk.injEq] at hm
    rcases hm with ⟨rfl, rfl⟩ | hm
    · simp [List.lookup]
    · have hne : k ≠ k' := by
        intro e; subst e
        exact hn.1 (List.mem_map.2 ⟨(k, v), hm, rfl⟩)
      have : (k == k') = false := by simpa using hne
      simp [List.lookup, this, ih hn.2 hm]

/-- `json.loads` given by a finite table of (text, value) pairs -/
def tableLoads (tbl : List (Str × Json)) (t : Str) : Except Err Json :=
  match tbl.lookup t with
  | some v => .ok v
  | none => .error .valueError

/-! ### a two-module world: `b` imports `c`; the source of a module is a `Bool` (c: `-> int` / `-> str`) -/

def mB : Str := ['b']
def mC : Str := ['c']

def wHash (s : Bool) : Str := if s then ['1'] else ['0']

/-- everything of the witness environment except `loads` and `out` -/
def wEnv0 (out : (Str → Bool) → Str → Except Err Text) : Env Bool :=
  { hash := wHash, md5 := id, loads := fun _ => .error .valueError, out := out, tModule := ['P'] }

/-- the releases of the witness histories: application version 1 and 2 -/
def wV1 : Vers := ⟨['1'], ['1']⟩
def wV2 : Vers := ⟨['2'], ['1']⟩
def wVers : List Vers := [wV1, wV2]

def wCombosFor (mods : List Str) : List (Vers × Bool × Str) :=
  wVers.flatMap fun v => mods.flatMap fun m => [(v, false, m), (v, true, m)]

def wTableFor (mods : List Str) : List (Str × Json) :=
  (wCombosFor mods).map fun c => (' ' :: (curHeader (wEnv0 fun _ _ => .ok []) c.1 c.2.1 c.2.2).toJson,
    (curHeader (wEnv0 fun _ _ => .ok []) c.1 c.2.1 c.2.2).toJsonVal)

/-- witness environment whose `json.loads` is the table of the headers of `mods` -/
def wEnvFor (mods : List Str) (out : (Str → Bool) → Str → Except Err Text) : Env Bool := { wEnv0 out with loads := tableLoads (wTableFor mods) }

def wTable : List (Str × Json) := wTableFor [mB, mC]

def wEnv (out : (Str → Bool) → Str → Except Err Text) : Env Bool := wEnvFor [mB, mC] out

/-- the output of `b` shows the type it infers from `c` (imports matter) -/
def outDep (src : Str → Bool) (m : Str) : Except Err Text :=
  .ok (if m = mB then (if src mC then ['s'] else ['i']) else (if src m then ['S'] else ['I']))

/-- own-source-only outputs -/
def bodyOwn (_ : Str) (s : Bool) : Except Err Text := .ok (if s then ['S'] else ['I'])
def outOwn (src : Str → Bool) (m : Str) : Except Err Text := bodyOwn m (src m)

def wCfg : Cfg := ⟨[['o']], ['h'], none, ['/']⟩

def wWorld : World Bool := ⟨[mB, mC], fun _ => false, fun _ => none, wCfg, 0, wV1, fun _ => none⟩

/-- run, then change the return type declared in `c` -/
def wOps : List (Op Bool) := [.run false, .edit mC true]

theorem wHashFor_inj (mods : List Str) (out : (Str → Bool) → Str → Except Err Text) : HashInj (wEnvFor mods out) := by
  intro s s' h
  have h' : wHash s = wHash s' := h
  cases s <;> cases s' <;> first | rfl | (exact absurd h' (by decide))

theorem wHash_inj (out : (Str → Bool) → Str → Except Err Text) : HashInj (wEnv out) := wHashFor_inj _ out

theorem wFor_idInj (mods : List Str) (out : (Str → Bool) → Str → Except Err Text) (ms : List Str) (vs : List Vers) :
    IdInj (wEnvFor mods out) ms vs :=
  fun _ _ _ _ _ _ _ _ _ _ h => h

theorem w_idInj (out : (Str → Bool) → Str → Except Err Text) (mods : List Str) (vs : List Vers) : IdInj (wEnv out) mods vs :=
  wFor_idInj _ out mods vs

theorem wFor_loadsSound (mods : List Str) (out : (Str → Bool) → Str → Except Err Text) (hn : ((wTableFor mods).map (·.1)).Nodup) :
    LoadsSound (wEnvFor mods out) mods wVers := by
  intro v hv s m hm
  have hmem : (v, s, m) ∈ wCombosFor mods := by
    unfold wCombosFor
    rw [List.mem_flatMap]
    refine ⟨v, hv, ?_⟩
    rw [List.mem_flatMap]
    exact ⟨m, hm, by cases s <;> simp⟩
  have : (' ' :: (curHeader (wEnvFor mods out) v s m).toJson, (curHeader (wEnvFor mods out) v s m).toJsonVal) ∈ wTableFor mods :=
    List.mem_map.2 ⟨(v, s, m), hmem, rfl⟩
  show tableLoads (wTableFor mods) _ = _
  unfold tableLoads
  rw [lookup_of_mem_nodup (wTableFor mods) _ _ hn this]

theorem wVers_nonEmpty : VersNonEmpty wVers := by
  intro v hv
  simp only [wVers, List.mem_cons, List.not_mem_nil, or_false] at hv
  rcases hv with rfl | rfl <;> decide

theorem wTable_nodup : (wTable.map (·.1)).Nodup := by decide +kernel

theorem w_loadsSound (out : (Str → Bool) → Str → Except Err Text) : LoadsSound (wEnv out) [mB, mC] wVers :=
  wFor_loadsSound [mB, mC] out wTable_nodup

theorem w_noOverlap : NoOverlap wCfg [mB, mC] := by decide +kernel

theorem w_dirsOK : DirsOK wWorld wOps := by
  intro ds h
  simp [wOps] at h

theorem w_versOK : VersOK wVers wWorld wOps := by
  refine ⟨by simp [wVers, wWorld], ?_⟩
  intro v h
  simp [wOps] at h

/-- run, then a release with application version 2 -/
def wOpsVer : List (Op Bool) := [.run false, .setVer wV2]

/-- `b` imports `c`: the body of `b` can depend on both sources, the body of `c` on its own -/
def wDeps (m : Str) : List Str := if m = mB then [mB, mC] else [m]

theorem w_outDeps : OutDeps (wEnv outDep) wDeps := by
  intro src src' m h
  show outDep src m = outDep src' m
  unfold outDep
  by_cases hm : m = mB
  · subst hm
    have := h mC (by decide)
    simp [this]
  · have := h m (by simp [wDeps, hm])
    simp [hm, this]

theorem w_depsSelf (m : Str) : m ∈ wDeps m := by
  unfold wDeps
  split
  · rename_i h; simp [h]
  · simp

/-! ### module lists for `module_meta_factory` -/

def py : Str := ['p', 'y']
def mpShapeUtils : ModPath := ⟨['s', 'h', 'a', 'p', 'e', '_', 'u', 't', 'i', 'l', 's'], py⟩
def mpShape : ModPath := ⟨['s', 'h', 'a', 'p', 'e'], py⟩

/-! ### a colliding configuration: prefix rule `app/:out` + fallback `out`, modules `app.x` and `x` -/

def cCfg : Cfg := ⟨[['a', 'p', 'p', '/', ':', 'o', 'u', 't'], ['o', 'u', 't']], ['c', 'p', 'p', ':', 'h'], none, ['/', 'w']⟩
def cM1 : Str := ['a', 'p', 'p', '.', 'x']
def cM2 : Str := ['x']

/-- two modules, own-source-only outputs, under the colliding configuration -/
def cWorld : World Bool := ⟨[cM1, cM2], fun _ => false, fun _ => none, cCfg, 0, wV1, fun _ => none⟩

theorem cTable_nodup : ((wTableFor [cM1, cM2]).map (·.1)).Nodup := by decide +kernel

/-- the configuration shipped as example/config.yml (`output_dirs: ['./']`, `output_language: cpp:h`) -/
def exampleCfg : Cfg := ⟨[['.', '/']], ['c', 'p', 'p', ':', 'h'], none, ['/', 'w']⟩
def exampleMods : List Str :=
  [['e', 'x', 'a', 'm', 'p', 'l', 'e', '.', 'e', 'x', 'a', 'm', 'p', 'l', 'e'], ['e', 'x', 'a', 'm', 'p', 'l', 'e', '.', 'F', 'W', '.', 'c', 'o', 'r', 'e'],
   ['e', 'x', 'a', 'm', 'p', 'l', 'e', '.', 'c', 'o', 'r', 'e']]

end Tranp.Runner
