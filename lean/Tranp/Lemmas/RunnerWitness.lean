/-
  Concrete witnesses for property C06: a two-module world whose transpiled output depends on an imported module (the
  fix-point counterexample), the same world with own-source-only outputs (non-vacuity of the partial theorem), a
  colliding `output_dirs` configuration, and a table-driven `json.loads` that is sound on the finitely many headers of a witness.
-/
import Tranp.Lemmas.Runner

namespace Tranp.Runner
open Tranp

instance {α : Type} [DecidableEq α] : DecidableEq (Except Err α) := fun a b =>
  match a, b with
  | .ok x, .ok y => if h : x = y then isTrue (by rw [h]) else isFalse (by intro e; injection e with e; exact h e)
  | .error x, .error y => if h : x = y then isTrue (by rw [h]) else isFalse (by intro e; injection e with e; exact h e)
  | .ok _, .error _ => isFalse (by intro e; cases e)
  | .error _, .ok _ => isFalse (by intro e; cases e)

theorem lookup_of_mem_nodup {β : Type} (l : List (Str × β)) (k : Str) (v : β) (hn : (l.map (·.1)).Nodup) (hm : (k, v) ∈ l) :
    l.lookup k = some v := by
  induction l with
  | nil => cases hm
  | cons kv rest ih =>
    obtain ⟨k', v'⟩ := kv
    simp only [List.map_cons, List.nodup_cons] at hn
    simp only [List.mem_cons, Prod.mk.injEq] at hm
    rcases hm with ⟨rfl, rfl⟩ | hm
    · simp [List.lookup]
    · have hne : k ≠ k' := by
        intro e; subst e
        exact hn.1 (List.mem_map.2 ⟨(k, v), hm, rfl⟩)
      have : (k == k') = false := by simpa using hne
      simp [List.lookup, this, ih hn.2 hm]

/-- `json.loads` given by a finite table of (text, value) pairs -/
def tableLoads (tbl : List (Str × Json)) (t : Str) : Except Err Json :=
  match tbl.lookup t with
  | some v => .ok v
  | none => .error .valueError

/-! ### a two-module world: `b` imports `c`; the source of a module is a `Bool` (c: `-> int` / `-> str`) -/

def mB : Str := ['b']
def mC : Str := ['c']

def wHash (s : Bool) : Str := if s then ['1'] else ['0']

/-- everything of the witness environment except `loads` and `out` -/
def wEnv0 (out : (Str → Bool) → Str → Except Err Text) : Env Bool :=
  { hash := wHash, md5 := id, loads := fun _ => .error .valueError, out := out,
    appVersion := ['1'], tVersion := ['1'], tModule := ['P'] }

def wCombosFor (mods : List Str) : List (Bool × Str) := mods.flatMap fun m => [(false, m), (true, m)]

def wTableFor (mods : List Str) : List (Str × Json) :=
  (wCombosFor mods).map fun sm => (' ' :: (curHeader (wEnv0 fun _ _ => .ok []) sm.1 sm.2).toJson, (curHeader (wEnv0 fun _ _ => .ok []) sm.1 sm.2).toJsonVal)

/-- witness environment whose `json.loads` is the table of the headers of `mods` -/
def wEnvFor (mods : List Str) (out : (Str → Bool) → Str → Except Err Text) : Env Bool := { wEnv0 out with loads := tableLoads (wTableFor mods) }

def wTable : List (Str × Json) := wTableFor [mB, mC]

def wEnv (out : (Str → Bool) → Str → Except Err Text) : Env Bool := wEnvFor [mB, mC] out

/-- the output of `b` shows the type it infers from `c` (imports matter) -/
def outDep (src : Str → Bool) (m : Str) : Except Err Text :=
  .ok (if m = mB then (if src mC then ['s'] else ['i']) else (if src m then ['S'] else ['I']))

/-- own-source-only outputs -/
def bodyOwn (_ : Str) (s : Bool) : Except Err Text := .ok (if s then ['S'] else ['I'])
def outOwn (src : Str → Bool) (m : Str) : Except Err Text := bodyOwn m (src m)

def wCfg : Cfg := ⟨[['o']], ['h'], none, ['/']⟩

def wWorld : World Bool := ⟨[mB, mC], fun _ => false, fun _ => none, wCfg, 0⟩

/-- run, then change the return type declared in `c` -/
def wOps : List (Op Bool) := [.run false, .edit mC true]

theorem wHashFor_inj (mods : List Str) (out : (Str → Bool) → Str → Except Err Text) : HashInj (wEnvFor mods out) := by
  intro s s' h
  have h' : wHash s = wHash s' := h
  cases s <;> cases s' <;> first | rfl | (exact absurd h' (by decide))

theorem wHash_inj (out : (Str → Bool) → Str → Except Err Text) : HashInj (wEnv out) := wHashFor_inj _ out

theorem wFor_idInj (mods : List Str) (out : (Str → Bool) → Str → Except Err Text) (ms : List Str) : IdInj (wEnvFor mods out) ms :=
  fun _ _ _ _ _ _ h => h

theorem w_idInj (out : (Str → Bool) → Str → Except Err Text) (mods : List Str) : IdInj (wEnv out) mods := wFor_idInj _ out mods

theorem wFor_loadsSound (mods : List Str) (out : (Str → Bool) → Str → Except Err Text) (hn : ((wTableFor mods).map (·.1)).Nodup) :
    LoadsSound (wEnvFor mods out) mods := by
  intro s m hm
  have hmem : (s, m) ∈ wCombosFor mods := by
    unfold wCombosFor
    rw [List.mem_flatMap]
    exact ⟨m, hm, by cases s <;> simp⟩
  have : (' ' :: (curHeader (wEnvFor mods out) s m).toJson, (curHeader (wEnvFor mods out) s m).toJsonVal) ∈ wTableFor mods :=
    List.mem_map.2 ⟨(s, m), hmem, rfl⟩
  show tableLoads (wTableFor mods) _ = _
  unfold tableLoads
  rw [lookup_of_mem_nodup (wTableFor mods) _ _ hn this]

theorem wTable_nodup : (wTable.map (·.1)).Nodup := by decide +kernel

theorem w_loadsSound (out : (Str → Bool) → Str → Except Err Text) : LoadsSound (wEnv out) [mB, mC] :=
  wFor_loadsSound [mB, mC] out wTable_nodup

theorem w_noOverlap : NoOverlap wCfg [mB, mC] := by decide +kernel

theorem w_dirsOK : DirsOK wWorld wOps := by
  intro ds h
  simp [wOps] at h

/-! ### a colliding configuration: prefix rule `app/:out` + fallback `out`, modules `app.x` and `x` -/

def cCfg : Cfg := ⟨[['a', 'p', 'p', '/', ':', 'o', 'u', 't'], ['o', 'u', 't']], ['c', 'p', 'p', ':', 'h'], none, ['/', 'w']⟩
def cM1 : Str := ['a', 'p', 'p', '.', 'x']
def cM2 : Str := ['x']

/-- two modules, own-source-only outputs, under the colliding configuration -/
def cWorld : World Bool := ⟨[cM1, cM2], fun _ => false, fun _ => none, cCfg, 0⟩

theorem cTable_nodup : ((wTableFor [cM1, cM2]).map (·.1)).Nodup := by decide +kernel

/-- the configuration shipped as example/config.yml (`output_dirs: ['./']`, `output_language: cpp:h`) -/
def exampleCfg : Cfg := ⟨[['.', '/']], ['c', 'p', 'p', ':', 'h'], none, ['/', 'w']⟩
def exampleMods : List Str :=
  [['e', 'x', 'a', 'm', 'p', 'l', 'e', '.', 'e', 'x', 'a', 'm', 'p', 'l', 'e'], ['e', 'x', 'a', 'm', 'p', 'l', 'e', '.', 'F', 'W', '.', 'c', 'o', 'r', 'e'],
   ['e', 'x', 'a', 'm', 'p', 'l', 'e', '.', 'c', 'o', 'r', 'e']]

end Tranp.Runner
