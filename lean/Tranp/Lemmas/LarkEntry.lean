/-
  Helper lemmas for property C15 (cache encoding of lark trees).
-/
import Tranp.Model.LarkEntry

namespace Tranp.Lark
open Tranp

theorem jsonImage_posVal (p : Pos) : ofJson (toJson (posVal p)) = posVal p := by
  cases p <;> simp [posVal, toJson, ofJson]

theorem asPos_posVal (p : Pos) : asPos (posVal p) = .ok p := by
  cases p <;> simp [posVal, asPos]

/-- the JSON image of the dumped span tuple is the list of the same four values -/
theorem jsonImage_smTuple (sm : SM) :
    ofJson (toJson (smTuple sm)) = .list [posVal sm.bl, posVal sm.bc, posVal sm.el, posVal sm.ec] := by
  simp [smTuple, toJson, toJsonList, ofJson, ofJsonList, jsonImage_posVal]

/-- reading the four positions back from a dict that holds the JSON image of `smTuple sm` under `source_map` -/
theorem loadSM_of_get (kvs : List (Str × PyVal)) (sm : SM)
    (h : dictGet? kvs kSourceMap = some (.list [posVal sm.bl, posVal sm.bc, posVal sm.el, posVal sm.ec])) :
    loadSM kvs = .ok sm := by
  simp [loadSM, h, subscript, asPos_posVal, bind, Except.bind, pure, Except.pure]

/-- the span a restored tree reports is the stored one -/
theorem sourceMap_restored_tree (n : Str) (cs : List LarkEntry) (sm : SM) :
    sourceMap (.tree n cs (some (restoredMeta sm))) = .ok sm := by
  simp [sourceMap, restoredMeta, Attr.get, bind, Except.bind, pure, Except.pure]

theorem truthy_zero : truthy (some 0) = false := by simp [truthy]

/-- the span a restored token reports is the stored one, provided the stored one came from a token -/
theorem sourceMap_restored_token (t v : Str) (p : TokPos) (sm : SM) (h : sourceMap (.token t v p) = .ok sm) :
    sourceMap (.token t v ⟨sm.bl, sm.bc, sm.el, sm.ec⟩) = .ok sm := by
  simp only [sourceMap] at h ⊢
  split at h
  · rename_i hc
    simp only [pure, Except.pure, Except.ok.injEq] at h
    subst h
    simp only [hc, if_true]; rfl
  · simp only [pure, Except.pure, Except.ok.injEq] at h
    subst h
    simp [SM.zero, truthy_zero, pure, Except.pure]

/-- tokens never fail to report a span (lark tokens always carry the four attributes) -/
theorem sourceMap_token_ok (t v : Str) (p : TokPos) : ∃ sm, sourceMap (.token t v p) = .ok sm := by
  simp only [sourceMap]
  split <;> exact ⟨_, rfl⟩


theorem dumps_tree_ok {n : Str} {cs : List LarkEntry} {m : Option Meta} {d : PyVal}
    (h : dumps (.tree n cs m) = .ok d) :
    ∃ sm ds, sourceMap (.tree n cs m) = .ok sm ∧ dumpsList cs = .ok ds ∧
      d = .dict [(kName, .str n), (kChildren, .list ds), (kSourceMap, smTuple sm)] := by
  simp only [dumps, bind, Except.bind, pure, Except.pure] at h
  split at h
  · cases h
  · rename_i sm hsm
    split at h
    · cases h
    · rename_i ds hds
      simp only [Except.ok.injEq] at h
      exact ⟨sm, ds, hsm, hds, h.symm⟩

theorem dumps_token_ok {t v : Str} {p : TokPos} {d : PyVal}
    (h : dumps (.token t v p) = .ok d) :
    ∃ sm, sourceMap (.token t v p) = .ok sm ∧
      d = .dict [(kName, .str t), (kValue, .str v), (kSourceMap, smTuple sm)] := by
  simp only [dumps, bind, Except.bind, pure, Except.pure] at h
  split at h
  · cases h
  · rename_i sm hsm
    simp only [Except.ok.injEq] at h
    exact ⟨sm, hsm, h.symm⟩

theorem dumpsList_cons_ok {c : LarkEntry} {cs : List LarkEntry} {ds : List PyVal}
    (h : dumpsList (c :: cs) = .ok ds) :
    ∃ d ds', dumps c = .ok d ∧ dumpsList cs = .ok ds' ∧ ds = d :: ds' := by
  simp only [dumpsList, bind, Except.bind, pure, Except.pure] at h
  split at h
  · cases h
  · rename_i d hd
    split at h
    · cases h
    · rename_i ds' hds
      simp only [Except.ok.injEq] at h
      exact ⟨d, ds', hd, hds, h.symm⟩

mutual
/-- the round trip through the stored form, entry by entry -/
theorem view_rt_aux (t : LarkEntry) (d : PyVal) (h : dumps t = .ok d) :
    ∃ t', loads (ofJson (toJson d)) = .ok t' ∧ view t' = view t := by
  match t with
  | .tree n cs m =>
    obtain ⟨sm, ds, hsm, hds, hd⟩ := dumps_tree_ok h
    obtain ⟨cs', hl, hv⟩ := view_rt_list cs ds hds
    subst hd
    refine ⟨.tree n cs' (some (restoredMeta sm)), ?_, ?_⟩
    · have hsmget : dictGet? [(kName, PyVal.str n), (kChildren, .list (ofJsonList (toJsonList ds))),
          (kSourceMap, .list [posVal sm.bl, posVal sm.bc, posVal sm.el, posVal sm.ec])] kSourceMap
          = some (.list [posVal sm.bl, posVal sm.bc, posVal sm.el, posVal sm.ec]) := by
        simp [dictGet?, kName, kChildren, kSourceMap]
      have hjs := jsonImage_smTuple sm
      simp only [toJson, toJsonKvs, ofJson, ofJsonKvs, toJsonList, ofJsonList] at hjs ⊢
      rw [hjs]
      simp only [loads, loadsChildrenOf, loadsIter]
      have h1 : (kName = kChildren) = False := by simp [kName, kChildren]
      simp only [h1, if_false, if_true, hl, loadSM_of_get _ sm hsmget]
      simp [dictGet?, asStr, bind, Except.bind, pure, Except.pure]
    · simp only [view, hv, sourceMap_restored_tree, hsm]
  | .token ty v p =>
    obtain ⟨sm, hsm, hd⟩ := dumps_token_ok h
    subst hd
    refine ⟨.token ty v ⟨sm.bl, sm.bc, sm.el, sm.ec⟩, ?_, ?_⟩
    · have hsmget : dictGet? [(kName, PyVal.str ty), (kValue, .str v),
          (kSourceMap, .list [posVal sm.bl, posVal sm.bc, posVal sm.el, posVal sm.ec])] kSourceMap
          = some (.list [posVal sm.bl, posVal sm.bc, posVal sm.el, posVal sm.ec]) := by
        simp [dictGet?, kName, kValue, kSourceMap]
      have hjs := jsonImage_smTuple sm
      simp only [toJson, toJsonKvs, ofJson, ofJsonKvs, toJsonList, ofJsonList] at hjs ⊢
      rw [hjs]
      simp only [loads, loadsChildrenOf]
      have h1 : (kName = kChildren) = False := by simp [kName, kChildren]
      have h2 : (kValue = kChildren) = False := by simp [kValue, kChildren]
      have h3 : (kSourceMap = kChildren) = False := by simp [kSourceMap, kChildren]
      simp only [h1, h2, h3, if_false, loadSM_of_get _ sm hsmget]
      simp [dictGet?, asStr, bind, Except.bind, pure, Except.pure, kName, kValue]
    · simp only [view, sourceMap_restored_token ty v p sm hsm, hsm]
  | .empty =>
    simp only [dumps, pure, Except.pure, Except.ok.injEq] at h
    subst h
    exact ⟨.empty, by simp [toJson, ofJson, loads, pure, Except.pure], rfl⟩
theorem view_rt_list (cs : List LarkEntry) (ds : List PyVal) (h : dumpsList cs = .ok ds) :
    ∃ cs', loadsList (ofJsonList (toJsonList ds)) = .ok cs' ∧ viewList cs' = viewList cs := by
  match cs with
  | [] =>
    simp only [dumpsList, pure, Except.pure, Except.ok.injEq] at h
    subst h
    exact ⟨[], by simp [toJsonList, ofJsonList, loadsList, pure, Except.pure], rfl⟩
  | c :: rest =>
    obtain ⟨d, ds', hd, hds, he⟩ := dumpsList_cons_ok h
    obtain ⟨c', hc, hvc⟩ := view_rt_aux c d hd
    obtain ⟨rest', hr, hvr⟩ := view_rt_list rest ds' hds
    subst he
    exact ⟨c' :: rest', by simp [toJsonList, ofJsonList, loadsList, hc, hr, bind, Except.bind, pure, Except.pure],
      by simp [viewList, hvc, hvr]⟩
end


theorem sourceMap_tree_error {n : Str} {cs : List LarkEntry} {m : Option Meta} {e : Err}
    (h : sourceMap (.tree n cs m) = .error e) : e = .attributeError := by
  cases m with
  | none => simp [sourceMap, pure, Except.pure] at h
  | some m =>
    simp only [sourceMap] at h
    split at h
    · cases h1 : m.line <;> cases h2 : m.column <;> cases h3 : m.endLine <;> cases h4 : m.endColumn <;>
        simp_all [Attr.get, bind, Except.bind, pure, Except.pure]
    · simp [pure, Except.pure] at h

theorem sourceMap_tree_complete {n : Str} {cs : List LarkEntry} {m : Meta} (h : m.complete = true) :
    ∃ sm, sourceMap (.tree n cs (some m)) = .ok sm := by
  simp only [sourceMap]
  split
  · rename_i he
    cases h1 : m.line <;> cases h2 : m.column <;> cases h3 : m.endLine <;> cases h4 : m.endColumn <;>
      simp_all [Meta.complete, Attr.get, bind, Except.bind, pure, Except.pure]
  · exact ⟨_, rfl⟩

mutual
theorem dumps_ok_iff_aux (t : LarkEntry) : (∃ d, dumps t = .ok d) ↔ viewOk (view t) = true := by
  match t with
  | .tree n cs m =>
    have ih := dumpsList_ok_iff cs
    simp only [dumps, view, viewOk, bind, Except.bind, pure, Except.pure]
    cases hsm : sourceMap (.tree n cs m) with
    | error e => simp
    | ok sm =>
      simp only [Bool.true_and]
      rw [← ih]
      cases hds : dumpsList cs with
      | error e => simp
      | ok ds => simp
  | .token ty v p =>
    obtain ⟨sm, hsm⟩ := sourceMap_token_ok ty v p
    simp [dumps, view, viewOk, viewOkList, hsm, bind, Except.bind, pure, Except.pure]
  | .empty => simp [dumps, view, viewOk, viewOkList, sourceMap, pure, Except.pure]
theorem dumpsList_ok_iff (cs : List LarkEntry) : (∃ ds, dumpsList cs = .ok ds) ↔ viewOkList (viewList cs) = true := by
  match cs with
  | [] => simp [dumpsList, viewList, viewOkList, pure, Except.pure]
  | c :: rest =>
    have ih1 := dumps_ok_iff_aux c
    have ih2 := dumpsList_ok_iff rest
    simp only [dumpsList, viewList, viewOkList, bind, Except.bind, pure, Except.pure, Bool.and_eq_true]
    rw [← ih1, ← ih2]
    cases hd : dumps c with
    | error e => simp
    | ok d =>
      cases hds : dumpsList rest with
      | error e => simp
      | ok ds => simp
end

mutual
theorem dumps_error_aux (t : LarkEntry) (e : Err) (h : dumps t = .error e) : e = .attributeError := by
  match t with
  | .tree n cs m =>
    simp only [dumps, bind, Except.bind, pure, Except.pure] at h
    split at h
    · rename_i e' hsm
      cases h
      exact sourceMap_tree_error hsm
    · split at h
      · rename_i e' hds
        cases h
        exact dumpsList_error cs _ hds
      · cases h
  | .token ty v p =>
    obtain ⟨sm, hsm⟩ := sourceMap_token_ok ty v p
    simp [dumps, hsm, bind, Except.bind, pure, Except.pure] at h
  | .empty => simp [dumps, pure, Except.pure] at h
theorem dumpsList_error (cs : List LarkEntry) (e : Err) (h : dumpsList cs = .error e) : e = .attributeError := by
  match cs with
  | [] => simp [dumpsList, pure, Except.pure] at h
  | c :: rest =>
    simp only [dumpsList, bind, Except.bind, pure, Except.pure] at h
    split at h
    · rename_i e' hd
      cases h
      exact dumps_error_aux c _ hd
    · split at h
      · rename_i e' hds
        cases h
        exact dumpsList_error rest _ hds
      · cases h
end

mutual
theorem wellFormed_viewOk (t : LarkEntry) (h : wellFormed t = true) : viewOk (view t) = true := by
  match t with
  | .tree n cs m =>
    simp only [wellFormed, Bool.and_eq_true] at h
    have ih := wellFormedList_viewOk cs h.2
    simp only [view, viewOk, ih, Bool.and_true]
    cases m with
    | none => simp [sourceMap, pure, Except.pure]
    | some m =>
      obtain ⟨sm, hsm⟩ := sourceMap_tree_complete (n := n) (cs := cs) h.1
      simp [hsm]
  | .token ty v p =>
    obtain ⟨sm, hsm⟩ := sourceMap_token_ok ty v p
    simp [view, viewOk, viewOkList, hsm]
  | .empty => simp [view, viewOk, viewOkList, sourceMap, pure, Except.pure]
theorem wellFormedList_viewOk (cs : List LarkEntry) (h : wellFormedList cs = true) : viewOkList (viewList cs) = true := by
  match cs with
  | [] => simp [viewList, viewOkList]
  | c :: rest =>
    simp only [wellFormedList, Bool.and_eq_true] at h
    simp [viewList, viewOkList, wellFormed_viewOk c h.1, wellFormedList_viewOk rest h.2]
end


theorem sourceMap_tree_ok_complete {n : Str} {cs : List LarkEntry} {m : Meta} {sm : SM}
    (h : sourceMap (.tree n cs (some m)) = .ok sm) : m.complete = true := by
  simp only [sourceMap] at h
  split at h
  · rename_i he
    cases h1 : m.line <;> cases h2 : m.column <;> cases h3 : m.endLine <;> cases h4 : m.endColumn <;>
      simp_all [Meta.complete, Attr.get, bind, Except.bind, pure, Except.pure]
  · rename_i he
    simp at he
    simp [Meta.complete, he]

mutual
theorem viewOk_wellFormed (t : LarkEntry) (h : viewOk (view t) = true) : wellFormed t = true := by
  match t with
  | .tree n cs m =>
    simp only [view, viewOk, Bool.and_eq_true] at h
    have ih := viewOkList_wellFormed cs h.2
    simp only [wellFormed, ih, Bool.and_true]
    cases m with
    | none => rfl
    | some m =>
      cases hsm : sourceMap (.tree n cs (some m)) with
      | error e => simp [hsm] at h
      | ok sm => exact sourceMap_tree_ok_complete hsm
  | .token ty v p => rfl
  | .empty => rfl
theorem viewOkList_wellFormed (cs : List LarkEntry) (h : viewOkList (viewList cs) = true) : wellFormedList cs = true := by
  match cs with
  | [] => rfl
  | c :: rest =>
    simp only [viewList, viewOkList, Bool.and_eq_true] at h
    simp [wellFormedList, viewOk_wellFormed c h.1, viewOkList_wellFormed rest h.2]
end

/-! ### `loads` cannot tell a value from its JSON image (tuples vs lists) -/

theorem asPos_image (v : PyVal) : asPos (ofJson (toJson v)) = asPos v := by
  cases v <;> simp [toJson, ofJson, asPos]

theorem asStr_image (v : PyVal) : asStr (ofJson (toJson v)) = asStr v := by
  cases v <;> simp [toJson, ofJson, asStr]

theorem getElem?_imageList (xs : List PyVal) (i : Nat) :
    (ofJsonList (toJsonList xs))[i]? = (xs[i]?).map (fun x => ofJson (toJson x)) := by
  induction xs generalizing i with
  | nil => simp [toJsonList, ofJsonList]
  | cons x xs ih =>
    cases i with
    | zero => simp [toJsonList, ofJsonList]
    | succ j => simp [toJsonList, ofJsonList, ih]

theorem subscript_asPos_image (v : PyVal) (i : Nat) :
    (subscript (ofJson (toJson v)) i).bind asPos = (subscript v i).bind asPos := by
  cases v with
  | list xs =>
    simp only [toJson, ofJson, subscript, getElem?_imageList]
    cases h : xs[i]? <;> simp [Except.bind, asPos_image]
  | tuple xs =>
    simp only [toJson, ofJson, subscript, getElem?_imageList]
    cases h : xs[i]? <;> simp [Except.bind, asPos_image]
  | _ => simp [toJson, ofJson, subscript]

theorem dictGet?_image (kvs : List (Str × PyVal)) (k : Str) :
    dictGet? (ofJsonKvs (toJsonKvs kvs)) k = (dictGet? kvs k).map (fun x => ofJson (toJson x)) := by
  induction kvs with
  | nil => simp [toJsonKvs, ofJsonKvs, dictGet?]
  | cons kv rest ih =>
    obtain ⟨k', v⟩ := kv
    simp only [toJsonKvs, ofJsonKvs, dictGet?]
    split <;> simp [ih]

theorem length_imageKvs (kvs : List (Str × PyVal)) : (ofJsonKvs (toJsonKvs kvs)).length = kvs.length := by
  induction kvs with
  | nil => simp [toJsonKvs, ofJsonKvs]
  | cons kv rest ih => obtain ⟨k, v⟩ := kv; simp [toJsonKvs, ofJsonKvs, ih]

theorem loadSM_image (kvs : List (Str × PyVal)) : loadSM (ofJsonKvs (toJsonKvs kvs)) = loadSM kvs := by
  simp only [loadSM, dictGet?_image]
  cases h : dictGet? kvs kSourceMap with
  | none => simp
  | some v => simp [subscript_asPos_image]

mutual
theorem loads_image (v : PyVal) : loads (ofJson (toJson v)) = loads v := by
  match v with
  | .dict kvs =>
    simp only [toJson, ofJson, loads, loadsChildrenOf_image kvs, loadSM_image, dictGet?_image]
    cases loadsChildrenOf kvs with
    | some r =>
      simp only
      cases dictGet? kvs kName with
      | none => simp
      | some n => simp [asStr_image]
    | none =>
      simp only
      cases dictGet? kvs kValue with
      | none => simp
      | some x =>
        simp only [Option.map_some, asStr_image]
        cases dictGet? kvs kName with
        | none => simp
        | some n => simp [asStr_image]
  | .none => simp [toJson, ofJson]
  | .bool b => simp [toJson, ofJson]
  | .int i => simp [toJson, ofJson]
  | .str s => simp [toJson, ofJson]
  | .list xs => simp [toJson, ofJson, loads]
  | .tuple xs => simp [toJson, ofJson, loads]
theorem loadsIter_image (v : PyVal) : loadsIter (ofJson (toJson v)) = loadsIter v := by
  match v with
  | .list xs => simp only [toJson, ofJson, loadsIter, loadsList_image xs]
  | .tuple xs => simp only [toJson, ofJson, loadsIter, loadsList_image xs]
  | .dict kvs => simp [toJson, ofJson, loadsIter, length_imageKvs]
  | .none => simp [toJson, ofJson]
  | .bool b => simp [toJson, ofJson]
  | .int i => simp [toJson, ofJson]
  | .str s => simp [toJson, ofJson]
theorem loadsList_image (xs : List PyVal) : loadsList (ofJsonList (toJsonList xs)) = loadsList xs := by
  match xs with
  | [] => simp [toJsonList, ofJsonList]
  | x :: rest => simp only [toJsonList, ofJsonList, loadsList, loads_image x, loadsList_image rest]
theorem loadsChildrenOf_image (kvs : List (Str × PyVal)) :
    loadsChildrenOf (ofJsonKvs (toJsonKvs kvs)) = loadsChildrenOf kvs := by
  match kvs with
  | [] => simp [toJsonKvs, ofJsonKvs]
  | (k, v) :: rest =>
    simp only [toJsonKvs, ofJsonKvs, loadsChildrenOf, loadsIter_image v, loadsChildrenOf_image rest]
end

end Tranp.Lark
