/-
  Helper lemmas for property C10 (tree addressing).
-/
import Tranp.Model.AstPath

namespace Tranp.AstPath
open Tranp

theorem pluckRel_append (p q : Path) (e : Entry) :
    pluckRel (p ++ q) e = (pluckRel p e).bind (pluckRel q) := by
  induction p generalizing e with
  | nil => simp [pluckRel]
  | cons el rest ih =>
    simp only [List.cons_append, pluckRel]
    cases h : stepInto e el <;> simp [ih]

theorem lastWithTag_none (t : Str) (cs : List Entry) (h : ∀ a ∈ cs, ¬ a.name = t) :
    lastWithTag t cs = none := by
  induction cs with
  | nil => rfl
  | cons x xs ih =>
    have hx : ¬ x.name = t := h x (by simp)
    simp [lastWithTag, ih (fun a ha => h a (by simp [ha])), hx]

theorem lastWithTag_unique (t : Str) (cs : List Entry) (i : Nat) (c : Entry)
    (hc : cs[i]? = some c) (hn : c.name = t) (hu : countTag t cs = 1) :
    lastWithTag t cs = some c := by
  induction cs generalizing i with
  | nil => simp at hc
  | cons d rest ih =>
    unfold countTag at hu ih
    simp only [List.filter_cons] at hu
    cases i with
    | zero =>
      simp at hc; subst hc
      simp [hn] at hu
      simp [lastWithTag, lastWithTag_none t rest hu, hn]
    | succ j =>
      simp at hc
      split at hu
      · simp at hu
        exact absurd hn (hu c (List.mem_of_getElem? hc))
      · have := ih j hc hu
        simp [lastWithTag, this]

theorem step_elemFor (t : Str) (cs : List Entry) (i : Nat) (c : Entry) (hc : cs[i]? = some c) :
    stepInto (.tree t cs) (elemFor cs i c) = some c := by
  unfold elemFor
  split
  · rename_i h
    simp only [stepInto]
    exact lastWithTag_unique c.name cs i c hc rfl (by simpa using h)
  · simp [stepInto, hc]

mutual
theorem pathfy_sound (e : Entry) (p : Path) :
    ∀ q x, (q, x) ∈ pathfy e p → ∃ r, q = p ++ r ∧ pluckRel r e = some x := by
  intro q x h
  match e with
  | .tree t cs =>
    simp only [pathfy, List.mem_cons] at h
    rcases h with h | h
    · exact ⟨[], by simp_all [pluckRel]⟩
    · obtain ⟨j, c, r, hj, _, hq, hr⟩ := pathfyList_sound cs cs 0 p q x h
      refine ⟨elemFor cs j c :: r, by simp [hq], ?_⟩
      have hj' : cs[j]? = some c := by simpa using hj
      simp [pluckRel, step_elemFor t cs j c hj', hr]
  | .token t v => simp [pathfy] at h; exact ⟨[], by simp [h, pluckRel]⟩
  | .empty => simp [pathfy] at h; exact ⟨[], by simp [h, pluckRel]⟩
theorem pathfyList_sound (all cs : List Entry) (i : Nat) (p : Path) :
    ∀ q x, (q, x) ∈ pathfyList all cs i p →
      ∃ j c r, cs[j - i]? = some c ∧ i ≤ j ∧ q = p ++ elemFor all j c :: r ∧ pluckRel r c = some x := by
  intro q x h
  match cs with
  | [] => simp [pathfyList] at h
  | c :: rest =>
    simp only [pathfyList, List.mem_append] at h
    rcases h with h | h
    · obtain ⟨r, hq, hr⟩ := pathfy_sound c _ q x h
      exact ⟨i, c, r, by simp, Nat.le_refl _, by simp [hq], hr⟩
    · obtain ⟨j, c', r, hj, hij, hq, hr⟩ := pathfyList_sound all rest (i+1) p q x h
      refine ⟨j, c', r, ?_, by omega, hq, hr⟩
      have : j - i = (j - (i+1)) + 1 := by omega
      rw [this]; simpa using hj
end

end Tranp.AstPath
