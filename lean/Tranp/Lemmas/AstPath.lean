/-
  Helper lemmas for property C10 (tree addressing). The lemmas are split by layer:

    Lemmas/AstPath/Abstract.lean    pluck ∘ pathfy on element lists, distinctness and number of paths
    Lemmas/AstPath/StrCodec.lean    str(int)/int(str), split/join
    Lemmas/AstPath/Codec.lean       __break_tag / DSN.elements invert the path encoder (well-formed tags)
    Lemmas/AstPath/Bijection.lean   string enumeration = encoded abstract enumeration, distinct keys, pluck on strings
    Lemmas/AstPath/Cache.lean       full_pathfy dict, EntryCache entries and ids
    Lemmas/AstPath/Resolve.lean     NodeResolver instance-cache invariant
    Lemmas/AstPath/Children.lean    which enumerated paths have a given parent path (abstract layer)
    Lemmas/AstPath/CacheChildren.lean  the child map of EntryCache after a parents-first insertion sequence
    Lemmas/AstPath/ChildrenPaths.lean  Nodes.children on the cache of full_pathfy
    Lemmas/AstPath/Parent.lean      Nodes.parent / Nodes.siblings on the cache of full_pathfy
    Lemmas/AstPath/Ancestor.lean    Nodes.ancestor on the cache of full_pathfy (index-group stripping, tag search)
    Lemmas/AstPath/GroupBy.lean     EntryCache.group_by for any depth = the subtree enumeration cut at that depth
    Lemmas/AstPath/PathAlgebra.lean the EntryPath algebra on encoded paths = list operations on elements
    Lemmas/AstPath/Relativefy.lean  str.split(sep) / DSN.relativefy when sep does not recur; RootNameFree ⇒ RelativefySafe; valid, escaped
    Lemmas/AstPath/Memo.lean        the query memo of Nodes: generated keys determine the query, memo transparency
    Lemmas/AstPath/Expand.lean      Nodes.values; Nodes.expand under PrefixSafe / RelativefySafe
-/
import Tranp.Lemmas.AstPath.Abstract
import Tranp.Lemmas.AstPath.StrCodec
import Tranp.Lemmas.AstPath.Codec
import Tranp.Lemmas.AstPath.Bijection
import Tranp.Lemmas.AstPath.Cache
import Tranp.Lemmas.AstPath.Resolve
import Tranp.Lemmas.AstPath.Children
import Tranp.Lemmas.AstPath.CacheChildren
import Tranp.Lemmas.AstPath.ChildrenPaths
import Tranp.Lemmas.AstPath.Parent
import Tranp.Lemmas.AstPath.Ancestor
import Tranp.Lemmas.AstPath.GroupBy
import Tranp.Lemmas.AstPath.Expand
import Tranp.Lemmas.AstPath.Memo
import Tranp.Lemmas.AstPath.PathAlgebra
import Tranp.Lemmas.AstPath.Relativefy
import Tranp.Lemmas.AstPath.Depth
import Tranp.Lemmas.AstPath.Find
import Tranp.Lemmas.AstPath.Dsn
import Tranp.Lemmas.AstPath.Load
import Tranp.Lemmas.AstPath.Lookup
