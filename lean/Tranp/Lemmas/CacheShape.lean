/-
  Lemmas tying the generated shape tables (Generated/LarkCache.lean) to the hand-written models of C15/C16.
-/
import Tranp.Model.CacheShape
import Tranp.Lemmas.LarkEntry

namespace Tranp.Shape
open Tranp Tranp.Lark Tranp.Quote Tranp.Generated

theorem sourceMap_generated (e : LarkEntry) :
    sourceMapBy LarkCache.viewTreeFields LarkCache.viewTokenFields LarkCache.viewTokenTruthy
      LarkCache.viewTreeFold LarkCache.viewTokenFold e = sourceMap e := by
  cases e with
  | tree n cs m =>
    cases m with
    | none => rfl
    | some m =>
      simp only [sourceMapBy, sourceMap]
      split
      · cases h1 : m.line <;> cases h2 : m.column <;> cases h3 : m.endLine <;> cases h4 : m.endColumn <;>
          simp [LarkCache.viewTreeFields, LarkCache.viewTreeFold, List.mapM_cons, List.mapM_nil, metaAttr, sLine, sColumn, sEndLine, sEndColumn,
            h1, h2, h3, h4, Attr.get, foldSpan, bind, Except.bind, pure, Except.pure]
      · rfl
  | token ty v p =>
    simp only [sourceMapBy, sourceMap]
    simp only [LarkCache.viewTokenTruthy, LarkCache.viewTokenFields, LarkCache.viewTokenFold, allTruthy, tokAttr, sLine, sColumn, sEndLine, sEndColumn,
      List.mapM_cons, List.mapM_nil, foldSpan, bind, Except.bind, pure, Except.pure]
    cases h1 : truthy p.line <;> cases h2 : truthy p.column <;> cases h3 : truthy p.endLine <;> cases h4 : truthy p.endColumn <;> simp [h1, h2, h3, h4]
  | empty => rfl

theorem smTuple_generated (sm : SM) : smTupleBy LarkCache.dumpTupleOrder sm = .ok (smTuple sm) := by
  simp [smTupleBy, LarkCache.dumpTupleOrder, spanField, smTuple, bind, Except.bind, pure, Except.pure]

theorem treeRecord_generated (n : Str) (ds : List PyVal) (smt : PyVal) :
    recordBy LarkCache.dumpTreeRecord n [] ds smt = .ok (.dict [(kName, .str n), (kChildren, .list ds), (kSourceMap, smt)]) := by
  simp [recordBy, LarkCache.dumpTreeRecord, eName, eValue, eChildren, eSourceMap, kName, kChildren, kSourceMap, bind, Except.bind, pure, Except.pure]

theorem tokenRecord_generated (t v : Str) (smt : PyVal) :
    recordBy LarkCache.dumpTokenRecord t v [] smt = .ok (.dict [(kName, .str t), (kValue, .str v), (kSourceMap, smt)]) := by
  simp [recordBy, LarkCache.dumpTokenRecord, eName, eValue, eChildren, eSourceMap, kName, kValue, kSourceMap, bind, Except.bind, pure, Except.pure]

theorem restoredMeta_generated (sm : SM) :
    restoredMetaBy LarkCache.loadsMeta LarkCache.loadsMetaConst [sm.bl, sm.bc, sm.el, sm.ec] = .ok (restoredMeta sm) := by
  simp [restoredMetaBy, LarkCache.loadsMeta, LarkCache.loadsMetaConst, setMeta, sLine, sColumn, sEndLine, sEndColumn, restoredMeta,
    List.foldlM, bind, Except.bind, pure, Except.pure]

theorem restoredTok_generated (sm : SM) :
    restoredTokBy LarkCache.loadsToken [sm.bl, sm.bc, sm.el, sm.ec] = .ok ⟨sm.bl, sm.bc, sm.el, sm.ec⟩ := by
  simp [restoredTokBy, LarkCache.loadsToken, setTok, sLine, sColumn, sEndLine, sEndColumn, List.foldlM, bind, Except.bind, pure, Except.pure]

theorem noPosition_generated (sm : SM) :
    noPositionBy sm LarkCache.guardDisjuncts = (do let a ← lt1 sm.bl; if a then pure true else lt1 sm.bc) := by
  cases hb : sm.bl <;> cases hc : sm.bc <;>
    simp [noPositionBy, LarkCache.guardDisjuncts, spanField, cmpPos, lt1, hb, hc, bind, Except.bind, pure, Except.pure]
  all_goals (split <;> (try simp_all) <;> (try (split <;> simp_all)))

theorem shift_generated (sm : SM) : shiftBy LarkCache.shiftFields sm = shift sm := by
  cases h1 : sm.bl <;> cases h2 : sm.bc <;> cases h3 : sm.el <;> cases h4 : sm.ec <;>
    simp [shiftBy, LarkCache.shiftFields, spanField, shift, dec1, h1, h2, h3, h4, bind, Except.bind, pure, Except.pure, Int.sub_eq_add_neg]

theorem buildQuotation_generated (ex : Bool) (fp content : Str) (sm : Except Err SM) :
    buildQuotationBy LarkCache.quotationOrder LarkCache.guardDisjuncts LarkCache.shiftFields ex fp content sm
      = buildQuotation ex fp content sm := by
  have ho : LarkCache.quotationOrder = [['e', 'x', 'i', 's', 't', 's'], ['g', 'u', 'a', 'r', 'd'], ['s', 'h', 'i', 'f', 't']] := by decide
  unfold buildQuotationBy buildQuotation
  simp only [ho, if_true]
  cases ex with
  | false => rfl
  | true =>
    cases sm with
    | error e => rfl
    | ok m =>
      simp only [Bool.not_true, Bool.false_eq_true, if_false, bind, Except.bind]
      rw [noPosition_generated m, shift_generated m]
      cases hb : lt1 m.bl with
      | error e => simp [bind, Except.bind]
      | ok a =>
        cases a with
        | true => simp [bind, Except.bind, pure, Except.pure]
        | false =>
          simp only [bind, Except.bind, pure, Except.pure, Bool.false_eq_true, if_false]

/-! ### cache identity text -/

/-- a plain string followed by a quote determines the string -/
theorem plain_noquote {s : Str} (h : Plain s) : '\'' ∉ s := fun hm => (h _ hm).1 rfl

theorem plain_split (a b r1 r2 : Str) (ha : '\'' ∉ a) (hb : '\'' ∉ b) (h : a ++ '\'' :: r1 = b ++ '\'' :: r2) :
    a = b ∧ r1 = r2 := by
  induction a generalizing b with
  | nil =>
    cases b with
    | nil => simpa using h
    | cons y ys =>
      simp only [List.nil_append, List.cons_append, List.cons.injEq] at h
      exact absurd (by rw [← h.1]; simp) hb
  | cons x xs ih =>
    cases b with
    | nil =>
      simp only [List.nil_append, List.cons_append, List.cons.injEq] at h
      exact absurd (by rw [h.1]; simp) ha
    | cons y ys =>
      simp only [List.cons_append, List.cons.injEq] at h
      have := ih ys (fun hm => ha (by simp [hm])) (fun hm => hb (by simp [hm])) h.2
      exact ⟨by rw [h.1, this.1], this.2⟩

theorem go_injective (keys vs ws : List Str) (hl : vs.length = keys.length) (hl' : ws.length = keys.length)
    (hv : ∀ v ∈ vs, Plain v) (hw : ∀ w ∈ ws, Plain w)
    (h : pyStrDict.go (keys.zip vs) = pyStrDict.go (keys.zip ws)) : vs = ws := by
  induction keys generalizing vs ws with
  | nil =>
    cases vs <;> cases ws <;> simp_all
  | cons k ks ih =>
    cases vs with
    | nil => simp at hl
    | cons v vs' =>
      cases ws with
      | nil => simp at hl'
      | cons w ws' =>
        simp only [List.zip_cons_cons, pyStrDict.go, pyReprPlain, List.cons_append, List.append_assoc, List.cons.injEq, true_and] at h
        have h' := List.append_cancel_left h
        simp only [List.nil_append, List.cons.injEq, true_and] at h'
        have := plain_split v w _ _ (plain_noquote (hv v (by simp))) (plain_noquote (hw w (by simp))) h'
        rw [this.1, ih vs' ws' (by simpa using hl) (by simpa using hl') (fun x hx => hv x (by simp [hx])) (fun x hx => hw x (by simp [hx])) this.2]

/-- two identities over the same keys with plain values have the same `str(dict)` text only if the values agree -/
theorem pyStrDict_injective (keys vs ws : List Str) (hl : vs.length = keys.length) (hl' : ws.length = keys.length)
    (hv : ∀ v ∈ vs, Plain v) (hw : ∀ w ∈ ws, Plain w)
    (h : pyStrDict (keys.zip vs) = pyStrDict (keys.zip ws)) : vs = ws := by
  cases keys with
  | nil => cases vs <;> cases ws <;> simp_all
  | cons k ks =>
    cases vs with
    | nil => simp at hl
    | cons v vs' =>
      cases ws with
      | nil => simp at hl'
      | cons w ws' =>
        simp only [List.zip_cons_cons, pyStrDict, pyReprPlain, List.cons_append, List.append_assoc, List.cons.injEq, true_and] at h
        have h' := List.append_cancel_left h
        simp only [List.nil_append, List.cons.injEq, true_and] at h'
        have := plain_split v w _ _ (plain_noquote (hv v (by simp))) (plain_noquote (hw w (by simp))) h'
        rw [this.1, go_injective ks vs' ws' (by simpa using hl) (by simpa using hl') (fun x hx => hv x (by simp [hx])) (fun x hx => hw x (by simp [hx])) this.2]

end Tranp.Shape
