/-
  Helper lemmas for C12: `from_ast` inverts `toAst` on canonical rule sets and vice versa on well-shaped tuple trees.
-/
import Tranp.Model.RulesAst

namespace Tranp.RulesAst
open Tranp Tranp.Engine

/-! ## strings -/

theorem inner_wrap (q : Char) (e : Str) : inner (q :: (e ++ [q])) = e := by
  simp [inner]

theorem last_wrap (q : Char) (e : Str) : lastChar? (q :: (e ++ [q])) = some q := by
  unfold lastChar?
  rw [show q :: (e ++ [q]) = (q :: e) ++ [q] by simp]
  exact List.getLast?_concat

theorem word_head {s : Str} (h : s.all isWordChar = true) (c : Char) (hc : isWordChar c = false) : s.head? ≠ some c := by
  cases s with
  | nil => simp
  | cons x xs =>
    simp only [List.all_cons, Bool.and_eq_true] at h
    intro hx
    simp only [List.head?_cons, Option.some.injEq] at hx
    subst hx
    simp [h.1] at hc

/-! ## Pattern.make inverts the printer on canonical patterns -/

theorem make_symbol {e : Str} (h1 : e ≠ []) (h2 : e.all isWordChar = true) : make e = .ok (.pattern e .symbol .noComp) := by
  unfold make
  have hq : e.head? ≠ some '"' := word_head h2 '"' (by decide)
  have hs : e.head? ≠ some '/' := word_head h2 '/' (by decide)
  simp [hq, hs, h1, h2]

theorem make_string {e : Str} (h : plainString e = true) : make ('"' :: (e ++ ['"'])) = .ok (.pattern e .terminal .equals) := by
  unfold make
  simp only [List.head?_cons, last_wrap, and_self, ↓reduceIte, inner_wrap]
  unfold plainString at h
  split
  · rename_i c
    simp only [Option.isNone_iff_eq_none] at h
    simp [h]
  · rfl

theorem make_regexp (e : Str) : make ('/' :: (e ++ ['/'])) = .ok (.pattern e .terminal .regexp) := by
  unfold make
  simp [last_wrap, inner_wrap]

/-! ## from_ast ∘ toAst on patterns -/

theorem fetch_last (xs : List TEntry) (n v : Str) (expected : Str) :
    fetchToken (xs ++ [.token n v]) none expected true = .ok (n, v) := by
  simp [fetchToken]

theorem forExprInit_concat (xs : List TEntry) (t : TEntry) : forExprInit (xs ++ [t]) = forExprList xs := by
  induction xs with
  | nil => simp [forExprInit, forExprList]
  | cons x xs ih =>
    cases xs with
    | nil => simp [forExprInit, forExprList]
    | cons y ys =>
      simp only [List.cons_append] at ih ⊢
      simp only [forExprInit, forExprList, ih]

theorem repOf_repValue {rep : Rep} (h1 : rep ≠ .noRepeat) (h2 : rep ≠ .oneOrEmpty) : repOf true (repValue rep) = .ok rep := by
  cases rep <;> simp_all [repOf, repValue]

theorem toAstPatList_length (ps : List Pat) : (toAstPatList ps).length = ps.length := by
  induction ps with
  | nil => simp [toAstPatList]
  | cons p ps ih => simp [toAstPatList, ih]

theorem from_to_pat : (p : Pat) → canonPat p = true → forExpr (toAstPat p) = .ok p
  | .pattern e role comp, h => by
    cases role <;> cases comp <;> simp only [canonPat, Bool.and_eq_true, ne_eq, decide_eq_true_eq] at h
    · -- symbol
      simp only [toAstPat, patToken, forExpr]
      have h1 : e ≠ [] := by simpa using h.1
      simp [make_symbol h1 h.2]
    · cases h
    · cases h
    · cases h
    · -- regexp
      simp only [toAstPat, patToken, forExpr]
      have : (nRegexp == nSymbol) = false := by decide
      simp [this, make_regexp]
    · -- string
      simp only [toAstPat, patToken, forExpr]
      have : (nString == nSymbol) = false := by decide
      simp [this, make_string h]
  | .group es .or rep, h => by
    simp only [canonPat, Bool.and_eq_true, decide_eq_true_eq] at h
    obtain ⟨⟨h1, _⟩, h3⟩ := h
    subst h1
    simp only [toAstPat, forExpr]
    have a : (nTermsOr == nTerms) = false := by decide
    simp [a, from_to_patList es h3]
  | .group [e] .and .noRepeat, h => by
    simp only [canonPat, canonPatList, Bool.and_eq_true, decide_eq_true_eq] at h
    simp only [toAstPat, forExpr]
    have a : (nExprRep == nTerms) = false := by decide
    have b : (nExprRep == nTermsOr) = false := by decide
    have c : (nExprRep == nExprOpt) = false := by decide
    have d : (emptyName == nRepeat) = false := by decide
    have hf := fetch_last [toAstPat e] emptyName [] nRepeat
    simp only [List.cons_append, List.nil_append] at hf
    simp [a, b, c, hf, d, repOf, forExprInit, from_to_pat e h.2.1]
  | .group [] .and .noRepeat, h => by simp [canonPat] at h
  | .group (e1 :: e2 :: es) .and .noRepeat, h => by
    simp only [canonPat, Bool.and_eq_true, decide_eq_true_eq] at h
    simp only [toAstPat, forExpr]
    simp [from_to_patList _ h.2]
  | .group es .and .oneOrEmpty, h => by
    simp only [canonPat, Bool.and_eq_true, decide_eq_true_eq] at h
    simp only [toAstPat, forExpr]
    have a : (nExprOpt == nTerms) = false := by decide
    have b : (nExprOpt == nTermsOr) = false := by decide
    simp [a, b, from_to_patList es h.2]
  | .group es .and .overZero, h => by
    simp only [toAstPat]
    exact from_to_rep es .overZero (by decide) (by decide) (by simpa [canonPat] using h)
  | .group es .and .overOne, h => by
    simp only [toAstPat]
    exact from_to_rep es .overOne (by decide) (by decide) (by simpa [canonPat] using h)
  | .group es .and .oneOrZero, h => by
    simp only [toAstPat]
    exact from_to_rep es .oneOrZero (by decide) (by decide) (by simpa [canonPat] using h)
where
  from_to_patList : (ps : List Pat) → canonPatList ps = true → forExprList (toAstPatList ps) = .ok ps
    | [], _ => by simp [toAstPatList, forExprList]
    | p :: ps, h => by
      simp only [canonPatList, Bool.and_eq_true] at h
      simp [toAstPatList, forExprList, from_to_pat p h.1, from_to_patList ps h.2]
  from_to_rep (es : List Pat) (rep : Rep) (h1 : rep ≠ .noRepeat) (h2 : rep ≠ .oneOrEmpty)
      (h : es.length = 1 ∧ canonPatList es = true) :
      forExpr (.tree nExprRep (toAstPatList es ++ [.token nRepeat (repValue rep)])) = .ok (.group es .and rep) := by
    have a : (nExprRep == nTerms) = false := by decide
    have b : (nExprRep == nTermsOr) = false := by decide
    have c : (nExprRep == nExprOpt) = false := by decide
    simp only [forExpr]
    simp [a, b, c, fetch_last, repOf_repValue h1 h2, forExprInit_concat, from_to_patList es h.2]

/-! ## rules -/

theorem forRuleName_splitKey (k : Str) (x : TEntry) :
    forRuleName [.token nSymbol (splitKey k).1, (splitKey k).2, x] = .ok k := by
  unfold splitKey
  split
  · rename_i u rsym hk
    have hk' : k = rsym.reverse ++ ['[', u, ']'] := by
      have := congrArg List.reverse hk
      simpa using this
    have a : (nUnwrap == nUnwrap) = true := by decide
    simp [forRuleName, fetchToken, hk']
  · have a : (emptyName == nUnwrap) = false := by decide
    simp [forRuleName, fetchToken, a]

theorem forRule_toAstRule (kv : Str × Pat) (h : canonPat kv.2 = true) : forRule (toAstRule kv) = .ok kv := by
  obtain ⟨k, p⟩ := kv
  simp only [toAstRule, forRule]
  have a : (nRule != nRule) = false := by decide
  simp [forRuleName_splitKey, from_to_pat p h]

theorem forRules_toAst (R : Rules) (h : (R.all fun kv => canonKey kv.1 && canonPat kv.2) = true) :
    forRules (R.map toAstRule) = .ok R := by
  induction R with
  | nil => simp [forRules]
  | cons kv rest ih =>
    simp only [List.all_cons, Bool.and_eq_true] at h
    simp [forRules, forRule_toAstRule kv h.1.2, ih h.2]

theorem insert_new (acc : Rules) (k : Str) (p : Pat) (h : hasKey acc k = false) : Engine.insert acc k p = acc ++ [(k, p)] := by
  induction acc with
  | nil => simp [Engine.insert]
  | cons kv rest ih =>
    obtain ⟨k', p'⟩ := kv
    simp only [hasKey, List.any_cons, Bool.or_eq_false_iff] at h
    simp only [Engine.insert, h.1]
    simp [ih (by simpa [hasKey] using h.2)]

theorem hasKey_append (a b : Rules) (k : Str) : hasKey (a ++ b) k = (hasKey a k || hasKey b k) := by
  simp [hasKey]

theorem dictOf_aux (rs acc : Rules) (hd : distinctKeys rs = true) (hdis : ∀ kv ∈ rs, hasKey acc kv.1 = false) :
    rs.foldl (fun acc kv => Engine.insert acc kv.1 kv.2) acc = acc ++ rs := by
  induction rs generalizing acc with
  | nil => simp
  | cons kv rest ih =>
    simp only [distinctKeys, Bool.and_eq_true, Bool.not_eq_true'] at hd
    simp only [List.foldl_cons]
    rw [insert_new acc kv.1 kv.2 (hdis kv (by simp))]
    rw [ih (acc ++ [(kv.1, kv.2)]) hd.2]
    · simp
    · intro kv' hkv'
      rw [hasKey_append, hdis kv' (by simp [hkv'])]
      simp only [Bool.false_or]
      -- kv'.1 ≠ kv.1 because kv.1 does not occur in `rest`
      cases hq : hasKey [(kv.1, kv.2)] kv'.1 with
      | false => rfl
      | true =>
        exfalso
        simp only [hasKey, List.any_cons, List.any_nil, Bool.or_false, beq_iff_eq] at hq
        have : hasKey rest kv.1 = true := by
          simp only [hasKey, List.any_eq_true, beq_iff_eq]
          exact ⟨kv', hkv', hq.symm⟩
        simp [this] at hd

theorem dictOf_distinct (R : Rules) (h : distinctKeys R = true) : dictOf R = R := by
  unfold dictOf
  rw [dictOf_aux R [] h (by intro kv _; rfl)]
  simp

theorem from_to_rules (R : Rules) (h : Canon R) : fromAst (toAst R) = .ok R := by
  have a : (nEntry != nEntry) = false := by decide
  simp [fromAst, toAst, entryName, childrenOf, forRules_toAst R h.1, dictOf_distinct R h.2]

/-! ## toAst ∘ from_ast on well-shaped tuple trees -/

/-- `v` is `q … q` with at least the two delimiters -/
def quoted (q : Char) (v : Str) : Bool := decide (2 ≤ v.length) && v.head? == some q && lastChar? v == some q

def isRepeatValue (v : Str) : Bool := v == ['*'] || v == ['+'] || v == ['?']

mutual
/-- the expression trees the meta-grammar produces: `terms`/`terms_or` with at least two children, `expr_opt` with one,
    `expr_rep` with an expression and a repeat token or the `__empty__` placeholder; tokens whose text fits their name -/
def wsExpr : TEntry → Bool
  | .token n v =>
    (n == nSymbol && (v != [] && v.all isWordChar)) ||
    (n == nString && (quoted '"' v && plainString (inner v))) ||
    (n == nRegexp && (quoted '/' v && v.head? != some '"'))
  | .tree n cs =>
    if n == nTerms then decide (2 ≤ cs.length) && wsList cs
    else if n == nTermsOr then decide (2 ≤ cs.length) && wsList cs
    else if n == nExprOpt then decide (cs.length = 1) && wsList cs
    else if n == nExprRep then
      match cs with
      | [c, .token rn rv] => wsExpr c && ((rn == nRepeat && isRepeatValue rv) || (rn == emptyName && rv == []))
      | _ => false
    else false
def wsList : List TEntry → Bool
  | [] => true
  | c :: cs => wsExpr c && wsList cs
end

theorem quoted_wrap {q : Char} {v : Str} (h : quoted q v = true) : q :: (inner v ++ [q]) = v := by
  simp only [quoted, Bool.and_eq_true, decide_eq_true_eq, beq_iff_eq] at h
  obtain ⟨⟨hl, hh⟩, hlast⟩ := h
  cases v with
  | nil => simp at hl
  | cons a rest =>
    simp only [List.head?_cons, Option.some.injEq] at hh
    subst hh
    rcases List.eq_nil_or_concat rest with h0 | ⟨L, b, h0⟩
    · subst h0; simp at hl
    · subst h0
      unfold lastChar? at hlast
      rw [List.concat_eq_append] at hlast ⊢
      rw [show a :: (L ++ [b]) = (a :: L) ++ [b] by simp, List.getLast?_concat] at hlast
      simp only [Option.some.injEq] at hlast
      subst hlast
      simp [inner]

theorem repOf_isRepeatValue {rv : Str} (h : isRepeatValue rv = true) :
    ∃ rep, repOf true rv = .ok rep ∧ repValue rep = rv ∧ rep ≠ .noRepeat ∧ rep ≠ .oneOrEmpty := by
  simp only [isRepeatValue, Bool.or_eq_true, beq_iff_eq] at h
  rcases h with (h | h) | h <;> subst h
  · exact ⟨.overZero, by simp [repOf], rfl, by decide, by decide⟩
  · exact ⟨.overOne, by simp [repOf], rfl, by decide, by decide⟩
  · exact ⟨.oneOrZero, by simp [repOf], rfl, by decide, by decide⟩

theorem toAstPat_rep (es : List Pat) (rep : Rep) (h1 : rep ≠ .noRepeat) (h2 : rep ≠ .oneOrEmpty) :
    toAstPat (.group es .and rep) = .tree nExprRep (toAstPatList es ++ [.token nRepeat (repValue rep)]) := by
  cases rep <;> simp_all [toAstPat]

theorem to_from_pat : (t : TEntry) → wsExpr t = true → ∃ p, forExpr t = .ok p ∧ toAstPat p = t
  | .token n v, h => by
    simp only [wsExpr, Bool.or_eq_true, Bool.and_eq_true, beq_iff_eq, bne_iff_ne, ne_eq] at h
    rcases h with (⟨hn, hv1, hv2⟩ | ⟨hn, hq, hp⟩) | ⟨hn, hq, _⟩
    · subst hn
      exact ⟨.pattern v .symbol .noComp, by simp [forExpr, make_symbol hv1 hv2], by simp [toAstPat, patToken]⟩
    · subst hn
      have hw := quoted_wrap hq
      have a : (nString == nSymbol) = false := by decide
      refine ⟨.pattern (inner v) .terminal .equals, ?_, by simp [toAstPat, patToken, hw]⟩
      have := make_string hp
      rw [hw] at this
      simp [forExpr, a, this]
    · subst hn
      have hw := quoted_wrap hq
      have a : (nRegexp == nSymbol) = false := by decide
      have b : (nRegexp == nString) = false := by decide
      refine ⟨.pattern (inner v) .terminal .regexp, ?_, by simp [toAstPat, patToken, hw]⟩
      have := make_regexp (inner v)
      rw [hw] at this
      simp [forExpr, a, b, this]
  | .tree n cs, h => by
    unfold wsExpr at h
    split at h
    · -- terms
      rename_i hn
      simp only [beq_iff_eq] at hn; subst hn
      simp only [Bool.and_eq_true, decide_eq_true_eq] at h
      obtain ⟨ps, hps, hback, hlen⟩ := to_from_list cs h.2
      refine ⟨.group ps .and .noRepeat, by simp [forExpr, hps], ?_⟩
      match ps, hlen, hback with
      | [], hlen, _ => simp at hlen; omega
      | [_], hlen, _ => simp at hlen; omega
      | p1 :: p2 :: rest, _, hback => simp [toAstPat, hback]
    · split at h
      · rename_i hn
        simp only [beq_iff_eq] at hn; subst hn
        simp only [Bool.and_eq_true, decide_eq_true_eq] at h
        obtain ⟨ps, hps, hback, _⟩ := to_from_list cs h.2
        have a : (nTermsOr == nTerms) = false := by decide
        exact ⟨.group ps .or .noRepeat, by simp [forExpr, a, hps], by simp [toAstPat, hback]⟩
      · split at h
        · rename_i hn
          simp only [beq_iff_eq] at hn; subst hn
          simp only [Bool.and_eq_true, decide_eq_true_eq] at h
          obtain ⟨ps, hps, hback, _⟩ := to_from_list cs h.2
          have a : (nExprOpt == nTerms) = false := by decide
          have b : (nExprOpt == nTermsOr) = false := by decide
          exact ⟨.group ps .and .oneOrEmpty, by simp [forExpr, a, b, hps], by simp [toAstPat, hback]⟩
        · split at h
          · rename_i hn
            simp only [beq_iff_eq] at hn; subst hn
            have a : (nExprRep == nTerms) = false := by decide
            have b : (nExprRep == nTermsOr) = false := by decide
            have c' : (nExprRep == nExprOpt) = false := by decide
            split at h
            · rename_i c rn rv
              simp only [Bool.and_eq_true, Bool.or_eq_true, beq_iff_eq] at h
              obtain ⟨hc, hr⟩ := h
              obtain ⟨p, hp, hpb⟩ := to_from_pat c hc
              have hf := fetch_last [c] rn rv nRepeat
              simp only [List.cons_append, List.nil_append] at hf
              rcases hr with ⟨hrn, hrv⟩ | ⟨hrn, hrv⟩
              · subst hrn
                obtain ⟨rep, hrep, hval, h1, h2⟩ := repOf_isRepeatValue hrv
                have e : (nRepeat == nRepeat) = true := by decide
                refine ⟨.group [p] .and rep, ?_, ?_⟩
                · simp [forExpr, a, b, c', hf, e, hrep, forExprInit, hp]
                · rw [toAstPat_rep [p] rep h1 h2]; simp [toAstPatList, hpb, hval]
              · subst hrn; subst hrv
                have e : (emptyName == nRepeat) = false := by decide
                refine ⟨.group [p] .and .noRepeat, ?_, ?_⟩
                · simp [forExpr, a, b, c', hf, e, repOf, forExprInit, hp]
                · simp [toAstPat, hpb]
            · cases h
          · cases h
where
  to_from_list : (cs : List TEntry) → wsList cs = true →
      ∃ ps, forExprList cs = .ok ps ∧ toAstPatList ps = cs ∧ ps.length = cs.length
    | [], _ => ⟨[], by simp [forExprList], by simp [toAstPatList], rfl⟩
    | c :: cs, h => by
      simp only [wsList, Bool.and_eq_true] at h
      obtain ⟨p, hp, hpb⟩ := to_from_pat c h.1
      obtain ⟨ps, hps, hpsb, hl⟩ := to_from_list cs h.2
      exact ⟨p :: ps, by simp [forExprList, hp, hps], by simp [toAstPatList, hpb, hpsb], by simp [hl]⟩

/-! ### rules -/

def isUnwrapValue (v : Str) : Bool := v == ['1'] || v == ['*']

/-- a `rule` tree as the meta-grammar produces it: symbol, unwrap marker or placeholder, expression -/
def wsRule : TEntry → Bool
  | .tree n [.token sn sv, .token un uv, e] =>
    n == nRule && sn == nSymbol && (sv != [] && sv.all isWordChar) &&
      ((un == nUnwrap && isUnwrapValue uv) || (un == emptyName && uv == [])) && wsExpr e
  | _ => false

/-- the key `from_ast` gives a well-shaped rule -/
def ruleKey : TEntry → Str
  | .tree _ [.token _ sv, .token un uv, _] => if un == nUnwrap then sv ++ ['['] ++ uv ++ [']'] else sv
  | _ => []

def distinctStrs : List Str → Bool
  | [] => true
  | k :: ks => !ks.contains k && distinctStrs ks

/-- Well-shaped tuple tree of a rule set: `entry` over well-shaped rules with pairwise distinct keys. -/
def WellShaped (t : TEntry) : Prop :=
  ∃ cs, t = .tree nEntry cs ∧ cs.all wsRule = true ∧ distinctStrs (cs.map ruleKey) = true

theorem splitKey_plain {sv : Str} (h2 : sv.all isWordChar = true) : splitKey sv = (sv, .token emptyName []) := by
  unfold splitKey
  split
  · rename_i u rsym hk
    exfalso
    have : sv = rsym.reverse ++ ['[', u, ']'] := by
      have := congrArg List.reverse hk
      simpa using this
    subst this
    simp [isWordChar] at h2
  · rfl

theorem splitKey_marked (sv : Str) (u : Char) : splitKey (sv ++ ['['] ++ [u] ++ [']']) = (sv, .token nUnwrap [u]) := by
  unfold splitKey
  simp

theorem to_from_rule (c : TEntry) (h : wsRule c = true) : ∃ p, forRule c = .ok (ruleKey c, p) ∧ toAstRule (ruleKey c, p) = c := by
  unfold wsRule at h
  split at h
  · rename_i n sn sv un uv e
    simp only [Bool.and_eq_true, Bool.or_eq_true, beq_iff_eq, bne_iff_ne, ne_eq] at h
    obtain ⟨⟨⟨⟨hn, hsn⟩, hsv1, hsv2⟩, hu⟩, he⟩ := h
    subst hn; subst hsn
    obtain ⟨p, hp, hpb⟩ := to_from_pat e he
    have a : (nRule != nRule) = false := by decide
    rcases hu with ⟨hun, huv⟩ | ⟨hun, huv⟩
    · subst hun
      have e1 : (nUnwrap == nUnwrap) = true := by decide
      simp only [isUnwrapValue, Bool.or_eq_true, beq_iff_eq] at huv
      refine ⟨p, ?_, ?_⟩
      · simp [forRule, a, forRuleName, fetchToken, ruleKey, e1, hp]
      · rcases huv with huv | huv <;> subst huv
        · have := splitKey_marked sv '1'
          simp only [ruleKey, e1, ↓reduceIte, toAstRule, this, hpb]
        · have := splitKey_marked sv '*'
          simp only [ruleKey, e1, ↓reduceIte, toAstRule, this, hpb]
    · subst hun; subst huv
      have e1 : (emptyName == nUnwrap) = false := by decide
      refine ⟨p, ?_, ?_⟩
      · simp [forRule, a, forRuleName, fetchToken, ruleKey, e1, hp]
      · simp [ruleKey, e1, toAstRule, splitKey_plain hsv2, hpb]
  · cases h

theorem to_from_rules_list (cs : List TEntry) (h : cs.all wsRule = true) :
    ∃ rs, forRules cs = .ok rs ∧ rs.map toAstRule = cs ∧ rs.map (·.1) = cs.map ruleKey := by
  induction cs with
  | nil => exact ⟨[], by simp [forRules], rfl, rfl⟩
  | cons c cs ih =>
    simp only [List.all_cons, Bool.and_eq_true] at h
    obtain ⟨p, hp, hpb⟩ := to_from_rule c h.1
    obtain ⟨rs, hrs, hrsb, hk⟩ := ih h.2
    exact ⟨(ruleKey c, p) :: rs, by simp [forRules, hp, hrs], by simp [hpb, hrsb], by simp [hk]⟩

theorem distinctKeys_of_strs (rs : Rules) (h : distinctStrs (rs.map (·.1)) = true) : distinctKeys rs = true := by
  induction rs with
  | nil => rfl
  | cons kv rest ih =>
    simp only [List.map_cons, distinctStrs, Bool.and_eq_true, Bool.not_eq_true'] at h
    simp only [distinctKeys, Bool.and_eq_true, Bool.not_eq_true']
    refine ⟨?_, ih h.2⟩
    cases hk : hasKey rest kv.1 with
    | false => rfl
    | true =>
      exfalso
      simp only [hasKey, List.any_eq_true, beq_iff_eq] at hk
      obtain ⟨x, hx, hxe⟩ := hk
      have hc : (rest.map (·.1)).contains kv.1 = true := by
        simp only [List.contains_iff_mem, List.mem_map]
        exact ⟨x, hx, hxe⟩
      rw [hc] at h
      exact absurd h.1 (by decide)

theorem to_from_rules (t : TEntry) (h : WellShaped t) : ∃ g, fromAst t = .ok g ∧ toAst g = t := by
  obtain ⟨cs, ht, hws, hd⟩ := h
  subst ht
  obtain ⟨rs, hrs, hback, hkeys⟩ := to_from_rules_list cs hws
  have hdist : distinctKeys rs = true := distinctKeys_of_strs rs (by rw [hkeys]; exact hd)
  have a : (nEntry != nEntry) = false := by decide
  refine ⟨rs, ?_, ?_⟩
  · simp [fromAst, entryName, childrenOf, hrs, dictOf_distinct rs hdist]
  · simp [toAst, hback]

end Tranp.RulesAst
