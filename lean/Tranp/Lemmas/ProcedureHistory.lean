/-
  Helper lemmas: the result of `exec` does not depend on the stack-of-stacks it starts from (property C09, histories).
-/
import Tranp.Lemmas.Procedure
import Tranp.Model.ProcedureHistory

namespace Tranp.Procedure
open Tranp

section
variable {R : Type}

/-- the result of `nested` does not depend on the stacks it starts from -/
def NestedIndep (nested : St R → PNode → St R × Except Err R) : Prop :=
  ∀ st1 st2 root, (nested st1 root).2 = (nested st2 root).2

theorem runProg_indep (nested : St R → PNode → St R × Except Err R) (hI : NestedIndep nested) (hF : NestedFrame nested)
    (prog : HProg R) (hg : prog.Good (fun _ => True)) (s1 s2 : St R) :
    (runProg nested s1 prog).2 = (runProg nested s2 prog).2 := by
  induction hg generalizing s1 s2 with
  | ret r => rfl
  | fail e => rfl
  | call root k _ _ ih =>
    have h := hI s1 s2 root
    simp only [runProg]
    cases h1 : nested s1 root with
    | mk a1 r1 =>
      cases h2 : nested s2 root with
      | mk a2 r2 =>
        rw [h1, h2] at h
        simp only at h
        subst h
        cases r1 with
        | error e => rfl
        | ok r =>
          have e1 := hF s1 root a1 r h1
          have e2 := hF s2 root a2 r h2
          subst e1 e2
          exact ih r _ _

theorem processNode_indep (nested : St R → PNode → St R × Except Err R) (hI : NestedIndep nested) (hF : NestedFrame nested)
    (hs : Handlers R) (hH : hs.Good (fun _ => True)) (fr : List R) (r1 r2 : St R) (n : PNode) :
    (processNode nested hs (fr :: r1) n).2 = (processNode nested hs (fr :: r2) n).2 ∧
    (∀ s, processNode nested hs (fr :: r1) n = (s, .ok ()) →
      ∃ fr', s = fr' :: r1 ∧ processNode nested hs (fr :: r2) n = (fr' :: r2, .ok ())) := by
  simp only [processNode]
  cases hf : hs.find n.cls with
  | none => simp
  | some h =>
    simp only
    cases hme : makeEvent n fr with
    | mk fr1 res =>
      cases res with
      | error e => simp
      | ok ev =>
        simp only
        have hg := hH _ _ hf n ev
        have hind := runProg_indep nested hI hF (h n ev) hg (fr1 :: r1) (fr1 :: r2)
        cases hp1 : runProg nested (fr1 :: r1) (h n ev) with
        | mk a1 x1 =>
          cases hp2 : runProg nested (fr1 :: r2) (h n ev) with
          | mk a2 x2 =>
            rw [hp1, hp2] at hind
            simp only at hind
            subst hind
            cases x1 with
            | error e => simp
            | ok r =>
              have e1 := runProg_frame nested hF _ hg _ _ _ hp1
              have e2 := runProg_frame nested hF _ hg _ _ _ hp2
              subst e1 e2
              simp

theorem run_indep (nested : St R → PNode → St R × Except Err R) (hI : NestedIndep nested) (hF : NestedFrame nested)
    (hs : Handlers R) (hH : hs.Good (fun _ => True)) (l : List PNode) (fr : List R) (r1 r2 : St R) :
    (run nested hs (fr :: r1) l).2 = (run nested hs (fr :: r2) l).2 ∧
    (∀ s, run nested hs (fr :: r1) l = (s, .ok ()) →
      ∃ fr', s = fr' :: r1 ∧ run nested hs (fr :: r2) l = (fr' :: r2, .ok ())) := by
  induction l generalizing fr with
  | nil => simp [run]
  | cons n ns ih =>
    obtain ⟨h1, h2⟩ := processNode_indep nested hI hF hs hH fr r1 r2 n
    simp only [run]
    cases hp1 : processNode nested hs (fr :: r1) n with
    | mk a1 x1 =>
      cases x1 with
      | error e =>
        rw [hp1] at h1
        cases hp2 : processNode nested hs (fr :: r2) n with
        | mk a2 x2 =>
          rw [hp2] at h1
          simp only at h1
          subst h1
          simp
      | ok u =>
        cases u
        obtain ⟨fr', rfl, hp2⟩ := h2 a1 hp1
        rw [hp2]
        exact ih fr'

theorem execWith_indep (nested : St R → PNode → St R × Except Err R) (hI : NestedIndep nested) (hF : NestedFrame nested)
    (hs : Handlers R) (hH : hs.Good (fun _ => True)) : NestedIndep (execWith nested hs) := by
  intro st1 st2 root
  obtain ⟨h1, h2⟩ := run_indep nested hI hF hs hH (visited root) [] st1 st2
  simp only [execWith, execImpl]
  cases hr1 : run nested hs ([] :: st1) (visited root) with
  | mk a1 x1 =>
    cases x1 with
    | error e =>
      rw [hr1] at h1
      cases hr2 : run nested hs ([] :: st2) (visited root) with
      | mk a2 x2 =>
        rw [hr2] at h1
        simp only at h1
        subst h1
        rfl
    | ok u =>
      cases u
      obtain ⟨fr', rfl, hr2⟩ := h2 a1 hr1
      rw [hr2]
      match fr' with
      | [] => rfl
      | [x] => rfl
      | _ :: _ :: _ => rfl

/-- `exec`'s result (value or exception) is the same from every stack-of-stacks — for every tree, well-formed or not -/
theorem exec_indep (hs : Handlers R) (hH : hs.Good (fun _ => True)) (fuel : Nat) : NestedIndep (exec hs fuel) := by
  induction fuel with
  | zero => intro st1 st2 root; rfl
  | succ fuel ih => exact execWith_indep (exec hs fuel) ih (exec_frame hs hH fuel) hs hH

/-- running `p.bind f` is running `p` and then `f` on its result; an exception of `p` ends it -/
theorem runProg_bind (nested : St R → PNode → St R × Except Err R) (p : HProg R) (f : R → HProg R) (st : St R) :
    runProg nested st (p.bind f) =
      match runProg nested st p with
      | (st', .ok r) => runProg nested st' (f r)
      | (st', .error e) => (st', .error e) := by
  induction p generalizing st with
  | ret r => rfl
  | fail e => rfl
  | call root k ih =>
    simp only [HProg.bind, runProg]
    cases nested st root with
    | mk s1 x =>
      cases x with
      | ok r => exact ih r s1
      | error e => rfl
  | tryCall root k ih =>
    simp only [HProg.bind, runProg]
    cases nested st root with
    | mk s1 x => exact ih x s1

theorem denoteProg_bind (dn : PNode → Except Err R) (p : HProg R) (f : R → HProg R) :
    denoteProg dn (p.bind f) =
      match denoteProg dn p with
      | .ok r => denoteProg dn (f r)
      | .error e => .error e := by
  induction p with
  | ret r => rfl
  | fail e => rfl
  | call root k ih =>
    simp only [HProg.bind, denoteProg]
    cases dn root with
    | ok r => exact ih r
    | error e => rfl
  | tryCall root k ih =>
    simp only [HProg.bind, denoteProg]
    exact ih _

/-- chaining keeps handler programs inside the class the theorems are about -/
theorem good_bind (P : PNode → Prop) (p : HProg R) (f : R → HProg R) (hp : p.Good P) (hf : ∀ r, (f r).Good P) :
    (p.bind f).Good P := by
  induction hp with
  | ret r => exact hf r
  | fail e => exact .fail e
  | call root k hroot _ ih => exact .call root _ hroot ih

theorem steps_emitter (fuel : Nat) (s : PState R) (cs : List (Call R)) :
    (steps fuel s cs).emitter = emitterAfter s.emitter cs := by
  induction cs generalizing s with
  | nil => rfl
  | cons c cs ih =>
    simp only [steps]
    rw [ih]
    cases c with
    | on a i h => rfl
    | off a i =>
      simp only [step, emitterAfter]
      cases s.emitter.off a i <;> rfl
    | clear => rfl
    | exec root =>
      simp only [step, emitterAfter]
      cases hx : exec s.emitter.table fuel s.stacks root with
      | mk st res => cases res <;> rfl

end

end Tranp.Procedure
