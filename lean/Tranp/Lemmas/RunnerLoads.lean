/-
  Lemmas for Tranp/Model/RunnerLoads.lean (property C06): the runner model's `json.dumps` printer is the printer of the JSON
  codec (Model/JsonCodec.lean), hence the codec's parser — behind the skipped leading blank — decodes every header the runner
  writes: `loads_dumps`. With it `LoadsSound` (Lemmas/Runner.lean) is a theorem for `Env.loads = loadsCodec`.
-/
import Tranp.Model.RunnerLoads
import Tranp.Lemmas.Runner
import Tranp.Lemmas.JsonCodec

namespace Tranp.Runner
open Tranp

theorem u4_eq (n : Nat) : u4 n = Lark.uEsc n := rfl

theorem toNat_eq_iff (c : Char) (n : Nat) (hn : (Char.ofNat n).toNat = n) : c.toNat = n ↔ c = Char.ofNat n := by
  constructor
  · intro h
    have := Char.ofNat_toNat c
    rw [h] at this
    exact this.symm
  · intro h
    rw [h]; exact hn

theorem escChar_eq (c : Char) : escChar c = Lark.escapeChar c := by
  have h8 : c.toNat = 8 ↔ c = '\x08' := toNat_eq_iff c 8 (by decide)
  have h12 : c.toNat = 12 ↔ c = '\x0c' := toNat_eq_iff c 12 (by decide)
  unfold escChar Lark.escapeChar
  simp only [h8, h12, u4_eq]

theorem dumpStr_eq (s : Str) : dumpStr s = Lark.printStr s := by
  unfold dumpStr Lark.printStr
  congr 2
  induction s with
  | nil => rfl
  | cons c cs ih => simp only [List.flatMap_cons, Lark.escapeStr, escChar_eq, ih]

mutual
  theorem dumps_eq : (j : Json) → dumps j = Lark.printJson (toLark j)
    | .null => by simp only [dumps, toLark, Lark.printJson]
    | .bool true => by simp only [dumps, toLark, Lark.printJson]
    | .bool false => by simp only [dumps, toLark, Lark.printJson]
    | .num i => by simp only [dumps, toLark, Lark.printJson]
    | .str s => by simp only [dumps, toLark, Lark.printJson, dumpStr_eq]
    | .arr [] => by simp only [dumps, toLark, toLarkList, Lark.printJson]
    | .arr (x :: xs) => by
      simp only [dumps, toLark, toLarkList, Lark.printJson, dumps_eq x, dumpsTail_eq xs]
    | .obj [] => by simp only [dumps, toLark, toLarkKvs, Lark.printJson]
    | .obj ((k, v) :: kvs) => by
      simp only [dumps, toLark, toLarkKvs, Lark.printJson, dumpStr_eq, dumps_eq v, dumpsKvTail_eq kvs]
  theorem dumpsTail_eq : (xs : List Json) → dumpsTail xs ++ [']'] = Lark.printItems (toLarkList xs)
    | [] => by simp only [dumpsTail, toLarkList, Lark.printItems, List.nil_append]
    | x :: xs => by
      simp only [dumpsTail, toLarkList, Lark.printItems, List.cons_append, List.append_assoc, dumps_eq x, dumpsTail_eq xs]
  theorem dumpsKvTail_eq : (kvs : List (Str × Json)) → dumpsKvTail kvs ++ ['}'] = Lark.printMembers (toLarkKvs kvs)
    | [] => by simp only [dumpsKvTail, toLarkKvs, Lark.printMembers, List.nil_append]
    | (k, v) :: kvs => by
      simp only [dumpsKvTail, toLarkKvs, Lark.printMembers, List.cons_append, List.append_assoc, dumpStr_eq, dumps_eq v, dumpsKvTail_eq kvs]
end

mutual
  theorem ofLark_toLark : (j : Json) → ofLark (toLark j) = j
    | .null => rfl
    | .bool _ => rfl
    | .num _ => rfl
    | .str _ => rfl
    | .arr xs => by simp only [toLark, ofLark, ofLarkList_toLarkList xs]
    | .obj kvs => by simp only [toLark, ofLark, ofLarkKvs_toLarkKvs kvs]
  theorem ofLarkList_toLarkList : (xs : List Json) → ofLarkList (toLarkList xs) = xs
    | [] => rfl
    | x :: xs => by simp only [toLarkList, ofLarkList, ofLark_toLark x, ofLarkList_toLarkList xs]
  theorem ofLarkKvs_toLarkKvs : (kvs : List (Str × Json)) → ofLarkKvs (toLarkKvs kvs) = kvs
    | [] => rfl
    | (k, v) :: kvs => by simp only [toLarkKvs, ofLarkKvs, ofLark_toLark v, ofLarkKvs_toLarkKvs kvs]
end

/-- a printed value starts with a character that is not JSON white space -/
theorem printJson_head_notWs (j : Lark.Json) : ∃ c t, Lark.printJson j = c :: t ∧ isJsonWs c = false := by
  cases j with
  | null => exact ⟨_, _, rfl, by decide⟩
  | bool b => cases b <;> exact ⟨_, _, rfl, by decide⟩
  | num i =>
    obtain ⟨c, t, h, hc⟩ := Lark.intToDec_cons i
    refine ⟨c, t, by simp [Lark.printJson, h], ?_⟩
    rcases hc with hc | rfl
    · cases hw : isJsonWs c with
      | false => rfl
      | true =>
        exfalso
        simp only [isJsonWs, Bool.or_eq_true, beq_iff_eq] at hw
        rcases hw with ((rfl | rfl) | rfl) | rfl <;> simp [Lark.isDigit, Str.decVal] at hc
    · decide
  | str s => exact ⟨'"', _, rfl, by decide⟩
  | arr xs => cases xs <;> exact ⟨'[', _, rfl, by decide⟩
  | obj kvs =>
    cases kvs with
    | nil => exact ⟨'{', _, rfl, by decide⟩
    | cons kv r => obtain ⟨k, v⟩ := kv; exact ⟨'{', _, rfl, by decide⟩

/-- **`json.loads` decodes what `json.dumps` wrote**, behind any run of leading blanks — for every JSON value of the model. -/
theorem loads_dumps (j : Json) : loadsCodec (' ' :: dumps j) = .ok j := by
  unfold loadsCodec
  have hd : dropWs (' ' :: dumps j) = Lark.printJson (toLark j) := by
    rw [dumps_eq]
    obtain ⟨c, t, h, hc⟩ := printJson_head_notWs (toLark j)
    rw [h]
    have h1 : isJsonWs ' ' = true := by decide
    simp [dropWs, h1, hc]
  simp only [hd, Lark.parseJson_printJson, ofLark_toLark]

/-- … hence `LoadsSound` holds for every environment whose decoder is this one: all module lists, all versions. -/
theorem loadsSound_codec {σ : Type} (E : Env σ) (hE : E.loads = loadsCodec) (mods : List Str) (vs : List Vers) : LoadsSound E mods vs := by
  intro v _ s m _
  rw [hE]
  exact loads_dumps _

end Tranp.Runner
