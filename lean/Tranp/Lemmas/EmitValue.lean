/-
  Lemmas for the second observation point of C17 (Tranp/Model/EmitValue.lean): printing an int and reading the decimal text
  back is the identity; the text `emitValue` produces denotes CPython's value of the member.
-/
import Tranp.Lemmas.Evaluator
import Tranp.Model.EmitValue

namespace Tranp.Evaluator
open Tranp Tranp.Generated.RelayLiteralize

variable {F : Type}

/-! ## `str(int)` read back -/

theorem decVal_digit : ∀ d, d < 10 → Str.decVal (Str.digitChar d) = some d := by decide
theorem digit_ne_minus : ∀ d, d < 10 → Str.digitChar d ≠ '-' := by decide

theorem decFold_natDigits : ∀ (fuel n : Nat) (acc : Str), n < 10 ^ fuel → 1 ≤ fuel →
    ∃ k, ∀ a, Str.decFold a (natDigits fuel n acc) = Str.decFold (a * 10 ^ k + n) acc := by
  intro fuel
  induction fuel with
  | zero => intro n acc _ h; omega
  | succ f ih =>
    intro n acc hn _
    by_cases hlt : n < 10
    · refine ⟨1, fun a => ?_⟩
      simp [natDigits, hlt, Str.decFold, decVal_digit n hlt]
    · have hf : 1 ≤ f := by
        rcases Nat.eq_zero_or_pos f with h0 | h0
        · subst h0; simp at hn; omega
        · exact h0
      have hdiv : n / 10 < 10 ^ f := by
        rw [Nat.pow_succ] at hn
        exact Nat.div_lt_of_lt_mul (by rw [Nat.mul_comm]; exact hn)
      obtain ⟨k, hk⟩ := ih (n / 10) (Str.digitChar (n % 10) :: acc) hdiv hf
      refine ⟨k + 1, fun a => ?_⟩
      have hm : n % 10 < 10 := Nat.mod_lt _ (by decide)
      simp only [natDigits, hlt, if_false]
      rw [hk a]
      simp only [Str.decFold, decVal_digit _ hm]
      congr 1
      rw [Nat.pow_succ]
      have := Nat.div_add_mod n 10
      rw [Nat.add_mul, Nat.mul_assoc]
      omega

theorem natDigits_head : ∀ (fuel n : Nat) (acc : Str), 1 ≤ fuel → ∃ d cs, d < 10 ∧ natDigits fuel n acc = Str.digitChar d :: cs := by
  intro fuel
  induction fuel with
  | zero => intro n acc h; omega
  | succ f ih =>
    intro n acc _
    by_cases hlt : n < 10
    · exact ⟨n, acc, hlt, by simp [natDigits, hlt]⟩
    · simp only [natDigits, hlt, if_false]
      rcases Nat.eq_zero_or_pos f with h0 | h0
      · subst h0
        exact ⟨n % 10, acc, Nat.mod_lt _ (by decide), by simp [natDigits]⟩
      · exact ih (n / 10) _ h0

theorem decToNat_showNat (n : Nat) : Str.decToNat? (showNat n) = some n := by
  unfold showNat
  have hfuel : n < 10 ^ (n.log2 + 1) := by
    have h1 : n < 2 ^ (n.log2 + 1) := Nat.lt_log2_self
    exact Nat.lt_of_lt_of_le h1 (Nat.pow_le_pow_left (by decide) _)
  obtain ⟨k, hk⟩ := decFold_natDigits (n.log2 + 1) n [] hfuel (by omega)
  obtain ⟨d, cs, _, hcs⟩ := natDigits_head (n.log2 + 1) n [] (by omega)
  rw [hcs]
  simp only [Str.decToNat?]
  rw [← hcs, hk 0]
  simp [Str.decFold]

theorem decToInt_showInt (i : Int) : Str.decToInt? (showInt i) = some i := by
  unfold showInt
  split
  · rename_i hneg
    have : -(i.natAbs : Int) = i := by omega
    simp [Str.decToInt?, decToNat_showNat, this]
  · rename_i hpos
    obtain ⟨d, cs, hd, hcs⟩ := natDigits_head (i.natAbs.log2 + 1) i.natAbs [] (by omega)
    have h := decToNat_showNat i.natAbs
    unfold showNat at h ⊢
    rw [hcs] at h ⊢
    have hne := digit_ne_minus d hd
    unfold Str.decToInt?
    split
    · rename_i heq; injection heq with h1 _; exact absurd h1 hne
    · have : (i.natAbs : Int) = i := by omega
      simp [h, this]

/-! ## the emitted text -/

theorem denotes_str_inv (ops : FloatOps F) {t c : Str} (h : Denotes ops t (.str c)) :
    t = '"' :: (c ++ ['"']) ∧ c.contains '"' = false := by
  generalize hv : (V.str c : V F) = v at h
  cases h <;> first | cases hv | skip
  rename_i hc
  exact ⟨rfl, hc⟩

/-- parenthesising a negative number keeps what the text denotes -/
theorem denotes_wrap_int (ops : FloatOps F) {t : Str} {n : Int} (h : Denotes ops t (.int n)) :
    Denotes ops (if Str.startsWith t ['-'] then '(' :: (t ++ [')']) else t) (.int n) := by
  split
  · exact Denotes.parenInt h
  · exact h

theorem denotes_wrap_float (ops : FloatOps F) {t : Str} {x : F} (h : Denotes ops t (.float x)) :
    Denotes ops (if Str.startsWith t ['-'] then '(' :: (t ++ [')']) else t) (.float x) := by
  split
  · exact Denotes.parenFloat h
  · exact h

theorem pyIntLit_py {m : Mode} {tok : Str} {n : Int} (h : pyIntLit m tok = .ok n) : pyIntLit .py tok = .ok n := by
  unfold pyIntLit at h ⊢
  split at h
  · split at h
    · cases h
    · simpa [Mode.py] using h
  · cases h

/-- a folded value printed by `str(...)` (py2cpp.py:847), wrapped and rendered, denotes the CPython value it is similar to -/
theorem emit_of_sim (m : Mode) (hne : m.noEsc = true) (ops : FloatOps F) (ti : TyInfo) {v v' : V F} (hs : Sim m v v') (hfit : ti.fits v')
    (hdq : ∀ c, v' = .str c → c.contains '"' = false) :
    Denotes ops (renderLiteralize ti.varType
      (if ti.isStr then unq (if !ti.isStr && Str.startsWith (pyStrOf ops v) ['-'] then '(' :: (pyStrOf ops v ++ [')']) else pyStrOf ops v)
       else (if !ti.isStr && Str.startsWith (pyStrOf ops v) ['-'] then '(' :: (pyStrOf ops v ++ [')']) else pyStrOf ops v))) v' := by
  cases hs with
  | int n =>
    obtain ⟨h1, h2⟩ := hfit
    simp only [renderLiteralize, h1, h2, pyStrOf, Bool.not_false, Bool.true_and, if_true, Bool.false_eq_true, if_false]
    exact denotes_wrap_int ops (Denotes.dec (decToInt_showInt n))
  | float x =>
    obtain ⟨h1, h2⟩ := hfit
    simp only [renderLiteralize, h1, h2, pyStrOf, Bool.not_false, Bool.true_and, if_true, Bool.false_eq_true, if_false]
    exact denotes_wrap_float ops (Denotes.floatStr x)
  | str hq hd hn =>
    obtain ⟨h1, h2⟩ := hfit
    have hid := decode_id (hn hne)
    rw [hd] at hid
    simp only [renderLiteralize, h1, h2, pyStrOf, Bool.not_true, Bool.false_and, Bool.false_eq_true, if_false, if_true, quoted_unq hq, quote]
    rw [← hid]
    exact Denotes.str _ (hdq _ rfl)

/-- the core: whenever CPython evaluates the member value to `v'` and the type answer fits `v'`, the emitted text denotes `v'`
    or `emitValue` fails with an error of class `R` — in a mode without escaped string tokens (`noEsc`: the C++ reader of the text is
    not modelled beyond plain contents). A string value must not contain a double quote (the template does not escape it). -/
theorem emit_core (m : Mode) (ops : FloatOps F) (env : Env) (R : Err → Prop)
    (hR : ∀ er, Refusal er → R er) (h4 : m.lowerHex = false → R (.fatal .valueError)) (hne : m.noEsc = true)
    (hts : ∀ x, (ops.toStr x).contains '\\' = false)
    (hparse : ∀ s, s.contains '\\' = true → ops.parse s = .error .valueError)
    (fuel : Nat) (mem : Member) (ti : TyInfo) (venv : VEnv F) (v' : V F)
    (hty : mem.ty = .ok ti) (hfit : ti.fits v') (hq : ∀ c, v' = .str c → c.contains '"' = false)
    (hc : Cons m ops env venv) (hp : evalPy m ops env.known venv (toPy mem.value) = .ok v') :
    match emitValue ops env fuel mem with
    | .ok text => Denotes ops text v'
    | .error er => R er := by
  obtain ⟨value, ty⟩ := mem
  simp only at hty hp
  subst hty
  have hfold : ∀ e, e = value → (∀ tok, e ≠ .integer tok) → (∀ tok, e ≠ .float tok) →
      literalOf ops env fuel e = (execImpl ops env fuel e).map (pyStrOf ops) := by
    intro e _ h1 h2
    cases e <;> first | rfl | (exfalso; first | exact h1 _ rfl | exact h2 _ rfl)
  cases value with
  | integer tok =>
    simp only [toPy, evalPy] at hp
    obtain ⟨n, hn, rfl⟩ := map_ok_inv' hp
    obtain ⟨h1, h2⟩ := hfit
    simp only [emitValue, literalOf, bind, Except.bind, pure, Except.pure, renderLiteralize, h1, h2, Bool.not_false, Bool.true_and,
      if_true, Bool.false_eq_true, if_false]
    exact denotes_wrap_int ops (Denotes.intTok (pyIntLit_py hn))
  | float tok =>
    simp only [toPy, evalPy] at hp
    obtain ⟨x, hx, rfl⟩ := map_ok_inv' hp
    obtain ⟨h1, h2⟩ := hfit
    simp only [emitValue, literalOf, bind, Except.bind, pure, Except.pure, renderLiteralize, h1, h2, Bool.not_false, Bool.true_and,
      if_true, Bool.false_eq_true, if_false]
    exact denotes_wrap_float ops (Denotes.floatTok hx)
  | string _ | factor _ _ | chain _ _ _ | group _ | call _ _ | var _ _ | value _ _ _ =>
    have hg := sound_core m ops env R hR h4 (by intro h; rw [hne] at h; cases h) hts hparse fuel _ venv v' hc hp
    simp only [emitValue]
    rw [hfold _ rfl (by intro t h; cases h) (by intro t h; cases h)]
    cases hx : execImpl ops env fuel _ with
    | error er => rw [hx] at hg; exact hg
    | ok v =>
      rw [hx] at hg
      simp only [Except.map, bind, Except.bind, pure, Except.pure]
      exact emit_of_sim m hne ops ti hg hfit hq

end Tranp.Evaluator
