/-
  Simulation proof for `C01.stmt_agree` (Tranp.Model.EmitStmt): Python's single function-level store against C++'s block frames.
-/
import Tranp.Model.EmitStmt
import Tranp.Lemmas.Emit
import Tranp.Lemmas.EmitSem

namespace Tranp.Emit
open Tranp Tranp.Prec

/-! ## stores and frames -/

theorem Store.get_put_same (σ : Store) (v : Var) (i : Int) : (σ.put v i).get v = some i := by simp [Store.put, Store.get]

theorem Store.get_filter_ne (σ : Store) (v w : Var) (h : w ≠ v) : Store.get (σ.filter fun p => p.1 != v) w = Store.get σ w := by
  induction σ with
  | nil => rfl
  | cons p rest ih =>
    obtain ⟨a, b⟩ := p
    rw [List.filter_cons]
    by_cases ha : a = v
    · subst ha
      have hne : ¬ a = w := fun e => h e.symm
      simp only [bne_self_eq_false, Bool.false_eq_true, ↓reduceIte, ih, Store.get, hne]
    · have hb : (a != v) = true := by simpa using ha
      simp only [hb, ↓reduceIte, Store.get, ih]

theorem Store.get_put_ne (σ : Store) (v w : Var) (i : Int) (h : w ≠ v) : (σ.put v i).get w = σ.get w := by
  have : ¬ v = w := fun e => h e.symm
  simp [Store.put, Store.get, this, Store.get_filter_ne σ v w h]

/-- frame `f` (names) describes store `st` -/
def frameOK (f : List Var) (st : Store) : Prop := ∀ v, f.contains v = (st.get v).isSome

inductive Shape : VStack → Frames → Prop where
  | nil : Shape [] []
  | cons {f : List Var} {st : Store} {vs : VStack} {fs : Frames} : frameOK f st → Shape vs fs → Shape (f :: vs) (st :: fs)

theorem Shape.visible_iff {vs : VStack} {fs : Frames} (h : Shape vs fs) (v : Var) : visible vs v = (fs.get v).isSome := by
  induction h with
  | nil => rfl
  | @cons f st vs fs hf _ ih =>
    simp only [visible, Frames.get, hf v]
    cases hst : st.get v with
    | some i => rfl
    | none => simpa using ih

/-- no name is in two open blocks -/
def Disjoint : VStack → Prop
  | [] => True
  | f :: rest => (∀ v, f.contains v = true → visible rest v = false) ∧ Disjoint rest

/-- the C++ frames hold Python's values of all visible names -/
def AgreeVal (σ : Store) (fs : Frames) : Prop := ∀ v i, fs.get v = some i → σ.get v = some i

structure Inv (vs : VStack) (σ : Store) (fs : Frames) : Prop where
  shape : Shape vs fs
  disj : Disjoint vs
  agree : AgreeVal σ fs

theorem Inv.push {vs : VStack} {σ : Store} {fs : Frames} (h : Inv vs σ fs) : Inv ([] :: vs) σ ([] :: fs) :=
  ⟨.cons (fun _ => rfl) h.shape, ⟨fun _ hv => by simp at hv, h.disj⟩, fun v i hg => h.agree v i (by simpa [Frames.get, Store.get] using hg)⟩

theorem frameOK_put {f : List Var} {st : Store} (h : frameOK f st) {v : Var} (hv : (st.get v).isSome = true) (i : Int) : frameOK f (st.put v i) := by
  intro w
  by_cases hw : w = v
  · subst hw; rw [Store.get_put_same, h w, hv]; rfl
  · rw [Store.get_put_ne _ _ _ _ hw, h w]

/-- `v = i;` on a visible name: succeeds, keeps the shape, and the frames still hold Python's values after Python's rebinding -/
theorem Inv.set {vs : VStack} {σ : Store} {fs : Frames} (h : Inv vs σ fs) {v : Var} (hv : visible vs v = true) (i : Int) :
    ∃ fs', fs.set v i = some fs' ∧ Inv vs (σ.put v i) fs' := by
  obtain ⟨hs, hd, ha⟩ := h
  induction hs generalizing σ with
  | nil => simp [visible] at hv
  | @cons f st vs fs hf hsh ih =>
    cases hst : (st.get v).isSome with
    | true =>
      refine ⟨st.put v i :: fs, by simp [Frames.set, hst], .cons (frameOK_put hf hst i) hsh, hd, ?_⟩
      intro w j hg
      by_cases hw : w = v
      · subst hw
        simp only [Frames.get, Store.get_put_same, Option.some.injEq] at hg
        subst hg; exact Store.get_put_same σ w i
      · rw [Store.get_put_ne _ _ _ _ hw]
        apply ha w j
        simpa [Frames.get, Store.get_put_ne _ _ _ _ hw] using hg
    | false =>
      have hvf : f.contains v = false := by rw [hf v, hst]
      have hv' : visible vs v = true := by simpa only [visible, hvf, Bool.false_or] using hv
      have hnone : st.get v = none := by cases h : st.get v <;> simp_all
      obtain ⟨fs', hset, hinv⟩ := ih (σ := σ) hv' hd.2 (fun w j hg => by
        apply ha w j
        simp only [Frames.get]
        cases hw : st.get w with
        | none => exact hg
        | some k =>
          exfalso
          have h1 : f.contains w = true := by rw [hf w, hw]; rfl
          have h2 := hd.1 w h1
          rw [hsh.visible_iff w, hg] at h2
          cases h2)
      refine ⟨st :: fs', by simp [Frames.set, hst, hset], .cons hf hinv.shape, ⟨hd.1, hinv.disj⟩, ?_⟩
      intro w j hg
      simp only [Frames.get] at hg
      cases hw : st.get w with
      | some k =>
        rw [hw] at hg
        simp only [Option.some.injEq] at hg; subst hg
        have hne : w ≠ v := by intro e; subst e; rw [hnone] at hw; cases hw
        rw [Store.get_put_ne _ _ _ _ hne]
        exact ha w k (by simp [Frames.get, hw])
      | none =>
        rw [hw] at hg
        exact hinv.agree w j hg

theorem Store.get_cons (v w : Var) (i : Int) (st : Store) : Store.get ((v, i) :: st) w = if v = w then some i else st.get w := rfl

/-- `T v = i;` for a name that is not visible -/
theorem Inv.decl {vs : VStack} {σ : Store} {fs : Frames} (h : Inv vs σ fs) {v : Var} (hv : visible vs v = false) (i : Int) :
    Inv (declTop vs v) (σ.put v i) (fs.decl v i) := by
  obtain ⟨hs, hd, ha⟩ := h
  cases hs with
  | nil =>
    refine ⟨.cons (fun w => ?_) .nil, ⟨fun _ _ => rfl, trivial⟩, fun w j hg => ?_⟩
    · rw [Store.get_cons]
      by_cases hw : v = w
      · subst hw; simp
      · have : ¬ w = v := fun e => hw e.symm
        simp [hw, this, Store.get]
    · simp only [Frames.decl, Frames.get, Store.get_cons] at hg
      by_cases hw : v = w
      · subst hw
        simp only [↓reduceIte, Option.some.injEq] at hg
        subst hg; exact Store.get_put_same σ v i
      · simp [hw, Store.get] at hg
  | @cons f st vs fs hf hsh =>
    simp only [visible, Bool.or_eq_false_iff] at hv
    refine ⟨.cons (fun w => ?_) hsh, ⟨fun w hw => ?_, hd.2⟩, fun w j hg => ?_⟩
    · rw [Store.get_cons]
      by_cases hw : v = w
      · subst hw; simp
      · have : ¬ w = v := fun e => hw e.symm
        simp only [hw, ↓reduceIte, ← hf w, List.contains_cons, this, beq_iff_eq, Bool.false_or]
        simp [this]
    · by_cases hwv : w = v
      · subst hwv; exact hv.2
      · have : (w == v) = false := by simpa using hwv
        exact hd.1 w (by simpa only [List.contains_cons, this, Bool.false_or] using hw)
    · simp only [Frames.decl, Frames.get, Store.get_cons] at hg
      by_cases hw : v = w
      · subst hw
        simp only [↓reduceIte, Option.some.injEq] at hg
        subst hg; exact Store.get_put_same σ v i
      · simp only [hw, ↓reduceIte] at hg
        have hne : w ≠ v := fun e => hw e.symm
        rw [Store.get_put_ne _ _ _ _ hne]
        exact ha w j (by simpa only [Frames.get] using hg)

/-- the closing brace: the outer frames still hold Python's values (no shadowing) -/
theorem Inv.pop {f : List Var} {vs : VStack} {σ : Store} {fs : Frames} (h : Inv (f :: vs) σ fs) : Inv vs σ fs.tail := by
  obtain ⟨hs, hd, ha⟩ := h
  cases hs with
  | @cons f st vs fs' hf hsh =>
    refine ⟨hsh, hd.2, fun w j hg => ?_⟩
    apply ha w j
    simp only [Frames.get]
    cases hw : st.get w with
    | none => exact hg
    | some k =>
      exfalso
      have h1 : f.contains w = true := by rw [hf w, hw]; rfl
      have h2 := hd.1 w h1
      rw [hsh.visible_iff w] at h2
      simp only [List.tail_cons] at hg
      rw [hg] at h2; cases h2

/-! ## expressions: same value on both sides -/

mutual
theorem denotePy_congr (lits : Lits) (ρ ρ' : Env) (hl : ∀ id, (lits id).isSome = true → ρ id = ρ' id) :
    ∀ (e : Node), (∀ id ∈ readsOf lits e, ρ id = ρ' id) → denotePy ρ e = denotePy ρ' e
  | .atom id _, h => by
    have : ρ id = ρ' id := by
      cases hi : (lits id).isSome with
      | true => exact hl id hi
      | false => exact h id (by simp [readsOf, hi])
    simp only [denotePy, this]
  | .group e, h => by simpa [denotePy] using denotePy_congr lits ρ ρ' hl e (by simpa [readsOf] using h)
  | .factor op e, h => by simp only [denotePy, denotePy_congr lits ρ ρ' hl e (by simpa [readsOf] using h)]
  | .notCompare e, h => by simp only [denotePy, denotePy_congr lits ρ ρ' hl e (by simpa [readsOf] using h)]
  | .chain _ _ first rest, h => by
    simp only [readsOf, List.mem_append] at h
    simp only [denotePy, denotePy_congr lits ρ ρ' hl first (fun id hi => h id (Or.inl hi))]
    cases denotePy ρ' first with
    | error _ => rfl
    | ok v => exact denoteRest_congr lits ρ ρ' hl rest (fun id hi => h id (Or.inr hi)) v
  | .ternary p c s, h => by
    simp only [readsOf, List.mem_append] at h
    simp only [denotePy, denotePy_congr lits ρ ρ' hl c (fun id hi => h id (Or.inl (Or.inr hi))),
      denotePy_congr lits ρ ρ' hl p (fun id hi => h id (Or.inl (Or.inl hi))), denotePy_congr lits ρ ρ' hl s (fun id hi => h id (Or.inr hi))]
theorem denoteRest_congr (lits : Lits) (ρ ρ' : Env) (hl : ∀ id, (lits id).isSome = true → ρ id = ρ' id) :
    ∀ (rest : Rest), (∀ id ∈ readsOfRest lits rest, ρ id = ρ' id) → ∀ acc, denoteRest ρ acc rest = denoteRest ρ' acc rest
  | .nil, _, _ => rfl
  | .cons op d ty e rest, h, acc => by
    simp only [readsOfRest, List.mem_append] at h
    have he := denotePy_congr lits ρ ρ' hl e (fun id hi => h id (Or.inl hi))
    have hr := denoteRest_congr lits ρ ρ' hl rest (fun id hi => h id (Or.inr hi))
    cases op <;> simp only [denoteRest, he, hr]
end

/-- `group` + `sem` without the Props layer: the C++ reading of the emitted tokens evaluates to the Python value -/
theorem agree_core (n : Node) (ρ : Env) (v : Val) (hc : core n = true) (hw : wf n = true) (hf : cmpChainFree n = true)
    (hv : denotePy ρ n = .ok v) : ∃ e, parse cppOps (toks n) = some e ∧ denoteCpp ρ e = .ok v.repr := by
  refine ⟨cppExprL n, ?_, ?_⟩
  · have ht : toks n = print (cppExprL n) := by simp only [toks, emit, cppLex_emitRaw n hc hw, emit_print n hc]
    rw [ht]; exact parse_print_NF cppOps _ (nf_cpp n hc hw hf)
  · rw [← denoteCpp_strip, strip_cppExprL, denoteCpp_strip]
    exact sem_node ρ n v hc hv

theorem all_visible_get {vs : VStack} {fs : Frames} (hs : Shape vs fs) {l : List Var} (h : l.all (visible vs) = true) :
    (l.all fun v => (fs.get v).isSome) = true := by
  simp only [List.all_eq_true] at h ⊢
  intro v hv; rw [← hs.visible_iff v]; exact h v hv

theorem expr_agree (lits : Lits) {vs : VStack} {σ : Store} {fs : Frames} (hi : Inv vs σ fs) {e : Node} (he : exprOK lits vs e = true)
    {v : Val} (hv : pyExpr' lits σ e = .ok v) : cExpr lits fs e = .ok v.repr := by
  simp only [exprOK, Bool.and_eq_true] at he
  obtain ⟨⟨⟨hc, hw⟩, hf⟩, hr⟩ := he
  have hget := all_visible_get hi.shape hr
  simp only [pyExpr'] at hv
  split at hv
  · have hcongr : denotePy (cEnv lits fs) e = denotePy (pyEnv lits σ) e := by
      apply denotePy_congr lits
      · intro id hid
        cases hl : lits id with
        | none => simp [hl] at hid
        | some x => simp [cEnv, pyEnv, hl]
      · intro id hid
        simp only [List.all_eq_true] at hget
        have h1 := hget id hid
        cases hg : fs.get id with
        | none => rw [hg] at h1; cases h1
        | some i =>
          have := hi.agree id i hg
          cases hl : lits id <;> simp [cEnv, pyEnv, hl, hg, this]
    obtain ⟨t, hp, hd⟩ := agree_core e (cEnv lits fs) v hc hw hf (by rw [hcongr]; exact hv)
    simp only [cExpr, hget, ↓reduceIte, hp, hd]
  · cases hv

/-! ## statements: the simulation -/

def afterS (vs : VStack) : Stmt → VStack
  | .assign v _ _ => if visible vs v then vs else declTop vs v
  | _ => vs

def afterB : VStack → Block → VStack
  | vs, .nil => vs
  | vs, .cons s rest => afterB (afterS vs s) rest

theorem afterS_tail (f : List Var) (vs : VStack) (s : Stmt) : ∃ f', afterS (f :: vs) s = f' :: vs := by
  cases s with
  | assign v _ _ =>
    simp only [afterS]
    split
    · exact ⟨f, rfl⟩
    · exact ⟨v :: f, rfl⟩
  | ret _ => exact ⟨f, rfl⟩
  | aug _ _ _ _ => exact ⟨f, rfl⟩
  | ifs _ _ _ => exact ⟨f, rfl⟩
  | while_ _ _ => exact ⟨f, rfl⟩
  | forRange _ _ _ _ _ _ => exact ⟨f, rfl⟩
  | brk => exact ⟨f, rfl⟩
  | cont => exact ⟨f, rfl⟩

theorem afterB_tail : ∀ (b : Block) (f : List Var) (vs : VStack), ∃ f', afterB (f :: vs) b = f' :: vs
  | .nil, f, _ => ⟨f, rfl⟩
  | .cons s rest, f, vs => by
    obtain ⟨f1, h1⟩ := afterS_tail f vs s
    simp only [afterB, h1]
    exact afterB_tail rest f1 vs

/-- statements only ever change the innermost list of visible names -/
theorem afterS_tl (vs : VStack) (s : Stmt) : (afterS vs s).tail = vs.tail := by
  cases vs with
  | nil =>
    cases s <;> simp only [afterS] <;> try rfl
  | cons f vs => obtain ⟨f', h⟩ := afterS_tail f vs s; rw [h]; rfl

theorem afterB_tl : ∀ (b : Block) (vs : VStack), (afterB vs b).tail = vs.tail
  | .nil, _ => rfl
  | .cons s rest, vs => by simp only [afterB]; rw [afterB_tl rest, afterS_tl]

/-- the store an outcome carries on (none after `return`) -/
def Outcome.st {S : Type} : Outcome S → Option S
  | .normal s => some s
  | .broke s => some s
  | .continued s => some s
  | .returned _ => none

/-! ## for loops: what the body leaves alone -/

theorem pyExpr'_congr (lits : Lits) {σ σ' : Store} {e : Node} (h : ∀ x ∈ readsOf lits e, σ.get x = σ'.get x) :
    pyExpr' lits σ e = pyExpr' lits σ' e := by
  have hall : ((readsOf lits e).all fun v => (σ.get v).isSome) = ((readsOf lits e).all fun v => (σ'.get v).isSome) := by
    apply Bool.eq_iff_iff.mpr
    simp only [List.all_eq_true]
    exact ⟨fun g x hx => by rw [← h x hx]; exact g x hx, fun g x hx => by rw [h x hx]; exact g x hx⟩
  have hden : denotePy (pyEnv lits σ) e = denotePy (pyEnv lits σ') e := by
    apply denotePy_congr lits
    · intro id hid
      cases hl : lits id with
      | none => simp [hl] at hid
      | some x => simp [pyEnv, hl]
    · intro id hid
      simp only [pyEnv, h id hid]
  simp only [pyExpr', hall, hden]

theorem visible_mono (f : List Var) (vs : VStack) (v : Var) (h : visible vs v = true) : visible (f :: vs) v = true := by
  simp [visible, h]

theorem exprOK_mono (lits : Lits) (f : List Var) {vs : VStack} {e : Node} (h : exprOK lits vs e = true) : exprOK lits (f :: vs) e = true := by
  simp only [exprOK, Bool.and_eq_true, List.all_eq_true] at h ⊢
  exact ⟨h.1, fun x hx => visible_mono f vs x (h.2 x hx)⟩

theorem exprOK_not_reads (lits : Lits) {vs : VStack} {e : Node} {v : Var} (h : exprOK lits vs e = true) (hv : visible vs v = false) :
    v ∉ readsOf lits e := by
  simp only [exprOK, Bool.and_eq_true, List.all_eq_true] at h
  intro hmem
  rw [h.2 v hmem] at hv; cases hv

/-- Python: executing statements changes only the names they may write (whatever way the statements are left: normally, by
    `break` or by `continue`) -/
theorem py_preserve (lits : Lits) : ∀ fuel,
    (∀ σ b o σ', pyExec lits fuel σ b = .ok o → o.st = some σ' → ∀ x, x ∉ writes b → σ'.get x = σ.get x) ∧
    (∀ σ s o σ', pyStmt lits fuel σ s = .ok o → o.st = some σ' → ∀ x, x ∉ writes (.cons s .nil) → σ'.get x = σ.get x) ∧
    (∀ σ arms els o σ', pyArms lits fuel σ arms els = .ok o → o.st = some σ' → ∀ x, x ∉ writesArms arms ++ writes els → σ'.get x = σ.get x) ∧
    (∀ σ v cur stop step body o σ', pyFor lits fuel σ v cur stop step body = .ok o → o.st = some σ' → ∀ x, x ∉ v :: writes body → σ'.get x = σ.get x) := by
  intro fuel
  induction fuel with
  | zero =>
    refine ⟨?_, ?_, ?_, ?_⟩
    · intro σ b o σ' h; simp [pyExec] at h
    · intro σ s o σ' h; simp [pyStmt] at h
    · intro σ arms els o σ' h; simp [pyArms] at h
    · intro σ v cur stop step body o σ' h; simp [pyFor] at h
  | succ fuel ih =>
    obtain ⟨ihB, ihS, ihA, ihF⟩ := ih
    refine ⟨?_, ?_, ?_, ?_⟩
    · intro σ b o σ' h hst x hx
      cases b with
      | nil => simp only [pyExec] at h; cases h; cases hst; rfl
      | cons s rest =>
        simp only [pyExec] at h
        have hx1 : x ∉ writes (.cons s .nil) ∧ x ∉ writes rest := by
          cases s <;> simp_all [writes]
        cases hs : pyStmt lits fuel σ s with
        | error er => rw [hs] at h; cases h
        | ok o1 =>
          rw [hs] at h
          cases o1 with
          | returned r => cases h; cases hst
          | normal σ1 =>
            simp only at h
            rw [ihB σ1 rest o σ' h hst x hx1.2, ihS σ s _ σ1 hs rfl x hx1.1]
          | broke σ1 => cases h; cases hst; exact ihS σ s _ _ hs rfl x hx1.1
          | continued σ1 => cases h; cases hst; exact ihS σ s _ _ hs rfl x hx1.1
    · intro σ s o σ' h hst x hx
      cases s with
      | assign v name e =>
        simp only [pyStmt] at h
        cases he : pyExpr' lits σ e with
        | error er => rw [he] at h; cases h
        | ok val =>
          rw [he] at h
          cases val with
          | bool b => cases h
          | int i =>
            cases h; cases hst
            have : x ≠ v := by simp [writes] at hx; exact hx
            exact Store.get_put_ne σ v x i this
      | ret e =>
        simp only [pyStmt] at h
        cases he : pyExpr' lits σ e <;> rw [he] at h <;> cases h
        cases hst
      | aug v name op e =>
        simp only [pyStmt] at h
        have hne : x ≠ v := by simp [writes] at hx; exact hx
        split at h
        · split at h
          · cases h; cases hst; exact Store.get_put_ne σ v x _ hne
          · cases h
        · cases h
      | ifs arms he els =>
        simp only [pyStmt] at h
        exact ihA σ arms els o σ' h hst x (by simpa [writes] using hx)
      | while_ c body =>
        simp only [pyStmt] at h
        have hxb : x ∉ writes body := by simpa [writes] using hx
        cases hc : pyExpr' lits σ c with
        | error er => rw [hc] at h; cases h
        | ok val =>
          rw [hc] at h
          cases val with
          | int i => cases h
          | bool b =>
            cases b with
            | false => cases h; cases hst; rfl
            | true =>
              simp only at h
              cases hb : pyExec lits fuel σ body with
              | error er => rw [hb] at h; cases h
              | ok ob =>
                rw [hb] at h
                cases ob with
                | returned r => cases h; cases hst
                | normal σ1 =>
                  simp only at h
                  rw [ihS σ1 (.while_ c body) o σ' h hst x hx, ihB σ body _ σ1 hb rfl x hxb]
                | continued σ1 =>
                  simp only at h
                  rw [ihS σ1 (.while_ c body) o σ' h hst x hx, ihB σ body _ σ1 hb rfl x hxb]
                | broke σ1 => cases h; cases hst; exact ihB σ body _ _ hb rfl x hxb
      | forRange v name b0 s0 t0 body =>
        simp only [pyStmt] at h
        cases hb : pyExpr' lits σ b0 with
        | error er => rw [hb] at h; cases h
        | ok vb =>
          cases hs : pyExpr' lits σ s0 with
          | error er => rw [hb, hs] at h; cases vb <;> cases h
          | ok vs0 =>
            cases ht : pyExpr' lits σ t0 with
            | error er => rw [hb, hs, ht] at h; cases vb <;> cases vs0 <;> cases h
            | ok vt =>
              rw [hb, hs, ht] at h
              cases vb <;> cases vs0 <;> cases vt <;> try (cases h)
              simp only at h
              split at h
              · exact ihF σ v _ _ _ body o σ' h hst x (by simpa [writes] using hx)
              · cases h
      | brk => simp only [pyStmt] at h; cases h; cases hst; rfl
      | cont => simp only [pyStmt] at h; cases h; cases hst; rfl
    · intro σ arms els o σ' h hst x hx
      cases arms with
      | one c b =>
        simp only [pyArms] at h
        cases hc : pyExpr' lits σ c with
        | error er => rw [hc] at h; cases h
        | ok val =>
          rw [hc] at h
          cases val with
          | int i => cases h
          | bool bb =>
            simp only [writesArms, List.mem_append, not_or] at hx
            cases bb with
            | true => exact ihB σ b o σ' h hst x hx.1
            | false => exact ihB σ els o σ' h hst x hx.2
      | more c b rest =>
        simp only [pyArms] at h
        cases hc : pyExpr' lits σ c with
        | error er => rw [hc] at h; cases h
        | ok val =>
          rw [hc] at h
          cases val with
          | int i => cases h
          | bool bb =>
            simp only [writesArms, List.mem_append, not_or] at hx
            cases bb with
            | true => exact ihB σ b o σ' h hst x hx.1.1
            | false => exact ihA σ rest els o σ' h hst x (by simp [hx.1.2, hx.2])
    · intro σ v cur stop step body o σ' h hst x hx
      simp only [pyFor] at h
      simp only [List.mem_cons, not_or] at hx
      split at h
      · split at h
        · cases hb : pyExec lits fuel (σ.put v cur) body with
          | error er => rw [hb] at h; cases h
          | ok ob =>
            rw [hb] at h
            cases ob with
            | returned r => cases h; cases hst
            | normal σ1 =>
              simp only at h
              rw [ihF σ1 v _ stop step body o σ' h hst x (by simp [hx.1, hx.2]), ihB _ body _ σ1 hb rfl x hx.2]
              exact Store.get_put_ne σ v x cur hx.1
            | continued σ1 =>
              simp only at h
              rw [ihF σ1 v _ stop step body o σ' h hst x (by simp [hx.1, hx.2]), ihB _ body _ σ1 hb rfl x hx.2]
              exact Store.get_put_ne σ v x cur hx.1
            | broke σ1 =>
              cases h; cases hst
              rw [ihB _ body _ _ hb rfl x hx.2]
              exact Store.get_put_ne σ v x cur hx.1
        · cases h
      · cases h; cases hst; rfl

/-! ## the loop test: the pasted text is the operator node when no guard is due -/

theorem condPieces_eq : condPieces = [.var sSymbol, .sp, .tok ['<'], .sp, .var sSize] := by decide

theorem pastedCond_eq (v : Var) (name : Str) (s0 : Node) (h : isRegrouped s0 BOp.lt.tok = false) :
    pastedCond v name s0 = emitRaw (condNode v name s0) := by
  have hraw := renderBinary_raw .lt false .int .int [.t (.atom v name)] (emitRaw s0) ['<'] rfl rfl
  have hl : pastedCond v name s0 = [.t (.atom v name)] ++ (.sp :: .t (.sym ['<']) :: .sp :: emitRaw s0) := by
    simp only [pastedCond, condPieces_eq]
    show _ = _
    simp [instantiate, lookup, sSymbol, sSize]
  rw [hl, ← hraw]
  have ha : ∀ o, isRegrouped (.atom v name) o = false := fun _ => rfl
  simp only [condNode, emitRaw, Rest.firstTok, emitRest, guardIf, h, ha, Bool.false_eq_true, ↓reduceIte]

theorem cCond_eq (lits : Lits) (fs : Frames) (v : Var) (name : Str) (s0 : Node) (hl : lits v = none)
    (h : isRegrouped s0 BOp.lt.tok = false) : cCond lits fs v name s0 = cExpr lits fs (condNode v name s0) := by
  have hr : readsOf lits (condNode v name s0) = v :: readsOf lits s0 := by
    simp [condNode, readsOf, readsOfRest, hl]
  simp only [cCond, cExpr, toks, emit, pastedCond_eq v name s0 h, hr]

/-- Python's value of the comparison the loop test stands for -/
theorem pyCond (lits : Lits) {σ : Store} {v : Var} {name : Str} {s0 : Node} {cur si : Int} (hl : lits v = none)
    (hv : σ.get v = some cur) (h32 : inI32 cur = true) (hs : pyExpr' lits σ s0 = .ok (.int si)) :
    pyExpr' lits σ (condNode v name s0) = .ok (.bool (decide (cur < si))) := by
  simp only [pyExpr'] at hs ⊢
  split at hs
  · rename_i hall
    have hall' : ((readsOf lits (condNode v name s0)).all fun x => (σ.get x).isSome) = true := by
      simp only [List.all_eq_true] at hall ⊢
      intro x hx
      have : x = v ∨ x ∈ readsOf lits s0 := by simpa [condNode, readsOf, readsOfRest, hl] using hx
      rcases this with rfl | h
      · simp [hv]
      · exact hall x h
    rw [if_pos hall']
    simp only [condNode, denotePy, pyEnv, hl, hv, Option.getD_some, chk, h32, ↓reduceIte, denoteRest, hs]
    simp [pyBin, pyCmp, Val.repr, BOp.level, cmpLevel]
    exact decide_eq_decide.mpr Iff.rfl
  · cases hs

/-- outcomes correspond: same returned value, or stores in the invariant at the resulting stack of visible names; a `break` /
    `continue` on its way out of the current block: in the invariant at SOME innermost list of names over the same enclosing blocks -/
def RelOut (vs' : VStack) : Outcome Store → Outcome Frames → Prop
  | .normal σ', .normal fs' => Inv vs' σ' fs'
  | .returned a, .returned b => a = b
  | .broke σ', .broke fs' => ∃ vs'', vs''.tail = vs'.tail ∧ Inv vs'' σ' fs'
  | .continued σ', .continued fs' => ∃ vs'', vs''.tail = vs'.tail ∧ Inv vs'' σ' fs'
  | _, _ => False

/-- after the closing brace: exactly the enclosing stack again, whichever way the block was left -/
def RelOutX (vs : VStack) : Outcome Store → Outcome Frames → Prop
  | .normal σ', .normal fs' => Inv vs σ' fs'
  | .returned a, .returned b => a = b
  | .broke σ', .broke fs' => Inv vs σ' fs'
  | .continued σ', .continued fs' => Inv vs σ' fs'
  | _, _ => False

theorem RelOutX.weaken {vs : VStack} {o : Outcome Store} {o' : Outcome Frames} (h : RelOutX vs o o') : RelOut vs o o' := by
  cases o <;> cases o' <;> first | exact h | exact ⟨vs, rfl, h⟩

theorem inv_pop_tail {f' : List Var} {vs vs'' : VStack} {σ : Store} {fs : Frames} (ht : vs''.tail = (f' :: vs).tail)
    (h : Inv vs'' σ fs) : Inv vs σ fs.tail := by
  cases vs'' with
  | nil =>
    simp only [List.tail_nil, List.tail_cons] at ht
    subst ht
    have hs := h.shape
    cases hs
    exact h
  | cons f t =>
    simp only [List.tail_cons] at ht
    subst ht
    exact Inv.pop h

theorem shape_cons_inv {f : List Var} {vs : VStack} {fs : Frames} (h : Shape (f :: vs) fs) :
    ∃ st fs', fs = st :: fs' ∧ frameOK f st ∧ Shape vs fs' := by
  cases h with
  | cons hf hs => exact ⟨_, _, rfl, hf, hs⟩

theorem frameOK_single (v : Var) (b : Int) : frameOK [v] [(v, b)] := by
  intro w
  by_cases h : v = w
  · subst h; simp [Store.get]
  · have : ¬ w = v := fun e => h e.symm
    simp [Store.get, h, this]

/-- the state at the loop test of `for (auto v = …; …)`: the frame of the for statement holds `v`, Python has just bound it -/
theorem inv_for {vs : VStack} {σ : Store} {fs0 : Frames} {st : Store} {v : Var} {cur : Int} (hi : Inv vs σ fs0) (hfr : frameOK [v] st)
    (hcur : st.get v = some cur) (hvis : visible vs v = false) : Inv ([v] :: vs) (σ.put v cur) (st :: fs0) := by
  refine ⟨.cons hfr hi.shape, ⟨fun w hw => ?_, hi.disj⟩, fun w x hg => ?_⟩
  · have : w = v := by simpa using hw
    subst this; exact hvis
  · simp only [Frames.get] at hg
    cases hw : st.get w with
    | some y =>
      rw [hw] at hg
      have hc : [v].contains w = true := by rw [hfr w, hw]; rfl
      have : w = v := by simpa using hc
      subst this
      rw [hcur] at hw; cases hw; cases hg
      exact Store.get_put_same σ w _
    | none =>
      rw [hw] at hg
      have hne : w ≠ v := fun e => by subst e; rw [hcur] at hw; cases hw
      rw [Store.get_put_ne σ v w cur hne]
      exact hi.agree w x hg

/-- executing a nested block `{ … }`: push, run, pop -/
theorem block_step (lits : Lits) {fuel : Nat} {vs : VStack} {σ : Store} {fs : Frames} {b : Block} {out : Outcome Store}
    (ih : ∀ vs σ fs blk out, scopeOK lits vs blk = true → Inv vs σ fs → pyExec lits fuel σ blk = .ok out →
      ∃ out', cExec lits fuel fs (annotV vs blk) = .ok out' ∧ RelOut (afterB vs blk) out out')
    (hok : scopeOK lits ([] :: vs) b = true) (hi : Inv vs σ fs) (hp : pyExec lits fuel σ b = .ok out) :
    ∃ out', popOut (cExec lits fuel ([] :: fs) (annotV ([] :: vs) b)) = .ok out' ∧ RelOutX vs out out' := by
  obtain ⟨o', hc, hr⟩ := ih ([] :: vs) σ ([] :: fs) b out hok hi.push hp
  obtain ⟨f', hf'⟩ := afterB_tail b [] vs
  rw [hf'] at hr
  cases out with
  | normal σ' =>
    cases o' with
    | normal fs' => exact ⟨.normal fs'.tail, by simp [hc, popOut], Inv.pop hr⟩
    | _ => cases hr
  | returned a =>
    cases o' with
    | returned b => exact ⟨.returned b, by simp [hc, popOut], hr⟩
    | _ => cases hr
  | broke σ' =>
    cases o' with
    | broke fs' =>
      obtain ⟨vs'', ht, hinv⟩ := hr
      exact ⟨.broke fs'.tail, by simp [hc, popOut], inv_pop_tail ht hinv⟩
    | _ => cases hr
  | continued σ' =>
    cases o' with
    | continued fs' =>
      obtain ⟨vs'', ht, hinv⟩ := hr
      exact ⟨.continued fs'.tail, by simp [hc, popOut], inv_pop_tail ht hinv⟩
    | _ => cases hr

theorem sim (lits : Lits) : ∀ fuel,
    (∀ vs σ fs blk out, scopeOK lits vs blk = true → Inv vs σ fs → pyExec lits fuel σ blk = .ok out →
      ∃ out', cExec lits fuel fs (annotV vs blk) = .ok out' ∧ RelOut (afterB vs blk) out out') ∧
    (∀ vs σ fs s rest out, scopeOK lits vs (.cons s rest) = true → Inv vs σ fs → pyStmt lits fuel σ s = .ok out →
      ∃ a r out', annotV vs (.cons s rest) = .cons a r ∧ r = annotV (afterS vs s) rest ∧ cStmt lits fuel fs a = .ok out' ∧ RelOut (afterS vs s) out out') ∧
    (∀ vs σ fs arms els out, armsOK lits vs arms = true → scopeOK lits ([] :: vs) els = true → Inv vs σ fs →
      pyArms lits fuel σ arms els = .ok out →
      ∃ out', cArms lits fuel fs (annotVArms vs arms) (annotV ([] :: vs) els) = .ok out' ∧ RelOut vs out out') ∧
    (∀ vs σ st fs0 v name cur si ti s0 t0 body out,
      Inv vs σ fs0 → frameOK [v] st → st.get v = some cur → visible vs v = false →
      lits v = none → isRegrouped s0 BOp.lt.tok = false → exprOK lits ([v] :: vs) (condNode v name s0) = true → inI32 cur = true →
      exprOK lits vs s0 = true → exprOK lits vs t0 = true →
      pyExpr' lits σ s0 = .ok (.int si) → pyExpr' lits σ t0 = .ok (.int ti) →
      ((loopFixed lits v s0 t0).all fun x => !(writes body).contains x) = true →
      scopeOK lits ([] :: [v] :: vs) body = true →
      pyFor lits fuel σ v cur si ti body = .ok out →
      ∃ out', popOut (cFor lits fuel (st :: fs0) v name s0 t0 (annotV ([] :: [v] :: vs) body)) = .ok out' ∧ RelOut vs out out') := by
  intro fuel
  induction fuel with
  | zero =>
    refine ⟨?_, ?_, ?_, ?_⟩
    · intro vs σ fs blk out _ _ h; simp [pyExec] at h
    · intro vs σ fs s rest out _ _ h; simp [pyStmt] at h
    · intro vs σ fs arms els out _ _ _ h; simp [pyArms] at h
    · intro vs σ st fs0 v name cur si ti s0 t0 body out _ _ _ _ _ _ _ _ _ _ _ _ _ _ h; simp [pyFor] at h
  | succ fuel ih =>
    obtain ⟨ihB, ihS, ihA, ihF⟩ := ih
    refine ⟨?_, ?_, ?_, ?_⟩
    · -- blocks
      intro vs σ fs blk out hok hi hp
      cases blk with
      | nil =>
        simp only [pyExec] at hp; cases hp
        exact ⟨.normal fs, by simp [annotV, cExec], hi⟩
      | cons s rest =>
        simp only [pyExec] at hp
        cases hs : pyStmt lits fuel σ s with
        | error er => rw [hs] at hp; cases hp
        | ok o1 =>
          rw [hs] at hp
          obtain ⟨a, r, o1', hann, hr, hcs, hrel⟩ := ihS vs σ fs s rest o1 hok hi hs
          have hokr : scopeOK lits (afterS vs s) rest = true := by
            cases s <;> simp only [scopeOK, Bool.and_eq_true] at hok <;> simp only [afterS] <;> first | exact hok.2 | exact hok
          cases o1 with
          | returned x =>
            cases hp
            cases o1' with
            | returned y => exact ⟨.returned y, by simp [hann, cExec, hcs], hrel⟩
            | _ => cases hrel
          | normal σ1 =>
            simp only at hp
            cases o1' with
            | normal fs1 =>
              obtain ⟨o2, hc2, hr2⟩ := ihB (afterS vs s) σ1 fs1 rest out hokr hrel hp
              exact ⟨o2, by simp [hann, cExec, hcs, hr, hc2], by simpa [afterB] using hr2⟩
            | _ => cases hrel
          | broke σ1 =>
            cases hp
            cases o1' with
            | broke fs1 =>
              obtain ⟨vs'', ht, hinv⟩ := hrel
              exact ⟨.broke fs1, by simp [hann, cExec, hcs], ⟨vs'', by simp only [afterB]; rw [afterB_tl]; exact ht, hinv⟩⟩
            | _ => cases hrel
          | continued σ1 =>
            cases hp
            cases o1' with
            | continued fs1 =>
              obtain ⟨vs'', ht, hinv⟩ := hrel
              exact ⟨.continued fs1, by simp [hann, cExec, hcs], ⟨vs'', by simp only [afterB]; rw [afterB_tl]; exact ht, hinv⟩⟩
            | _ => cases hrel
    · -- statements
      intro vs σ fs s rest out hok hi hp
      cases s with
      | assign v name e =>
        simp only [scopeOK, Bool.and_eq_true] at hok
        simp only [pyStmt] at hp
        cases he : pyExpr' lits σ e with
        | error er => rw [he] at hp; cases hp
        | ok val =>
          rw [he] at hp
          cases val with
          | bool b => cases hp
          | int i =>
            cases hp
            have hce := expr_agree lits hi hok.1 he
            cases hvis : visible vs v with
            | true =>
              obtain ⟨fs', hset, hinv⟩ := hi.set hvis i
              exact ⟨.set v name e, annotV vs rest, .normal fs', by simp [annotV, hvis], by simp [afterS, hvis],
                by simp [cStmt, hce, Val.repr, hset], by simpa [afterS, hvis, RelOut] using hinv⟩
            | false =>
              exact ⟨.decl v name e, annotV (declTop vs v) rest, .normal (fs.decl v i), by simp [annotV, hvis], by simp [afterS, hvis],
                by simp [cStmt, hce, Val.repr], by simpa [afterS, hvis, RelOut] using hi.decl hvis i⟩
      | ret e =>
        simp only [scopeOK, Bool.and_eq_true] at hok
        simp only [pyStmt] at hp
        cases he : pyExpr' lits σ e with
        | error er => rw [he] at hp; cases hp
        | ok val =>
          rw [he] at hp; cases hp
          have hce := expr_agree lits hi hok.1 he
          exact ⟨.ret e, annotV vs rest, .returned val.repr, by simp [annotV], by simp [afterS], by simp [cStmt, hce], rfl⟩
      | aug v name op e =>
        simp only [scopeOK, Bool.and_eq_true] at hok
        obtain ⟨⟨⟨hoke, hvis⟩, haug⟩, _⟩ := hok
        simp only [pyStmt] at hp
        split at hp
        · rename_i x y hx hy
          split at hp
          · rename_i z hz
            cases hp
            have hce := expr_agree lits hi hoke hy
            have hsome : (fs.get v).isSome = true := by rw [← hi.shape.visible_iff v]; exact hvis
            obtain ⟨x', hx'⟩ := Option.isSome_iff_exists.mp hsome
            have hxx : x' = x := by
              have := hi.agree v x' hx'
              rw [hx] at this; cases this; rfl
            subst hxx
            have hcpp := pyBin_cpp hz (by intro e; subst e; simp [augOp, augOps] at haug) (by intro e; subst e; simp [augOp, augOps] at haug)
            obtain ⟨fs', hset, hinv⟩ := hi.set hvis z
            exact ⟨.aug v name op e, annotV vs rest, .normal fs', by simp [annotV], by simp [afterS],
              by simp [cStmt, hx', hce, Val.repr] at hcpp ⊢; simp [hcpp, hset], by simpa [afterS, RelOut] using hinv⟩
          · cases hp
        · cases hp
      | ifs arms he els =>
        simp only [scopeOK, Bool.and_eq_true] at hok
        simp only [pyStmt] at hp
        obtain ⟨o', hc, hr⟩ := ihA vs σ fs arms els out hok.1.1 hok.1.2 hi hp
        exact ⟨.ifs (annotVArms vs arms) he (annotV ([] :: vs) els), annotV vs rest, o', by simp [annotV], by simp [afterS], by simp [cStmt, hc],
          by simpa [afterS] using hr⟩
      | while_ c body =>
        simp only [scopeOK, Bool.and_eq_true] at hok
        simp only [pyStmt] at hp
        refine ⟨.while_ c (annotV ([] :: vs) body), annotV vs rest, ?_⟩
        cases hcv : pyExpr' lits σ c with
        | error er => rw [hcv] at hp; cases hp
        | ok val =>
          rw [hcv] at hp
          have hce := expr_agree lits hi hok.1.1 hcv
          cases val with
          | int i => cases hp
          | bool b =>
            cases b with
            | false =>
              cases hp
              exact ⟨.normal fs, by simp [annotV], by simp [afterS], by simp [cStmt, hce, Val.repr], by simpa [afterS, RelOut] using hi⟩
            | true =>
              simp only at hp
              cases hb : pyExec lits fuel σ body with
              | error er => rw [hb] at hp; cases hp
              | ok ob =>
                rw [hb] at hp
                obtain ⟨ob', hcb, hrb⟩ := block_step lits ihB hok.1.2 hi hb
                cases ob with
                | returned x =>
                  cases hp
                  cases ob' with
                  | returned y =>
                    exact ⟨.returned y, by simp [annotV], by simp [afterS], by simp [cStmt, hce, Val.repr, hcb], hrb⟩
                  | _ => cases hrb
                | broke σ1 =>
                  cases hp
                  cases ob' with
                  | broke fs1 =>
                    exact ⟨.normal fs1, by simp [annotV], by simp [afterS], by simp [cStmt, hce, Val.repr, hcb],
                      by simpa [afterS, RelOut, RelOutX] using hrb⟩
                  | _ => cases hrb
                | normal σ1 | continued σ1 =>
                  simp only at hp
                  cases ob' <;> try (exact False.elim hrb)
                  all_goals
                    rename_i fs1
                    have hokw : scopeOK lits vs (.cons (.while_ c body) rest) = true := by
                      simp only [scopeOK, Bool.and_eq_true]; exact hok
                    obtain ⟨a2, r2, o2, hann2, _, hc2, hr2⟩ := ihS vs σ1 fs1 (.while_ c body) rest out hokw hrb hp
                    have ha2 : a2 = .while_ c (annotV ([] :: vs) body) := by
                      simp only [annotV, ABlock.cons.injEq] at hann2; exact hann2.1.symm
                    subst ha2
                    exact ⟨o2, by simp [annotV], by simp [afterS], by simp [cStmt, hce, Val.repr, hcb, hc2], by simpa [afterS] using hr2⟩
      | forRange v name b0 s0 t0 body =>
        simp only [scopeOK, Bool.and_eq_true, Bool.not_eq_true'] at hok
        obtain ⟨⟨⟨⟨⟨⟨⟨hb0, hs0⟩, ht0⟩, hvis⟩, ⟨⟨hlit, hreg⟩, hcond⟩⟩, hfix⟩, hokb⟩, _⟩ := hok
        have hlit' : lits v = none := by simpa using hlit
        simp only [pyStmt] at hp
        cases hb : pyExpr' lits σ b0 with
        | error er => rw [hb] at hp; cases hp
        | ok vb =>
          cases hs : pyExpr' lits σ s0 with
          | error er => rw [hb, hs] at hp; cases vb <;> cases hp
          | ok vs0 =>
            cases ht : pyExpr' lits σ t0 with
            | error er => rw [hb, hs, ht] at hp; cases vb <;> cases vs0 <;> cases hp
            | ok vt =>
              rw [hb, hs, ht] at hp
              cases vb <;> cases vs0 <;> cases vt <;> try (cases hp)
              rename_i b s t
              simp only at hp
              split at hp
              · rename_i hcnd
                have hcb := expr_agree lits hi hb0 hb
                obtain ⟨o', hc, hr⟩ := ihF vs σ [(v, b)] fs v name b s t s0 t0 body out hi (frameOK_single v b) (by simp [Store.get]) hvis
                  hlit' hreg hcond hcnd.2 hs0 ht0 hs ht hfix hokb hp
                exact ⟨.forRange v name b0 s0 t0 (annotV ([] :: [v] :: vs) body), annotV vs rest, o', by simp [annotV], by simp [afterS],
                  by simp [cStmt, hcb, Val.repr, hc], by simpa [afterS] using hr⟩
              · cases hp
      | brk =>
        simp only [pyStmt] at hp; cases hp
        exact ⟨.brk, annotV vs rest, .broke fs, by simp [annotV], by simp [afterS], by simp [cStmt], ⟨vs, by simp [afterS], hi⟩⟩
      | cont =>
        simp only [pyStmt] at hp; cases hp
        exact ⟨.cont, annotV vs rest, .continued fs, by simp [annotV], by simp [afterS], by simp [cStmt], ⟨vs, by simp [afterS], hi⟩⟩
    · -- arms
      intro vs σ fs arms els out hoka hoke hi hp
      cases arms with
      | one c b =>
        simp only [armsOK, Bool.and_eq_true] at hoka
        simp only [pyArms] at hp
        cases hcv : pyExpr' lits σ c with
        | error er => rw [hcv] at hp; cases hp
        | ok val =>
          rw [hcv] at hp
          have hce := expr_agree lits hi hoka.1 hcv
          cases val with
          | int i => cases hp
          | bool bb =>
            cases bb with
            | true =>
              obtain ⟨o', hc, hr⟩ := block_step lits ihB hoka.2 hi hp
              exact ⟨o', by simp [annotVArms, cArms, hce, Val.repr, hc], hr.weaken⟩
            | false =>
              obtain ⟨o', hc, hr⟩ := block_step lits ihB hoke hi hp
              exact ⟨o', by simp [annotVArms, cArms, hce, Val.repr, hc], hr.weaken⟩
      | more c b rest =>
        simp only [armsOK, Bool.and_eq_true] at hoka
        simp only [pyArms] at hp
        cases hcv : pyExpr' lits σ c with
        | error er => rw [hcv] at hp; cases hp
        | ok val =>
          rw [hcv] at hp
          have hce := expr_agree lits hi hoka.1.1 hcv
          cases val with
          | int i => cases hp
          | bool bb =>
            cases bb with
            | true =>
              obtain ⟨o', hc, hr⟩ := block_step lits ihB hoka.1.2 hi hp
              exact ⟨o', by simp [annotVArms, cArms, hce, Val.repr, hc], hr.weaken⟩
            | false =>
              obtain ⟨o', hc, hr⟩ := ihA vs σ fs rest els out hoka.2 hoke hi hp
              exact ⟨o', by simp [annotVArms, cArms, hce, Val.repr, hc], hr⟩
    · -- for loops: from the loop test on
      intro vs σ st fs0 v name cur si ti s0 t0 body out hi hfr hcur hvis hlit hreg hcond hcur32 hs0 ht0 hps hpt hfix hokb hp
      simp only [pyFor] at hp
      have hi1 : Inv ([v] :: vs) (σ.put v cur) (st :: fs0) := inv_for hi hfr hcur hvis
      have hnr_s := exprOK_not_reads lits hs0 hvis
      have hnr_t := exprOK_not_reads lits ht0 hvis
      have hps1 : pyExpr' lits (σ.put v cur) s0 = .ok (.int si) := by
        rw [← hps]; apply pyExpr'_congr; intro x hx
        exact Store.get_put_ne σ v x cur (fun e => hnr_s (e ▸ hx))
      have hcs : cCond lits (st :: fs0) v name s0 = .ok (b2i (decide (cur < si))) := by
        rw [cCond_eq lits _ v name s0 hlit hreg]
        have := expr_agree lits hi1 hcond (pyCond lits (name := name) hlit (Store.get_put_same σ v cur) hcur32 hps1)
        simpa [Val.repr, b2i] using this
      have hgv : Frames.get (st :: fs0) v = some cur := by simp [Frames.get, hcur]
      by_cases hlt : cur < si
      · simp only [hlt, ↓reduceIte] at hp
        by_cases h32 : inI32 (cur + ti) = true
        · simp only [h32, ↓reduceIte] at hp
          cases hb : pyExec lits fuel (σ.put v cur) body with
          | error er => rw [hb] at hp; cases hp
          | ok ob =>
            rw [hb] at hp
            obtain ⟨ob', hcb, hrb⟩ := block_step lits ihB hokb hi1 hb
            cases ob with
            | returned x =>
              cases hp
              cases ob' with
              | returned y => exact ⟨.returned y, by simp only [cFor, hcs, hlt, decide_true, b2i, ↓reduceIte, hcb]; simp [popOut], hrb⟩
              | _ => cases hrb
            | broke σ1 =>
              cases hp
              cases ob' with
              | broke fs1 =>
                exact ⟨.normal fs1.tail, by simp only [cFor, hcs, hlt, decide_true, b2i, ↓reduceIte, hcb]; simp [popOut], Inv.pop hrb⟩
              | _ => cases hrb
            | normal σ1 | continued σ1 =>
              simp only at hp
              cases ob' <;> try (exact False.elim hrb)
              all_goals
                rename_i fs1
                have hinv1 : Inv ([v] :: vs) σ1 fs1 := hrb
                obtain ⟨st1, fs0', hfs1, hfr1, _⟩ := shape_cons_inv hinv1.shape
                subst hfs1
                have hpres : ∀ x, x ∉ writes body → σ1.get x = (σ.put v cur).get x := (py_preserve lits fuel).1 _ body _ σ1 hb rfl
                have hfixl : ∀ x ∈ loopFixed lits v s0 t0, x ∉ writes body := by
                  simp only [List.all_eq_true] at hfix
                  intro x hx hmem
                  have := hfix x hx
                  simp [hmem] at this
                have hv1 : σ1.get v = some cur := by
                  rw [hpres v (hfixl v (by simp [loopFixed]))]; exact Store.get_put_same σ v cur
                have hst1 : st1.get v = some cur := by
                  have h1 : (st1.get v).isSome = true := by rw [← hfr1 v]; simp
                  cases hg : st1.get v with
                  | none => rw [hg] at h1; cases h1
                  | some x =>
                    have := hinv1.agree v x (by simp [Frames.get, hg])
                    rw [hv1] at this; cases this; rfl
                have hagr : ∀ x, x ≠ v → x ∉ writes body → σ1.get x = σ.get x := fun x hxv hxw => by
                  rw [hpres x hxw]; exact Store.get_put_ne σ v x cur hxv
                have hps' : pyExpr' lits σ1 s0 = .ok (.int si) := by
                  rw [← hps]; apply pyExpr'_congr; intro x hx
                  exact hagr x (fun e => hnr_s (e ▸ hx)) (hfixl x (by simp [loopFixed, hx]))
                have hpt' : pyExpr' lits σ1 t0 = .ok (.int ti) := by
                  rw [← hpt]; apply pyExpr'_congr; intro x hx
                  exact hagr x (fun e => hnr_t (e ▸ hx)) (hfixl x (by simp [loopFixed, hx]))
                have hct : cExpr lits (st1 :: fs0') t0 = .ok ti := by
                  simpa [Val.repr] using expr_agree lits hinv1 (exprOK_mono lits [v] ht0) hpt'
                have hset : Frames.set (st1 :: fs0') v (cur + ti) = some (st1.put v (cur + ti) :: fs0') := by simp [Frames.set, hst1]
                have hgv1 : Frames.get (st1 :: fs0') v = some cur := by simp [Frames.get, hst1]
                have hnext : cForNext lits (st1 :: fs0') v t0 = .ok (st1.put v (cur + ti) :: fs0') := by
                  simp only [cForNext, hgv1, hct, h32, ↓reduceIte, hset]
                obtain ⟨o2, hc2, hr2⟩ := ihF vs σ1 (st1.put v (cur + ti)) fs0' v name (cur + ti) si ti s0 t0 body out (by simpa using Inv.pop hinv1)
                  (frameOK_put hfr1 (by simp [hst1]) _) (Store.get_put_same _ _ _) hvis hlit hreg hcond h32 hs0 ht0 hps' hpt' hfix hokb hp
                exact ⟨o2, by
                  simp only [cFor, hcs, hlt, decide_true, b2i, ↓reduceIte, hcb, hnext]
                  simpa using hc2, hr2⟩
        · simp only [h32] at hp; cases hp
      · simp only [hlt, ↓reduceIte] at hp
        cases hp
        exact ⟨.normal fs0, by simp [cFor, hcs, hlt, b2i, popOut], hi⟩

end Tranp.Emit

namespace Tranp.Emit
open Tranp

/-! ## the collector decides "declares" exactly by visibility -/

theorem isPrefix_refl : ∀ s : Scope, isPrefix s s = true
  | [] => rfl
  | a :: as => by simp [isPrefix, isPrefix_refl as]

theorem isPrefix_append : ∀ (s t : Scope), isPrefix s (s ++ t) = true
  | [], _ => rfl
  | a :: as, t => by simp [isPrefix, isPrefix_append as t]

theorem isPrefix_iff : ∀ (a s : Scope), isPrefix a s = true ↔ ∃ t, s = a ++ t
  | [], s => ⟨fun _ => ⟨s, rfl⟩, fun _ => rfl⟩
  | x :: as, [] => by simp [isPrefix]
  | x :: as, y :: ys => by
    simp only [isPrefix, Bool.and_eq_true, beq_iff_eq, isPrefix_iff as ys, List.cons_append, List.cons.injEq]
    constructor
    · rintro ⟨rfl, t, rfl⟩; exact ⟨t, rfl, rfl⟩
    · rintro ⟨t, rfl, rfl⟩; exact ⟨rfl, t, rfl⟩

/-- every collected scope below `s` was numbered before `k` -/
def Fresh (d : List (Scope × Var)) (s : Scope) (k : Nat) : Prop := ∀ x ∈ d, ∀ j t, x.1 = s ++ j :: t → j < k

def RelV (d : List (Scope × Var)) (s : Scope) (vs : VStack) : Prop := ∀ v, related d s v = visible vs v

theorem related_append (d e : List (Scope × Var)) (s : Scope) (v : Var) : related (d ++ e) s v = (related d s v || related e s v) := by
  simp [related, List.any_append]

theorem visible_declTop (vs : VStack) (v w : Var) : visible (declTop vs v) w = (w == v || visible vs w) := by
  cases vs with
  | nil => simp only [declTop, visible, List.contains_cons, List.contains_nil, Bool.or_false]
  | cons f rest => simp only [declTop, visible, List.contains_cons, Bool.or_assoc]

theorem isPrefix_snoc {a s : Scope} {k : Nat} (hne : a ≠ s ++ [k]) : isPrefix a (s ++ [k]) = isPrefix a s := by
  apply Bool.eq_iff_iff.mpr
  rw [isPrefix_iff, isPrefix_iff]
  constructor
  · rintro ⟨t, ht⟩
    rcases List.eq_nil_or_concat t with rfl | ⟨t', b, rfl⟩
    · exact absurd (by simpa using ht.symm) hne
    · rw [List.concat_eq_append, ← List.append_assoc] at ht
      have := List.append_inj_left' ht rfl
      exact ⟨t', this⟩
  · rintro ⟨t, rfl⟩
    exact ⟨t ++ [k], by simp⟩

/-- entering the block numbered `k` below `s`: the same names are related -/
theorem related_enter : ∀ {d : List (Scope × Var)} {s : Scope} {k : Nat}, Fresh d s k → ∀ v, related d (s ++ [k]) v = related d s v
  | [], _, _, _, _ => rfl
  | x :: d, s, k, hf, v => by
    have hx : x.1 ≠ s ++ [k] := fun e => Nat.lt_irrefl k (hf x List.mem_cons_self k [] e)
    have ih := related_enter (d := d) (s := s) (k := k) (fun y hy => hf y (List.mem_cons_of_mem _ hy)) v
    simp only [related, List.any_cons] at ih ⊢
    rw [isPrefix_snoc hx, ih]

theorem related_iff (d : List (Scope × Var)) (s : Scope) (v : Var) :
    related d s v = true ↔ ∃ x ∈ d, x.2 = v ∧ isPrefix x.1 s = true := by
  simp only [related, List.any_eq_true, Bool.and_eq_true, beq_iff_eq]

theorem not_isPrefix_ext (s : Scope) (j : Nat) (t : List Nat) : isPrefix (s ++ j :: t) s = false := by
  cases h : isPrefix (s ++ j :: t) s with
  | false => rfl
  | true =>
    obtain ⟨u, hu⟩ := (isPrefix_iff _ _).mp h
    have := congrArg List.length hu
    simp at this

/-- what the collection of a nested block (numbered `k` below `s`) leaves behind, seen from `s` -/
structure Ext (d d1 : List (Scope × Var)) (s : Scope) (k k1 : Nat) : Prop where
  mono : ∀ x ∈ d, x ∈ d1
  new : ∀ x ∈ d1, x ∈ d ∨ isPrefix (s ++ [k]) x.1 = true
  le : k + 1 ≤ k1

theorem Ext.fresh {d d1 : List (Scope × Var)} {s : Scope} {k k1 : Nat} (h : Ext d d1 s k k1) (hf : Fresh d s k) : Fresh d1 s k1 := by
  intro x hx j t hxs
  rcases h.new x hx with hold | hnew
  · have := hf x hold j t hxs; have := h.le; omega
  · obtain ⟨u, hu⟩ := (isPrefix_iff _ _).mp hnew
    rw [hxs, List.append_assoc] at hu
    have := List.append_cancel_left hu
    simp only [List.cons_append, List.nil_append, List.cons.injEq] at this
    have := h.le; omega

theorem Ext.relV {d d1 : List (Scope × Var)} {s : Scope} {k k1 : Nat} (h : Ext d d1 s k k1) {vs : VStack} (hr : RelV d s vs) : RelV d1 s vs := by
  intro v
  rw [← hr v]
  apply Bool.eq_iff_iff.mpr
  rw [related_iff, related_iff]
  constructor
  · rintro ⟨x, hx, hv, hp⟩
    rcases h.new x hx with hold | hnew
    · exact ⟨x, hold, hv, hp⟩
    · obtain ⟨u, hu⟩ := (isPrefix_iff _ _).mp hnew
      rw [hu, List.append_assoc] at hp
      simp only [List.cons_append, List.nil_append] at hp
      rw [not_isPrefix_ext] at hp; cases hp
  · rintro ⟨x, hx, hv, hp⟩; exact ⟨x, h.mono x hx, hv, hp⟩

/-- result of collecting a block at scope `s` -/
structure Coll (d : List (Scope × Var)) (k : Nat) (s : Scope) (d' : List (Scope × Var)) (k' : Nat) : Prop where
  mono : ∀ x ∈ d, x ∈ d'
  new : ∀ x ∈ d', x ∈ d ∨ isPrefix s x.1 = true
  le : k ≤ k'
  fresh : Fresh d' s k'

theorem Coll.toExt {d d' : List (Scope × Var)} {s : Scope} {k k' : Nat} (h : Coll d (k + 1) (s ++ [k]) d' k') : Ext d d' s k k' :=
  ⟨h.mono, h.new, h.le⟩

theorem isPrefix_of_snoc {s : Scope} {k : Nat} {x : Scope} (h : isPrefix (s ++ [k]) x = true) : isPrefix s x = true := by
  obtain ⟨u, hu⟩ := (isPrefix_iff _ _).mp h
  exact (isPrefix_iff _ _).mpr ⟨k :: u, by rw [hu]; simp⟩

theorem Ext.toColl {d d1 : List (Scope × Var)} {s : Scope} {k k1 : Nat} (h : Ext d d1 s k k1) (hf : Fresh d s k) : Coll d k s d1 k1 :=
  ⟨h.mono, fun x hx => (h.new x hx).imp id isPrefix_of_snoc, Nat.le_trans (Nat.le_succ k) h.le, h.fresh hf⟩

theorem Coll.trans {d d1 d2 : List (Scope × Var)} {s : Scope} {k k1 k2 : Nat} (h1 : Coll d k s d1 k1) (h2 : Coll d1 k1 s d2 k2) : Coll d k s d2 k2 :=
  ⟨fun x hx => h2.mono x (h1.mono x hx), fun x hx => (h2.new x hx).elim (h1.new x) Or.inr, Nat.le_trans h1.le h2.le, h2.fresh⟩

theorem relV_enter {d : List (Scope × Var)} {s : Scope} {k : Nat} {vs : VStack} (hr : RelV d s vs) (hf : Fresh d s k) : RelV d (s ++ [k]) ([] :: vs) := by
  intro v
  rw [related_enter hf v, hr v]
  simp [visible]

theorem fresh_enter {d : List (Scope × Var)} {s : Scope} {k : Nat} (hf : Fresh d s k) : Fresh d (s ++ [k]) (k + 1) := by
  intro x hx j t hxs
  rw [List.append_assoc] at hxs
  have := hf x hx k (j :: t) (by simpa using hxs)
  omega

mutual
/-- **`VarsCollector` = visibility**: started in sync, the one-pass collector marks as declarations exactly the assignments whose name is
    not visible at that point, and stays in sync -/
theorem annotD_eq : ∀ (b : Block) (d : List (Scope × Var)) (k : Nat) (s : Scope) (vs : VStack), RelV d s vs → Fresh d s k →
    (annotD d k s b).1 = annotV vs b ∧ Coll d k s (annotD d k s b).2.1 (annotD d k s b).2.2 ∧ RelV (annotD d k s b).2.1 s (afterB vs b)
  | .nil, d, k, s, vs, hr, hf => ⟨rfl, ⟨fun _ h => h, fun _ h => Or.inl h, Nat.le_refl _, hf⟩, hr⟩
  | .cons (.assign v name e) rest, d, k, s, vs, hr, hf => by
    cases hrel : related d s v with
    | true =>
      have hvis : visible vs v = true := by rw [← hr v]; exact hrel
      obtain ⟨h1, h2, h3⟩ := annotD_eq rest d k s vs hr hf
      simp only [annotD, hrel, ↓reduceIte, annotV, hvis, afterB, afterS]
      exact ⟨by rw [h1], h2, h3⟩
    | false =>
      have hvis : visible vs v = false := by rw [← hr v]; exact hrel
      have hr' : RelV (d ++ [(s, v)]) s (declTop vs v) := by
        intro w
        rw [related_append, hr w, visible_declTop]
        simp only [related, List.any_cons, List.any_nil, Bool.or_false, isPrefix_refl, Bool.and_true]
        rw [Bool.or_comm]
        congr 1
        exact Bool.eq_iff_iff.mpr ⟨fun h => by simpa using (beq_iff_eq.mp h).symm, fun h => by simpa using (beq_iff_eq.mp h).symm⟩
      have hf' : Fresh (d ++ [(s, v)]) s k := by
        intro x hx j t hxs
        rcases List.mem_append.mp hx with h | h
        · exact hf x h j t hxs
        · simp only [List.mem_singleton] at h; subst h
          have := congrArg List.length hxs
          simp at this
      obtain ⟨h1, h2, h3⟩ := annotD_eq rest (d ++ [(s, v)]) k s (declTop vs v) hr' hf'
      simp only [annotD, hrel, Bool.false_eq_true, ↓reduceIte, annotV, hvis, afterB, afterS]
      refine ⟨by rw [h1], ⟨fun x hx => h2.mono x (List.mem_append_left _ hx), fun x hx => ?_, h2.le, h2.fresh⟩, h3⟩
      rcases h2.new x hx with h | h
      · rcases List.mem_append.mp h with h' | h'
        · exact Or.inl h'
        · simp only [List.mem_singleton] at h'; subst h'; exact Or.inr (isPrefix_refl s)
      · exact Or.inr h
  | .cons (.ret e) rest, d, k, s, vs, hr, hf => by
    obtain ⟨h1, h2, h3⟩ := annotD_eq rest d k s vs hr hf
    simp only [annotD, annotV, afterB, afterS]
    exact ⟨by rw [h1], h2, h3⟩
  | .cons (.aug v name op e) rest, d, k, s, vs, hr, hf => by
    obtain ⟨h1, h2, h3⟩ := annotD_eq rest d k s vs hr hf
    simp only [annotD, annotV, afterB, afterS]
    exact ⟨by rw [h1], h2, h3⟩
  | .cons .brk rest, d, k, s, vs, hr, hf => by
    obtain ⟨h1, h2, h3⟩ := annotD_eq rest d k s vs hr hf
    simp only [annotD, annotV, afterB, afterS]
    exact ⟨by rw [h1], h2, h3⟩
  | .cons .cont rest, d, k, s, vs, hr, hf => by
    obtain ⟨h1, h2, h3⟩ := annotD_eq rest d k s vs hr hf
    simp only [annotD, annotV, afterB, afterS]
    exact ⟨by rw [h1], h2, h3⟩
  | .cons (.ifs arms he els) rest, d, k, s, vs, hr, hf => by
    obtain ⟨a1, a2, a3⟩ := annotDArms_eq arms d k s vs hr hf
    have hf1 := a2.fresh
    obtain ⟨e1, e2, _⟩ := annotD_eq els _ ((annotDArms d k s arms).2.2 + 1) (s ++ [(annotDArms d k s arms).2.2]) ([] :: vs)
      (relV_enter a3 hf1) (fresh_enter hf1)
    have hext := e2.toExt
    obtain ⟨r1, r2, r3⟩ := annotD_eq rest _ (annotD (annotDArms d k s arms).2.1 ((annotDArms d k s arms).2.2 + 1) (s ++ [(annotDArms d k s arms).2.2]) els).2.2 s vs
      (hext.relV a3) (hext.fresh hf1)
    simp only [annotD, annotV, afterB, afterS]
    exact ⟨by rw [a1, e1, r1], a2.trans ((hext.toColl hf1).trans r2), r3⟩
  | .cons (.while_ c body) rest, d, k, s, vs, hr, hf => by
    obtain ⟨b1, b2, _⟩ := annotD_eq body d (k + 1) (s ++ [k]) ([] :: vs) (relV_enter hr hf) (fresh_enter hf)
    have hext := b2.toExt
    obtain ⟨r1, r2, r3⟩ := annotD_eq rest _ (annotD d (k + 1) (s ++ [k]) body).2.2 s vs (hext.relV hr) (hext.fresh hf)
    simp only [annotD, annotV, afterB, afterS]
    exact ⟨by rw [b1, r1], (hext.toColl hf).trans r2, r3⟩
  | .cons (.forRange v name b0 s0 t0 body) rest, d, k, s, vs, hr, hf => by
    have hr' : RelV (d ++ [(s ++ [k], v)]) (s ++ [k]) ([] :: [v] :: vs) := by
      intro w
      rw [related_append, relV_enter hr hf w]
      simp only [related, List.any_cons, List.any_nil, Bool.or_false, isPrefix_refl, Bool.and_true, visible, List.contains_nil, Bool.false_or,
        List.contains_cons]
      rw [Bool.or_comm]
      congr 1
      exact Bool.eq_iff_iff.mpr ⟨fun h => by simpa using (beq_iff_eq.mp h).symm, fun h => by simpa using (beq_iff_eq.mp h).symm⟩
    have hf' : Fresh (d ++ [(s ++ [k], v)]) (s ++ [k]) (k + 1) := by
      intro x hx j t hxs
      rcases List.mem_append.mp hx with h | h
      · exact fresh_enter hf x h j t hxs
      · simp only [List.mem_singleton] at h; subst h
        have := congrArg List.length hxs
        simp at this
    obtain ⟨b1, b2, _⟩ := annotD_eq body (d ++ [(s ++ [k], v)]) (k + 1) (s ++ [k]) ([] :: [v] :: vs) hr' hf'
    have hext : Ext d (annotD (d ++ [(s ++ [k], v)]) (k + 1) (s ++ [k]) body).2.1 s k (annotD (d ++ [(s ++ [k], v)]) (k + 1) (s ++ [k]) body).2.2 :=
      ⟨fun x hx => b2.mono x (List.mem_append_left _ hx), fun x hx => by
        rcases b2.new x hx with h | h
        · rcases List.mem_append.mp h with h' | h'
          · exact Or.inl h'
          · simp only [List.mem_singleton] at h'; subst h'; exact Or.inr (isPrefix_refl _)
        · exact Or.inr h, b2.le⟩
    obtain ⟨r1, r2, r3⟩ := annotD_eq rest _ (annotD (d ++ [(s ++ [k], v)]) (k + 1) (s ++ [k]) body).2.2 s vs (hext.relV hr) (hext.fresh hf)
    simp only [annotD, annotV, afterB, afterS]
    exact ⟨by rw [b1, r1], (hext.toColl hf).trans r2, r3⟩
theorem annotDArms_eq : ∀ (arms : Arms) (d : List (Scope × Var)) (k : Nat) (s : Scope) (vs : VStack), RelV d s vs → Fresh d s k →
    (annotDArms d k s arms).1 = annotVArms vs arms ∧ Coll d k s (annotDArms d k s arms).2.1 (annotDArms d k s arms).2.2 ∧
      RelV (annotDArms d k s arms).2.1 s vs
  | .one c b, d, k, s, vs, hr, hf => by
    obtain ⟨b1, b2, _⟩ := annotD_eq b d (k + 1) (s ++ [k]) ([] :: vs) (relV_enter hr hf) (fresh_enter hf)
    have hext := b2.toExt
    simp only [annotDArms, annotVArms]
    exact ⟨by rw [b1], hext.toColl hf, hext.relV hr⟩
  | .more c b rest, d, k, s, vs, hr, hf => by
    obtain ⟨b1, b2, _⟩ := annotD_eq b d (k + 1) (s ++ [k]) ([] :: vs) (relV_enter hr hf) (fresh_enter hf)
    have hext := b2.toExt
    obtain ⟨r1, r2, r3⟩ := annotDArms_eq rest _ (annotD d (k + 1) (s ++ [k]) b).2.2 s vs (hext.relV hr) (hext.fresh hf)
    simp only [annotDArms, annotVArms]
    exact ⟨by rw [b1, r1], (hext.toColl hf).trans r2, r3⟩
end

/-- for a function body: the emitter's annotation is the scoped one -/
theorem annotate_eq (params : List Var) (b : Block) : annotate params b = annotV [params] b := by
  have hr : RelV (params.map fun p => (([] : Scope), p)) [] [params] := by
    intro v
    simp only [related, visible, Bool.or_false, List.any_map, Function.comp_def, isPrefix, Bool.and_true]
    induction params with
    | nil => rfl
    | cons p ps ih => simp only [List.any_cons, ih, List.contains_cons]; rw [Bool.beq_comm]
  have hf : Fresh (params.map fun p => (([] : Scope), p)) [] 0 := by
    intro x hx j t hxs
    simp only [List.mem_map] at hx
    obtain ⟨p, _, rfl⟩ := hx
    simp at hxs
  exact (annotD_eq b _ 0 [] [params] hr hf).1

end Tranp.Emit
